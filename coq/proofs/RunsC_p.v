(* C05 for charges and autocharges: the items whose state is their container's.
   Worlds are "flat": no charge or autocharge type defines an autocharge of its
   own and only directly held items carry a charge (the hypothesis [flat_ok] is
   evaluated by the extracted driver on every generated history). In every such
   world reached by public calls without an internal error, a charge or
   autocharge runs exactly the effects the decision table yields for the state
   of the item that holds it, its own run modes and its type; unloaded it runs
   nothing. Together with proofs/Runs_p.v (directly held items) this covers
   every item of the model. *)
From Coq Require Import ZArith QArith List Bool Lia.
From EosV Require Import lib.AList gen.T_eos model.World model.Status model.Calc model.Engine model.Ops
     model.Wf proofs.AList_p proofs.Rack_p proofs.Frame_p proofs.Containers_p proofs.Status_p proofs.Owner_p
     proofs.Cinv_p proofs.Runs_p.
Import ListNotations.

Opaque add_item remove_item load unload.

(* ------------------------------------------------------------------ *)
(* the table for an item whose state is [st]                            *)

Definition expected_st (w : world) (st : Z) (it : item) : option (list Z) :=
  match resolve_effects st it (item_effects w it)
                        (match item_type w it with Some t => t_default t | None => None end) None with
  | Some statuses => Some (running_of statuses)
  | None => None
  end.

Definition goodA (w : world) (j : nat) (it : item) : Prop :=
  (i_loaded it = None -> i_running it = []) /\
  (forall s, i_loaded it = Some s -> get_src w s <> None) /\
  (i_loaded it <> None -> forall st r, item_state w j = Some st -> expected_st w st it = Some r ->
                          set_equiv (i_running it) r).

(* every charge / autocharge outside X *)
Definition RA (X : list nat) (w : world) : Prop :=
  forall j it, ~ In j X -> get_item w j = Some it -> ~ direct it -> goodA w j it.

(* what goodA reads of the item and of the world *)
Lemma expected_st_ext w w' st it it' :
  w_srcs w' = w_srcs w -> ek it' = ek it -> expected_st w' st it' = expected_st w st it.
Proof.
  intros Hs Hk. unfold ek in Hk.
  assert (Etid : i_tid it' = i_tid it) by congruence.
  assert (Eld : i_loaded it' = i_loaded it) by congruence.
  assert (Emo : i_modes it' = i_modes it) by congruence.
  assert (Ety : item_type w' it' = item_type w it).
  { unfold item_type, get_src. now rewrite Eld, Etid, Hs. }
  assert (Eun : item_universe w' it' = item_universe w it).
  { unfold item_universe, get_src. now rewrite Eld, Hs. }
  assert (Eef : item_effects w' it' = item_effects w it).
  { unfold item_effects. now rewrite Ety, Eun. }
  unfold expected_st. rewrite Ety, Eef.
  assert (Er : forall effs d, resolve_effects st it' effs d None = resolve_effects st it effs d None).
  { intros effs d. unfold resolve_effects, effect_mode. now rewrite Emo. }
  now rewrite Er.
Qed.

Lemma goodA_ext w w' j it it' :
  w_srcs w' = w_srcs w -> gk it' = gk it -> item_state w' j = item_state w j ->
  goodA w j it -> goodA w' j it'.
Proof.
  intros Hs Hk Hst (G1 & G2 & G3). unfold gk in Hk.
  assert (Hek : ek it' = ek it) by congruence.
  assert (Hr : i_running it' = i_running it) by congruence.
  assert (Eld : i_loaded it' = i_loaded it) by (unfold ek in Hek; congruence).
  split; [|split].
  - rewrite Eld, Hr. exact G1.
  - intros s. rewrite Eld. unfold get_src. rewrite Hs. apply G2.
  - rewrite Eld, Hr, Hst. intros Hl st r H1 H2. apply (G3 Hl st r H1).
    now rewrite <- (expected_st_ext w w' st it it' Hs Hek).
Qed.

(* ------------------------------------------------------------------ *)
(* item_state under updates                                             *)

Lemma item_state_n_put n w i old new :
  get_item w i = Some old -> i_cls new = i_cls old -> i_cont new = i_cont old -> i_state new = i_state old ->
  forall j, item_state_n n (put_item w i new) j = item_state_n n w j.
Proof.
  intros Hi Hc Hp Hs. induction n as [|n IH]; intros j; cbn [item_state_n]; [reflexivity|].
  destruct (Nat.eq_dec j i) as [->|N].
  - rewrite get_put_item_same', Hi, Hc, Hp, Hs.
    destruct (cr_state (class_row_of (i_cls old))); try reflexivity.
    destruct (i_cont old) as [[| | |p|p]|]; try reflexivity; apply IH.
  - rewrite get_put_item_other by exact N.
    destruct (get_item w j) as [it|]; [|reflexivity].
    destruct (cr_state (class_row_of (i_cls it))); try reflexivity.
    destruct (i_cont it) as [[| | |p|p]|]; try reflexivity; apply IH.
Qed.
Lemma item_state_put w i old new :
  get_item w i = Some old -> i_cls new = i_cls old -> i_cont new = i_cont old -> i_state new = i_state old ->
  forall j, item_state (put_item w i new) j = item_state w j.
Proof. intros. unfold item_state. now apply (item_state_n_put 4 w i old new). Qed.

Lemma item_state_fail w e j : item_state (fail w e) j = item_state w j.
Proof.
  unfold item_state. generalize 4%nat. intros n. revert j.
  induction n as [|n IH]; intros j; cbn [item_state_n]; [reflexivity|].
  rewrite get_fail. destruct (get_item w j) as [it|]; [|reflexivity].
  destruct (cr_state (class_row_of (i_cls it))); try reflexivity.
  destruct (i_cont it) as [[| | |p|p]|]; try reflexivity; apply IH.
Qed.

(* the state of a charge / autocharge held by a directly held item *)
Lemma item_state_child w c cit m mit :
  get_item w c = Some cit -> ~ direct cit -> (i_cont cit = Some (PCharge m) \/ i_cont cit = Some (PAuto m)) ->
  get_item w m = Some mit -> direct mit -> item_state w c = Some (i_state mit).
Proof.
  intros Hc Hd Hp Hm Dm. unfold item_state. cbn [item_state_n]. rewrite Hc.
  assert (E : cr_state (class_row_of (i_cls cit)) = StContainer).
  { unfold direct in Hd. destruct (cr_state (class_row_of (i_cls cit))); try reflexivity; exfalso; apply Hd; discriminate. }
  rewrite E. destruct Hp as [-> | ->]; rewrite Hm; unfold direct in Dm;
    destruct (cr_state (class_row_of (i_cls mit))); try reflexivity; congruence.
Qed.

(* worlds that agree on class, container reference and own state of every item agree on item_state *)
Definition skv (w : world) (j : nat) := option_map (fun it => (i_cls it, i_cont it, i_state it)) (get_item w j).
Definition SKE (w w' : world) : Prop := forall j, skv w' j = skv w j.
Lemma SKE_refl w : SKE w w. Proof. intros j; reflexivity. Qed.
Lemma SKE_trans a b c : SKE a b -> SKE b c -> SKE a c.
Proof. intros H1 H2 j. now rewrite H2, H1. Qed.
Lemma SKE_fail w e : SKE w (fail w e).
Proof. intros j. unfold skv. now rewrite get_fail. Qed.
Lemma SKE_put w i old new :
  get_item w i = Some old -> i_cls new = i_cls old -> i_cont new = i_cont old -> i_state new = i_state old ->
  SKE w (put_item w i new).
Proof.
  intros Hi Hc Hp Hs j. unfold skv. destruct (Nat.eq_dec j i) as [->|N].
  - rewrite get_put_item_same', Hi. cbn. now rewrite Hc, Hp, Hs.
  - now rewrite get_put_item_other.
Qed.
Lemma SKE_upd w i g :
  (forall it, i_cls (g it) = i_cls it /\ i_cont (g it) = i_cont it /\ i_state (g it) = i_state it) -> SKE w (upd_item w i g).
Proof.
  intros H. unfold upd_item. destruct (get_item w i) as [it|] eqn:E; [|apply SKE_fail].
  destruct (H it) as (H1 & H2 & H3). eapply SKE_put; eauto.
Qed.
Lemma SKE_item_state w w' : SKE w w' -> forall j, item_state w' j = item_state w j.
Proof.
  intros H. unfold item_state. generalize 4%nat. induction n as [|n IH]; intros j; cbn [item_state_n]; [reflexivity|].
  specialize (H j) as Hj. unfold skv in Hj.
  destruct (get_item w' j) as [a|], (get_item w j) as [b|]; cbn in Hj; try congruence.
  injection Hj as H1 H2 H3. rewrite H1, H2, H3.
  destruct (cr_state (class_row_of (i_cls b))); try reflexivity.
  destruct (i_cont b) as [[| | |p|p]|]; try reflexivity; apply IH.
Qed.
Lemma SKE_item_fit w w' : SKE w w' -> forall j, item_fit w' j = item_fit w j.
Proof.
  intros H. unfold item_fit. generalize 4%nat. induction n as [|n IH]; intros j; cbn [item_fit_n]; [reflexivity|].
  specialize (H j) as Hj. unfold skv in Hj.
  destruct (get_item w' j) as [a|], (get_item w j) as [b|]; cbn in Hj; try congruence.
  injection Hj as H1 H2 H3. rewrite H2.
  destruct (i_cont b) as [[| | |p|p]|]; try reflexivity; apply IH.
Qed.
Lemma SKE_run_only w w' i : run_only w w' i -> SKE w w'.
Proof.
  intros ((_ & G) & R & Nn) j. unfold skv. destruct (Nat.eq_dec j i) as [->|N]; [|now rewrite G].
  destruct (get_item w i) as [it|] eqn:E; [|now rewrite (Nn eq_refl)].
  destruct (R it eq_refl) as (r & ->). reflexivity.
Qed.

(* ------------------------------------------------------------------ *)
(* effects_update establishes the table for its item, whatever holds it *)

Lemma eu_goodA w i it w' m :
  get_item w i = Some it -> effects_update w i = (w', m) -> w_err w' = None ->
  (forall s, i_loaded it = Some s -> get_src w s <> None) ->
  forall it', get_item w' i = Some it' -> goodA w' i it'.
Proof.
  intros Hi E He Hsrc it' Hi'.
  pose proof (eu_run_only w i) as RO. rewrite E in RO. cbn [fst] in RO.
  pose proof (SKE_item_state _ _ (SKE_run_only _ _ _ RO)) as Hst.
  destruct RO as (U & R & _).
  destruct (R it Hi) as (r & Hr). rewrite Hr in Hi'. injection Hi' as <-.
  split; [|split].
  - intros Hl. change (i_loaded it = None) in Hl. cbn [i_running it_set_running].
    destruct (item_state w i) as [st|] eqn:Est.
    + destruct (resolve_effects st it (item_effects w it)
                  (match item_type w it with Some t => t_default t | None => None end) None) as [statuses|] eqn:Hres.
      * destruct (effects_update_sets_table w i it st statuses w' m Hi Est Hres E He) as (it2 & H2 & Heq).
        rewrite Hr in H2. injection H2 as <-. cbn [i_running it_set_running] in Heq.
        assert (E0 : statuses = []).
        { unfold item_effects, item_type, item_universe in Hres. rewrite Hl in Hres. cbn in Hres. congruence. }
        subst statuses. now apply set_equiv_nil.
      * exfalso. unfold effects_update in E. rewrite Hi, Est, Hres in E. injection E as <- _.
        exact (err_fail_none _ _ He).
    + exfalso. unfold effects_update in E. rewrite Hi, Est in E. injection E as <- _. exact (err_fail_none _ _ He).
  - intros s Hl. unfold get_src. destruct U as (Us & _). rewrite Us. now apply Hsrc.
  - intros Hl st r0 Hst0 Hr0. rewrite Hst in Hst0.
    change (i_loaded it <> None) in Hl. cbn [i_running it_set_running].
    assert (Ex : expected_st w' st (it_set_running it r) = expected_st w st it)
      by (apply expected_st_ext; [apply U|reflexivity]).
    rewrite Ex in Hr0. unfold expected_st in Hr0.
    destruct (resolve_effects st it (item_effects w it)
                (match item_type w it with Some t => t_default t | None => None end) None) as [statuses|] eqn:Hres;
      [|discriminate].
    injection Hr0 as <-.
    destruct (effects_update_sets_table w i it st statuses w' m Hi Hst0 Hres E He) as (it2 & H2 & Heq).
    rewrite Hr in H2. injection H2 as <-. exact Heq.
Qed.

(* ------------------------------------------------------------------ *)
(* flat worlds                                                          *)

(* a type that defines no autocharge: no effect of it names an autocharge attribute the type has *)
Definition no_auto_type (u : universe) (t : itype) : Prop :=
  forall e ef aa, In e (t_effects t) -> get_effect u e = Some ef -> e_autocharge_attr ef = Some aa ->
                  al_get zeqb (t_attrs t) aa = None.
Definition NAtid (w : world) (tid : Z) : Prop :=
  forall s u t, get_src w s = Some u -> get_type u tid = Some t -> no_auto_type u t.

Record KK (w : world) : Prop := mkKK {
  kk_ra : RA [] w;
  (* charges and autocharges hold nothing themselves, and their types define no autocharges *)
  kk_flat : forall c cit, get_item w c = Some cit -> ~ direct cit -> i_charge cit = None /\ i_autos cit = [];
  kk_na : forall c cit, get_item w c = Some cit -> ~ direct cit -> NAtid w (i_tid cit);
  (* an item that names an item container is listed by it *)
  kk_pc : forall c cit m, get_item w c = Some cit ->
            (i_cont cit = Some (PCharge m) -> exists mit, get_item w m = Some mit /\ i_charge mit = Some c) /\
            (i_cont cit = Some (PAuto m) -> exists mit, get_item w m = Some mit /\ In c (map snd (i_autos mit)));
  (* an unloaded item has no autocharges *)
  kk_au : forall i it, get_item w i = Some it -> i_loaded it = None -> i_autos it = [];
  (* a loaded charge / autocharge is on a fit *)
  kk_nl : forall c cit, get_item w c = Some cit -> ~ direct cit -> i_loaded cit <> None -> item_fit w c <> None }.

(* what KK reads of an item: of every item its class, container reference, own state, loaded flag, charge and
   autocharges; of a charge / autocharge also type, run modes and running set *)
Definition dk (it : item) := (i_cls it, i_cont it, i_state it, i_loaded it, i_charge it, i_autos it).
Definition kview (it : item) :=
  (dk it, match direct_dec it with left _ => None | right _ => Some (gk it) end).
Definition same_k (w w' : world) : Prop :=
  w_srcs w' = w_srcs w /\ forall j, option_map kview (get_item w' j) = option_map kview (get_item w j).

Lemma kview_dk a b : kview a = kview b -> dk a = dk b.
Proof. intros H. exact (f_equal fst H). Qed.
Lemma kview_direct a b : kview a = kview b -> (direct a <-> direct b).
Proof.
  intros H. pose proof (kview_dk _ _ H) as D. unfold dk in D. assert (E : i_cls a = i_cls b) by congruence.
  unfold direct. now rewrite E.
Qed.
Lemma kview_gk a b : kview a = kview b -> ~ direct a -> gk a = gk b.
Proof.
  intros H D. pose proof (proj1 (kview_direct _ _ H)) as Dab.
  pose proof (f_equal snd H) as S. cbn [snd kview] in S.
  destruct (direct_dec a) as [Da|_]; [contradiction|]. destruct (direct_dec b) as [Db|_]; congruence.
Qed.

Lemma same_k_refl w : same_k w w. Proof. split; auto. Qed.
Lemma same_k_trans a b c : same_k a b -> same_k b c -> same_k a c.
Proof. intros (S1 & H1) (S2 & H2). split; [congruence|]. intros j. now rewrite H2, H1. Qed.
Lemma same_k_fail w e : same_k w (fail w e).
Proof. split; [unfold fail; destruct (w_err w); reflexivity|]. intros j. now rewrite get_fail. Qed.
Lemma same_k_put w i old new : get_item w i = Some old -> kview new = kview old -> same_k w (put_item w i new).
Proof.
  intros Hi Hk. split; [reflexivity|]. intros j. destruct (Nat.eq_dec j i) as [->|N].
  - rewrite get_put_item_same', Hi. cbn. now rewrite Hk.
  - now rewrite get_put_item_other.
Qed.
Lemma same_k_upd w i g : (forall it, kview (g it) = kview it) -> same_k w (upd_item w i g).
Proof.
  intros H. unfold upd_item. destruct (get_item w i) as [it|] eqn:E; [|apply same_k_fail].
  eapply same_k_put; eauto.
Qed.

Lemma same_k_SKE w w' : same_k w w' -> SKE w w'.
Proof.
  intros (_ & H) j. specialize (H j). unfold skv.
  destruct (get_item w' j) as [a|], (get_item w j) as [b|]; cbn [option_map] in *; try congruence.
  assert (E : kview a = kview b) by congruence.
  pose proof (kview_dk _ _ E) as D. unfold dk in D. f_equal. congruence.
Qed.

Lemma same_k_get w w' j it' :
  same_k w w' -> get_item w' j = Some it' -> exists it, get_item w j = Some it /\ kview it' = kview it.
Proof.
  intros (_ & H) G. specialize (H j). rewrite G in H. destruct (get_item w j) as [it|]; cbn [option_map] in H; [|discriminate].
  exists it. split; [reflexivity|congruence].
Qed.
Lemma same_k_get' w w' j it :
  same_k w w' -> get_item w j = Some it -> exists it', get_item w' j = Some it' /\ kview it' = kview it.
Proof.
  intros (_ & H) G. specialize (H j). rewrite G in H. destruct (get_item w' j) as [it'|]; cbn [option_map] in H; [|discriminate].
  exists it'. split; [reflexivity|congruence].
Qed.

(* ------------------------------------------------------------------ *)
(* the other direction of the links: what an item lists names it        *)

(* an item listed as somebody's charge / autocharge names that item as its container, and nothing is listed
   twice as an autocharge *)
Definition CP (w : world) : Prop :=
  (forall m mit c, get_item w m = Some mit -> i_charge mit = Some c ->
     exists cit, get_item w c = Some cit /\ i_cont cit = Some (PCharge m)) /\
  (forall m mit a, get_item w m = Some mit -> In a (map snd (i_autos mit)) ->
     exists ait, get_item w a = Some ait /\ i_cont ait = Some (PAuto m)) /\
  (forall m mit, get_item w m = Some mit -> NoDup (map snd (i_autos mit))).

(* what CP reads of an item *)
Definition lkv (it : item) := (i_cont it, i_charge it, i_autos it).
Definition same_l (w w' : world) : Prop := forall j, option_map lkv (get_item w' j) = option_map lkv (get_item w j).
Lemma same_l_refl w : same_l w w. Proof. intros j; reflexivity. Qed.
Lemma same_l_trans a b c : same_l a b -> same_l b c -> same_l a c.
Proof. intros H1 H2 j. now rewrite H2, H1. Qed.
Lemma same_l_get w w' j it' :
  same_l w w' -> get_item w' j = Some it' -> exists it, get_item w j = Some it /\ lkv it' = lkv it.
Proof.
  intros H G. specialize (H j). rewrite G in H. destruct (get_item w j) as [it|]; cbn [option_map] in H; [|discriminate].
  exists it. split; [reflexivity|congruence].
Qed.
Lemma same_l_get' w w' j it :
  same_l w w' -> get_item w j = Some it -> exists it', get_item w' j = Some it' /\ lkv it' = lkv it.
Proof.
  intros H G. specialize (H j). rewrite G in H. destruct (get_item w' j) as [it'|]; cbn [option_map] in H; [|discriminate].
  exists it'. split; [reflexivity|congruence].
Qed.
Lemma same_l_fail w e : same_l w (fail w e).
Proof. intros j. now rewrite get_fail. Qed.
Lemma same_l_put w i old new : get_item w i = Some old -> lkv new = lkv old -> same_l w (put_item w i new).
Proof.
  intros Hi Hk j. destruct (Nat.eq_dec j i) as [->|N].
  - rewrite get_put_item_same', Hi. cbn. now rewrite Hk.
  - now rewrite get_put_item_other.
Qed.
Lemma same_l_upd w i g : (forall it, lkv (g it) = lkv it) -> same_l w (upd_item w i g).
Proof.
  intros H. unfold upd_item. destruct (get_item w i) as [it|] eqn:E; [|apply same_l_fail].
  eapply same_l_put; eauto.
Qed.
Lemma same_k_same_l w w' : same_k w w' -> same_l w w'.
Proof.
  intros (_ & H) j. specialize (H j).
  destruct (get_item w' j) as [a|], (get_item w j) as [b|]; cbn [option_map] in *; try congruence.
  assert (E : kview a = kview b) by congruence.
  pose proof (kview_dk _ _ E) as D. unfold dk in D. unfold lkv. f_equal. congruence.
Qed.
Lemma same_l_items w w' : w_items w' = w_items w -> same_l w w'.
Proof. intros H j. unfold get_item. now rewrite H. Qed.

Lemma FC_same_l w w' : FC w w' -> same_l w w'.
Proof.
  intros (V & _) j. specialize (V j). unfold vw in V.
  destruct (get_item w' j) as [a|], (get_item w j) as [b|]; cbn [option_map] in *; try congruence.
  assert (E : view a = view b) by congruence. unfold view in E. unfold lkv. f_equal. congruence.
Qed.

Lemma same_l_upd1_view w w' c cit cit' :
  upd1 w w' c -> get_item w c = Some cit -> get_item w' c = Some cit' -> view cit' = view cit -> same_l w w'.
Proof.
  intros (_ & G) Gc Gc' V j. destruct (Nat.eq_dec j c) as [->|N]; [|now rewrite (G j N)].
  rewrite Gc, Gc'. cbn. unfold view in V. unfold lkv. f_equal. congruence.
Qed.

Lemma CP_same_l w w' : same_l w w' -> CP w -> CP w'.
Proof.
  intros S (C1 & C2 & C3). split; [|split].
  - intros m mit' c G Hc. destruct (same_l_get _ _ _ _ S G) as (mit & G0 & E). unfold lkv in E.
    assert (Hc0 : i_charge mit = Some c) by congruence.
    destruct (C1 m mit c G0 Hc0) as (cit & Gc & Ec). destruct (same_l_get' _ _ _ _ S Gc) as (cit' & Gc' & E').
    exists cit'. split; [exact Gc'|]. unfold lkv in E'. congruence.
  - intros m mit' a G Ha. destruct (same_l_get _ _ _ _ S G) as (mit & G0 & E). unfold lkv in E.
    assert (Ha0 : In a (map snd (i_autos mit))) by (replace (i_autos mit) with (i_autos mit') by congruence; exact Ha).
    destruct (C2 m mit a G0 Ha0) as (ait & Ga & Ea). destruct (same_l_get' _ _ _ _ S Ga) as (ait' & Ga' & E').
    exists ait'. split; [exact Ga'|]. unfold lkv in E'. congruence.
  - intros m mit' G. destruct (same_l_get _ _ _ _ S G) as (mit & G0 & E). unfold lkv in E.
    replace (i_autos mit') with (i_autos mit) by congruence. now apply (C3 m mit).
Qed.

(* one item changes; nobody lists it, and what it lists is as before *)
Lemma CP_put_unlisted w m old new :
  CP w -> get_item w m = Some old -> i_charge new = i_charge old -> i_autos new = i_autos old ->
  (forall x xit, get_item w x = Some xit -> i_charge xit <> Some m /\ ~ In m (map snd (i_autos xit))) ->
  CP (put_item w m new).
Proof.
  intros (C1 & C2 & C3) Hm Ech Eau Hun. set (w' := put_item w m new).
  assert (Ho : forall j, j <> m -> get_item w' j = get_item w j) by (intros; now apply get_put_item_other).
  assert (Gm : get_item w' m = Some new) by apply get_put_item_same'.
  assert (Back : forall x xit', get_item w' x = Some xit' ->
                 exists xit, get_item w x = Some xit /\ i_charge xit' = i_charge xit /\ i_autos xit' = i_autos xit).
  { intros x xit' G. destruct (Nat.eq_dec x m) as [->|N].
    - rewrite Gm in G. injection G as <-. exists old. auto.
    - rewrite (Ho x N) in G. exists xit'. auto. }
  split; [|split].
  - intros x xit' c G Hc. destruct (Back x xit' G) as (xit & G0 & E1 & _). rewrite E1 in Hc.
    destruct (C1 x xit c G0 Hc) as (cit & Gc & Ec). exists cit. split; [|exact Ec].
    rewrite Ho; [exact Gc|]. intros ->. destruct (Hun x xit G0) as (U & _). contradiction.
  - intros x xit' a G Ha. destruct (Back x xit' G) as (xit & G0 & _ & E2). rewrite E2 in Ha.
    destruct (C2 x xit a G0 Ha) as (ait & Ga & Ea). exists ait. split; [|exact Ea].
    rewrite Ho; [exact Ga|]. intros ->. destruct (Hun x xit G0) as (_ & U). contradiction.
  - intros x xit' G. destruct (Back x xit' G) as (xit & G0 & _ & E2). rewrite E2. now apply (C3 x xit).
Qed.

(* a directly held item is listed by nobody *)
Lemma CP_direct_unlisted w m mit :
  CP w -> get_item w m = Some mit ->
  (forall y, i_cont mit <> Some (PCharge y) /\ i_cont mit <> Some (PAuto y)) ->
  forall x xit, get_item w x = Some xit -> i_charge xit <> Some m /\ ~ In m (map snd (i_autos xit)).
Proof.
  intros (C1 & C2 & _) Hm Hn x xit Gx. split; intros H.
  - destruct (C1 x xit m Gx H) as (y & Gy & Ey). rewrite Hm in Gy. injection Gy as <-. now apply (proj1 (Hn x)).
  - destruct (C2 x xit m Gx H) as (y & Gy & Ey). rewrite Hm in Gy. injection Gy as <-. now apply (proj2 (Hn x)).
Qed.

Lemma NAtid_srcs w w' tid : w_srcs w' = w_srcs w -> NAtid w tid -> NAtid w' tid.
Proof. intros Hs H s u t G. apply (H s u t). unfold get_src in *. now rewrite <- Hs. Qed.

Lemma KK_same_k w w' : same_k w w' -> KK w -> KK w'.
Proof.
  intros S [R F N P A L]. pose proof S as (Hs & _). pose proof (same_k_SKE _ _ S) as Hk. constructor.
  - intros j it' _ G D. destruct (same_k_get _ _ _ _ S G) as (it & G0 & Ek).
    apply (goodA_ext w w' j it it' Hs (kview_gk _ _ Ek D) (SKE_item_state _ _ Hk j)).
    apply R; [intros []|exact G0|]. intros D0. apply D. now apply (kview_direct _ _ Ek).
  - intros c cit G D. destruct (same_k_get _ _ _ _ S G) as (it & G0 & Ek).
    pose proof (kview_dk _ _ Ek) as Ed. unfold dk in Ed.
    assert (Ec : i_charge cit = i_charge it) by congruence. assert (Ea : i_autos cit = i_autos it) by congruence.
    rewrite Ec, Ea. apply (F c it G0). intros D0. apply D. now apply (kview_direct _ _ Ek).
  - intros c cit G D. destruct (same_k_get _ _ _ _ S G) as (it & G0 & Ek).
    pose proof (kview_gk _ _ Ek D) as Eg.
    assert (Et : i_tid cit = i_tid it) by (unfold gk, ek in Eg; congruence). rewrite Et.
    apply (NAtid_srcs w w' _ Hs). apply (N c it G0). intros D0. apply D. now apply (kview_direct _ _ Ek).
  - intros c cit m G. destruct (same_k_get _ _ _ _ S G) as (it & G0 & Ek).
    pose proof (kview_dk _ _ Ek) as Ed. unfold dk in Ed.
    assert (Ep : i_cont cit = i_cont it) by congruence. rewrite Ep.
    destruct (P c it m G0) as (P1 & P2). split; intros H.
    + destruct (P1 H) as (mit & Gm & Hc). destruct (same_k_get' _ _ _ _ S Gm) as (mit' & Gm' & Ek').
      pose proof (kview_dk _ _ Ek') as Ed'. unfold dk in Ed'.
      exists mit'. split; [exact Gm'|congruence].
    + destruct (P2 H) as (mit & Gm & Hc). destruct (same_k_get' _ _ _ _ S Gm) as (mit' & Gm' & Ek').
      pose proof (kview_dk _ _ Ek') as Ed'. unfold dk in Ed'.
      exists mit'. split; [exact Gm'|]. assert (Ea : i_autos mit' = i_autos mit) by congruence. now rewrite Ea.
  - intros i it' G Hl. destruct (same_k_get _ _ _ _ S G) as (it & G0 & Ek).
    pose proof (kview_dk _ _ Ek) as Ed. unfold dk in Ed.
    assert (Ea : i_autos it' = i_autos it) by congruence. rewrite Ea. apply (A i it G0). congruence.
  - intros c cit G D Hl. destruct (same_k_get _ _ _ _ S G) as (it & G0 & Ek).
    pose proof (kview_dk _ _ Ek) as Ed. unfold dk in Ed.
    rewrite (SKE_item_fit _ _ Hk c). apply (L c it G0).
    + intros D0. apply D. now apply (kview_direct _ _ Ek).
    + assert (El : i_loaded cit = i_loaded it) by congruence. now rewrite <- El.
Qed.

(* ------------------------------------------------------------------ *)
(* one charge / autocharge changes, everything KK reads of the others stays *)

Lemma child_upd_chain w w' c old new :
  upd1 w w' c -> get_item w c = Some old -> get_item w' c = Some new -> ~ direct old ->
  i_cls new = i_cls old -> i_cont new = i_cont old ->
  (forall j, item_state w' j = item_state w j) /\ (forall j, item_fit w' j = item_fit w j).
Proof.
  intros (_ & Ho) Hc Hc' Dc Ecls Econt. split.
  - unfold item_state. generalize 4%nat. induction n as [|n IH]; intros j; cbn [item_state_n]; [reflexivity|].
    destruct (Nat.eq_dec j c) as [->|Nj].
    + rewrite Hc', Hc, Ecls, Econt. unfold direct in Dc.
      destruct (cr_state (class_row_of (i_cls old))); try (exfalso; apply Dc; discriminate).
      destruct (i_cont old) as [[| | |p|p]|]; try reflexivity; apply IH.
    + rewrite (Ho j Nj). destruct (get_item w j) as [it|]; [|reflexivity].
      destruct (cr_state (class_row_of (i_cls it))); try reflexivity.
      destruct (i_cont it) as [[| | |p|p]|]; try reflexivity; apply IH.
  - unfold item_fit. generalize 4%nat. induction n as [|n IH]; intros j; cbn [item_fit_n]; [reflexivity|].
    destruct (Nat.eq_dec j c) as [->|Nj].
    + rewrite Hc', Hc, Econt. destruct (i_cont old) as [[| | |p|p]|]; try reflexivity; apply IH.
    + rewrite (Ho j Nj). destruct (get_item w j) as [it|]; [|reflexivity].
      destruct (i_cont it) as [[| | |p|p]|]; try reflexivity; apply IH.
Qed.

Lemma KK_child_step w w' c old new :
  KK w -> upd1 w w' c -> get_item w c = Some old -> get_item w' c = Some new -> ~ direct old ->
  i_cls new = i_cls old -> i_cont new = i_cont old -> i_tid new = i_tid old ->
  i_charge new = None -> i_autos new = [] ->
  goodA w' c new -> (i_loaded new <> None -> item_fit w c <> None) -> KK w'.
Proof.
  intros [R F N P A L] U Hc Hc' Dc Ecls Econt Etid Ech Eau Gd Hl.
  destruct (child_upd_chain w w' c old new U Hc Hc' Dc Ecls Econt) as (Hst & Hft).
  destruct U as (Hs & Ho).
  assert (Dn : ~ direct new) by (intros D; apply Dc; eapply direct_cls; [|exact D]; congruence).
  constructor.
  - intros j it _ G D. destruct (Nat.eq_dec j c) as [->|Nj].
    + rewrite Hc' in G. injection G as <-. exact Gd.
    + rewrite (Ho j Nj) in G. apply (goodA_ext w w' j it it Hs eq_refl (Hst j)).
      now apply R.
  - intros j it G D. destruct (Nat.eq_dec j c) as [->|Nj].
    + rewrite Hc' in G. injection G as <-. now split.
    + rewrite (Ho j Nj) in G. now apply (F j it).
  - intros j it G D. apply (NAtid_srcs w w' _ Hs). destruct (Nat.eq_dec j c) as [->|Nj].
    + rewrite Hc' in G. injection G as <-. rewrite Etid. now apply (N c old).
    + rewrite (Ho j Nj) in G. now apply (N j it).
  - intros j it m G.
    assert (Gl : forall x xit, get_item w x = Some xit ->
                               exists xit', get_item w' x = Some xit' /\ i_charge xit' = i_charge xit /\ i_autos xit' = i_autos xit).
    { intros x xit Gx. destruct (Nat.eq_dec x c) as [->|Nx].
      - rewrite Hc in Gx. injection Gx as <-. exists new. destruct (F c old Hc Dc) as (F1 & F2).
        split; [exact Hc'|]. now rewrite Ech, Eau, F1, F2.
      - exists xit. now rewrite (Ho x Nx). }
    assert (Hold : exists it0, get_item w j = Some it0 /\ i_cont it0 = i_cont it).
    { destruct (Nat.eq_dec j c) as [->|Nj].
      - rewrite Hc' in G. injection G as <-. exists old. now split.
      - rewrite (Ho j Nj) in G. exists it. now split. }
    destruct Hold as (it0 & G0 & E0). rewrite <- E0. destruct (P j it0 m G0) as (P1 & P2). split; intros H.
    + destruct (P1 H) as (mit & Gm & Hm). destruct (Gl m mit Gm) as (mit' & Gm' & Ec' & _).
      exists mit'. split; [exact Gm'|congruence].
    + destruct (P2 H) as (mit & Gm & Hm). destruct (Gl m mit Gm) as (mit' & Gm' & _ & Ea').
      exists mit'. split; [exact Gm'|now rewrite Ea'].
  - intros j it G Hld. destruct (Nat.eq_dec j c) as [->|Nj].
    + rewrite Hc' in G. injection G as <-. exact Eau.
    + rewrite (Ho j Nj) in G. now apply (A j it).
  - intros j it G D Hld. rewrite (Hft j). destruct (Nat.eq_dec j c) as [->|Nj].
    + rewrite Hc' in G. injection G as <-. now apply Hl.
    + rewrite (Ho j Nj) in G. now apply (L j it).
Qed.

Lemma unloaded_msgs_running_nil w c it' :
  w_err w = None -> w_err (fst (item_unloaded_msgs w c)) = None ->
  get_item (fst (item_unloaded_msgs w c)) c = Some it' -> i_running it' = [].
Proof.
  unfold item_unloaded_msgs. intros He0. destruct (get_item w c) as [it|] eqn:Hc;
    [|cbn [fst]; intros He; destruct (err_fail_none _ _ He)].
  destruct (i_running it) as [|e r] eqn:Er.
  - destruct (item_state w c); cbn [fst]; [|intros He; destruct (err_fail_none _ _ He)].
    intros _ G. rewrite Hc in G. injection G as <-. exact Er.
  - destruct (effects_tgts w it (e :: r)) as [tg|].
    + destruct (item_state (put_item w c (it_set_running it [])) c); cbn [fst];
        [|intros He; destruct (err_fail_none _ _ He)].
      intros _ G. rewrite get_put_item_same' in G. injection G as <-. reflexivity.
    + destruct (item_state (fail w EKeyAbsent) c); cbn [fst]; intros He; exfalso.
      * unfold fail in He. rewrite He0 in He. discriminate.
      * apply (err_fail_none _ _ He).
Qed.

Lemma it_set_autos_nil it : i_autos it = [] -> it_set_autos it [] = it.
Proof. destruct it. cbn. now intros ->. Qed.

(* ------------------------------------------------------------------ *)
(* unload / remove_item of a charge or autocharge (a leaf of a flat world) *)

Theorem unload_leaf n s c cit :
  KK (fst s) -> get_item (fst s) c = Some cit -> ~ direct cit ->
  w_err (fst (unload (S n) s c)) = None ->
  KK (fst (unload (S n) s c)) /\ upd1 (fst s) (fst (unload (S n) s c)) c /\
  exists cit', get_item (fst (unload (S n) s c)) c = Some cit' /\ i_loaded cit' = None /\
               view cit' = view cit /\ i_state cit' = i_state cit /\ i_tid cit' = i_tid cit.
Proof.
  intros K Hc Dc. pose proof K as [R F N P A L]. destruct (F c cit Hc Dc) as (Fch & Fau).
  set (s1 := match item_fit (fst s) c, i_loaded cit with
             | Some f, Some _ => with_msgs s f (fun w => item_unloaded_msgs w c)
             | _, _ => s end).
  assert (RO : run_only (fst s) (fst s1) c).
  { subst s1. destruct (item_fit (fst s) c) as [f|]; [|apply run_only_refl].
    destruct (i_loaded cit); [|apply run_only_refl]. unfold with_msgs.
    pose proof (unloaded_run_only (fst s) c) as H. destruct (item_unloaded_msgs (fst s) c). exact H. }
  destruct RO as (U1 & R1 & _). destruct (R1 cit Hc) as (r & Hr).
  set (new := it_set_loaded (it_set_running cit r) None).
  set (w3 := put_item (put_item (fst s1) c (it_set_running cit r)) c new).
  assert (Eres : fst (unload (S n) s c) = w3).
  { cbn [unload]. rewrite Hc. cbv zeta. fold s1. cbn [fst snd]. rewrite Hr. cbn [i_autos it_set_running].
    rewrite Fau. cbn [fold_left]. unfold lift. cbn [fst]. unfold upd_item. rewrite Hr.
    rewrite (it_set_autos_nil (it_set_running cit r)) by exact Fau.
    rewrite get_put_item_same'. reflexivity. }
  rewrite Eres. intros He.
  assert (He1 : w_err (fst s1) = None) by exact He.
  assert (U3 : upd1 (fst s) w3 c).
  { eapply upd1_trans; [exact U1|]. eapply upd1_trans; apply upd1_put. }
  assert (G3 : get_item w3 c = Some new) by apply get_put_item_same'.
  (* the running set is empty: either the unloaded messages emptied it, or the item was not loaded *)
  assert (Hrun : r = []).
  { subst s1. destruct (item_fit (fst s) c) as [f|] eqn:Ef.
    - destruct (i_loaded cit) eqn:El.
      + unfold with_msgs in Hr, He1. pose proof (unloaded_msgs_running_nil (fst s) c (it_set_running cit r)) as H.
        destruct (item_unloaded_msgs (fst s) c) as [w0 m0] eqn:E0. cbn [fst] in *.
        apply H; [|exact He1|exact Hr].
        pose proof (unloaded_sticky (fst s) c) as St. rewrite E0 in St. now apply St.
      + rewrite Hc in Hr. injection Hr as Hr. apply (f_equal i_running) in Hr. cbn in Hr. rewrite <- Hr.
        destruct (R c cit (fun x => x) Hc Dc) as (G1 & _). now apply G1.
    - destruct (i_loaded cit) eqn:El.
      + exfalso. apply (L c cit Hc Dc); [congruence|exact Ef].
      + rewrite Hc in Hr. injection Hr as Hr. apply (f_equal i_running) in Hr. cbn in Hr. rewrite <- Hr.
        destruct (R c cit (fun x => x) Hc Dc) as (G1 & _). now apply G1. }
  split; [|split; [exact U3|]].
  - apply (KK_child_step (fst s) w3 c cit new K U3 Hc G3 Dc); try reflexivity; try assumption.
    + split; [|split]; cbn.
      * intros _. exact Hrun.
      * intros x Hx. discriminate.
      * intros Hx. congruence.
    + cbn. congruence.
  - exists new. split; [exact G3|]. repeat split.
Qed.

(* nobody names c as its container: then c's own container reference matters to c alone *)
Definition unnamed (w : world) (c : nat) : Prop :=
  forall x xit, get_item w x = Some xit -> i_cont xit <> Some (PCharge c) /\ i_cont xit <> Some (PAuto c).

Lemma KK_unnamed w c cit : KK w -> get_item w c = Some cit -> ~ direct cit -> unnamed w c.
Proof.
  intros [R F N P A L] Hc Dc x xit Hx. destruct (F c cit Hc Dc) as (Fch & Fau).
  destruct (P x xit c Hx) as (P1 & P2). split; intros H.
  - destruct (P1 H) as (mit & Gm & Hm). rewrite Hc in Gm. injection Gm as <-. congruence.
  - destruct (P2 H) as (mit & Gm & Hm). rewrite Hc in Gm. injection Gm as <-. rewrite Fau in Hm. destruct Hm.
Qed.

Lemma item_state_unnamed w c new : unnamed w c ->
  forall j, j <> c -> item_state (put_item w c new) j = item_state w j.
Proof.
  intros U. unfold item_state. generalize 4%nat. induction n as [|n IH]; intros j Nj; cbn [item_state_n]; [reflexivity|].
  rewrite get_put_item_other by exact Nj. destruct (get_item w j) as [it|] eqn:G; [|reflexivity].
  destruct (cr_state (class_row_of (i_cls it))); try reflexivity.
  destruct (U j it G) as (U1 & U2).
  destruct (i_cont it) as [[| | |p|p]|]; try reflexivity; apply IH; intros ->; congruence.
Qed.
Lemma item_fit_unnamed w c new : unnamed w c ->
  forall j, j <> c -> item_fit (put_item w c new) j = item_fit w j.
Proof.
  intros U. unfold item_fit. generalize 4%nat. induction n as [|n IH]; intros j Nj; cbn [item_fit_n]; [reflexivity|].
  rewrite get_put_item_other by exact Nj. destruct (get_item w j) as [it|] eqn:G; [|reflexivity].
  destruct (U j it G) as (U1 & U2).
  destruct (i_cont it) as [[| | |p|p]|]; try reflexivity; apply IH; intros ->; congruence.
Qed.

(* the container reference of an unloaded charge / autocharge is set or cleared *)
Lemma KK_child_cont w c old p' :
  KK w -> get_item w c = Some old -> ~ direct old -> i_loaded old = None ->
  (forall m, p' = Some (PCharge m) -> exists mit, get_item w m = Some mit /\ i_charge mit = Some c) ->
  (forall m, p' = Some (PAuto m) -> exists mit, get_item w m = Some mit /\ In c (map snd (i_autos mit))) ->
  KK (put_item w c (it_set_cont old p')).
Proof.
  intros K Hc Dc Hl H1 H2. pose proof (KK_unnamed w c old K Hc Dc) as Un. destruct K as [R F N P A L].
  set (new := it_set_cont old p'). set (w' := put_item w c new).
  assert (Ho : forall j, j <> c -> get_item w' j = get_item w j) by (intros; now apply get_put_item_other).
  assert (Gc : get_item w' c = Some new) by apply get_put_item_same'.
  assert (Dn : ~ direct new) by exact Dc.
  constructor.
  - intros j it _ G D. destruct (Nat.eq_dec j c) as [->|Nj].
    + rewrite Gc in G. injection G as <-. destruct (R c old (fun x => x) Hc Dc) as (G1 & _).
      split; [|split]; cbn; [intros _; now apply G1|intros s Hs; congruence|intros Hx; congruence].
    + rewrite (Ho j Nj) in G. apply (goodA_ext w w' j it it eq_refl eq_refl (item_state_unnamed w c new Un j Nj)).
      now apply R.
  - intros j it G D. destruct (Nat.eq_dec j c) as [->|Nj].
    + rewrite Gc in G. injection G as <-. now apply (F c old).
    + rewrite (Ho j Nj) in G. now apply (F j it).
  - intros j it G D. apply (NAtid_srcs w w' _ eq_refl). destruct (Nat.eq_dec j c) as [->|Nj].
    + rewrite Gc in G. injection G as <-. now apply (N c old).
    + rewrite (Ho j Nj) in G. now apply (N j it).
  - intros j it m G.
    assert (Gl : forall x xit, get_item w x = Some xit ->
                               exists xit', get_item w' x = Some xit' /\ i_charge xit' = i_charge xit /\ i_autos xit' = i_autos xit).
    { intros x xit Gx. destruct (Nat.eq_dec x c) as [->|Nx].
      - rewrite Hc in Gx. injection Gx as <-. exists new. now split.
      - exists xit. now rewrite (Ho x Nx). }
    destruct (Nat.eq_dec j c) as [->|Nj].
    + rewrite Gc in G. injection G as <-. cbn [i_cont new it_set_cont]. split; intros H.
      * destruct (H1 m H) as (mit & Gm & Hm). destruct (Gl m mit Gm) as (mit' & Gm' & Ec' & _).
        exists mit'. split; [exact Gm'|congruence].
      * destruct (H2 m H) as (mit & Gm & Hm). destruct (Gl m mit Gm) as (mit' & Gm' & _ & Ea').
        exists mit'. split; [exact Gm'|now rewrite Ea'].
    + rewrite (Ho j Nj) in G. destruct (P j it m G) as (P1 & P2). split; intros H.
      * destruct (P1 H) as (mit & Gm & Hm). destruct (Gl m mit Gm) as (mit' & Gm' & Ec' & _).
        exists mit'. split; [exact Gm'|congruence].
      * destruct (P2 H) as (mit & Gm & Hm). destruct (Gl m mit Gm) as (mit' & Gm' & _ & Ea').
        exists mit'. split; [exact Gm'|now rewrite Ea'].
  - intros j it G Hld. destruct (Nat.eq_dec j c) as [->|Nj].
    + rewrite Gc in G. injection G as <-. now apply (A c old).
    + rewrite (Ho j Nj) in G. now apply (A j it).
  - intros j it G D Hld. destruct (Nat.eq_dec j c) as [->|Nj].
    + rewrite Gc in G. injection G as <-. cbn in Hld. congruence.
    + rewrite (Ho j Nj) in G. unfold w'. rewrite (item_fit_unnamed w c new Un j Nj). now apply (L j it).
Qed.

Lemma with_msgs_removed_same (s : st) f c :
  w_err (fst (with_msgs s f (fun w => item_removed_msgs w c))) = None ->
  fst (with_msgs s f (fun w => item_removed_msgs w c)) = fst s.
Proof.
  unfold with_msgs. destruct (removed_same (fst s) c) as [E|(e & E)];
    destruct (item_removed_msgs (fst s) c) as [w0 m0]; cbn [fst] in *; subst w0; [reflexivity|].
  intros He. destruct (err_fail_none _ _ He).
Qed.
Lemma with_msgs_added_same (s : st) f c :
  w_err (fst (with_msgs s f (fun w => item_added_msgs w c))) = None ->
  fst (with_msgs s f (fun w => item_added_msgs w c)) = fst s.
Proof.
  unfold with_msgs. destruct (added_same (fst s) c) as [E|(e & E)];
    destruct (item_added_msgs (fst s) c) as [w0 m0]; cbn [fst] in *; subst w0; [reflexivity|].
  intros He. destruct (err_fail_none _ _ He).
Qed.

Theorem remove_leaf n s c cit :
  KK (fst s) -> get_item (fst s) c = Some cit -> ~ direct cit ->
  w_err (fst (remove_item (S (S n)) s c)) = None ->
  KK (fst (remove_item (S (S n)) s c)) /\ upd1 (fst s) (fst (remove_item (S (S n)) s c)) c /\
  exists cit', get_item (fst (remove_item (S (S n)) s c)) c = Some cit' /\ i_loaded cit' = None /\
               i_cont cit' = None /\ i_cls cit' = i_cls cit /\ i_charge cit' = None /\ i_autos cit' = [] /\
               i_state cit' = i_state cit /\ i_tid cit' = i_tid cit.
Proof.
  intros K Hc Dc. destruct (kk_flat _ K c cit Hc Dc) as (Fch & Fau).
  set (fit := item_fit (fst s) c).
  set (su := unload (S n) s c).
  set (s1 := match fit with Some f => with_msgs su f (fun w => item_removed_msgs w c) | None => su end).
  assert (Eres : forall cit1, get_item (fst s1) c = Some cit1 -> i_charge cit1 = None ->
                 fst (remove_item (S (S n)) s c) = upd_item (fst s1) c (fun it => it_set_cont it None)).
  { intros cit1 G1 Ch1. cbn [remove_item]. fold fit. cbv zeta. fold su. fold s1. rewrite G1.
    unfold child_items. rewrite Ch1. cbn [app fold_left]. reflexivity. }
  assert (St1 : sticky (fst su) (fst s1)).
  { subst s1. destruct fit; [|apply sticky_refl]. apply with_msgs_sticky. intros; apply removed_sticky. }
  (* whatever the error flag, the shape of the result is known once the item is found *)
  intros He.
  assert (Hsu : w_err (fst su) = None).
  { apply St1. destruct (get_item (fst s1) c) as [x|] eqn:G1.
    - (* cont step is sticky *)
      revert He. cbn [remove_item]. fold fit. cbv zeta. fold su. fold s1. rewrite G1.
      set (s2 := fold_left _ _ s1). intros He.
      assert (St2 : sticky (fst s1) (fst s2)).
      { subst s2. apply (C_fold sticky sticky_refl sticky_trans). intros s0 x0. cbv zeta.
        eapply sticky_trans; [apply sticky_unload|]. destruct fit; [|apply sticky_refl].
        apply with_msgs_sticky. intros; apply removed_sticky. }
      apply St2. apply (sticky_upd _ c (fun it => it_set_cont it None)). exact He.
    - revert He. cbn [remove_item]. fold fit. cbv zeta. fold su. fold s1. rewrite G1.
      unfold lift. cbn [fst]. intros He. apply (sticky_upd _ c (fun it => it_set_cont it None)) in He.
      destruct (err_fail_none _ _ He). }
  destruct (unload_leaf n s c cit K Hc Dc Hsu) as (Ku & Uu & cu & Gu & Lu & Vu & Stu & Tu). fold su in Ku, Uu, Gu.
  assert (E1 : w_err (fst s1) = None -> fst s1 = fst su).
  { subst s1. destruct fit as [f|]; [|reflexivity]. apply with_msgs_removed_same. }
  assert (Chu : i_charge cu = None) by (unfold view in Vu; congruence).
  assert (Hs1 : w_err (fst s1) = None).
  { destruct (get_item (fst s1) c) as [x|] eqn:G1.
    - revert He. cbn [remove_item]. fold fit. cbv zeta. fold su. fold s1. rewrite G1.
      set (s2 := fold_left _ _ s1). intros He.
      assert (St2 : sticky (fst s1) (fst s2)).
      { subst s2. apply (C_fold sticky sticky_refl sticky_trans). intros s0 x0. cbv zeta.
        eapply sticky_trans; [apply sticky_unload|]. destruct fit; [|apply sticky_refl].
        apply with_msgs_sticky. intros; apply removed_sticky. }
      apply St2. apply (sticky_upd _ c (fun it => it_set_cont it None)). exact He.
    - revert He. cbn [remove_item]. fold fit. cbv zeta. fold su. fold s1. rewrite G1.
      unfold lift. cbn [fst]. intros He. apply (sticky_upd _ c (fun it => it_set_cont it None)) in He.
      destruct (err_fail_none _ _ He). }
  specialize (E1 Hs1).
  assert (G1 : get_item (fst s1) c = Some cu) by (now rewrite E1).
  rewrite (Eres cu G1 Chu). rewrite E1. unfold upd_item. rewrite Gu.
  assert (Du : ~ direct cu).
  { intros D. apply Dc. eapply direct_cls; [|exact D]. unfold view in Vu. congruence. }
  split; [|split].
  - apply (KK_child_cont (fst su) c cu None Ku Gu Du Lu); intros m H; discriminate.
  - eapply upd1_trans; [exact Uu|apply upd1_put].
  - exists (it_set_cont cu None). split; [apply get_put_item_same'|]. unfold view in Vu. cbn.
    repeat split; congruence.
Qed.

(* ------------------------------------------------------------------ *)
(* load / add_item of a charge or autocharge                            *)

Lemma fold_no_autos n (t : itype) (u : universe) c (l : list (Z * effect)) :
  (forall e ef, In (e, ef) l -> forall aa, e_autocharge_attr ef = Some aa -> al_get zeqb (t_attrs t) aa = None) ->
  forall s : st,
  fold_left
    (fun s (ee : Z * effect) =>
       match e_autocharge_attr (snd ee) with
       | None => s
       | Some aa =>
         match al_get zeqb (t_attrs t) aa with
         | None => s
         | Some q =>
           let a := w_next (fst s) in
           let s := lift s (fun w =>
                      let w := set_next w (S a) in
                      let w := put_item w a (new_item CAutocharge (q_trunc q) State_offline 0) in
                      upd_item w c (fun it => it_set_autos it (al_set zeqb (i_autos it) (fst ee) a))) in
           add_item n s a (PAuto c)
         end
       end) l s = s.
Proof.
  induction l as [|[e ef] l IH]; intros H s; cbn [fold_left]; [reflexivity|].
  cbn [snd fst]. destruct (e_autocharge_attr ef) as [aa|] eqn:Ea.
  - rewrite (H e ef (or_introl eq_refl) aa Ea). apply IH. intros e' ef' I. apply (H e' ef'). now right.
  - apply IH. intros e' ef' I. apply (H e' ef'). now right.
Qed.

Lemma item_effects_in w it e ef :
  In (e, ef) (item_effects w it) ->
  exists t u, item_type w it = Some t /\ item_universe w it = Some u /\ In e (t_effects t) /\ get_effect u e = Some ef.
Proof.
  unfold item_effects. destruct (item_type w it) as [t|]; [|intros []].
  destruct (item_universe w it) as [u|]; [|intros []].
  intros I. apply in_flat_map in I as (e' & I1 & I2). exists t, u.
  destruct (get_effect u e') as [ef'|] eqn:G; [|destruct I2]. destruct I2 as [E|[]]. injection E as -> ->. auto.
Qed.

Theorem load_leaf n s c cit :
  KK (fst s) -> get_item (fst s) c = Some cit -> ~ direct cit ->
  w_err (fst (load (S n) s c)) = None ->
  KK (fst (load (S n) s c)) /\ upd1 (fst s) (fst (load (S n) s c)) c /\
  exists cit', get_item (fst (load (S n) s c)) c = Some cit' /\ view cit' = view cit /\
               i_state cit' = i_state cit /\ i_tid cit' = i_tid cit.
Proof.
  intros K Hc Dc. destruct (kk_flat _ K c cit Hc Dc) as (Fch & Fau).
  assert (Same : KK (fst s) /\ upd1 (fst s) (fst s) c /\
                 exists cit', get_item (fst s) c = Some cit' /\ view cit' = view cit /\
                              i_state cit' = i_state cit /\ i_tid cit' = i_tid cit).
  { split; [exact K|split; [apply upd1_refl|]]. exists cit. auto. }
  cbn [load]. rewrite Hc.
  destruct (item_fit (fst s) c) as [f|] eqn:Ef; [|intros _; exact Same].
  destruct (fit_source_id (fst s) f) as [src|] eqn:Esrc; [|intros _; exact Same].
  destruct (get_src (fst s) src) as [u|] eqn:Eu; [|intros _; exact Same].
  destruct (get_type u (i_tid cit)) as [t|] eqn:Et; [|intros _; exact Same].
  cbv zeta.
  set (ld := it_set_loaded cit (Some src)).
  set (s1 := lift s (fun w => put_item w c ld)).
  set (s2 := with_msgs s1 f (fun w => item_loaded_msgs w c)).
  assert (G1 : get_item (fst s1) c = Some ld) by (unfold s1, lift; cbn [fst]; apply get_put_item_same').
  (* shape of the loaded messages *)
  assert (Sh : run_only (fst s1) (fst s2) c).
  { unfold s2, with_msgs. pose proof (loaded_run_only (fst s1) c) as H.
    destruct (item_loaded_msgs (fst s1) c). exact H. }
  destruct Sh as (U2 & R2 & _). destruct (R2 ld G1) as (r & Hr). rewrite Hr.
  (* no autocharges are created *)
  assert (NAc : NAtid (fst s) (i_tid cit)) by (apply (kk_na _ K c cit Hc Dc)).
  rewrite (fold_no_autos n t u c).
  2:{ intros e ef I aa Ha. apply item_effects_in in I as (t' & u' & Ht & Hu & It & Ge).
      unfold item_type, item_universe in Ht, Hu. cbn [i_loaded it_set_running it_set_loaded ld i_tid] in Ht, Hu.
      destruct U2 as (Us2 & _). unfold get_src in Ht, Hu. rewrite Us2 in Ht, Hu.
      unfold s1, lift in Ht, Hu. cbn [fst w_srcs put_item set_items] in Ht, Hu.
      unfold get_src in Eu. rewrite Eu in Ht, Hu. injection Hu as <-. rewrite Et in Ht. injection Ht as <-.
      exact (NAc src u t Eu Et e ef aa It Ge Ha). }
  intros He.
  assert (U : upd1 (fst s) (fst s2) c).
  { eapply upd1_trans; [|exact U2]. unfold s1, lift. cbn [fst]. apply upd1_put. }
  (* the table holds for c after the loaded messages *)
  assert (Gd : goodA (fst s2) c (it_set_running ld r)).
  { unfold s2, with_msgs in *. unfold item_loaded_msgs in *.
    destruct (item_state (fst s1) c) as [st|] eqn:Est; [|cbn [fst] in He; destruct (err_fail_none _ _ He)].
    destruct (effects_update (fst s1) c) as [w0 m0] eqn:Eeu. cbn [fst] in *.
    apply (eu_goodA (fst s1) c ld w0 m0 G1 Eeu He); [|exact Hr].
    intros x Hx. cbn in Hx. injection Hx as <-. unfold s1, lift. cbn [fst]. unfold get_src in *.
    cbn [w_srcs put_item set_items]. congruence. }
  split; [|split; [exact U|]].
  - apply (KK_child_step (fst s) (fst s2) c cit (it_set_running ld r) K U Hc Hr Dc); try reflexivity; try assumption.
    intros _. congruence.
  - exists (it_set_running ld r). split; [exact Hr|]. repeat split.
Qed.

Theorem add_leaf n s c cit p :
  KK (fst s) -> get_item (fst s) c = Some cit -> ~ direct cit -> i_loaded cit = None ->
  (forall m, p = PCharge m -> exists mit, get_item (fst s) m = Some mit /\ i_charge mit = Some c) ->
  (forall m, p = PAuto m -> exists mit, get_item (fst s) m = Some mit /\ In c (map snd (i_autos mit))) ->
  w_err (fst (add_item (S (S n)) s c p)) = None ->
  KK (fst (add_item (S (S n)) s c p)) /\ upd1 (fst s) (fst (add_item (S (S n)) s c p)) c /\
  exists cit', get_item (fst (add_item (S (S n)) s c p)) c = Some cit' /\ i_cont cit' = Some p /\
               i_cls cit' = i_cls cit /\ i_charge cit' = None /\ i_autos cit' = [] /\
               i_state cit' = i_state cit /\ i_tid cit' = i_tid cit.
Proof.
  intros K Hc Dc Hl H1 H2. destruct (kk_flat _ K c cit Hc Dc) as (Fch & Fau).
  set (cc := it_set_cont cit (Some p)).
  set (s1 := lift s (fun w => upd_item w c (fun it => it_set_cont it (Some p)))).
  assert (E1 : fst s1 = put_item (fst s) c cc) by (unfold s1, lift, upd_item; cbn [fst]; now rewrite Hc).
  assert (K1 : KK (fst s1)).
  { rewrite E1. apply (KK_child_cont (fst s) c cit (Some p) K Hc Dc Hl).
    - intros m E. injection E as ->. now apply H1.
    - intros m E. injection E as ->. now apply H2. }
  assert (G1 : get_item (fst s1) c = Some cc) by (rewrite E1; apply get_put_item_same').
  assert (U1 : upd1 (fst s) (fst s1) c) by (rewrite E1; apply upd1_put).
  cbn [add_item]. fold s1.
  destruct (item_fit (fst s1) c) as [f|] eqn:Ef.
  2:{ intros _. split; [exact K1|split; [exact U1|]]. exists cc. split; [exact G1|]. now repeat split. }
  cbv zeta.
  set (sa := with_msgs s1 f (fun w => item_added_msgs w c)).
  set (sl := load (S n) sa c).
  (* whatever follows the load touches nothing: the item holds no charge *)
  assert (Shape : forall x, get_item (fst sl) c = Some x -> i_charge x = None ->
                  (match get_item (fst sl) c with
                   | Some it => fold_left (fun s sub => load (S n) (with_msgs s f (fun w => item_added_msgs w sub)) sub)
                                          (child_items it true) sl
                   | None => lift sl (fun w => fail w EKeyAbsent)
                   end) = sl).
  { intros x Gx Cx. rewrite Gx. unfold child_items. rewrite Cx. reflexivity. }
  intros He.
  assert (Hsl : w_err (fst sl) = None).
  { destruct (get_item (fst sl) c) as [x|] eqn:Gx.
    - revert He. apply (C_fold sticky sticky_refl sticky_trans). intros s0 x0.
      eapply sticky_trans; [|apply sticky_load]. apply with_msgs_sticky. intros; apply added_sticky.
    - unfold lift in He. cbn [fst] in He. destruct (err_fail_none _ _ He). }
  assert (Hsa : w_err (fst sa) = None) by (apply (sticky_load (S n) sa c); exact Hsl).
  assert (Esa : fst sa = fst s1) by (apply with_msgs_added_same; exact Hsa).
  assert (Ka : KK (fst sa)) by (now rewrite Esa).
  assert (Ga : get_item (fst sa) c = Some cc) by (now rewrite Esa).
  destruct (load_leaf n sa c cc Ka Ga Dc Hsl) as (Kl & Ul & cl & Gl & Vl & Stl & Tl). fold sl in Kl, Ul, Gl.
  assert (Chl : i_charge cl = None) by (unfold view in Vl; cbn in Vl; congruence).
  rewrite (Shape cl Gl Chl).
  split; [exact Kl|split].
  - eapply upd1_trans; [exact U1|]. rewrite <- Esa. exact Ul.
  - exists cl. split; [exact Gl|]. unfold view, cc in Vl. cbn in Vl.
    assert (E4 : (i_cls cl, i_cont cl, i_autos cl, i_charge cl) = (i_cls cit, Some p, i_autos cit, i_charge cit)) by exact Vl.
    injection E4 as Ea Eb Ec Ed. unfold cc in Stl, Tl. cbn in Stl, Tl.
    repeat split; congruence.
Qed.

(* ------------------------------------------------------------------ *)
(* a directly held item changes                                         *)

Lemma direct_cont_fit w x xit : J w -> KK w -> get_item w x = Some xit -> direct xit ->
  forall y, i_cont xit <> Some (PCharge y) /\ i_cont xit <> Some (PAuto y).
Proof.
  intros (_ & _ & J3 & J4) K Hx Dx y. destruct (kk_pc _ K x xit y Hx) as (P1 & P2). split; intros H.
  - destruct (P1 H) as (yit & Gy & Hy). pose proof (J4 y yit x Gy Hy) as C. unfold cls_of in C. rewrite Hx in C.
    injection C as C. apply (proj2 (direct_childcls xit)); [right; exact C|exact Dx].
  - destruct (P2 H) as (yit & Gy & Hy). apply in_map_iff in Hy as ([e a] & Ea & Hy). cbn in Ea. subst a.
    pose proof (J3 y yit e x Gy Hy) as C. unfold cls_of in C. rewrite Hx in C.
    injection C as C. apply (proj2 (direct_childcls xit)); [left; exact C|exact Dx].
Qed.

(* the fit of an item, read off its container reference when that is not an item *)
Lemma item_fit_top n w x xit : get_item w x = Some xit ->
  (forall y, i_cont xit <> Some (PCharge y) /\ i_cont xit <> Some (PAuto y)) ->
  item_fit_n (S n) w x = match fitcont_of xit with
                         | Some (PSlot f _) | Some (PSet f _) | Some (PRack f _) => Some f
                         | _ => None end.
Proof.
  intros Hx Hn. cbn [item_fit_n]. rewrite Hx. unfold fitcont_of.
  destruct (i_cont xit) as [[f k|f k|f k|y|y]|]; try reflexivity; exfalso; destruct (Hn y); congruence.
Qed.

Lemma item_fit_child w j it x xit : get_item w j = Some it ->
  (i_cont it = Some (PCharge x) \/ i_cont it = Some (PAuto x)) -> get_item w x = Some xit ->
  (forall y, i_cont xit <> Some (PCharge y) /\ i_cont xit <> Some (PAuto y)) ->
  item_fit w j = fit_of_place (fitcont_of xit).
Proof.
  intros Hj Hp Hx Hn. unfold item_fit. cbn [item_fit_n]. rewrite Hj.
  destruct Hp as [E|E]; rewrite E; cbv iota; rewrite Hx; unfold fitcont_of;
    destruct (i_cont xit) as [[f k|f k|f k|y|y]|]; try reflexivity; exfalso; destruct (Hn y); congruence.
Qed.

(* the parent of a charge / autocharge of a flat world is directly held *)
Lemma parent_direct w c cit m : KK w -> get_item w c = Some cit ->
  (i_cont cit = Some (PCharge m) \/ i_cont cit = Some (PAuto m)) ->
  exists mit, get_item w m = Some mit /\ direct mit.
Proof.
  intros K Hc Hp. destruct (kk_pc _ K c cit m Hc) as (P1 & P2).
  destruct Hp as [H|H]; [destruct (P1 H) as (mit & Gm & Hm)|destruct (P2 H) as (mit & Gm & Hm)];
    exists mit; (split; [exact Gm|]); destruct (direct_dec mit) as [D|D]; try exact D; exfalso;
    destruct (kk_flat _ K m mit Gm D) as (F1 & F2).
  - congruence.
  - rewrite F2 in Hm. destruct Hm.
Qed.

Lemma item_state_put_direct w m old new :
  get_item w m = Some old -> direct old -> i_cls new = i_cls old -> i_state new = i_state old ->
  forall j, item_state (put_item w m new) j = item_state w j.
Proof.
  intros Hm Dm Ec Es. unfold item_state. generalize 4%nat. induction n as [|n IH]; intros j; cbn [item_state_n]; [reflexivity|].
  destruct (Nat.eq_dec j m) as [->|Nj].
  - rewrite get_put_item_same', Hm, Ec, Es. unfold direct in Dm.
    destruct (cr_state (class_row_of (i_cls old))); try reflexivity. congruence.
  - rewrite get_put_item_other by exact Nj. destruct (get_item w j) as [it|]; [|reflexivity].
    destruct (cr_state (class_row_of (i_cls it))); try reflexivity.
    destruct (i_cont it) as [[| | |p|p]|]; try reflexivity; apply IH.
Qed.

Lemma KK_direct_put w m old new :
  J w -> KK w -> get_item w m = Some old -> direct old ->
  i_cls new = i_cls old -> i_state new = i_state old ->
  (forall y, i_cont new <> Some (PCharge y) /\ i_cont new <> Some (PAuto y)) ->
  (i_loaded new = None -> i_autos new = []) ->
  (forall c cit, get_item w c = Some cit -> i_cont cit = Some (PCharge m) -> i_charge new = Some c) ->
  (forall c cit, get_item w c = Some cit -> i_cont cit = Some (PAuto m) -> In c (map snd (i_autos new))) ->
  (fitcont_of new = None ->
   forall c cit, get_item w c = Some cit -> (i_cont cit = Some (PCharge m) \/ i_cont cit = Some (PAuto m)) ->
                 i_loaded cit = None) ->
  KK (put_item w m new).
Proof.
  intros Jw K Hm Dm Ec Es Hcont Hau HpC HpA Hnl. pose proof K as [R F N P A L].
  set (w' := put_item w m new).
  assert (Ho : forall j, j <> m -> get_item w' j = get_item w j) by (intros; now apply get_put_item_other).
  assert (Gm : get_item w' m = Some new) by apply get_put_item_same'.
  assert (Dn : direct new) by (unfold direct in *; now rewrite Ec).
  assert (Hst : forall j, item_state w' j = item_state w j) by (apply (item_state_put_direct w m old new Hm Dm Ec Es)).
  constructor.
  - intros j it _ G D. destruct (Nat.eq_dec j m) as [->|Nj]; [rewrite Gm in G; injection G as <-; contradiction|].
    rewrite (Ho j Nj) in G. apply (goodA_ext w w' j it it eq_refl eq_refl (Hst j)). now apply R.
  - intros j it G D. destruct (Nat.eq_dec j m) as [->|Nj]; [rewrite Gm in G; injection G as <-; contradiction|].
    rewrite (Ho j Nj) in G. now apply (F j it).
  - intros j it G D. apply (NAtid_srcs w w' _ eq_refl).
    destruct (Nat.eq_dec j m) as [->|Nj]; [rewrite Gm in G; injection G as <-; contradiction|].
    rewrite (Ho j Nj) in G. now apply (N j it).
  - intros j it x G. destruct (Nat.eq_dec j m) as [->|Nj].
    + rewrite Gm in G. injection G as <-. destruct (Hcont x) as (C1 & C2). split; intros H; contradiction.
    + rewrite (Ho j Nj) in G. destruct (P j it x G) as (P1 & P2). split; intros H.
      * destruct (Nat.eq_dec x m) as [->|Nx].
        -- exists new. split; [exact Gm|]. now apply (HpC j it).
        -- destruct (P1 H) as (xit & Gx & Hx). exists xit. now rewrite (Ho x Nx).
      * destruct (Nat.eq_dec x m) as [->|Nx].
        -- exists new. split; [exact Gm|]. now apply (HpA j it).
        -- destruct (P2 H) as (xit & Gx & Hx). exists xit. now rewrite (Ho x Nx).
  - intros j it G Hl. destruct (Nat.eq_dec j m) as [->|Nj].
    + rewrite Gm in G. injection G as <-. now apply Hau.
    + rewrite (Ho j Nj) in G. now apply (A j it).
  - intros j it G D Hl. destruct (Nat.eq_dec j m) as [->|Nj]; [rewrite Gm in G; injection G as <-; contradiction|].
    rewrite (Ho j Nj) in G. pose proof (L j it G D Hl) as Lj.
    (* the fit of a charge / autocharge is the fit of its directly held parent *)
    assert (Hp : exists x, i_cont it = Some (PCharge x) \/ i_cont it = Some (PAuto x)).
    { unfold item_fit in Lj. cbn [item_fit_n] in Lj. rewrite G in Lj.
      destruct (i_cont it) as [[f k|f k|f k|x|x]|] eqn:Ecj; try (exfalso; apply Lj; reflexivity);
        try (exfalso; destruct Jw as (_ & J2 & _); apply (proj1 (direct_childcls it)) in D;
             specialize (J2 j it G D); unfold fitcont_of in J2; rewrite Ecj in J2; discriminate).
      - exists x. now left.
      - exists x. now right. }
    destruct Hp as (x & Hp). destruct (parent_direct w j it x K G Hp) as (xit & Gx & Dx).
    pose proof (direct_cont_fit w x xit Jw K Gx Dx) as Hnx.
    rewrite (item_fit_child w j it x xit G Hp Gx Hnx) in Lj.
    assert (Gj' : get_item w' j = Some it) by (now rewrite (Ho j Nj)).
    destruct (Nat.eq_dec x m) as [->|Nx].
    + rewrite (item_fit_child w' j it m new Gj' Hp Gm Hcont).
      destruct (fitcont_of new) as [pl|] eqn:Ef.
      * unfold fitcont_of in Ef. destruct (i_cont new) as [[f k|f k|f k|z|z]|]; try discriminate;
          injection Ef as <-; cbn; discriminate.
      * exfalso. apply Hl. now apply (Hnl eq_refl j it G Hp).
    + assert (Gx' : get_item w' x = Some xit) by (now rewrite (Ho x Nx)).
      rewrite (item_fit_child w' j it x xit Gj' Hp Gx' Hnx). exact Lj.
Qed.

(* ------------------------------------------------------------------ *)
(* unload / remove_item of a directly held item                         *)

Lemma children_of_detached_unloaded w m mit c cit :
  J w -> KK w -> get_item w m = Some mit -> direct mit -> fitcont_of mit = None ->
  get_item w c = Some cit -> (i_cont cit = Some (PCharge m) \/ i_cont cit = Some (PAuto m)) ->
  i_loaded cit = None.
Proof.
  intros Jw K Hm Dm Hf Hc Hp.
  assert (Dc : ~ direct cit).
  { intros D. destruct (direct_cont_fit w c cit Jw K Hc D m) as (A1 & A2). destruct Hp; contradiction. }
  destruct (i_loaded cit) as [x|] eqn:El; [|reflexivity]. exfalso.
  apply (kk_nl _ K c cit Hc Dc); [congruence|].
  rewrite (item_fit_child w c cit m mit Hc Hp Hm (direct_cont_fit w m mit Jw K Hm Dm)). now rewrite Hf.
Qed.

(* removing a list of autocharges of m, one after the other *)
Lemma remove_autos_fold n m mit : forall (l : list (Z * nat)) (s : st),
  J (fst s) -> KK (fst s) -> get_item (fst s) m = Some mit -> direct mit ->
  (forall e a, In (e, a) l -> cls_of (fst s) a = Some CAutocharge) ->
  w_err (fst (fold_left (fun s0 (ea : Z * nat) => remove_item (S (S n)) s0 (snd ea)) l s)) = None ->
  let s' := fold_left (fun s0 (ea : Z * nat) => remove_item (S (S n)) s0 (snd ea)) l s in
  J (fst s') /\ KK (fst s') /\ get_item (fst s') m = Some mit /\
  (forall j, ~ In j (map snd l) -> get_item (fst s') j = get_item (fst s) j) /\
  w_srcs (fst s') = w_srcs (fst s) /\
  (forall e a, In (e, a) l -> exists ait, get_item (fst s') a = Some ait /\ i_cont ait = None /\ i_loaded ait = None).
Proof.
  induction l as [|[e a] l IH]; intros s Js K Hm Dm Hcls He; cbn [fold_left] in *.
  - cbv zeta. split; [exact Js|split; [exact K|split; [exact Hm|split; [auto|split; [reflexivity|intros e a []]]]]].
  - cbv zeta. cbn [snd] in *.
    set (s1 := remove_item (S (S n)) s a) in *.
    assert (He1 : w_err (fst s1) = None).
    { revert He. apply (C_fold sticky sticky_refl sticky_trans). intros s0 x. apply sticky_remove. }
    assert (Ca : cls_of (fst s) a = Some CAutocharge) by (apply (Hcls e a); now left).
    destruct (cls_of_some' _ _ _ Ca) as (ait & Ga & Eca).
    assert (Da : ~ direct ait) by (apply direct_childcls; left; exact Eca).
    destruct (remove_leaf n s a ait K Ga Da He1) as (K1 & U1 & ait' & Ga' & La' & Ca' & Ecl' & _).
    fold s1 in K1, U1, Ga'.
    assert (J1 : J (fst s1)).
    { apply (unload_keeps_ownership (S (S n))); [exact Js|]. eapply J_cls_fitcont; [exact Js|now left]. }
    assert (Nam : a <> m).
    { intros ->. rewrite Hm in Ga. injection Ga as <-. contradiction. }
    assert (Hm1 : get_item (fst s1) m = Some mit) by (destruct U1 as (_ & G); rewrite G; auto).
    assert (Hcls1 : forall e0 a0, In (e0, a0) l -> cls_of (fst s1) a0 = Some CAutocharge).
    { intros e0 a0 I. specialize (Hcls e0 a0 (or_intror I)). unfold cls_of in *.
      destruct (Nat.eq_dec a0 a) as [->|Na]; [rewrite Ga'; now rewrite Ecl', <- Eca|].
      destruct U1 as (_ & G). now rewrite (G a0 Na). }
    destruct (IH s1 J1 K1 Hm1 Dm Hcls1 He) as (J2 & K2 & Hm2 & Fr2 & Sr2 & Cl2).
    split; [exact J2|split; [exact K2|split; [exact Hm2|split; [|split]]]].
    + intros j Nj. rewrite Fr2 by (intros I; apply Nj; now right).
      destruct U1 as (_ & G). apply G. intros ->. apply Nj. now left.
    + rewrite Sr2. apply U1.
    + intros e0 a0 [E|I].
      * injection E as <- <-. destruct (in_dec Nat.eq_dec a (map snd l)) as [I|NI].
        -- apply in_map_iff in I as ([e1 a1] & E1 & I1). cbn in E1. subst a1. now apply (Cl2 e1 a).
        -- exists ait'. rewrite (Fr2 a NI). now repeat split.
      * now apply (Cl2 e0 a0).
Qed.

Lemma same_k_run_only_direct w w' m mit :
  run_only w w' m -> get_item w m = Some mit -> direct mit -> same_k w w'.
Proof.
  intros ((Hs & G) & R & _) Hm Dm. split; [exact Hs|]. intros j. destruct (Nat.eq_dec j m) as [->|N]; [|now rewrite G].
  destruct (R mit Hm) as (r & ->). rewrite Hm. cbn [option_map]. f_equal. unfold kview. f_equal.
  destruct (direct_dec (it_set_running mit r)) as [_|D']; [|exfalso; apply D'; exact Dm].
  destruct (direct_dec mit) as [_|D']; [reflexivity|contradiction].
Qed.

Theorem unload_dir n s m mit :
  J (fst s) -> KK (fst s) -> get_item (fst s) m = Some mit -> direct mit ->
  w_err (fst (unload (S (S (S n))) s m)) = None ->
  let w' := fst (unload (S (S (S n))) s m) in
  J w' /\ KK w' /\ w_srcs w' = w_srcs (fst s) /\
  (exists mit', get_item w' m = Some mit' /\ i_loaded mit' = None /\ i_autos mit' = [] /\
                i_cls mit' = i_cls mit /\ i_cont mit' = i_cont mit /\ i_state mit' = i_state mit /\
                i_charge mit' = i_charge mit /\ i_tid mit' = i_tid mit /\ i_modes mit' = i_modes mit) /\
  (forall j, j <> m -> ~ In j (map snd (i_autos mit)) -> get_item w' j = get_item (fst s) j).
Proof.
  intros Js K Hm Dm.
  set (s1 := match item_fit (fst s) m, i_loaded mit with
             | Some f, Some _ => with_msgs s f (fun w => item_unloaded_msgs w m)
             | _, _ => s end).
  assert (RO : run_only (fst s) (fst s1) m).
  { subst s1. destruct (item_fit (fst s) m) as [f|]; [|apply run_only_refl].
    destruct (i_loaded mit); [|apply run_only_refl]. unfold with_msgs.
    pose proof (unloaded_run_only (fst s) m) as H. destruct (item_unloaded_msgs (fst s) m). exact H. }
  assert (F1 : FC (fst s) (fst s1)).
  { subst s1. destruct (item_fit (fst s) m) as [f|]; [|apply FC_refl].
    destruct (i_loaded mit); [|apply FC_refl]. unfold with_msgs.
    pose proof (FC_item_unloaded_msgs (fst s) m) as H. destruct (item_unloaded_msgs (fst s) m). exact H. }
  pose proof (FC_J _ _ F1 Js) as J1.
  pose proof (KK_same_k _ _ (same_k_run_only_direct _ _ m mit RO Hm Dm) K) as K1.
  destruct RO as (U1 & R1 & _). destruct (R1 mit Hm) as (r & Hm1).
  set (mit1 := it_set_running mit r) in *.
  set (s2 := (fst s1, snd s1 ++ [EvClear m])).
  set (s4 := fold_left (fun s0 (ea : Z * nat) => remove_item (S (S n)) s0 (snd ea)) (i_autos mit) s2).
  assert (Eres : fst (unload (S (S (S n))) s m) =
                 upd_item (upd_item (fst s4) m (fun it => it_set_autos it [])) m (fun it => it_set_loaded it None)).
  { cbn [unload]. rewrite Hm. cbv zeta. fold s1. cbn [fst snd]. fold s2. change (fst s1) with (fst s2).
    change (fst s2) with (fst s1) at 1. rewrite Hm1. cbn [i_autos mit1 it_set_running]. fold s4. reflexivity. }
  cbv zeta. rewrite Eres. intros He.
  assert (He4 : w_err (fst s4) = None).
  { apply (sticky_upd _ m (fun it => it_set_autos it [])). apply (sticky_upd _ m (fun it => it_set_loaded it None)). exact He. }
  assert (Hcls : forall e a, In (e, a) (i_autos mit) -> cls_of (fst s2) a = Some CAutocharge).
  { intros e a I. destruct J1 as (_ & _ & J4 & _). apply (J4 m mit1 e a Hm1). exact I. }
  destruct (remove_autos_fold n m mit1 (i_autos mit) s2 J1 K1 Hm1 Dm Hcls He4) as (J4 & K4 & Hm4 & Fr4 & Sr4 & Cl4).
  fold s4 in J4, K4, Hm4, Fr4, Sr4, Cl4.
  set (mit5 := it_set_autos mit1 []).
  set (w5 := put_item (fst s4) m mit5).
  set (mit6 := it_set_loaded mit5 None).
  assert (E56 : upd_item (upd_item (fst s4) m (fun it => it_set_autos it [])) m (fun it => it_set_loaded it None)
                = put_item w5 m mit6).
  { unfold upd_item. rewrite Hm4. rewrite get_put_item_same'. reflexivity. }
  rewrite E56. clear E56.
  assert (Hnc : forall y, i_cont mit1 <> Some (PCharge y) /\ i_cont mit1 <> Some (PAuto y))
    by (apply (direct_cont_fit (fst s4) m mit1 J4 K4 Hm4 Dm)).
  assert (K5 : KK w5).
  { apply (KK_direct_put (fst s4) m mit1 mit5 J4 K4 Hm4 Dm); try reflexivity.
    - exact Hnc.
    - intros c cit Gc Hp. destruct (kk_pc _ K4 c cit m Gc) as (P1 & _). destruct (P1 Hp) as (x & Gx & Hx).
      rewrite Hm4 in Gx. injection Gx as <-. exact Hx.
    - intros c cit Gc Hp. exfalso. destruct (kk_pc _ K4 c cit m Gc) as (_ & P2). destruct (P2 Hp) as (x & Gx & Hx).
      rewrite Hm4 in Gx. injection Gx as <-. cbn [i_autos mit1 it_set_running] in Hx.
      apply in_map_iff in Hx as ([e a] & Ea & Ia). cbn in Ea. subst a.
      destruct (Cl4 e c Ia) as (ait & Ga & Ca & _). rewrite Gc in Ga. injection Ga as <-. congruence.
    - intros Hf c cit Gc Hp. apply (children_of_detached_unloaded (fst s4) m mit1 c cit J4 K4 Hm4 Dm Hf Gc Hp). }
  assert (J5 : J w5).
  { apply (J_put_keepcls (fst s4) m mit1 mit5 J4 Hm4 eq_refl).
    - intros C. exfalso. apply (proj2 (direct_childcls mit1)); [exact C|exact Dm].
    - intros e a [].
    - intros o Ho. destruct J4 as (_ & _ & _ & J5'). apply (J5' m mit1 o Hm4). exact Ho. }
  assert (Hm5 : get_item w5 m = Some mit5) by apply get_put_item_same'.
  assert (K6 : KK (put_item w5 m mit6)).
  { apply (KK_direct_put w5 m mit5 mit6 J5 K5 Hm5 Dm); try reflexivity.
    - exact Hnc.
    - intros c cit Gc Hp. destruct (kk_pc _ K5 c cit m Gc) as (P1 & _). destruct (P1 Hp) as (x & Gx & Hx).
      rewrite Hm5 in Gx. injection Gx as <-. exact Hx.
    - intros c cit Gc Hp. destruct (kk_pc _ K5 c cit m Gc) as (_ & P2). destruct (P2 Hp) as (x & Gx & Hx).
      rewrite Hm5 in Gx. injection Gx as <-. exact Hx.
    - intros Hf c cit Gc Hp. apply (children_of_detached_unloaded w5 m mit5 c cit J5 K5 Hm5 Dm Hf Gc Hp). }
  split; [|split; [exact K6|split; [|split]]].
  - apply (J_put_keepcls w5 m mit5 mit6 J5 Hm5 eq_refl).
    + intros C. exfalso. apply (proj2 (direct_childcls mit5)); [exact C|exact Dm].
    + intros e a [].
    + intros o Ho. destruct J5 as (_ & _ & _ & J5'). apply (J5' m mit5 o Hm5). exact Ho.
  - change (w_srcs (fst s4) = w_srcs (fst s)). rewrite Sr4. apply U1.
  - exists mit6. split; [apply get_put_item_same'|]. repeat split.
  - intros j Nj Na. rewrite get_put_item_other by exact Nj. unfold w5. rewrite get_put_item_other by exact Nj.
    rewrite (Fr4 j Na). destruct U1 as (_ & G). now apply G.
Qed.

(* ------------------------------------------------------------------ *)
(* loaded from the fit's current source                                 *)

(* a directly held item that is loaded sits in a container of a fit, and is loaded from the source the solar
   system of that fit has now *)
Definition LS (w : world) : Prop :=
  forall j jit src, get_item w j = Some jit -> direct jit -> i_loaded jit = Some src ->
    exists f, fit_of_place (i_cont jit) = Some f /\ fit_source_id w f = Some src.

Definition same_src (w w' : world) : Prop := forall f, fit_source_id w' f = fit_source_id w f.
Lemma same_src_refl w : same_src w w. Proof. intros f; reflexivity. Qed.
Lemma same_src_trans a b c : same_src a b -> same_src b c -> same_src a c.
Proof. intros H1 H2 f. now rewrite H2, H1. Qed.
Lemma same_src_structure w w' : structure w' = structure w -> same_src w w'.
Proof.
  intros H f. unfold structure in H. unfold fit_source_id, fit_solsys, get_fit, get_ss.
  assert (E1 : w_fits w' = w_fits w) by congruence. assert (E2 : w_ss w' = w_ss w) by congruence. now rewrite E1, E2.
Qed.

(* every directly held item of the new world is unloaded, or was there with the same container reference and
   loaded flag *)
Lemma LS_frame w w' :
  LS w -> same_src w w' ->
  (forall j jit', get_item w' j = Some jit' -> direct jit' ->
     i_loaded jit' = None \/
     exists jit, get_item w j = Some jit /\ direct jit /\ i_loaded jit = i_loaded jit' /\ i_cont jit = i_cont jit') ->
  LS w'.
Proof.
  intros L Ss Fr j jit' src G D Hl. destruct (Fr j jit' G D) as [E|(jit & G0 & D0 & El & Ec)]; [congruence|].
  rewrite <- El in Hl. destruct (L j jit src G0 D0 Hl) as (f & Ef & Es). exists f. split; [now rewrite <- Ec|now rewrite Ss].
Qed.

(* only item c changes, and c is a charge / autocharge *)
Lemma LS_upd1_leaf w w' c cit' :
  LS w -> upd1 w w' c -> structure w' = structure w -> get_item w' c = Some cit' -> ~ direct cit' -> LS w'.
Proof.
  intros L (_ & G) St Gc Dc. apply (LS_frame w w' L (same_src_structure _ _ St)).
  intros j jit' Gj Dj. right. destruct (Nat.eq_dec j c) as [->|N].
  - rewrite Gc in Gj. injection Gj as <-. contradiction.
  - exists jit'. rewrite <- (G j N). auto.
Qed.

(* the links after a directly held item was unloaded: its autocharges are gone from its dictionary and name
   nothing, everything else is as before *)
Lemma unload_dir_CP n s m mit :
  J (fst s) -> KK (fst s) -> CP (fst s) -> get_item (fst s) m = Some mit -> direct mit ->
  w_err (fst (unload (S (S (S n))) s m)) = None -> CP (fst (unload (S (S (S n))) s m)).
Proof.
  intros Js K Cp Hm Dm He.
  destruct (unload_dir n s m mit Js K Hm Dm He) as (J' & K' & _ & (mit' & Gm' & _ & Am' & _ & _ & _ & Ech & _) & Fr).
  pose proof (unload_KEEP (S (S (S n))) s m Js) as (_ & _ & _ & Ck).
  set (w' := fst (unload (S (S (S n))) s m)) in *.
  pose proof Cp as (C1 & C2 & C3).
  pose proof (direct_cont_fit (fst s) m mit Js K Hm Dm) as Hnc.
  (* an autocharge of m is a leaf of the new world *)
  assert (Leaf : forall a ait', In a (map snd (i_autos mit)) -> get_item w' a = Some ait' ->
                 i_charge ait' = None /\ i_autos ait' = []).
  { intros a ait' Ia Ga. apply in_map_iff in Ia as ([e a0] & Ea & Ia). cbn in Ea. subst a0.
    destruct Js as (_ & _ & J4 & _). pose proof (Ck _ _ (J4 m mit e a Hm Ia)) as Ca. unfold cls_of in Ca. fold w' in Ca.
    rewrite Ga in Ca. apply (kk_flat _ K' a ait' Ga). apply direct_childcls. left. congruence. }
  (* an item that names x <> m, or the charge slot of m, is untouched *)
  assert (KeepC : forall x c cit, get_item (fst s) c = Some cit -> i_cont cit = Some (PCharge x) ->
                  get_item w' c = Some cit).
  { intros x c cit Gc Ec. rewrite Fr; [exact Gc| |].
    - intros ->. rewrite Hm in Gc. injection Gc as <-. now apply (proj1 (Hnc x)).
    - intros Ia. destruct (C2 m mit c Hm Ia) as (y & Gy & Ey). congruence. }
  assert (KeepA : forall x b bit, x <> m -> get_item (fst s) b = Some bit -> i_cont bit = Some (PAuto x) ->
                  get_item w' b = Some bit).
  { intros x b bit Nx Gb Eb. rewrite Fr; [exact Gb| |].
    - intros ->. rewrite Hm in Gb. injection Gb as <-. now apply (proj2 (Hnc x)).
    - intros Ia. destruct (C2 m mit b Hm Ia) as (y & Gy & Ey). rewrite Gb in Gy. injection Gy as <-. congruence. }
  split; [|split].
  - intros x xit' c G Hc. destruct (Nat.eq_dec x m) as [->|Nx].
    + rewrite Gm' in G. injection G as <-. rewrite Ech in Hc.
      destruct (C1 m mit c Hm Hc) as (cit & Gc & Ec). exists cit. split; [now apply (KeepC m)|exact Ec].
    + destruct (in_dec Nat.eq_dec x (map snd (i_autos mit))) as [Ia|Na].
      * destruct (Leaf x xit' Ia G) as (L1 & _). congruence.
      * rewrite (Fr x Nx Na) in G. destruct (C1 x xit' c G Hc) as (cit & Gc & Ec). exists cit. split; [now apply (KeepC x)|exact Ec].
  - intros x xit' b G Hb. destruct (Nat.eq_dec x m) as [->|Nx].
    + rewrite Gm' in G. injection G as <-. rewrite Am' in Hb. destruct Hb.
    + destruct (in_dec Nat.eq_dec x (map snd (i_autos mit))) as [Ia|Na].
      * destruct (Leaf x xit' Ia G) as (_ & L2). rewrite L2 in Hb. destruct Hb.
      * rewrite (Fr x Nx Na) in G. destruct (C2 x xit' b G Hb) as (bit & Gb & Eb). exists bit. split; [now apply (KeepA x)|exact Eb].
  - intros x xit' G. destruct (Nat.eq_dec x m) as [->|Nx].
    + rewrite Gm' in G. injection G as <-. rewrite Am'. constructor.
    + destruct (in_dec Nat.eq_dec x (map snd (i_autos mit))) as [Ia|Na].
      * destruct (Leaf x xit' Ia G) as (_ & L2). rewrite L2. constructor.
      * rewrite (Fr x Nx Na) in G. now apply (C3 x xit').
Qed.

Lemma unload_dir_LS n s m mit :
  J (fst s) -> KK (fst s) -> LS (fst s) -> get_item (fst s) m = Some mit -> direct mit ->
  w_err (fst (unload (S (S (S n))) s m)) = None -> LS (fst (unload (S (S (S n))) s m)).
Proof.
  intros Js K L Hm Dm He.
  destruct (unload_dir n s m mit Js K Hm Dm He) as (J' & K' & _ & (mit' & Gm' & Lm' & _) & Fr).
  pose proof (unload_KEEP (S (S (S n))) s m Js) as (_ & _ & _ & Ck).
  apply (LS_frame (fst s) _ L (same_src_structure _ _ (S_unload _ s m))).
  intros j jit' Gj Dj. destruct (Nat.eq_dec j m) as [->|Nj].
  - left. rewrite Gm' in Gj. injection Gj as <-. exact Lm'.
  - right. destruct (in_dec Nat.eq_dec j (map snd (i_autos mit))) as [Ia|Na].
    + exfalso. apply in_map_iff in Ia as ([e a] & Ea & Ia). cbn in Ea. subst a.
      destruct Js as (_ & _ & J4 & _). pose proof (Ck _ _ (J4 m mit e j Hm Ia)) as Ca. unfold cls_of in Ca.
      rewrite Gj in Ca. injection Ca as Ca. apply (proj2 (direct_childcls jit')); [left; exact Ca|exact Dj].
    + exists jit'. rewrite <- (Fr j Nj Na). auto.
Qed.

Theorem remove_dir n s m mit :
  J (fst s) -> KK (fst s) -> CP (fst s) -> LS (fst s) -> get_item (fst s) m = Some mit -> direct mit ->
  w_err (fst (remove_item (S (S (S (S n)))) s m)) = None ->
  let w' := fst (remove_item (S (S (S (S n)))) s m) in
  KK w' /\ w_srcs w' = w_srcs (fst s) /\
  (exists mit', get_item w' m = Some mit' /\ i_loaded mit' = None /\ i_cont mit' = None /\ i_autos mit' = [] /\
                i_cls mit' = i_cls mit /\ i_state mit' = i_state mit /\ i_charge mit' = i_charge mit) /\ CP w' /\ LS w'.
Proof.
  intros Js K Cp Ls Hm Dm.
  set (fit := item_fit (fst s) m).
  set (one := fun (s : st) sub => let s := unload (S (S (S n))) s sub in
                                  match fit with
                                  | Some f => with_msgs s f (fun w => item_removed_msgs w sub)
                                  | None => s
                                  end).
  set (s1 := one s m).
  set (s2 := match get_item (fst s1) m with
             | Some it => fold_left one (child_items it true) s1
             | None => lift s1 (fun w => fail w EKeyAbsent)
             end).
  assert (Eres : fst (remove_item (S (S (S (S n)))) s m) = upd_item (fst s2) m (fun it => it_set_cont it None))
    by reflexivity.
  cbv zeta. rewrite Eres. intros He.
  assert (He2 : w_err (fst s2) = None) by (apply (sticky_upd _ m (fun it => it_set_cont it None)); exact He).
  assert (Sone : forall s0 x, sticky (fst s0) (fst (one s0 x))).
  { intros s0 x. unfold one. cbv zeta. eapply sticky_trans; [apply sticky_unload|].
    destruct fit; [|apply sticky_refl]. apply with_msgs_sticky. intros; apply removed_sticky. }
  assert (He1 : w_err (fst s1) = None).
  { subst s2. destruct (get_item (fst s1) m).
    - revert He2. apply (C_fold sticky sticky_refl sticky_trans). intros; apply Sone.
    - unfold lift in He2. cbn [fst] in He2. destruct (err_fail_none _ _ He2). }
  set (su := unload (S (S (S n))) s m).
  assert (Esu : fst s1 = fst su).
  { unfold s1, one. cbv zeta. fold su. destruct fit as [f|]; [|reflexivity].
    apply with_msgs_removed_same. exact He1. }
  assert (Heu : w_err (fst su) = None) by (now rewrite <- Esu).
  destruct (unload_dir n s m mit Js K Hm Dm Heu) as (Ju & Ku & Sru & (mu & Gmu & Lmu & Amu & Ecl & Eco & Est & Ech & Etd & Emo) & Fru).
  pose proof (unload_dir_CP n s m mit Js K Cp Hm Dm Heu) as Cpu.
  pose proof (unload_dir_LS n s m mit Js K Ls Hm Dm Heu) as Lsu.
  fold su in Ju, Ku, Sru, Gmu, Fru, Cpu, Lsu.
  assert (Dmu : direct mu) by (unfold direct in *; now rewrite Ecl).
  (* the charge, if any, is unloaded next *)
  assert (Gm1 : get_item (fst s1) m = Some mu) by (now rewrite Esu).
  assert (S2 : J (fst s2) /\ KK (fst s2) /\ w_srcs (fst s2) = w_srcs (fst su) /\ get_item (fst s2) m = Some mu /\
               (forall c, i_charge mu = Some c -> exists cit, get_item (fst s2) c = Some cit /\ i_loaded cit = None) /\
               CP (fst s2) /\ LS (fst s2)).
  { assert (Eone : forall s0 x, w_err (fst (one s0 x)) = None -> fst (one s0 x) = fst (unload (S (S (S n))) s0 x)).
    { intros s0 x H. unfold one in *. cbv zeta in *. destruct fit as [f|]; [|reflexivity].
      now apply with_msgs_removed_same. }
    subst s2. rewrite Gm1 in *. unfold child_items in *. rewrite app_nil_r in *.
    destruct (i_charge mu) as [c|] eqn:Ec.
    - cbn [fold_left] in *. rewrite (Eone s1 c He2).
      set (sc := unload (S (S (S n))) s1 c).
      assert (Hec : w_err (fst sc) = None) by (unfold sc; rewrite <- (Eone s1 c He2); exact He2).
      assert (Cc : cls_of (fst su) c = Some CCharge).
      { destruct Ju as (_ & _ & _ & J5). apply (J5 m mu c Gmu Ec). }
      destruct (cls_of_some' _ _ _ Cc) as (cit & Gc & Ecc).
      assert (Dc : ~ direct cit) by (apply direct_childcls; right; exact Ecc).
      rewrite <- Esu in Ku, Gc, Ju, Cpu, Lsu.
      destruct (unload_leaf (S (S n)) s1 c cit Ku Gc Dc Hec) as (Kc & Uc & cit' & Gc' & Lc' & Vc' & _).
      fold sc in Kc, Uc, Gc'.
      assert (Jc : J (fst sc)) by (apply (unload_KEEP (S (S (S n))) s1 c Ju)).
      assert (Ncm : c <> m).
      { intros ->. rewrite Gm1 in Gc. injection Gc as <-. contradiction. }
      split; [exact Jc|split; [exact Kc|split; [|split; [|split]]]].
      + rewrite <- Esu. apply Uc.
      + destruct Uc as (_ & G). rewrite (G m); [exact Gm1|]. intros E. now apply Ncm.
      + intros c0 E0. injection E0 as <-. exists cit'. now split.
      + split; [apply (CP_same_l (fst s1)); [|exact Cpu]; apply (same_l_upd1_view (fst s1) _ c cit cit' Uc Gc Gc' Vc')|].
        apply (LS_upd1_leaf (fst s1) _ c cit' Lsu Uc (S_unload _ s1 c) Gc').
        unfold view in Vc'. assert (Ecx : i_cls cit' = i_cls cit) by congruence. unfold direct in *. now rewrite Ecx.
    - cbn [fold_left]. rewrite Esu.
      split; [exact Ju|split; [exact Ku|split; [reflexivity|split; [exact Gmu|split; [intros c0 E0; discriminate|split; [exact Cpu|exact Lsu]]]]]]. }
  destruct S2 as (J2 & K2 & Sr2 & Gm2 & Ch2 & Cp2 & Ls2).
  unfold upd_item. rewrite Gm2.
  assert (Hnc : forall y, i_cont mu <> Some (PCharge y) /\ i_cont mu <> Some (PAuto y))
    by (apply (direct_cont_fit (fst s2) m mu J2 K2 Gm2 Dmu)).
  split; [|split].
  - apply (KK_direct_put (fst s2) m mu (it_set_cont mu None) J2 K2 Gm2 Dmu); try reflexivity.
    + intros y. cbn. split; discriminate.
    + intros Hl. exact Amu.
    + intros c cit Gc Hp. destruct (kk_pc _ K2 c cit m Gc) as (P1 & _). destruct (P1 Hp) as (x & Gx & Hx).
      rewrite Gm2 in Gx. injection Gx as <-. exact Hx.
    + intros c cit Gc Hp. destruct (kk_pc _ K2 c cit m Gc) as (_ & P2). destruct (P2 Hp) as (x & Gx & Hx).
      rewrite Gm2 in Gx. injection Gx as <-. exact Hx.
    + intros _ c cit Gc [Hp|Hp].
      * destruct (kk_pc _ K2 c cit m Gc) as (P1 & _). destruct (P1 Hp) as (x & Gx & Hx).
        rewrite Gm2 in Gx. injection Gx as <-. destruct (Ch2 c Hx) as (cit2 & Gc2 & Lc2). congruence.
      * exfalso. destruct (kk_pc _ K2 c cit m Gc) as (_ & P2). destruct (P2 Hp) as (x & Gx & Hx).
        rewrite Gm2 in Gx. injection Gx as <-. rewrite Amu in Hx. destruct Hx.
  - change (w_srcs (fst s2) = w_srcs (fst s)). now rewrite Sr2, Sru.
  - split; [exists (it_set_cont mu None); split; [apply get_put_item_same'|]; cbn; repeat split; assumption|].
    split; [apply (CP_put_unlisted (fst s2) m mu (it_set_cont mu None) Cp2 Gm2 eq_refl eq_refl);
            apply (CP_direct_unlisted (fst s2) m mu Cp2 Gm2 Hnc)|].
    apply (LS_frame (fst s2) _ Ls2); [apply same_src_structure; apply S_put_item|].
    intros j jit' Gj Dj. destruct (Nat.eq_dec j m) as [->|Nj].
    + left. rewrite get_put_item_same' in Gj. injection Gj as <-. cbn. exact Lmu.
    + right. rewrite get_put_item_other in Gj by exact Nj. exists jit'. auto.
Qed.

(* ------------------------------------------------------------------ *)
(* load / add_item of a directly held item                              *)

Lemma KK_set_next w n : KK w -> KK (set_next w n).
Proof.
  intros [R F N P A L]. constructor.
  - intros j it Hx G D. apply (goodA_ext w (set_next w n) j it it eq_refl eq_refl eq_refl). now apply R.
  - exact F.
  - intros c cit G D. apply (NAtid_srcs w (set_next w n) _ eq_refl). now apply (N c cit).
  - exact P.
  - exact A.
  - exact L.
Qed.

(* a new charge / autocharge item with a fresh id *)
Lemma KK_new_child w a tid st lvl c :
  KK w -> get_item w a = None -> (c = CAutocharge \/ c = CCharge) -> NAtid w tid ->
  (forall x xit, get_item w x = Some xit -> i_charge xit <> Some a /\ ~ In a (map snd (i_autos xit))) ->
  KK (put_item w a (new_item c tid st lvl)).
Proof.
  intros K Ha Hc Hna Hun. pose proof K as [R F N P A L].
  set (new := new_item c tid st lvl). set (w' := put_item w a new).
  assert (Ho : forall j, j <> a -> get_item w' j = get_item w j) by (intros; now apply get_put_item_other).
  assert (Ga : get_item w' a = Some new) by apply get_put_item_same'.
  assert (Dn : ~ direct new) by (apply direct_childcls; exact Hc).
  (* nobody names a as its container: a did not exist, and listed items exist *)
  assert (Un : forall x xit, get_item w x = Some xit -> i_cont xit <> Some (PCharge a) /\ i_cont xit <> Some (PAuto a)).
  { intros x xit Gx. destruct (P x xit a Gx) as (P1 & P2). split; intros H.
    - destruct (P1 H) as (y & Gy & _). congruence.
    - destruct (P2 H) as (y & Gy & _). congruence. }
  assert (Hst : forall j, j <> a -> item_state w' j = item_state w j).
  { unfold item_state. generalize 4%nat. induction n as [|n IH]; intros j Nj; cbn [item_state_n]; [reflexivity|].
    rewrite (Ho j Nj). destruct (get_item w j) as [it|] eqn:G; [|reflexivity].
    destruct (cr_state (class_row_of (i_cls it))); try reflexivity.
    destruct (Un j it G) as (U1 & U2).
    destruct (i_cont it) as [[| | |p|p]|]; try reflexivity; apply IH; intros ->; congruence. }
  assert (Hft : forall j, j <> a -> item_fit w' j = item_fit w j).
  { unfold item_fit. generalize 4%nat. induction n as [|n IH]; intros j Nj; cbn [item_fit_n]; [reflexivity|].
    rewrite (Ho j Nj). destruct (get_item w j) as [it|] eqn:G; [|reflexivity].
    destruct (Un j it G) as (U1 & U2).
    destruct (i_cont it) as [[| | |p|p]|]; try reflexivity; apply IH; intros ->; congruence. }
  constructor.
  - intros j it _ G D. destruct (Nat.eq_dec j a) as [->|Nj].
    + rewrite Ga in G. injection G as <-. split; [|split]; cbn; [reflexivity|discriminate|congruence].
    + rewrite (Ho j Nj) in G. apply (goodA_ext w w' j it it eq_refl eq_refl (Hst j Nj)). now apply R.
  - intros j it G D. destruct (Nat.eq_dec j a) as [->|Nj].
    + rewrite Ga in G. injection G as <-. now split.
    + rewrite (Ho j Nj) in G. now apply (F j it).
  - intros j it G D. apply (NAtid_srcs w w' _ eq_refl). destruct (Nat.eq_dec j a) as [->|Nj].
    + rewrite Ga in G. injection G as <-. exact Hna.
    + rewrite (Ho j Nj) in G. now apply (N j it).
  - intros j it x G. destruct (Nat.eq_dec j a) as [->|Nj].
    + rewrite Ga in G. injection G as <-. split; discriminate.
    + rewrite (Ho j Nj) in G. destruct (P j it x G) as (P1 & P2).
      assert (Nx : forall y, get_item w x = Some y -> get_item w' x = Some y).
      { intros y Gy. rewrite Ho; [exact Gy|]. intros ->. congruence. }
      split; intros H.
      * destruct (P1 H) as (y & Gy & Hy). exists y. split; [now apply Nx|exact Hy].
      * destruct (P2 H) as (y & Gy & Hy). exists y. split; [now apply Nx|exact Hy].
  - intros j it G Hl. destruct (Nat.eq_dec j a) as [->|Nj].
    + rewrite Ga in G. injection G as <-. reflexivity.
    + rewrite (Ho j Nj) in G. now apply (A j it).
  - intros j it G D Hl. destruct (Nat.eq_dec j a) as [->|Nj].
    + rewrite Ga in G. injection G as <-. cbn in Hl. congruence.
    + rewrite (Ho j Nj) in G. rewrite (Hft j Nj). now apply (L j it).
Qed.

Lemma NoDup_app_snoc {A} (l : list A) x : NoDup l -> ~ In x l -> NoDup (l ++ [x]).
Proof.
  induction l as [|y l IH]; cbn; intros H N; [constructor; [intros []|constructor]|].
  inversion H as [|? ? Ny H']; subst. constructor.
  - intros I. apply in_app_or in I as [I|[<-|[]]]; [contradiction|]. apply N. now left.
  - apply IH; [exact H'|]. intros I. apply N. now right.
Qed.
Lemma al_set_absent_snd (l : list (Z * nat)) k v :
  al_get zeqb l k = None -> map snd (al_set zeqb l k v) = map snd l ++ [v] /\
                            map fst (al_set zeqb l k v) = map fst l ++ [k].
Proof.
  induction l as [|[k0 v0] r IH]; cbn; [intros _; split; reflexivity|]. destruct (zeqb k k0); [discriminate|].
  intros H. destruct (IH H) as (H1 & H2). cbn. now rewrite H1, H2.
Qed.
Lemma al_get_set_other_z (l : list (Z * nat)) k v k' : k' <> k -> al_get zeqb (al_set zeqb l k v) k' = al_get zeqb l k'.
Proof.
  intros N. induction l as [|[k0 v0] r IH]; cbn.
  - unfold zeqb. destruct (Z.eqb_spec k' k); [contradiction|reflexivity].
  - unfold zeqb in *. destruct (Z.eqb_spec k k0); cbn.
    + subst k0. destruct (Z.eqb_spec k' k); [contradiction|reflexivity].
    + destruct (Z.eqb_spec k' k0); [reflexivity|exact IH].
Qed.

(* one autocharge is created for m, linked and loaded *)
Lemma new_auto_step n (s : st) m mit e tid :
  J (fst s) -> KK (fst s) -> get_item (fst s) m = Some mit -> direct mit -> i_loaded mit <> None ->
  al_get zeqb (i_autos mit) e = None -> NAtid (fst s) tid ->
  let a := w_next (fst s) in
  let s1 := lift s (fun w =>
              let w := set_next w (S a) in
              let w := put_item w a (new_item CAutocharge tid State_offline 0) in
              upd_item w m (fun it => it_set_autos it (al_set zeqb (i_autos it) e a))) in
  w_err (fst (add_item (S (S n)) s1 a (PAuto m))) = None ->
  let w' := fst (add_item (S (S n)) s1 a (PAuto m)) in
  J w' /\ KK w' /\ w_srcs w' = w_srcs (fst s) /\
  get_item w' m = Some (it_set_autos mit (al_set zeqb (i_autos mit) e a)) /\
  (forall j, j <> m -> j <> a -> get_item w' j = get_item (fst s) j) /\
  (exists ait, get_item w' a = Some ait /\ i_cont ait = Some (PAuto m)).
Proof.
  intros Js K Hm Dm Hld He Hna. cbv zeta.
  set (a := w_next (fst s)).
  set (nit := new_item CAutocharge tid State_offline 0).
  set (w0 := set_next (fst s) (S a)).
  set (w1 := put_item w0 a nit).
  set (mit' := it_set_autos mit (al_set zeqb (i_autos mit) e a)).
  assert (Fresh : get_item (fst s) a = None).
  { destruct (get_item (fst s) a) as [x|] eqn:E; [|reflexivity]. destruct Js as (I & _). apply I in E. unfold a in E. lia. }
  assert (Nam : a <> m) by (intros E; rewrite E in Fresh; congruence).
  assert (Hm1 : get_item w1 m = Some mit).
  { unfold w1. rewrite get_put_item_other by (intros E; now apply Nam). exact Hm. }
  set (s1 := lift s _).
  assert (E1 : fst s1 = put_item w1 m mit').
  { unfold s1, lift. cbn [fst]. fold a. fold nit. fold w0. fold w1. unfold upd_item. rewrite Hm1. reflexivity. }
  destruct (KEEP_new_autocharge (fst s) m e tid Js) as (Kn & Fa). fold a in Kn, Fa.
  assert (J1 : J (fst s1)) by (destruct Kn as (_ & _ & Jx & _); exact Jx).
  assert (Fa1 : fitcont (fst s1) a = None) by exact Fa.
  (* KK of the world with the new, still unlinked item *)
  assert (K0 : KK w0) by (apply KK_set_next; exact K).
  assert (K1 : KK w1).
  { apply (KK_new_child w0 a tid State_offline 0 CAutocharge K0); [exact Fresh|now left|exact Hna|].
    intros x xit Gx. split.
    - intros H. destruct Js as (I & _ & _ & J5). pose proof (J5 x xit a Gx H) as C. unfold cls_of in C.
      change (get_item (fst s) a) with (get_item (fst s) a) in C. rewrite Fresh in C. discriminate.
    - intros H. apply in_map_iff in H as ([e0 a0] & Ea & H). cbn in Ea. subst a0.
      destruct Js as (I & _ & J4 & _). pose proof (J4 x xit e0 a Gx H) as C. unfold cls_of in C.
      rewrite Fresh in C. discriminate. }
  assert (Jw1 : J w1).
  { (* the world before the parent is updated: the frame lemma's intermediate world *)
    destruct Js as (I & J3 & J4 & J5). split; [|split; [|split]].
    - intros j it H. unfold w1, w0 in *. cbn [w_next put_item set_items set_next]. destruct (Nat.eq_dec j a) as [->|N]; [lia|].
      rewrite get_put_item_other in H by exact N. apply I in H. unfold a. lia.
    - intros j it H C. destruct (Nat.eq_dec j a) as [->|N].
      + unfold w1 in H. rewrite get_put_item_same' in H. injection H as <-. reflexivity.
      + unfold w1 in H. rewrite get_put_item_other in H by exact N. eapply J3; eauto.
    - intros j it e0 a0 H Hin. destruct (Nat.eq_dec j a) as [->|N].
      + unfold w1 in H. rewrite get_put_item_same' in H. injection H as <-. destruct Hin.
      + unfold w1 in H. rewrite get_put_item_other in H by exact N. pose proof (J4 j it e0 a0 H Hin) as C.
        unfold cls_of in *. destruct (Nat.eq_dec a0 a) as [->|Na]; [now rewrite Fresh in C|].
        unfold w1. now rewrite get_put_item_other.
    - intros j it o H Ho. destruct (Nat.eq_dec j a) as [->|N].
      + unfold w1 in H. rewrite get_put_item_same' in H. injection H as <-. discriminate.
      + unfold w1 in H. rewrite get_put_item_other in H by exact N. pose proof (J5 j it o H Ho) as C.
        unfold cls_of in *. destruct (Nat.eq_dec o a) as [->|Na]; [now rewrite Fresh in C|].
        unfold w1. now rewrite get_put_item_other. }
  destruct (al_set_absent_snd (i_autos mit) e a He) as (Esnd & _).
  assert (K2 : KK (fst s1)).
  { rewrite E1. apply (KK_direct_put w1 m mit mit' Jw1 K1 Hm1 Dm); try reflexivity.
    - apply (direct_cont_fit w1 m mit Jw1 K1 Hm1 Dm).
    - intros Hl. exfalso. apply Hld. exact Hl.
    - intros c cit Gc Hp. destruct (kk_pc _ K1 c cit m Gc) as (P1 & _). destruct (P1 Hp) as (x & Gx & Hx).
      rewrite Hm1 in Gx. injection Gx as <-. exact Hx.
    - intros c cit Gc Hp. destruct (kk_pc _ K1 c cit m Gc) as (_ & P2). destruct (P2 Hp) as (x & Gx & Hx).
      rewrite Hm1 in Gx. injection Gx as <-. cbn [i_autos mit' it_set_autos]. rewrite Esnd. apply in_or_app. now left.
    - intros Hf c cit Gc Hp. apply (children_of_detached_unloaded w1 m mit c cit Jw1 K1 Hm1 Dm Hf Gc Hp). }
  (* the new item is linked and loaded *)
  assert (Ga1 : get_item (fst s1) a = Some nit).
  { rewrite E1. rewrite get_put_item_other by exact Nam. unfold w1. apply get_put_item_same'. }
  assert (Dn : ~ direct nit) by (apply direct_childcls; now left).
  intros Herr.
  destruct (add_leaf n s1 a nit (PAuto m) K2 Ga1 Dn eq_refl) as (K3 & U3 & (ait & Gait & Cait & _)); [| |exact Herr|].
  - intros x E. discriminate.
  - intros x E. injection E as <-. exists mit'. split; [rewrite E1; apply get_put_item_same'|].
    cbn [i_autos mit' it_set_autos]. rewrite Esnd. apply in_or_app. right. now left.
  - split; [|split; [exact K3|split; [|split; [|split]]]].
    + apply (load_keeps_ownership (S (S n))); [exact J1|exact Fa1].
    + destruct U3 as (S3 & _). rewrite S3, E1. reflexivity.
    + destruct U3 as (_ & G3). rewrite (G3 m) by (intros E; now apply Nam). rewrite E1. apply get_put_item_same'.
    + intros j Njm Nja. destruct U3 as (_ & G3). rewrite (G3 j Nja), E1.
      rewrite get_put_item_other by exact Njm. unfold w1. now rewrite get_put_item_other.
    + exists ait. now split.
Qed.

(* CP after one new autocharge *)
Lemma CP_new_auto w w' m mit e a :
  CP w -> get_item w m = Some mit -> get_item w a = None -> al_get zeqb (i_autos mit) e = None ->
  get_item w' m = Some (it_set_autos mit (al_set zeqb (i_autos mit) e a)) ->
  (forall j, j <> m -> j <> a -> get_item w' j = get_item w j) ->
  (exists ait, get_item w' a = Some ait /\ i_cont ait = Some (PAuto m) /\ i_charge ait = None /\ i_autos ait = []) ->
  CP w'.
Proof.
  intros (C1 & C2 & C3) Hm Fresh He Gm Fr (ait & Ga & Ca & Cha & Aua).
  assert (Nam : a <> m) by (intros E; rewrite E in Fresh; congruence).
  destruct (al_set_absent_snd (i_autos mit) e a He) as (Esnd & _).
  (* an item of the old world is there with the same container reference *)
  assert (Keep : forall c cit p, get_item w c = Some cit -> i_cont cit = Some p ->
                 exists cit', get_item w' c = Some cit' /\ i_cont cit' = Some p).
  { intros c cit p Gc Ec. destruct (Nat.eq_dec c m) as [->|Ncm].
    - rewrite Hm in Gc. injection Gc as <-. eexists. split; [exact Gm|exact Ec].
    - assert (Nca : c <> a) by (intros E; rewrite E in Gc; congruence).
      exists cit. split; [now rewrite (Fr c Ncm Nca)|exact Ec]. }
  assert (Back : forall x xit', get_item w' x = Some xit' -> x <> a ->
                 exists xit, get_item w x = Some xit /\ i_charge xit' = i_charge xit /\
                             (x <> m -> i_autos xit' = i_autos xit)).
  { intros x xit' G Nxa. destruct (Nat.eq_dec x m) as [->|N].
    - rewrite Gm in G. injection G as <-. exists mit. split; [exact Hm|split; [reflexivity|congruence]].
    - rewrite (Fr x N Nxa) in G. exists xit'. auto. }
  split; [|split].
  - intros x xit' c G Hc. destruct (Nat.eq_dec x a) as [->|Nxa]; [rewrite Ga in G; injection G as <-; congruence|].
    destruct (Back x xit' G Nxa) as (xit & G0 & E1 & _). rewrite E1 in Hc.
    destruct (C1 x xit c G0 Hc) as (cit & Gc & Ec). now apply (Keep c cit).
  - intros x xit' b G Hb. destruct (Nat.eq_dec x a) as [->|Nxa].
    { rewrite Ga in G. injection G as <-. rewrite Aua in Hb. destruct Hb. }
    destruct (Nat.eq_dec x m) as [->|Nxm].
    + rewrite Gm in G. injection G as <-. cbn [i_autos it_set_autos] in Hb. rewrite Esnd in Hb.
      apply in_app_or in Hb as [Hb|[<-|[]]].
      * destruct (C2 m mit b Hm Hb) as (bit & Gb & Eb). now apply (Keep b bit).
      * exists ait. now split.
    + destruct (Back x xit' G Nxa) as (xit & G0 & _ & E2). rewrite (E2 Nxm) in Hb.
      destruct (C2 x xit b G0 Hb) as (bit & Gb & Eb). now apply (Keep b bit).
  - intros x xit' G. destruct (Nat.eq_dec x a) as [->|Nxa].
    { rewrite Ga in G. injection G as <-. rewrite Aua. constructor. }
    destruct (Nat.eq_dec x m) as [->|Nxm].
    + rewrite Gm in G. injection G as <-. cbn [i_autos it_set_autos]. rewrite Esnd.
      apply NoDup_app_snoc; [now apply (C3 m mit)|]. intros I. destruct (C2 m mit a Hm I) as (y & Gy & _). congruence.
    + destruct (Back x xit' G Nxa) as (xit & G0 & _ & E2). rewrite (E2 Nxm). now apply (C3 x xit).
Qed.

Definition auto_stepf (n : nat) (t : itype) (m : nat) (s : st) (ee : Z * effect) : st :=
  match e_autocharge_attr (snd ee) with
  | None => s
  | Some aa =>
    match al_get zeqb (t_attrs t) aa with
    | None => s
    | Some q =>
      let a := w_next (fst s) in
      let s := lift s (fun w =>
                 let w := set_next w (S a) in
                 let w := put_item w a (new_item CAutocharge (q_trunc q) State_offline 0) in
                 upd_item w m (fun it => it_set_autos it (al_set zeqb (i_autos it) (fst ee) a))) in
      add_item n s a (PAuto m)
    end
  end.

Lemma auto_stepf_sticky n t m s ee : sticky (fst s) (fst (auto_stepf n t m s ee)).
Proof.
  unfold auto_stepf. destruct (e_autocharge_attr (snd ee)); [|apply sticky_refl].
  destruct (al_get zeqb (t_attrs t) z); [|apply sticky_refl]. cbv zeta.
  eapply sticky_trans; [|apply sticky_add]. unfold lift. cbn [fst].
  eapply sticky_trans; [apply sticky_set_next|]. eapply sticky_trans; [apply sticky_put|apply sticky_upd].
Qed.

(* the fields of m that creating autocharges leaves alone *)
Definition mk (it : item) := (i_cls it, i_tid it, i_state it, i_cont it, i_loaded it, i_running it, i_modes it, i_charge it).

Lemma autos_fold n t m : forall (l : list (Z * effect)) (s : st) (mit : item),
  J (fst s) -> KK (fst s) -> CP (fst s) -> get_item (fst s) m = Some mit -> direct mit -> i_loaded mit <> None ->
  NoDup (map fst l) -> (forall e, In e (map fst l) -> al_get zeqb (i_autos mit) e = None) ->
  (forall e ef aa q, In (e, ef) l -> e_autocharge_attr ef = Some aa -> al_get zeqb (t_attrs t) aa = Some q ->
                     NAtid (fst s) (q_trunc q)) ->
  w_err (fst (fold_left (auto_stepf (S (S n)) t m) l s)) = None ->
  let s' := fold_left (auto_stepf (S (S n)) t m) l s in
  J (fst s') /\ KK (fst s') /\ w_srcs (fst s') = w_srcs (fst s) /\
  (exists mit', get_item (fst s') m = Some mit' /\ mk mit' = mk mit) /\
  (forall j, j <> m -> (j < w_next (fst s))%nat -> get_item (fst s') j = get_item (fst s) j) /\
  (w_next (fst s) <= w_next (fst s'))%nat /\ CP (fst s').
Proof.
  induction l as [|[e ef] l IH]; intros s mit Js K Cp Hm Dm Hld Hnd Hk Hna He; cbn [fold_left] in *.
  - cbv zeta. split; [exact Js|split; [exact K|split; [reflexivity|split; [exists mit; auto|split; [auto|split; [lia|exact Cp]]]]]].
  - cbv zeta. inversion Hnd as [|? ? Ne Hnd']; subst.
    set (s1 := auto_stepf (S (S n)) t m s (e, ef)) in *.
    assert (He1 : w_err (fst s1) = None).
    { revert He. apply (C_fold sticky sticky_refl sticky_trans). intros; apply auto_stepf_sticky. }
    assert (Step : J (fst s1) /\ KK (fst s1) /\ w_srcs (fst s1) = w_srcs (fst s) /\
                   (exists mit1, get_item (fst s1) m = Some mit1 /\ mk mit1 = mk mit /\
                                 (forall e', e' <> e -> al_get zeqb (i_autos mit1) e' = al_get zeqb (i_autos mit) e')) /\
                   (forall j, j <> m -> (j < w_next (fst s))%nat -> get_item (fst s1) j = get_item (fst s) j) /\
                   (w_next (fst s) <= w_next (fst s1))%nat /\ CP (fst s1)).
    { unfold s1, auto_stepf in *. cbn [snd fst] in *. destruct (e_autocharge_attr ef) as [aa|] eqn:Ea.
      - destruct (al_get zeqb (t_attrs t) aa) as [q|] eqn:Eq.
        + cbv zeta in *.
          assert (Hk0 : al_get zeqb (i_autos mit) e = None) by (apply Hk; now left).
          assert (Hn0 : NAtid (fst s) (q_trunc q)) by (apply (Hna e ef aa q); [now left|exact Ea|exact Eq]).
          destruct (new_auto_step n s m mit e (q_trunc q) Js K Hm Dm Hld Hk0 Hn0 He1) as (J1 & K1 & S1 & G1 & F1 & (ait & Gait & Cait)).
          assert (Fresh : get_item (fst s) (w_next (fst s)) = None).
          { destruct (get_item (fst s) (w_next (fst s))) as [x|] eqn:E; [|reflexivity]. destruct Js as (I & _). apply I in E. lia. }
          split; [exact J1|split; [exact K1|split; [exact S1|split; [|split; [|split]]]]].
          * eexists. split; [exact G1|]. split; [reflexivity|]. intros e' Ne'. cbn [i_autos it_set_autos].
            now apply al_get_set_other_z.
          * intros j Njm Hlt. apply F1; [exact Njm|lia].
          * destruct (load_keeps_ownership (S (S n))) as (_ & Hadd).
            match goal with |- (_ <= w_next (fst (add_item _ ?S0 _ _)))%nat => set (sx := S0) end.
            assert (Jx : J (fst sx)).
            { destruct (KEEP_new_autocharge (fst s) m e (q_trunc q) Js) as ((_ & _ & Jx & _) & _). exact Jx. }
            assert (Fx : fitcont (fst sx) (w_next (fst s)) = None).
            { destruct (KEEP_new_autocharge (fst s) m e (q_trunc q) Js) as (_ & Fx). exact Fx. }
            destruct (Hadd sx (w_next (fst s)) m Jx Fx) as (_ & Nx & _).
            assert (Nsx : w_next (fst sx) = S (w_next (fst s))).
            { unfold sx, lift. cbn [fst]. unfold upd_item.
              match goal with |- context[get_item ?W m] => destruct (get_item W m) end;
                [rewrite next_put_item|rewrite next_fail]; rewrite next_put_item; reflexivity. }
            lia.
          * apply (CP_new_auto (fst s) _ m mit e (w_next (fst s)) Cp Hm Fresh Hk0 G1 F1).
            exists ait. split; [exact Gait|split; [exact Cait|]].
            assert (Dait : ~ direct ait).
            { destruct (kk_pc _ K1 (w_next (fst s)) ait m Gait) as (_ & P2). destruct (parent_direct _ _ ait m K1 Gait (or_intror Cait)) as (y & Gy & Dy).
              intros Da. destruct (direct_cont_fit _ _ ait J1 K1 Gait Da m) as (_ & N2). contradiction. }
            apply (kk_flat _ K1 _ ait Gait Dait).
        + split; [exact Js|split; [exact K|split; [reflexivity|split; [exists mit; auto|split; [auto|split; [lia|exact Cp]]]]]].
      - split; [exact Js|split; [exact K|split; [reflexivity|split; [exists mit; auto|split; [auto|split; [lia|exact Cp]]]]]]. }
    destruct Step as (J1 & K1 & S1 & (mit1 & G1 & M1 & A1) & F1 & N1 & Cp1).
    assert (Dm1 : direct mit1) by (unfold mk in M1; unfold direct in *; assert (i_cls mit1 = i_cls mit) by congruence; congruence).
    assert (Hld1 : i_loaded mit1 <> None) by (unfold mk in M1; assert (i_loaded mit1 = i_loaded mit) by congruence; congruence).
    destruct (IH s1 mit1 J1 K1 Cp1 G1 Dm1 Hld1 Hnd') as (J2 & K2 & S2 & (mit2 & G2 & M2) & F2 & N2 & Cp2).
    + intros e' I. rewrite A1; [apply Hk; now right|]. intros ->. apply Ne. exact I.
    + intros e' ef' aa q I Ha Hq. apply (NAtid_srcs (fst s) (fst s1) _ S1). apply (Hna e' ef' aa q); [now right|exact Ha|exact Hq].
    + exact He.
    + split; [exact J2|split; [exact K2|split; [congruence|split; [|split; [|split]]]]].
      * exists mit2. split; [exact G2|congruence].
      * intros j Njm Hlt. rewrite F2; [apply F1; assumption|exact Njm|lia].
      * lia.
      * exact Cp2.
Qed.

(* what the flat-world hypothesis says about the type a directly held item is loaded with *)
Definition auto_ok (w : world) (tid : Z) : Prop :=
  forall s u t, get_src w s = Some u -> get_type u tid = Some t ->
    NoDup (t_effects t) /\
    forall e ef aa q, In e (t_effects t) -> get_effect u e = Some ef -> e_autocharge_attr ef = Some aa ->
                      al_get zeqb (t_attrs t) aa = Some q -> NAtid w (q_trunc q).

Lemma item_effects_keys_nodup w it t :
  item_type w it = Some t -> NoDup (t_effects t) -> NoDup (map fst (item_effects w it)).
Proof.
  intros Ht Hn. unfold item_effects. rewrite Ht. destruct (item_universe w it) as [u|]; [|constructor].
  induction (t_effects t) as [|e l IH]; cbn; [constructor|].
  inversion Hn as [|? ? Ne Hn']; subst. rewrite map_app. destruct (get_effect u e) as [ef|]; cbn.
  - constructor; [|now apply IH]. intros I. apply Ne. apply in_map_iff in I as ([e' ef'] & E & I). cbn in E. subst e'.
    apply in_flat_map in I as (x & Ix & Hx). destruct (get_effect u x); [|destruct Hx].
    destruct Hx as [Ex|[]]. injection Ex as -> _. exact Ix.
  - now apply IH.
Qed.

Theorem load_dir n s m mit :
  J (fst s) -> KK (fst s) -> CP (fst s) -> get_item (fst s) m = Some mit -> direct mit -> i_loaded mit = None ->
  auto_ok (fst s) (i_tid mit) ->
  w_err (fst (load (S (S (S n))) s m)) = None ->
  let w' := fst (load (S (S (S n))) s m) in
  J w' /\ KK w' /\ w_srcs w' = w_srcs (fst s) /\
  (exists mit', get_item w' m = Some mit' /\ i_cls mit' = i_cls mit /\ i_cont mit' = i_cont mit /\
                i_state mit' = i_state mit /\ i_charge mit' = i_charge mit /\ i_tid mit' = i_tid mit /\
                (forall src, i_loaded mit' = Some src ->
                   exists f, item_fit (fst s) m = Some f /\ fit_source_id (fst s) f = Some src)) /\
  (forall j, j <> m -> (j < w_next (fst s))%nat -> get_item w' j = get_item (fst s) j) /\ CP w'.
Proof.
  intros Js K Cp Hm Dm Hl Hok.
  assert (Same : let w' := fst s in
                 J w' /\ KK w' /\ w_srcs w' = w_srcs (fst s) /\
                 (exists mit', get_item w' m = Some mit' /\ i_cls mit' = i_cls mit /\ i_cont mit' = i_cont mit /\
                               i_state mit' = i_state mit /\ i_charge mit' = i_charge mit /\ i_tid mit' = i_tid mit /\
                               (forall src, i_loaded mit' = Some src ->
                                  exists f, item_fit (fst s) m = Some f /\ fit_source_id (fst s) f = Some src)) /\
                 (forall j, j <> m -> (j < w_next (fst s))%nat -> get_item w' j = get_item (fst s) j) /\ CP w').
  { cbv zeta. split; [exact Js|split; [exact K|split; [reflexivity|split; [|split; [auto|exact Cp]]]]].
    exists mit. split; [exact Hm|]. repeat split; try reflexivity. intros src E. congruence. }
  cbn [load]. rewrite Hm.
  destruct (item_fit (fst s) m) as [f|] eqn:Ef; [|intros _; exact Same].
  destruct (fit_source_id (fst s) f) as [src|] eqn:Esrc; [|intros _; exact Same].
  destruct (get_src (fst s) src) as [u|] eqn:Eu; [|intros _; exact Same].
  destruct (get_type u (i_tid mit)) as [t|] eqn:Et; [|intros _; exact Same].
  clear Same. cbv zeta.
  set (ld := it_set_loaded mit (Some src)).
  set (s1 := lift s (fun w => put_item w m ld)).
  pose proof (kk_au _ K m mit Hm Hl) as Au0.
  assert (Hnc : forall y, i_cont mit <> Some (PCharge y) /\ i_cont mit <> Some (PAuto y))
    by (apply (direct_cont_fit (fst s) m mit Js K Hm Dm)).
  assert (K1 : KK (fst s1)).
  { unfold s1, lift. cbn [fst]. apply (KK_direct_put (fst s) m mit ld Js K Hm Dm); try reflexivity.
    - exact Hnc.
    - intros Hx. discriminate.
    - intros c cit Gc Hp. destruct (kk_pc _ K c cit m Gc) as (P1 & _). destruct (P1 Hp) as (x & Gx & Hx).
      rewrite Hm in Gx. injection Gx as <-. exact Hx.
    - intros c cit Gc Hp. destruct (kk_pc _ K c cit m Gc) as (_ & P2). destruct (P2 Hp) as (x & Gx & Hx).
      rewrite Hm in Gx. injection Gx as <-. exact Hx.
    - intros Hf c cit Gc Hp. apply (children_of_detached_unloaded (fst s) m mit c cit Js K Hm Dm Hf Gc Hp). }
  assert (J1 : J (fst s1)).
  { unfold s1, lift. cbn [fst]. apply (J_put_keepcls (fst s) m mit ld Js Hm eq_refl).
    - intros C. exfalso. apply (proj2 (direct_childcls mit)); [exact C|exact Dm].
    - intros e a I. destruct Js as (_ & _ & J4 & _). apply (J4 m mit e a Hm I).
    - intros o Ho. destruct Js as (_ & _ & _ & J5). apply (J5 m mit o Hm Ho). }
  assert (G1 : get_item (fst s1) m = Some ld) by (unfold s1, lift; cbn [fst]; apply get_put_item_same').
  set (s2 := with_msgs s1 f (fun w => item_loaded_msgs w m)).
  assert (RO : run_only (fst s1) (fst s2) m).
  { unfold s2, with_msgs. pose proof (loaded_run_only (fst s1) m) as H. destruct (item_loaded_msgs (fst s1) m). exact H. }
  assert (F2 : FC (fst s1) (fst s2)).
  { unfold s2, with_msgs. pose proof (FC_item_loaded_msgs (fst s1) m) as H. destruct (item_loaded_msgs (fst s1) m). exact H. }
  pose proof (FC_J _ _ F2 J1) as J2.
  pose proof (KK_same_k _ _ (same_k_run_only_direct _ _ m ld RO G1 Dm) K1) as K2.
  destruct RO as (U2 & R2 & _). destruct (R2 ld G1) as (r & G2). rewrite G2.
  set (mit2 := it_set_running ld r) in *.
  change (fold_left _ (item_effects (fst s2) mit2) s2) with (fold_left (auto_stepf (S (S n)) t m) (item_effects (fst s2) mit2) s2).
  intros He.
  assert (S12 : w_srcs (fst s2) = w_srcs (fst s)) by (destruct U2 as (S2 & _); rewrite S2; reflexivity).
  assert (Ety : item_type (fst s2) mit2 = Some t).
  { unfold item_type. cbn [i_loaded mit2 ld it_set_running it_set_loaded i_tid]. unfold get_src in *. rewrite S12, Eu. exact Et. }
  assert (Eun : item_universe (fst s2) mit2 = Some u).
  { unfold item_universe. cbn [i_loaded mit2 ld it_set_running it_set_loaded]. unfold get_src in *. now rewrite S12. }
  destruct (Hok src u t Eu Et) as (Hnd & Hauto).
  assert (Cp2 : CP (fst s2)).
  { apply (CP_same_l (fst s1)); [apply (FC_same_l _ _ F2)|]. apply (CP_same_l (fst s)); [|exact Cp].
    unfold s1, lift. cbn [fst]. apply (same_l_put (fst s) m mit ld Hm). reflexivity. }
  destruct (autos_fold n t m (item_effects (fst s2) mit2) s2 mit2 J2 K2 Cp2 G2 Dm) as (J3 & K3 & S3 & (mit3 & G3 & M3) & F3 & _ & Cp3).
  - cbn. discriminate.
  - apply (item_effects_keys_nodup _ _ t Ety Hnd).
  - intros e _. cbn [i_autos mit2 ld it_set_running it_set_loaded]. now rewrite Au0.
  - intros e ef aa q I Ha Hq. apply item_effects_in in I as (t' & u' & Ht' & Hu' & It & Ge).
    rewrite Ety in Ht'. injection Ht' as <-. rewrite Eun in Hu'. injection Hu' as <-.
    apply (NAtid_srcs (fst s) (fst s2) _ S12). apply (Hauto e ef aa q It Ge Ha Hq).
  - exact He.
  - cbv zeta. split; [exact J3|split; [exact K3|split; [congruence|split; [|split]]]].
    + exists mit3. split; [exact G3|]. unfold mk in M3. cbn in M3. repeat split; try congruence.
      intros src0 E0. exists f. split; [reflexivity|]. assert (E3 : i_loaded mit3 = Some src) by congruence. congruence.
    + intros j Nj Hlt. rewrite F3; [|exact Nj|].
      * destruct U2 as (_ & Gx). rewrite (Gx j Nj). unfold s1, lift. cbn [fst]. now apply get_put_item_other.
      * assert (w_next (fst s2) = w_next (fst s)).
        { destruct F2 as (_ & N2). rewrite N2. unfold s1, lift. cbn [fst]. apply next_put_item. }
        lia.
    + exact Cp3.
Qed.

Lemma autos_fold_direct n t m : forall (l : list (Z * effect)) (s : st) (mit : item),
  J (fst s) -> KK (fst s) -> get_item (fst s) m = Some mit -> direct mit -> i_loaded mit <> None ->
  NoDup (map fst l) -> (forall e, In e (map fst l) -> al_get zeqb (i_autos mit) e = None) ->
  (forall e ef aa q, In (e, ef) l -> e_autocharge_attr ef = Some aa -> al_get zeqb (t_attrs t) aa = Some q ->
                     NAtid (fst s) (q_trunc q)) ->
  w_err (fst (fold_left (auto_stepf (S (S n)) t m) l s)) = None ->
  forall j jit, get_item (fst (fold_left (auto_stepf (S (S n)) t m) l s)) j = Some jit -> direct jit -> j <> m ->
                get_item (fst s) j = Some jit.
Proof.
  induction l as [|[e ef] l IH]; intros s mit Js K Hm Dm Hld Hnd Hk Hna He j jit Gj Dj Nj; cbn [fold_left] in *.
  - exact Gj.
  - inversion Hnd as [|? ? Ne Hnd']; subst.
    set (s1 := auto_stepf (S (S n)) t m s (e, ef)) in *.
    assert (He1 : w_err (fst s1) = None).
    { revert He. apply (C_fold sticky sticky_refl sticky_trans). intros; apply auto_stepf_sticky. }
    (* one step, as in autos_fold *)
    assert (Step : J (fst s1) /\ KK (fst s1) /\ w_srcs (fst s1) = w_srcs (fst s) /\
                   (exists mit1, get_item (fst s1) m = Some mit1 /\ mk mit1 = mk mit /\
                                 (forall e', e' <> e -> al_get zeqb (i_autos mit1) e' = al_get zeqb (i_autos mit) e')) /\
                   (forall x xit, get_item (fst s1) x = Some xit -> direct xit -> x <> m -> get_item (fst s) x = Some xit)).
    { unfold s1, auto_stepf in *. cbn [snd fst] in *. destruct (e_autocharge_attr ef) as [aa|] eqn:Ea.
      - destruct (al_get zeqb (t_attrs t) aa) as [q|] eqn:Eq.
        + cbv zeta in *.
          assert (Hk0 : al_get zeqb (i_autos mit) e = None) by (apply Hk; now left).
          assert (Hn0 : NAtid (fst s) (q_trunc q)) by (apply (Hna e ef aa q); [now left|exact Ea|exact Eq]).
          destruct (new_auto_step n s m mit e (q_trunc q) Js K Hm Dm Hld Hk0 Hn0 He1) as (J1 & K1 & S1 & G1 & F1 & _).
          split; [exact J1|split; [exact K1|split; [exact S1|split]]].
          * eexists. split; [exact G1|]. split; [reflexivity|]. intros e' Ne'. cbn [i_autos it_set_autos].
            now apply al_get_set_other_z.
          * intros x xit Gx Dx Nx. destruct (Nat.eq_dec x (w_next (fst s))) as [->|Nxa].
            -- exfalso. destruct J1 as (_ & _ & J4 & _).
               assert (Ia : In (e, w_next (fst s)) (al_set zeqb (i_autos mit) e (w_next (fst s)))).
               { clear -Hk0. induction (i_autos mit) as [|[k0 v0] r IHr]; cbn; [now left|].
                 cbn in Hk0. destruct (zeqb e k0); [discriminate|]. right. now apply IHr. }
               pose proof (J4 m _ e (w_next (fst s)) G1 Ia) as C. unfold cls_of in C. rewrite Gx in C. injection C as C.
               apply (proj2 (direct_childcls xit)); [left; exact C|exact Dx].
            -- rewrite <- (F1 x Nx Nxa). exact Gx.
        + split; [exact Js|split; [exact K|split; [reflexivity|split; [exists mit; auto|auto]]]].
      - split; [exact Js|split; [exact K|split; [reflexivity|split; [exists mit; auto|auto]]]]. }
    destruct Step as (J1 & K1 & S1 & (mit1 & G1 & M1 & A1) & F1).
    assert (Dm1 : direct mit1) by (unfold mk in M1; unfold direct in *; assert (i_cls mit1 = i_cls mit) by congruence; congruence).
    assert (Hld1 : i_loaded mit1 <> None) by (unfold mk in M1; assert (i_loaded mit1 = i_loaded mit) by congruence; congruence).
    apply (F1 j jit); [|exact Dj|exact Nj].
    apply (IH s1 mit1 J1 K1 G1 Dm1 Hld1 Hnd'); try assumption.
    + intros e' I. rewrite A1; [apply Hk; now right|]. intros ->. apply Ne. exact I.
    + intros e' ef' aa q I Ha Hq. apply (NAtid_srcs (fst s) (fst s1) _ S1). apply (Hna e' ef' aa q); [now right|exact Ha|exact Hq].
Qed.

Theorem load_dir_frame n s m mit :
  J (fst s) -> KK (fst s) -> get_item (fst s) m = Some mit -> direct mit -> i_loaded mit = None ->
  auto_ok (fst s) (i_tid mit) ->
  w_err (fst (load (S (S (S n))) s m)) = None ->
  forall j jit, get_item (fst (load (S (S (S n))) s m)) j = Some jit -> direct jit -> j <> m ->
                get_item (fst s) j = Some jit.
Proof.
  intros Js K Hm Dm Hl Hok.
  cbn [load]. rewrite Hm.
  destruct (item_fit (fst s) m) as [f|] eqn:Ef; [|intros _ j jit G _ _; exact G].
  destruct (fit_source_id (fst s) f) as [src|] eqn:Esrc; [|intros _ j jit G _ _; exact G].
  destruct (get_src (fst s) src) as [u|] eqn:Eu; [|intros _ j jit G _ _; exact G].
  destruct (get_type u (i_tid mit)) as [t|] eqn:Et; [|intros _ j jit G _ _; exact G].
  cbv zeta.
  set (ld := it_set_loaded mit (Some src)).
  set (s1 := lift s (fun w => put_item w m ld)).
  pose proof (kk_au _ K m mit Hm Hl) as Au0.
  assert (Hnc : forall y, i_cont mit <> Some (PCharge y) /\ i_cont mit <> Some (PAuto y))
    by (apply (direct_cont_fit (fst s) m mit Js K Hm Dm)).
  assert (K1 : KK (fst s1)).
  { unfold s1, lift. cbn [fst]. apply (KK_direct_put (fst s) m mit ld Js K Hm Dm); try reflexivity.
    - exact Hnc.
    - intros Hx. discriminate.
    - intros c cit Gc Hp. destruct (kk_pc _ K c cit m Gc) as (P1 & _). destruct (P1 Hp) as (x & Gx & Hx).
      rewrite Hm in Gx. injection Gx as <-. exact Hx.
    - intros c cit Gc Hp. destruct (kk_pc _ K c cit m Gc) as (_ & P2). destruct (P2 Hp) as (x & Gx & Hx).
      rewrite Hm in Gx. injection Gx as <-. exact Hx.
    - intros Hf c cit Gc Hp. apply (children_of_detached_unloaded (fst s) m mit c cit Js K Hm Dm Hf Gc Hp). }
  assert (J1 : J (fst s1)).
  { unfold s1, lift. cbn [fst]. apply (J_put_keepcls (fst s) m mit ld Js Hm eq_refl).
    - intros C. exfalso. apply (proj2 (direct_childcls mit)); [exact C|exact Dm].
    - intros e a I. destruct Js as (_ & _ & J4 & _). apply (J4 m mit e a Hm I).
    - intros o Ho. destruct Js as (_ & _ & _ & J5). apply (J5 m mit o Hm Ho). }
  assert (G1 : get_item (fst s1) m = Some ld) by (unfold s1, lift; cbn [fst]; apply get_put_item_same').
  set (s2 := with_msgs s1 f (fun w => item_loaded_msgs w m)).
  assert (RO : run_only (fst s1) (fst s2) m).
  { unfold s2, with_msgs. pose proof (loaded_run_only (fst s1) m) as H. destruct (item_loaded_msgs (fst s1) m). exact H. }
  assert (F2 : FC (fst s1) (fst s2)).
  { unfold s2, with_msgs. pose proof (FC_item_loaded_msgs (fst s1) m) as H. destruct (item_loaded_msgs (fst s1) m). exact H. }
  pose proof (FC_J _ _ F2 J1) as J2.
  pose proof (KK_same_k _ _ (same_k_run_only_direct _ _ m ld RO G1 Dm) K1) as K2.
  destruct RO as (U2 & R2 & _). destruct (R2 ld G1) as (r & G2). rewrite G2.
  set (mit2 := it_set_running ld r) in *.
  change (fold_left _ (item_effects (fst s2) mit2) s2) with (fold_left (auto_stepf (S (S n)) t m) (item_effects (fst s2) mit2) s2).
  intros He j jit Gj Dj Nj.
  assert (S12 : w_srcs (fst s2) = w_srcs (fst s)) by (destruct U2 as (S2 & _); rewrite S2; reflexivity).
  assert (Ety : item_type (fst s2) mit2 = Some t).
  { unfold item_type. cbn [i_loaded mit2 ld it_set_running it_set_loaded i_tid]. unfold get_src in *. rewrite S12, Eu. exact Et. }
  assert (Eun : item_universe (fst s2) mit2 = Some u).
  { unfold item_universe. cbn [i_loaded mit2 ld it_set_running it_set_loaded]. unfold get_src in *. now rewrite S12. }
  destruct (Hok src u t Eu Et) as (Hnd & Hauto).
  assert (G3 : get_item (fst s2) j = Some jit).
  { apply (autos_fold_direct n t m (item_effects (fst s2) mit2) s2 mit2 J2 K2 G2 Dm); try assumption.
    - cbn. discriminate.
    - apply (item_effects_keys_nodup _ _ t Ety Hnd).
    - intros e _. cbn [i_autos mit2 ld it_set_running it_set_loaded]. now rewrite Au0.
    - intros e ef aa q I Ha Hq. apply item_effects_in in I as (t' & u' & Ht' & Hu' & It & Ge).
      rewrite Ety in Ht'. injection Ht' as <-. rewrite Eun in Hu'. injection Hu' as <-.
      apply (NAtid_srcs (fst s) (fst s2) _ S12). apply (Hauto e ef aa q It Ge Ha Hq). }
  destruct U2 as (_ & Gx). rewrite (Gx j Nj) in G3. unfold s1, lift in G3. cbn [fst] in G3.
  now rewrite get_put_item_other in G3.
Qed.

Lemma load_dir_LS n s m mit :
  J (fst s) -> KK (fst s) -> CP (fst s) -> LS (fst s) -> get_item (fst s) m = Some mit -> direct mit ->
  i_loaded mit = None -> auto_ok (fst s) (i_tid mit) ->
  w_err (fst (load (S (S (S n))) s m)) = None -> LS (fst (load (S (S (S n))) s m)).
Proof.
  intros Js K Cp L Hm Dm Hl Hok He.
  destruct (load_dir n s m mit Js K Cp Hm Dm Hl Hok He) as (_ & _ & _ & (mit' & Gm' & Ecl & Eco & _ & _ & _ & Hsrc) & _ & _).
  pose proof (load_dir_frame n s m mit Js K Hm Dm Hl Hok He) as Fr.
  pose proof (direct_cont_fit (fst s) m mit Js K Hm Dm) as Hnc.
  assert (Ss : same_src (fst s) (fst (load (S (S (S n))) s m))) by (apply same_src_structure; apply S_load).
  intros j jit' src G D El. destruct (Nat.eq_dec j m) as [->|Nj].
  - rewrite Gm' in G. injection G as <-. destruct (Hsrc src El) as (f & Ef & Es). exists f. split; [|now rewrite Ss].
    rewrite Eco. unfold item_fit in Ef. rewrite (item_fit_top 3 (fst s) m mit Hm Hnc) in Ef. unfold fit_of_place.
    unfold fitcont_of in Ef. destruct (i_cont mit) as [[a b|a b|a b|y|y]|]; try discriminate; exact Ef.
  - pose proof (Fr j jit' G D Nj) as G0. destruct (L j jit' src G0 D El) as (f & Ef & Es). exists f. split; [exact Ef|now rewrite Ss].
Qed.

Theorem add_dir n s m mit p :
  J (fst s) -> KK (fst s) -> CP (fst s) -> LS (fst s) -> get_item (fst s) m = Some mit -> direct mit ->
  i_loaded mit = None -> racklike_of p = Some p -> auto_ok (fst s) (i_tid mit) ->
  w_err (fst (add_item (S (S (S (S n)))) s m p)) = None ->
  let w' := fst (add_item (S (S (S (S n)))) s m p) in
  KK w' /\ w_srcs w' = w_srcs (fst s) /\
  (exists mit', get_item w' m = Some mit' /\ i_cls mit' = i_cls mit /\ i_cont mit' = Some p /\
                i_state mit' = i_state mit /\ i_charge mit' = i_charge mit) /\ CP w' /\ LS w'.
Proof.
  intros Js K Cp Ls Hm Dm Hl0 Hp Hok.
  set (mc := it_set_cont mit (Some p)).
  set (s1 := lift s (fun w => upd_item w m (fun it => it_set_cont it (Some p)))).
  assert (E1 : fst s1 = put_item (fst s) m mc) by (unfold s1, lift, upd_item; cbn [fst]; now rewrite Hm).
  assert (Hpn : forall y, Some p <> Some (PCharge y) /\ Some p <> Some (PAuto y)).
  { intros y. destruct p; cbn in Hp; try discriminate; split; discriminate. }
  assert (K1 : KK (fst s1)).
  { rewrite E1. apply (KK_direct_put (fst s) m mit mc Js K Hm Dm); try reflexivity.
    - exact Hpn.
    - intros Hx. apply (kk_au _ K m mit Hm). exact Hx.
    - intros c cit Gc Hq. destruct (kk_pc _ K c cit m Gc) as (P1 & _). destruct (P1 Hq) as (x & Gx & Hx).
      rewrite Hm in Gx. injection Gx as <-. exact Hx.
    - intros c cit Gc Hq. destruct (kk_pc _ K c cit m Gc) as (_ & P2). destruct (P2 Hq) as (x & Gx & Hx).
      rewrite Hm in Gx. injection Gx as <-. exact Hx.
    - intros Hf. exfalso. unfold fitcont_of, mc in Hf. cbn in Hf. destruct p; cbn in Hp; discriminate. }
  assert (J1 : J (fst s1)).
  { rewrite E1. apply (J_put_keepcls (fst s) m mit mc Js Hm eq_refl).
    - intros C. exfalso. apply (proj2 (direct_childcls mit)); [exact C|exact Dm].
    - intros e a I. destruct Js as (_ & _ & J4 & _). apply (J4 m mit e a Hm I).
    - intros o Ho. destruct Js as (_ & _ & _ & J5). apply (J5 m mit o Hm Ho). }
  assert (G1 : get_item (fst s1) m = Some mc) by (rewrite E1; apply get_put_item_same').
  assert (S1 : w_srcs (fst s1) = w_srcs (fst s)) by (rewrite E1; reflexivity).
  assert (N1 : w_next (fst s1) = w_next (fst s)) by (rewrite E1; apply next_put_item).
  assert (Cp1 : CP (fst s1)).
  { rewrite E1. apply (CP_put_unlisted (fst s) m mit mc Cp Hm eq_refl eq_refl).
    apply (CP_direct_unlisted (fst s) m mit Cp Hm). apply (direct_cont_fit (fst s) m mit Js K Hm Dm). }
  assert (Ls1 : LS (fst s1)).
  { rewrite E1. apply (LS_frame (fst s) _ Ls); [apply same_src_structure; apply S_put_item|].
    intros j jit' Gj Dj. destruct (Nat.eq_dec j m) as [->|Nj].
    - left. rewrite get_put_item_same' in Gj. injection Gj as <-. exact Hl0.
    - right. rewrite get_put_item_other in Gj by exact Nj. exists jit'. auto. }
  cbn [add_item]. fold s1.
  destruct (item_fit (fst s1) m) as [f|] eqn:Ef.
  2:{ intros _. cbv zeta. split; [exact K1|split; [exact S1|split; [|split; [exact Cp1|exact Ls1]]]]. exists mc. split; [exact G1|]. now repeat split. }
  cbv zeta.
  set (one := fun (s : st) sub => load (S (S (S n))) (with_msgs s f (fun w => item_added_msgs w sub)) sub).
  set (sl := one s1 m).
  set (sfin := match get_item (fst sl) m with
               | Some it => fold_left one (child_items it true) sl
               | None => lift sl (fun w => fail w EKeyAbsent)
               end).
  change (w_err (fst sfin) = None ->
          KK (fst sfin) /\ w_srcs (fst sfin) = w_srcs (fst s) /\
          (exists mit', get_item (fst sfin) m = Some mit' /\ i_cls mit' = i_cls mit /\ i_cont mit' = Some p /\
                        i_state mit' = i_state mit /\ i_charge mit' = i_charge mit) /\ CP (fst sfin) /\ LS (fst sfin)).
  intros He. unfold sfin in *. clear sfin.
  assert (Sone : forall s0 x, sticky (fst s0) (fst (one s0 x))).
  { intros s0 x. unfold one. eapply sticky_trans; [|apply sticky_load]. apply with_msgs_sticky. intros; apply added_sticky. }
  assert (Hsl : w_err (fst sl) = None).
  { destruct (get_item (fst sl) m) as [x|] eqn:Gx.
    - revert He. apply (C_fold sticky sticky_refl sticky_trans). intros; apply Sone.
    - unfold lift in He. cbn [fst] in He. destruct (err_fail_none _ _ He). }
  set (sa := with_msgs s1 f (fun w => item_added_msgs w m)).
  assert (Hsa : w_err (fst sa) = None) by (apply (sticky_load (S (S (S n))) sa m); exact Hsl).
  assert (Esa : fst sa = fst s1) by (apply with_msgs_added_same; exact Hsa).
  assert (Hok1 : auto_ok (fst sa) (i_tid mc)).
  { rewrite Esa. intros x u t Gu Gt. unfold get_src in Gu. rewrite S1 in Gu.
    destruct (Hok x u t Gu Gt) as (H1 & H2). split; [exact H1|]. intros e ef aa q I Ge Ha Hq.
    apply (NAtid_srcs (fst s) (fst s1) _ S1). now apply (H2 e ef aa q). }
  assert (Cpa : CP (fst sa)) by (rewrite Esa; exact Cp1).
  assert (Lsl : LS (fst (load (S (S (S n))) sa m))).
  { apply (load_dir_LS n sa m mc); try (rewrite Esa; assumption); try assumption. }
  destruct (load_dir n sa m mc) as (Jl & Kl & Sl & (ml & Gml & Ecl & Eco & Est & Ech & Etd) & Frl & Cpl);
    try (rewrite Esa; assumption); try assumption.
  change (load (S (S (S n))) sa m) with sl in Jl, Kl, Sl, Gml, Frl, Cpl, Lsl.
  rewrite Gml in He |- *. unfold child_items in He |- *. rewrite app_nil_r in He |- *.
  destruct (i_charge ml) as [c|] eqn:Ec.
  - cbn [fold_left] in He |- *.
    set (sac := with_msgs sl f (fun w => item_added_msgs w c)).
    change (one sl c) with (load (S (S (S n))) sac c) in He |- *.
    assert (Hsc : w_err (fst (load (S (S (S n))) sac c)) = None) by exact He.
    assert (Hsac : w_err (fst sac) = None) by (apply (sticky_load (S (S (S n))) sac c); exact Hsc).
    assert (Esac : fst sac = fst sl) by (apply with_msgs_added_same; exact Hsac).
    assert (Cc : cls_of (fst sl) c = Some CCharge).
    { destruct Jl as (_ & _ & _ & J5). apply (J5 m ml c Gml Ec). }
    destruct (cls_of_some' _ _ _ Cc) as (cit & Gc & Ecc).
    assert (Dc : ~ direct cit) by (apply direct_childcls; right; exact Ecc).
    assert (Ncm : c <> m).
    { intros ->. rewrite Gml in Gc. injection Gc as <-. apply Dc. unfold direct in *. now rewrite Ecl. }
    rewrite <- Esac in Kl, Gc.
    destruct (load_leaf (S (S n)) sac c cit Kl Gc Dc Hsc) as (Kc & Uc & (cit' & Gc' & Vc' & _)).
    split; [exact Kc|split; [|split]].
    + destruct Uc as (Sc & _). rewrite Sc, Esac, Sl, Esa. exact S1.
    + exists ml. split.
      * destruct Uc as (_ & G). rewrite (G m) by (intros E; now apply Ncm). now rewrite Esac.
      * cbn in Ecl, Eco, Est, Ech. repeat split; congruence.
    + split; [apply (CP_same_l (fst sac)); [|rewrite Esac; exact Cpl];
              apply (same_l_upd1_view (fst sac) _ c cit cit' Uc Gc Gc' Vc')|].
      apply (LS_upd1_leaf (fst sac) _ c cit'); [rewrite Esac; exact Lsl|exact Uc|apply S_load|exact Gc'|].
      unfold view in Vc'. assert (Ecx : i_cls cit' = i_cls cit) by congruence. unfold direct in *. now rewrite Ecx.
  - cbn [fold_left]. split; [exact Kl|split; [now rewrite Sl, Esa|split; [|split; [exact Cpl|exact Lsl]]]].
    exists ml. split; [exact Gml|]. cbn in Ecl, Eco, Est, Ech. repeat split; congruence.
Qed.

