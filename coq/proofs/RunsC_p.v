(* C05 for charges and autocharges: the items whose state is their container's.
   Worlds are "flat": no charge or autocharge type defines an autocharge of its
   own and only directly held items carry a charge (the hypothesis [flat_ok] is
   evaluated by the extracted driver on every generated history). In every such
   world reached by public calls without an internal error, a charge or
   autocharge runs exactly the effects the decision table yields for the state
   of the item that holds it, its own run modes and its type; unloaded it runs
   nothing. Together with proofs/Runs_p.v (directly held items) this covers
   every item of the model. *)
From Coq Require Import ZArith QArith List Bool Lia.
From EosV Require Import lib.AList gen.T_eos model.World model.Status model.Calc model.Engine model.Ops
     model.Wf proofs.AList_p proofs.Rack_p proofs.Frame_p proofs.Containers_p proofs.Status_p proofs.Owner_p
     proofs.Cinv_p proofs.Runs_p.
Import ListNotations.

Opaque add_item remove_item load unload.

(* ------------------------------------------------------------------ *)
(* the table for an item whose state is [st]                            *)

Definition expected_st (w : world) (st : Z) (it : item) : option (list Z) :=
  match resolve_effects st it (item_effects w it)
                        (match item_type w it with Some t => t_default t | None => None end) None with
  | Some statuses => Some (running_of statuses)
  | None => None
  end.

Definition goodA (w : world) (j : nat) (it : item) : Prop :=
  (i_loaded it = None -> i_running it = []) /\
  (forall s, i_loaded it = Some s -> get_src w s <> None) /\
  (i_loaded it <> None -> forall st r, item_state w j = Some st -> expected_st w st it = Some r ->
                          set_equiv (i_running it) r).

(* every charge / autocharge outside X *)
Definition RA (X : list nat) (w : world) : Prop :=
  forall j it, ~ In j X -> get_item w j = Some it -> ~ direct it -> goodA w j it.

(* what goodA reads of the item and of the world *)
Lemma expected_st_ext w w' st it it' :
  w_srcs w' = w_srcs w -> ek it' = ek it -> expected_st w' st it' = expected_st w st it.
Proof.
  intros Hs Hk. unfold ek in Hk.
  assert (Etid : i_tid it' = i_tid it) by congruence.
  assert (Eld : i_loaded it' = i_loaded it) by congruence.
  assert (Emo : i_modes it' = i_modes it) by congruence.
  assert (Ety : item_type w' it' = item_type w it).
  { unfold item_type, get_src. now rewrite Eld, Etid, Hs. }
  assert (Eun : item_universe w' it' = item_universe w it).
  { unfold item_universe, get_src. now rewrite Eld, Hs. }
  assert (Eef : item_effects w' it' = item_effects w it).
  { unfold item_effects. now rewrite Ety, Eun. }
  unfold expected_st. rewrite Ety, Eef.
  assert (Er : forall effs d, resolve_effects st it' effs d None = resolve_effects st it effs d None).
  { intros effs d. unfold resolve_effects, effect_mode. now rewrite Emo. }
  now rewrite Er.
Qed.

Lemma goodA_ext w w' j it it' :
  w_srcs w' = w_srcs w -> gk it' = gk it -> item_state w' j = item_state w j ->
  goodA w j it -> goodA w' j it'.
Proof.
  intros Hs Hk Hst (G1 & G2 & G3). unfold gk in Hk.
  assert (Hek : ek it' = ek it) by congruence.
  assert (Hr : i_running it' = i_running it) by congruence.
  assert (Eld : i_loaded it' = i_loaded it) by (unfold ek in Hek; congruence).
  split; [|split].
  - rewrite Eld, Hr. exact G1.
  - intros s. rewrite Eld. unfold get_src. rewrite Hs. apply G2.
  - rewrite Eld, Hr, Hst. intros Hl st r H1 H2. apply (G3 Hl st r H1).
    now rewrite <- (expected_st_ext w w' st it it' Hs Hek).
Qed.

(* ------------------------------------------------------------------ *)
(* item_state under updates                                             *)

Lemma item_state_n_put n w i old new :
  get_item w i = Some old -> i_cls new = i_cls old -> i_cont new = i_cont old -> i_state new = i_state old ->
  forall j, item_state_n n (put_item w i new) j = item_state_n n w j.
Proof.
  intros Hi Hc Hp Hs. induction n as [|n IH]; intros j; cbn [item_state_n]; [reflexivity|].
  destruct (Nat.eq_dec j i) as [->|N].
  - rewrite get_put_item_same', Hi, Hc, Hp, Hs.
    destruct (cr_state (class_row_of (i_cls old))); try reflexivity.
    destruct (i_cont old) as [[| | |p|p]|]; try reflexivity; apply IH.
  - rewrite get_put_item_other by exact N.
    destruct (get_item w j) as [it|]; [|reflexivity].
    destruct (cr_state (class_row_of (i_cls it))); try reflexivity.
    destruct (i_cont it) as [[| | |p|p]|]; try reflexivity; apply IH.
Qed.
Lemma item_state_put w i old new :
  get_item w i = Some old -> i_cls new = i_cls old -> i_cont new = i_cont old -> i_state new = i_state old ->
  forall j, item_state (put_item w i new) j = item_state w j.
Proof. intros. unfold item_state. now apply (item_state_n_put 4 w i old new). Qed.

Lemma item_state_fail w e j : item_state (fail w e) j = item_state w j.
Proof.
  unfold item_state. generalize 4%nat. intros n. revert j.
  induction n as [|n IH]; intros j; cbn [item_state_n]; [reflexivity|].
  rewrite get_fail. destruct (get_item w j) as [it|]; [|reflexivity].
  destruct (cr_state (class_row_of (i_cls it))); try reflexivity.
  destruct (i_cont it) as [[| | |p|p]|]; try reflexivity; apply IH.
Qed.

(* the state of a charge / autocharge held by a directly held item *)
Lemma item_state_child w c cit m mit :
  get_item w c = Some cit -> ~ direct cit -> (i_cont cit = Some (PCharge m) \/ i_cont cit = Some (PAuto m)) ->
  get_item w m = Some mit -> direct mit -> item_state w c = Some (i_state mit).
Proof.
  intros Hc Hd Hp Hm Dm. unfold item_state. cbn [item_state_n]. rewrite Hc.
  assert (E : cr_state (class_row_of (i_cls cit)) = StContainer).
  { unfold direct in Hd. destruct (cr_state (class_row_of (i_cls cit))); try reflexivity; exfalso; apply Hd; discriminate. }
  rewrite E. destruct Hp as [-> | ->]; rewrite Hm; unfold direct in Dm;
    destruct (cr_state (class_row_of (i_cls mit))); try reflexivity; congruence.
Qed.

(* worlds that agree on class, container reference and own state of every item agree on item_state *)
Definition skv (w : world) (j : nat) := option_map (fun it => (i_cls it, i_cont it, i_state it)) (get_item w j).
Definition SKE (w w' : world) : Prop := forall j, skv w' j = skv w j.
Lemma SKE_refl w : SKE w w. Proof. intros j; reflexivity. Qed.
Lemma SKE_trans a b c : SKE a b -> SKE b c -> SKE a c.
Proof. intros H1 H2 j. now rewrite H2, H1. Qed.
Lemma SKE_fail w e : SKE w (fail w e).
Proof. intros j. unfold skv. now rewrite get_fail. Qed.
Lemma SKE_put w i old new :
  get_item w i = Some old -> i_cls new = i_cls old -> i_cont new = i_cont old -> i_state new = i_state old ->
  SKE w (put_item w i new).
Proof.
  intros Hi Hc Hp Hs j. unfold skv. destruct (Nat.eq_dec j i) as [->|N].
  - rewrite get_put_item_same', Hi. cbn. now rewrite Hc, Hp, Hs.
  - now rewrite get_put_item_other.
Qed.
Lemma SKE_upd w i g :
  (forall it, i_cls (g it) = i_cls it /\ i_cont (g it) = i_cont it /\ i_state (g it) = i_state it) -> SKE w (upd_item w i g).
Proof.
  intros H. unfold upd_item. destruct (get_item w i) as [it|] eqn:E; [|apply SKE_fail].
  destruct (H it) as (H1 & H2 & H3). eapply SKE_put; eauto.
Qed.
Lemma SKE_item_state w w' : SKE w w' -> forall j, item_state w' j = item_state w j.
Proof.
  intros H. unfold item_state. generalize 4%nat. induction n as [|n IH]; intros j; cbn [item_state_n]; [reflexivity|].
  specialize (H j) as Hj. unfold skv in Hj.
  destruct (get_item w' j) as [a|], (get_item w j) as [b|]; cbn in Hj; try congruence.
  injection Hj as H1 H2 H3. rewrite H1, H2, H3.
  destruct (cr_state (class_row_of (i_cls b))); try reflexivity.
  destruct (i_cont b) as [[| | |p|p]|]; try reflexivity; apply IH.
Qed.
Lemma SKE_item_fit w w' : SKE w w' -> forall j, item_fit w' j = item_fit w j.
Proof.
  intros H. unfold item_fit. generalize 4%nat. induction n as [|n IH]; intros j; cbn [item_fit_n]; [reflexivity|].
  specialize (H j) as Hj. unfold skv in Hj.
  destruct (get_item w' j) as [a|], (get_item w j) as [b|]; cbn in Hj; try congruence.
  injection Hj as H1 H2 H3. rewrite H2.
  destruct (i_cont b) as [[| | |p|p]|]; try reflexivity; apply IH.
Qed.
Lemma SKE_run_only w w' i : run_only w w' i -> SKE w w'.
Proof.
  intros ((_ & G) & R & Nn) j. unfold skv. destruct (Nat.eq_dec j i) as [->|N]; [|now rewrite G].
  destruct (get_item w i) as [it|] eqn:E; [|now rewrite (Nn eq_refl)].
  destruct (R it eq_refl) as (r & ->). reflexivity.
Qed.

(* ------------------------------------------------------------------ *)
(* effects_update establishes the table for its item, whatever holds it *)

Lemma eu_goodA w i it w' m :
  get_item w i = Some it -> effects_update w i = (w', m) -> w_err w' = None ->
  (forall s, i_loaded it = Some s -> get_src w s <> None) ->
  forall it', get_item w' i = Some it' -> goodA w' i it'.
Proof.
  intros Hi E He Hsrc it' Hi'.
  pose proof (eu_run_only w i) as RO. rewrite E in RO. cbn [fst] in RO.
  pose proof (SKE_item_state _ _ (SKE_run_only _ _ _ RO)) as Hst.
  destruct RO as (U & R & _).
  destruct (R it Hi) as (r & Hr). rewrite Hr in Hi'. injection Hi' as <-.
  split; [|split].
  - intros Hl. change (i_loaded it = None) in Hl. cbn [i_running it_set_running].
    destruct (item_state w i) as [st|] eqn:Est.
    + destruct (resolve_effects st it (item_effects w it)
                  (match item_type w it with Some t => t_default t | None => None end) None) as [statuses|] eqn:Hres.
      * destruct (effects_update_sets_table w i it st statuses w' m Hi Est Hres E He) as (it2 & H2 & Heq).
        rewrite Hr in H2. injection H2 as <-. cbn [i_running it_set_running] in Heq.
        assert (E0 : statuses = []).
        { unfold item_effects, item_type, item_universe in Hres. rewrite Hl in Hres. cbn in Hres. congruence. }
        subst statuses. now apply set_equiv_nil.
      * exfalso. unfold effects_update in E. rewrite Hi, Est, Hres in E. injection E as <- _.
        exact (err_fail_none _ _ He).
    + exfalso. unfold effects_update in E. rewrite Hi, Est in E. injection E as <- _. exact (err_fail_none _ _ He).
  - intros s Hl. unfold get_src. destruct U as (Us & _). rewrite Us. now apply Hsrc.
  - intros Hl st r0 Hst0 Hr0. rewrite Hst in Hst0.
    change (i_loaded it <> None) in Hl. cbn [i_running it_set_running].
    assert (Ex : expected_st w' st (it_set_running it r) = expected_st w st it)
      by (apply expected_st_ext; [apply U|reflexivity]).
    rewrite Ex in Hr0. unfold expected_st in Hr0.
    destruct (resolve_effects st it (item_effects w it)
                (match item_type w it with Some t => t_default t | None => None end) None) as [statuses|] eqn:Hres;
      [|discriminate].
    injection Hr0 as <-.
    destruct (effects_update_sets_table w i it st statuses w' m Hi Hst0 Hres E He) as (it2 & H2 & Heq).
    rewrite Hr in H2. injection H2 as <-. exact Heq.
Qed.

(* ------------------------------------------------------------------ *)
(* flat worlds                                                          *)

(* a type that defines no autocharge: no effect of it names an autocharge attribute the type has *)
Definition no_auto_type (u : universe) (t : itype) : Prop :=
  forall e ef aa, In e (t_effects t) -> get_effect u e = Some ef -> e_autocharge_attr ef = Some aa ->
                  al_get zeqb (t_attrs t) aa = None.
Definition NAtid (w : world) (tid : Z) : Prop :=
  forall s u t, get_src w s = Some u -> get_type u tid = Some t -> no_auto_type u t.

Record KK (w : world) : Prop := mkKK {
  kk_ra : RA [] w;
  (* charges and autocharges hold nothing themselves, and their types define no autocharges *)
  kk_flat : forall c cit, get_item w c = Some cit -> ~ direct cit -> i_charge cit = None /\ i_autos cit = [];
  kk_na : forall c cit, get_item w c = Some cit -> ~ direct cit -> NAtid w (i_tid cit);
  (* an item that names an item container is listed by it *)
  kk_pc : forall c cit m, get_item w c = Some cit ->
            (i_cont cit = Some (PCharge m) -> exists mit, get_item w m = Some mit /\ i_charge mit = Some c) /\
            (i_cont cit = Some (PAuto m) -> exists mit, get_item w m = Some mit /\ In c (map snd (i_autos mit)));
  (* an unloaded item has no autocharges *)
  kk_au : forall i it, get_item w i = Some it -> i_loaded it = None -> i_autos it = [];
  (* a loaded charge / autocharge is on a fit *)
  kk_nl : forall c cit, get_item w c = Some cit -> ~ direct cit -> i_loaded cit <> None -> item_fit w c <> None }.

(* what KK reads of an item: of every item its class, container reference, own state, loaded flag, charge and
   autocharges; of a charge / autocharge also type, run modes and running set *)
Definition dk (it : item) := (i_cls it, i_cont it, i_state it, i_loaded it, i_charge it, i_autos it).
Definition kview (it : item) :=
  (dk it, match direct_dec it with left _ => None | right _ => Some (gk it) end).
Definition same_k (w w' : world) : Prop :=
  w_srcs w' = w_srcs w /\ forall j, option_map kview (get_item w' j) = option_map kview (get_item w j).

Lemma kview_dk a b : kview a = kview b -> dk a = dk b.
Proof. intros H. exact (f_equal fst H). Qed.
Lemma kview_direct a b : kview a = kview b -> (direct a <-> direct b).
Proof.
  intros H. pose proof (kview_dk _ _ H) as D. unfold dk in D. assert (E : i_cls a = i_cls b) by congruence.
  unfold direct. now rewrite E.
Qed.
Lemma kview_gk a b : kview a = kview b -> ~ direct a -> gk a = gk b.
Proof.
  intros H D. pose proof (proj1 (kview_direct _ _ H)) as Dab.
  pose proof (f_equal snd H) as S. cbn [snd kview] in S.
  destruct (direct_dec a) as [Da|_]; [contradiction|]. destruct (direct_dec b) as [Db|_]; congruence.
Qed.

Lemma same_k_refl w : same_k w w. Proof. split; auto. Qed.
Lemma same_k_trans a b c : same_k a b -> same_k b c -> same_k a c.
Proof. intros (S1 & H1) (S2 & H2). split; [congruence|]. intros j. now rewrite H2, H1. Qed.
Lemma same_k_fail w e : same_k w (fail w e).
Proof. split; [unfold fail; destruct (w_err w); reflexivity|]. intros j. now rewrite get_fail. Qed.
Lemma same_k_put w i old new : get_item w i = Some old -> kview new = kview old -> same_k w (put_item w i new).
Proof.
  intros Hi Hk. split; [reflexivity|]. intros j. destruct (Nat.eq_dec j i) as [->|N].
  - rewrite get_put_item_same', Hi. cbn. now rewrite Hk.
  - now rewrite get_put_item_other.
Qed.
Lemma same_k_upd w i g : (forall it, kview (g it) = kview it) -> same_k w (upd_item w i g).
Proof.
  intros H. unfold upd_item. destruct (get_item w i) as [it|] eqn:E; [|apply same_k_fail].
  eapply same_k_put; eauto.
Qed.

Lemma same_k_SKE w w' : same_k w w' -> SKE w w'.
Proof.
  intros (_ & H) j. specialize (H j). unfold skv.
  destruct (get_item w' j) as [a|], (get_item w j) as [b|]; cbn [option_map] in *; try congruence.
  assert (E : kview a = kview b) by congruence.
  pose proof (kview_dk _ _ E) as D. unfold dk in D. f_equal. congruence.
Qed.

Lemma same_k_get w w' j it' :
  same_k w w' -> get_item w' j = Some it' -> exists it, get_item w j = Some it /\ kview it' = kview it.
Proof.
  intros (_ & H) G. specialize (H j). rewrite G in H. destruct (get_item w j) as [it|]; cbn [option_map] in H; [|discriminate].
  exists it. split; [reflexivity|congruence].
Qed.
Lemma same_k_get' w w' j it :
  same_k w w' -> get_item w j = Some it -> exists it', get_item w' j = Some it' /\ kview it' = kview it.
Proof.
  intros (_ & H) G. specialize (H j). rewrite G in H. destruct (get_item w' j) as [it'|]; cbn [option_map] in H; [|discriminate].
  exists it'. split; [reflexivity|congruence].
Qed.

Lemma NAtid_srcs w w' tid : w_srcs w' = w_srcs w -> NAtid w tid -> NAtid w' tid.
Proof. intros Hs H s u t G. apply (H s u t). unfold get_src in *. now rewrite <- Hs. Qed.

Lemma KK_same_k w w' : same_k w w' -> KK w -> KK w'.
Proof.
  intros S [R F N P A L]. pose proof S as (Hs & _). pose proof (same_k_SKE _ _ S) as Hk. constructor.
  - intros j it' _ G D. destruct (same_k_get _ _ _ _ S G) as (it & G0 & Ek).
    apply (goodA_ext w w' j it it' Hs (kview_gk _ _ Ek D) (SKE_item_state _ _ Hk j)).
    apply R; [intros []|exact G0|]. intros D0. apply D. now apply (kview_direct _ _ Ek).
  - intros c cit G D. destruct (same_k_get _ _ _ _ S G) as (it & G0 & Ek).
    pose proof (kview_dk _ _ Ek) as Ed. unfold dk in Ed.
    assert (Ec : i_charge cit = i_charge it) by congruence. assert (Ea : i_autos cit = i_autos it) by congruence.
    rewrite Ec, Ea. apply (F c it G0). intros D0. apply D. now apply (kview_direct _ _ Ek).
  - intros c cit G D. destruct (same_k_get _ _ _ _ S G) as (it & G0 & Ek).
    pose proof (kview_gk _ _ Ek D) as Eg.
    assert (Et : i_tid cit = i_tid it) by (unfold gk, ek in Eg; congruence). rewrite Et.
    apply (NAtid_srcs w w' _ Hs). apply (N c it G0). intros D0. apply D. now apply (kview_direct _ _ Ek).
  - intros c cit m G. destruct (same_k_get _ _ _ _ S G) as (it & G0 & Ek).
    pose proof (kview_dk _ _ Ek) as Ed. unfold dk in Ed.
    assert (Ep : i_cont cit = i_cont it) by congruence. rewrite Ep.
    destruct (P c it m G0) as (P1 & P2). split; intros H.
    + destruct (P1 H) as (mit & Gm & Hc). destruct (same_k_get' _ _ _ _ S Gm) as (mit' & Gm' & Ek').
      pose proof (kview_dk _ _ Ek') as Ed'. unfold dk in Ed'.
      exists mit'. split; [exact Gm'|congruence].
    + destruct (P2 H) as (mit & Gm & Hc). destruct (same_k_get' _ _ _ _ S Gm) as (mit' & Gm' & Ek').
      pose proof (kview_dk _ _ Ek') as Ed'. unfold dk in Ed'.
      exists mit'. split; [exact Gm'|]. assert (Ea : i_autos mit' = i_autos mit) by congruence. now rewrite Ea.
  - intros i it' G Hl. destruct (same_k_get _ _ _ _ S G) as (it & G0 & Ek).
    pose proof (kview_dk _ _ Ek) as Ed. unfold dk in Ed.
    assert (Ea : i_autos it' = i_autos it) by congruence. rewrite Ea. apply (A i it G0). congruence.
  - intros c cit G D Hl. destruct (same_k_get _ _ _ _ S G) as (it & G0 & Ek).
    pose proof (kview_dk _ _ Ek) as Ed. unfold dk in Ed.
    rewrite (SKE_item_fit _ _ Hk c). apply (L c it G0).
    + intros D0. apply D. now apply (kview_direct _ _ Ek).
    + assert (El : i_loaded cit = i_loaded it) by congruence. now rewrite <- El.
Qed.

(* ------------------------------------------------------------------ *)
(* one charge / autocharge changes, everything KK reads of the others stays *)

Lemma KK_child_step w w' c old new :
  KK w -> upd1 w w' c -> get_item w c = Some old -> get_item w' c = Some new -> ~ direct old ->
  i_cls new = i_cls old -> i_cont new = i_cont old -> i_state new = i_state old -> i_tid new = i_tid old ->
  i_charge new = None -> i_autos new = [] ->
  goodA w' c new -> (i_loaded new <> None -> item_fit w c <> None) -> KK w'.
Proof.
  intros [R F N P A L] (Hs & Ho) Hc Hc' Dc Ecls Econt Est Etid Ech Eau Gd Hl.
  assert (Dn : ~ direct new) by (intros D; apply Dc; eapply direct_cls; [|exact D]; congruence).
  assert (Hk : SKE w w').
  { intros j. unfold skv. destruct (Nat.eq_dec j c) as [->|Nj]; [|now rewrite Ho].
    rewrite Hc, Hc'. cbn. now rewrite Ecls, Econt, Est. }
  constructor.
  - intros j it _ G D. destruct (Nat.eq_dec j c) as [->|Nj].
    + rewrite Hc' in G. injection G as <-. exact Gd.
    + rewrite (Ho j Nj) in G. apply (goodA_ext w w' j it it Hs eq_refl (SKE_item_state _ _ Hk j)).
      now apply R.
  - intros j it G D. destruct (Nat.eq_dec j c) as [->|Nj].
    + rewrite Hc' in G. injection G as <-. now split.
    + rewrite (Ho j Nj) in G. now apply (F j it).
  - intros j it G D. apply (NAtid_srcs w w' _ Hs). destruct (Nat.eq_dec j c) as [->|Nj].
    + rewrite Hc' in G. injection G as <-. rewrite Etid. now apply (N c old).
    + rewrite (Ho j Nj) in G. now apply (N j it).
  - intros j it m G.
    assert (Gl : forall x xit, get_item w x = Some xit ->
                               exists xit', get_item w' x = Some xit' /\ i_charge xit' = i_charge xit /\ i_autos xit' = i_autos xit).
    { intros x xit Gx. destruct (Nat.eq_dec x c) as [->|Nx].
      - rewrite Hc in Gx. injection Gx as <-. exists new. destruct (F c old Hc Dc) as (F1 & F2).
        split; [exact Hc'|]. now rewrite Ech, Eau, F1, F2.
      - exists xit. now rewrite (Ho x Nx). }
    assert (Hold : exists it0, get_item w j = Some it0 /\ i_cont it0 = i_cont it).
    { destruct (Nat.eq_dec j c) as [->|Nj].
      - rewrite Hc' in G. injection G as <-. exists old. now split.
      - rewrite (Ho j Nj) in G. exists it. now split. }
    destruct Hold as (it0 & G0 & E0). rewrite <- E0. destruct (P j it0 m G0) as (P1 & P2). split; intros H.
    + destruct (P1 H) as (mit & Gm & Hm). destruct (Gl m mit Gm) as (mit' & Gm' & Ec' & _).
      exists mit'. split; [exact Gm'|congruence].
    + destruct (P2 H) as (mit & Gm & Hm). destruct (Gl m mit Gm) as (mit' & Gm' & _ & Ea').
      exists mit'. split; [exact Gm'|now rewrite Ea'].
  - intros j it G Hld. destruct (Nat.eq_dec j c) as [->|Nj].
    + rewrite Hc' in G. injection G as <-. exact Eau.
    + rewrite (Ho j Nj) in G. now apply (A j it).
  - intros j it G D Hld. rewrite (SKE_item_fit _ _ Hk j). destruct (Nat.eq_dec j c) as [->|Nj].
    + rewrite Hc' in G. injection G as <-. now apply Hl.
    + rewrite (Ho j Nj) in G. now apply (L j it).
Qed.

Lemma unloaded_msgs_running_nil w c it' :
  w_err w = None -> w_err (fst (item_unloaded_msgs w c)) = None ->
  get_item (fst (item_unloaded_msgs w c)) c = Some it' -> i_running it' = [].
Proof.
  unfold item_unloaded_msgs. intros He0. destruct (get_item w c) as [it|] eqn:Hc;
    [|cbn [fst]; intros He; destruct (err_fail_none _ _ He)].
  destruct (i_running it) as [|e r] eqn:Er.
  - destruct (item_state w c); cbn [fst]; [|intros He; destruct (err_fail_none _ _ He)].
    intros _ G. rewrite Hc in G. injection G as <-. exact Er.
  - destruct (effects_tgts w it (e :: r)) as [tg|].
    + destruct (item_state (put_item w c (it_set_running it [])) c); cbn [fst];
        [|intros He; destruct (err_fail_none _ _ He)].
      intros _ G. rewrite get_put_item_same' in G. injection G as <-. reflexivity.
    + destruct (item_state (fail w EKeyAbsent) c); cbn [fst]; intros He; exfalso.
      * unfold fail in He. rewrite He0 in He. discriminate.
      * apply (err_fail_none _ _ He).
Qed.

Lemma it_set_autos_nil it : i_autos it = [] -> it_set_autos it [] = it.
Proof. destruct it. cbn. now intros ->. Qed.

(* ------------------------------------------------------------------ *)
(* unload / remove_item of a charge or autocharge (a leaf of a flat world) *)

Theorem unload_leaf n s c cit :
  KK (fst s) -> get_item (fst s) c = Some cit -> ~ direct cit ->
  w_err (fst (unload (S n) s c)) = None ->
  KK (fst (unload (S n) s c)) /\ upd1 (fst s) (fst (unload (S n) s c)) c /\
  exists cit', get_item (fst (unload (S n) s c)) c = Some cit' /\ i_loaded cit' = None /\
               view cit' = view cit /\ i_state cit' = i_state cit /\ i_tid cit' = i_tid cit.
Proof.
  intros K Hc Dc. pose proof K as [R F N P A L]. destruct (F c cit Hc Dc) as (Fch & Fau).
  set (s1 := match item_fit (fst s) c, i_loaded cit with
             | Some f, Some _ => with_msgs s f (fun w => item_unloaded_msgs w c)
             | _, _ => s end).
  assert (RO : run_only (fst s) (fst s1) c).
  { subst s1. destruct (item_fit (fst s) c) as [f|]; [|apply run_only_refl].
    destruct (i_loaded cit); [|apply run_only_refl]. unfold with_msgs.
    pose proof (unloaded_run_only (fst s) c) as H. destruct (item_unloaded_msgs (fst s) c). exact H. }
  destruct RO as (U1 & R1 & _). destruct (R1 cit Hc) as (r & Hr).
  set (new := it_set_loaded (it_set_running cit r) None).
  set (w3 := put_item (put_item (fst s1) c (it_set_running cit r)) c new).
  assert (Eres : fst (unload (S n) s c) = w3).
  { cbn [unload]. rewrite Hc. cbv zeta. fold s1. cbn [fst snd]. rewrite Hr. cbn [i_autos it_set_running].
    rewrite Fau. cbn [fold_left]. unfold lift. cbn [fst]. unfold upd_item. rewrite Hr.
    rewrite (it_set_autos_nil (it_set_running cit r)) by exact Fau.
    rewrite get_put_item_same'. reflexivity. }
  rewrite Eres. intros He.
  assert (He1 : w_err (fst s1) = None) by exact He.
  assert (U3 : upd1 (fst s) w3 c).
  { eapply upd1_trans; [exact U1|]. eapply upd1_trans; apply upd1_put. }
  assert (G3 : get_item w3 c = Some new) by apply get_put_item_same'.
  (* the running set is empty: either the unloaded messages emptied it, or the item was not loaded *)
  assert (Hrun : r = []).
  { subst s1. destruct (item_fit (fst s) c) as [f|] eqn:Ef.
    - destruct (i_loaded cit) eqn:El.
      + unfold with_msgs in Hr, He1. pose proof (unloaded_msgs_running_nil (fst s) c (it_set_running cit r)) as H.
        destruct (item_unloaded_msgs (fst s) c) as [w0 m0] eqn:E0. cbn [fst] in *.
        apply H; [|exact He1|exact Hr].
        pose proof (unloaded_sticky (fst s) c) as St. rewrite E0 in St. now apply St.
      + rewrite Hc in Hr. injection Hr as Hr. apply (f_equal i_running) in Hr. cbn in Hr. rewrite <- Hr.
        destruct (R c cit (fun x => x) Hc Dc) as (G1 & _). now apply G1.
    - destruct (i_loaded cit) eqn:El.
      + exfalso. apply (L c cit Hc Dc); [congruence|exact Ef].
      + rewrite Hc in Hr. injection Hr as Hr. apply (f_equal i_running) in Hr. cbn in Hr. rewrite <- Hr.
        destruct (R c cit (fun x => x) Hc Dc) as (G1 & _). now apply G1. }
  split; [|split; [exact U3|]].
  - apply (KK_child_step (fst s) w3 c cit new K U3 Hc G3 Dc); try reflexivity; try assumption.
    + split; [|split]; cbn.
      * intros _. exact Hrun.
      * intros x Hx. discriminate.
      * intros Hx. congruence.
    + cbn. congruence.
  - exists new. split; [exact G3|]. repeat split.
Qed.

(* nobody names c as its container: then c's own container reference matters to c alone *)
Definition unnamed (w : world) (c : nat) : Prop :=
  forall x xit, get_item w x = Some xit -> i_cont xit <> Some (PCharge c) /\ i_cont xit <> Some (PAuto c).

Lemma KK_unnamed w c cit : KK w -> get_item w c = Some cit -> ~ direct cit -> unnamed w c.
Proof.
  intros [R F N P A L] Hc Dc x xit Hx. destruct (F c cit Hc Dc) as (Fch & Fau).
  destruct (P x xit c Hx) as (P1 & P2). split; intros H.
  - destruct (P1 H) as (mit & Gm & Hm). rewrite Hc in Gm. injection Gm as <-. congruence.
  - destruct (P2 H) as (mit & Gm & Hm). rewrite Hc in Gm. injection Gm as <-. rewrite Fau in Hm. destruct Hm.
Qed.

Lemma item_state_unnamed w c new : unnamed w c ->
  forall j, j <> c -> item_state (put_item w c new) j = item_state w j.
Proof.
  intros U. unfold item_state. generalize 4%nat. induction n as [|n IH]; intros j Nj; cbn [item_state_n]; [reflexivity|].
  rewrite get_put_item_other by exact Nj. destruct (get_item w j) as [it|] eqn:G; [|reflexivity].
  destruct (cr_state (class_row_of (i_cls it))); try reflexivity.
  destruct (U j it G) as (U1 & U2).
  destruct (i_cont it) as [[| | |p|p]|]; try reflexivity; apply IH; intros ->; congruence.
Qed.
Lemma item_fit_unnamed w c new : unnamed w c ->
  forall j, j <> c -> item_fit (put_item w c new) j = item_fit w j.
Proof.
  intros U. unfold item_fit. generalize 4%nat. induction n as [|n IH]; intros j Nj; cbn [item_fit_n]; [reflexivity|].
  rewrite get_put_item_other by exact Nj. destruct (get_item w j) as [it|] eqn:G; [|reflexivity].
  destruct (U j it G) as (U1 & U2).
  destruct (i_cont it) as [[| | |p|p]|]; try reflexivity; apply IH; intros ->; congruence.
Qed.

(* the container reference of an unloaded charge / autocharge is set or cleared *)
Lemma KK_child_cont w c old p' :
  KK w -> get_item w c = Some old -> ~ direct old -> i_loaded old = None ->
  (forall m, p' = Some (PCharge m) -> exists mit, get_item w m = Some mit /\ i_charge mit = Some c) ->
  (forall m, p' = Some (PAuto m) -> exists mit, get_item w m = Some mit /\ In c (map snd (i_autos mit))) ->
  KK (put_item w c (it_set_cont old p')).
Proof.
  intros K Hc Dc Hl H1 H2. pose proof (KK_unnamed w c old K Hc Dc) as Un. destruct K as [R F N P A L].
  set (new := it_set_cont old p'). set (w' := put_item w c new).
  assert (Ho : forall j, j <> c -> get_item w' j = get_item w j) by (intros; now apply get_put_item_other).
  assert (Gc : get_item w' c = Some new) by apply get_put_item_same'.
  assert (Dn : ~ direct new) by exact Dc.
  constructor.
  - intros j it _ G D. destruct (Nat.eq_dec j c) as [->|Nj].
    + rewrite Gc in G. injection G as <-. destruct (R c old (fun x => x) Hc Dc) as (G1 & _).
      split; [|split]; cbn; [intros _; now apply G1|intros s Hs; congruence|intros Hx; congruence].
    + rewrite (Ho j Nj) in G. apply (goodA_ext w w' j it it eq_refl eq_refl (item_state_unnamed w c new Un j Nj)).
      now apply R.
  - intros j it G D. destruct (Nat.eq_dec j c) as [->|Nj].
    + rewrite Gc in G. injection G as <-. now apply (F c old).
    + rewrite (Ho j Nj) in G. now apply (F j it).
  - intros j it G D. apply (NAtid_srcs w w' _ eq_refl). destruct (Nat.eq_dec j c) as [->|Nj].
    + rewrite Gc in G. injection G as <-. now apply (N c old).
    + rewrite (Ho j Nj) in G. now apply (N j it).
  - intros j it m G.
    assert (Gl : forall x xit, get_item w x = Some xit ->
                               exists xit', get_item w' x = Some xit' /\ i_charge xit' = i_charge xit /\ i_autos xit' = i_autos xit).
    { intros x xit Gx. destruct (Nat.eq_dec x c) as [->|Nx].
      - rewrite Hc in Gx. injection Gx as <-. exists new. now split.
      - exists xit. now rewrite (Ho x Nx). }
    destruct (Nat.eq_dec j c) as [->|Nj].
    + rewrite Gc in G. injection G as <-. cbn [i_cont new it_set_cont]. split; intros H.
      * destruct (H1 m H) as (mit & Gm & Hm). destruct (Gl m mit Gm) as (mit' & Gm' & Ec' & _).
        exists mit'. split; [exact Gm'|congruence].
      * destruct (H2 m H) as (mit & Gm & Hm). destruct (Gl m mit Gm) as (mit' & Gm' & _ & Ea').
        exists mit'. split; [exact Gm'|now rewrite Ea'].
    + rewrite (Ho j Nj) in G. destruct (P j it m G) as (P1 & P2). split; intros H.
      * destruct (P1 H) as (mit & Gm & Hm). destruct (Gl m mit Gm) as (mit' & Gm' & Ec' & _).
        exists mit'. split; [exact Gm'|congruence].
      * destruct (P2 H) as (mit & Gm & Hm). destruct (Gl m mit Gm) as (mit' & Gm' & _ & Ea').
        exists mit'. split; [exact Gm'|now rewrite Ea'].
  - intros j it G Hld. destruct (Nat.eq_dec j c) as [->|Nj].
    + rewrite Gc in G. injection G as <-. now apply (A c old).
    + rewrite (Ho j Nj) in G. now apply (A j it).
  - intros j it G D Hld. destruct (Nat.eq_dec j c) as [->|Nj].
    + rewrite Gc in G. injection G as <-. cbn in Hld. congruence.
    + rewrite (Ho j Nj) in G. unfold w'. rewrite (item_fit_unnamed w c new Un j Nj). now apply (L j it).
Qed.

Lemma with_msgs_removed_same (s : st) f c :
  w_err (fst (with_msgs s f (fun w => item_removed_msgs w c))) = None ->
  fst (with_msgs s f (fun w => item_removed_msgs w c)) = fst s.
Proof.
  unfold with_msgs. destruct (removed_same (fst s) c) as [E|(e & E)];
    destruct (item_removed_msgs (fst s) c) as [w0 m0]; cbn [fst] in *; subst w0; [reflexivity|].
  intros He. destruct (err_fail_none _ _ He).
Qed.
Lemma with_msgs_added_same (s : st) f c :
  w_err (fst (with_msgs s f (fun w => item_added_msgs w c))) = None ->
  fst (with_msgs s f (fun w => item_added_msgs w c)) = fst s.
Proof.
  unfold with_msgs. destruct (added_same (fst s) c) as [E|(e & E)];
    destruct (item_added_msgs (fst s) c) as [w0 m0]; cbn [fst] in *; subst w0; [reflexivity|].
  intros He. destruct (err_fail_none _ _ He).
Qed.

Theorem remove_leaf n s c cit :
  KK (fst s) -> get_item (fst s) c = Some cit -> ~ direct cit ->
  w_err (fst (remove_item (S (S n)) s c)) = None ->
  KK (fst (remove_item (S (S n)) s c)) /\ upd1 (fst s) (fst (remove_item (S (S n)) s c)) c /\
  exists cit', get_item (fst (remove_item (S (S n)) s c)) c = Some cit' /\ i_loaded cit' = None /\
               i_cont cit' = None /\ i_cls cit' = i_cls cit /\ i_charge cit' = None /\ i_autos cit' = [] /\
               i_state cit' = i_state cit /\ i_tid cit' = i_tid cit.
Proof.
  intros K Hc Dc. destruct (kk_flat _ K c cit Hc Dc) as (Fch & Fau).
  set (fit := item_fit (fst s) c).
  set (su := unload (S n) s c).
  set (s1 := match fit with Some f => with_msgs su f (fun w => item_removed_msgs w c) | None => su end).
  assert (Eres : forall cit1, get_item (fst s1) c = Some cit1 -> i_charge cit1 = None ->
                 fst (remove_item (S (S n)) s c) = upd_item (fst s1) c (fun it => it_set_cont it None)).
  { intros cit1 G1 Ch1. cbn [remove_item]. fold fit. cbv zeta. fold su. fold s1. rewrite G1.
    unfold child_items. rewrite Ch1. cbn [app fold_left]. reflexivity. }
  assert (St1 : sticky (fst su) (fst s1)).
  { subst s1. destruct fit; [|apply sticky_refl]. apply with_msgs_sticky. intros; apply removed_sticky. }
  (* whatever the error flag, the shape of the result is known once the item is found *)
  intros He.
  assert (Hsu : w_err (fst su) = None).
  { apply St1. destruct (get_item (fst s1) c) as [x|] eqn:G1.
    - (* cont step is sticky *)
      revert He. cbn [remove_item]. fold fit. cbv zeta. fold su. fold s1. rewrite G1.
      set (s2 := fold_left _ _ s1). intros He.
      assert (St2 : sticky (fst s1) (fst s2)).
      { subst s2. apply (C_fold sticky sticky_refl sticky_trans). intros s0 x0. cbv zeta.
        eapply sticky_trans; [apply sticky_unload|]. destruct fit; [|apply sticky_refl].
        apply with_msgs_sticky. intros; apply removed_sticky. }
      apply St2. apply (sticky_upd _ c (fun it => it_set_cont it None)). exact He.
    - revert He. cbn [remove_item]. fold fit. cbv zeta. fold su. fold s1. rewrite G1.
      unfold lift. cbn [fst]. intros He. apply (sticky_upd _ c (fun it => it_set_cont it None)) in He.
      destruct (err_fail_none _ _ He). }
  destruct (unload_leaf n s c cit K Hc Dc Hsu) as (Ku & Uu & cu & Gu & Lu & Vu & Stu & Tu). fold su in Ku, Uu, Gu.
  assert (E1 : w_err (fst s1) = None -> fst s1 = fst su).
  { subst s1. destruct fit as [f|]; [|reflexivity]. apply with_msgs_removed_same. }
  assert (Chu : i_charge cu = None) by (unfold view in Vu; congruence).
  assert (Hs1 : w_err (fst s1) = None).
  { destruct (get_item (fst s1) c) as [x|] eqn:G1.
    - revert He. cbn [remove_item]. fold fit. cbv zeta. fold su. fold s1. rewrite G1.
      set (s2 := fold_left _ _ s1). intros He.
      assert (St2 : sticky (fst s1) (fst s2)).
      { subst s2. apply (C_fold sticky sticky_refl sticky_trans). intros s0 x0. cbv zeta.
        eapply sticky_trans; [apply sticky_unload|]. destruct fit; [|apply sticky_refl].
        apply with_msgs_sticky. intros; apply removed_sticky. }
      apply St2. apply (sticky_upd _ c (fun it => it_set_cont it None)). exact He.
    - revert He. cbn [remove_item]. fold fit. cbv zeta. fold su. fold s1. rewrite G1.
      unfold lift. cbn [fst]. intros He. apply (sticky_upd _ c (fun it => it_set_cont it None)) in He.
      destruct (err_fail_none _ _ He). }
  specialize (E1 Hs1).
  assert (G1 : get_item (fst s1) c = Some cu) by (now rewrite E1).
  rewrite (Eres cu G1 Chu). rewrite E1. unfold upd_item. rewrite Gu.
  assert (Du : ~ direct cu).
  { intros D. apply Dc. eapply direct_cls; [|exact D]. unfold view in Vu. congruence. }
  split; [|split].
  - apply (KK_child_cont (fst su) c cu None Ku Gu Du Lu); intros m H; discriminate.
  - eapply upd1_trans; [exact Uu|apply upd1_put].
  - exists (it_set_cont cu None). split; [apply get_put_item_same'|]. unfold view in Vu. cbn.
    repeat split; congruence.
Qed.

(* ------------------------------------------------------------------ *)
(* load / add_item of a charge or autocharge                            *)

Lemma fold_no_autos n (t : itype) (u : universe) c (l : list (Z * effect)) :
  (forall e ef, In (e, ef) l -> forall aa, e_autocharge_attr ef = Some aa -> al_get zeqb (t_attrs t) aa = None) ->
  forall s : st,
  fold_left
    (fun s (ee : Z * effect) =>
       match e_autocharge_attr (snd ee) with
       | None => s
       | Some aa =>
         match al_get zeqb (t_attrs t) aa with
         | None => s
         | Some q =>
           let a := w_next (fst s) in
           let s := lift s (fun w =>
                      let w := set_next w (S a) in
                      let w := put_item w a (new_item CAutocharge (q_trunc q) State_offline 0) in
                      upd_item w c (fun it => it_set_autos it (al_set zeqb (i_autos it) (fst ee) a))) in
           add_item n s a (PAuto c)
         end
       end) l s = s.
Proof.
  induction l as [|[e ef] l IH]; intros H s; cbn [fold_left]; [reflexivity|].
  cbn [snd fst]. destruct (e_autocharge_attr ef) as [aa|] eqn:Ea.
  - rewrite (H e ef (or_introl eq_refl) aa Ea). apply IH. intros e' ef' I. apply (H e' ef'). now right.
  - apply IH. intros e' ef' I. apply (H e' ef'). now right.
Qed.

Lemma item_effects_in w it e ef :
  In (e, ef) (item_effects w it) ->
  exists t u, item_type w it = Some t /\ item_universe w it = Some u /\ In e (t_effects t) /\ get_effect u e = Some ef.
Proof.
  unfold item_effects. destruct (item_type w it) as [t|]; [|intros []].
  destruct (item_universe w it) as [u|]; [|intros []].
  intros I. apply in_flat_map in I as (e' & I1 & I2). exists t, u.
  destruct (get_effect u e') as [ef'|] eqn:G; [|destruct I2]. destruct I2 as [E|[]]. injection E as -> ->. auto.
Qed.

Theorem load_leaf n s c cit :
  KK (fst s) -> get_item (fst s) c = Some cit -> ~ direct cit -> i_loaded cit = None ->
  w_err (fst (load (S n) s c)) = None ->
  KK (fst (load (S n) s c)) /\ upd1 (fst s) (fst (load (S n) s c)) c /\
  exists cit', get_item (fst (load (S n) s c)) c = Some cit' /\ view cit' = view cit /\
               i_state cit' = i_state cit /\ i_tid cit' = i_tid cit.
Proof.
  intros K Hc Dc Hl. destruct (kk_flat _ K c cit Hc Dc) as (Fch & Fau).
  assert (Same : KK (fst s) /\ upd1 (fst s) (fst s) c /\
                 exists cit', get_item (fst s) c = Some cit' /\ view cit' = view cit /\
                              i_state cit' = i_state cit /\ i_tid cit' = i_tid cit).
  { split; [exact K|split; [apply upd1_refl|]]. exists cit. auto. }
  cbn [load]. rewrite Hc.
  destruct (item_fit (fst s) c) as [f|] eqn:Ef; [|intros _; exact Same].
  destruct (fit_source_id (fst s) f) as [src|] eqn:Esrc; [|intros _; exact Same].
  destruct (get_src (fst s) src) as [u|] eqn:Eu; [|intros _; exact Same].
  destruct (get_type u (i_tid cit)) as [t|] eqn:Et; [|intros _; exact Same].
  cbv zeta.
  set (ld := it_set_loaded cit (Some src)).
  set (s1 := lift s (fun w => put_item w c ld)).
  set (s2 := with_msgs s1 f (fun w => item_loaded_msgs w c)).
  assert (G1 : get_item (fst s1) c = Some ld) by (unfold s1, lift; cbn [fst]; apply get_put_item_same').
  (* shape of the loaded messages *)
  assert (Sh : run_only (fst s1) (fst s2) c).
  { unfold s2, with_msgs. pose proof (loaded_run_only (fst s1) c) as H.
    destruct (item_loaded_msgs (fst s1) c). exact H. }
  destruct Sh as (U2 & R2 & _). destruct (R2 ld G1) as (r & Hr). rewrite Hr.
  (* no autocharges are created *)
  assert (NAc : NAtid (fst s) (i_tid cit)) by (apply (kk_na _ K c cit Hc Dc)).
  rewrite (fold_no_autos n t u c).
  2:{ intros e ef I aa Ha. apply item_effects_in in I as (t' & u' & Ht & Hu & It & Ge).
      unfold item_type, item_universe in Ht, Hu. cbn [i_loaded it_set_running it_set_loaded ld i_tid] in Ht, Hu.
      destruct U2 as (Us2 & _). unfold get_src in Ht, Hu. rewrite Us2 in Ht, Hu.
      unfold s1, lift in Ht, Hu. cbn [fst w_srcs put_item set_items] in Ht, Hu.
      unfold get_src in Eu. rewrite Eu in Ht, Hu. injection Hu as <-. rewrite Et in Ht. injection Ht as <-.
      exact (NAc src u t Eu Et e ef aa It Ge Ha). }
  intros He.
  assert (U : upd1 (fst s) (fst s2) c).
  { eapply upd1_trans; [|exact U2]. unfold s1, lift. cbn [fst]. apply upd1_put. }
  (* the table holds for c after the loaded messages *)
  assert (Gd : goodA (fst s2) c (it_set_running ld r)).
  { unfold s2, with_msgs in *. unfold item_loaded_msgs in *.
    destruct (item_state (fst s1) c) as [st|] eqn:Est; [|cbn [fst] in He; destruct (err_fail_none _ _ He)].
    destruct (effects_update (fst s1) c) as [w0 m0] eqn:Eeu. cbn [fst] in *.
    apply (eu_goodA (fst s1) c ld w0 m0 G1 Eeu He); [|exact Hr].
    intros x Hx. cbn in Hx. injection Hx as <-. unfold s1, lift. cbn [fst]. unfold get_src in *.
    cbn [w_srcs put_item set_items]. congruence. }
  split; [|split; [exact U|]].
  - apply (KK_child_step (fst s) (fst s2) c cit (it_set_running ld r) K U Hc Hr Dc); try reflexivity; try assumption.
    intros _. congruence.
  - exists (it_set_running ld r). split; [exact Hr|]. repeat split.
Qed.

Theorem add_leaf n s c cit p :
  KK (fst s) -> get_item (fst s) c = Some cit -> ~ direct cit -> i_loaded cit = None ->
  (forall m, p = PCharge m -> exists mit, get_item (fst s) m = Some mit /\ i_charge mit = Some c) ->
  (forall m, p = PAuto m -> exists mit, get_item (fst s) m = Some mit /\ In c (map snd (i_autos mit))) ->
  w_err (fst (add_item (S (S n)) s c p)) = None ->
  KK (fst (add_item (S (S n)) s c p)) /\ upd1 (fst s) (fst (add_item (S (S n)) s c p)) c /\
  exists cit', get_item (fst (add_item (S (S n)) s c p)) c = Some cit' /\ i_cont cit' = Some p /\
               i_cls cit' = i_cls cit /\ i_charge cit' = None /\ i_autos cit' = [] /\
               i_state cit' = i_state cit /\ i_tid cit' = i_tid cit.
Proof.
  intros K Hc Dc Hl H1 H2. destruct (kk_flat _ K c cit Hc Dc) as (Fch & Fau).
  set (cc := it_set_cont cit (Some p)).
  set (s1 := lift s (fun w => upd_item w c (fun it => it_set_cont it (Some p)))).
  assert (E1 : fst s1 = put_item (fst s) c cc) by (unfold s1, lift, upd_item; cbn [fst]; now rewrite Hc).
  assert (K1 : KK (fst s1)).
  { rewrite E1. apply (KK_child_cont (fst s) c cit (Some p) K Hc Dc Hl).
    - intros m E. injection E as ->. now apply H1.
    - intros m E. injection E as ->. now apply H2. }
  assert (G1 : get_item (fst s1) c = Some cc) by (rewrite E1; apply get_put_item_same').
  assert (U1 : upd1 (fst s) (fst s1) c) by (rewrite E1; apply upd1_put).
  cbn [add_item]. fold s1.
  destruct (item_fit (fst s1) c) as [f|] eqn:Ef.
  2:{ intros _. split; [exact K1|split; [exact U1|]]. exists cc. split; [exact G1|]. now repeat split. }
  cbv zeta.
  set (sa := with_msgs s1 f (fun w => item_added_msgs w c)).
  set (sl := load (S n) sa c).
  (* whatever follows the load touches nothing: the item holds no charge *)
  assert (Shape : forall x, get_item (fst sl) c = Some x -> i_charge x = None ->
                  (match get_item (fst sl) c with
                   | Some it => fold_left (fun s sub => load (S n) (with_msgs s f (fun w => item_added_msgs w sub)) sub)
                                          (child_items it true) sl
                   | None => lift sl (fun w => fail w EKeyAbsent)
                   end) = sl).
  { intros x Gx Cx. rewrite Gx. unfold child_items. rewrite Cx. reflexivity. }
  intros He.
  assert (Hsl : w_err (fst sl) = None).
  { destruct (get_item (fst sl) c) as [x|] eqn:Gx.
    - revert He. apply (C_fold sticky sticky_refl sticky_trans). intros s0 x0.
      eapply sticky_trans; [|apply sticky_load]. apply with_msgs_sticky. intros; apply added_sticky.
    - unfold lift in He. cbn [fst] in He. destruct (err_fail_none _ _ He). }
  assert (Hsa : w_err (fst sa) = None) by (apply (sticky_load (S n) sa c); exact Hsl).
  assert (Esa : fst sa = fst s1) by (apply with_msgs_added_same; exact Hsa).
  assert (Ka : KK (fst sa)) by (now rewrite Esa).
  assert (Ga : get_item (fst sa) c = Some cc) by (now rewrite Esa).
  destruct (load_leaf n sa c cc Ka Ga Dc Hl Hsl) as (Kl & Ul & cl & Gl & Vl & Stl & Tl). fold sl in Kl, Ul, Gl.
  assert (Chl : i_charge cl = None) by (unfold view in Vl; cbn in Vl; congruence).
  rewrite (Shape cl Gl Chl).
  split; [exact Kl|split].
  - eapply upd1_trans; [exact U1|]. rewrite <- Esa. exact Ul.
  - exists cl. split; [exact Gl|]. unfold view, cc in Vl. cbn in Vl.
    assert (E4 : (i_cls cl, i_cont cl, i_autos cl, i_charge cl) = (i_cls cit, Some p, i_autos cit, i_charge cit)) by exact Vl.
    injection E4 as Ea Eb Ec Ed. unfold cc in Stl, Tl. cbn in Stl, Tl.
    repeat split; congruence.
Qed.

(* ------------------------------------------------------------------ *)
(* a directly held item changes                                         *)

Lemma direct_cont_fit w x xit : J w -> KK w -> get_item w x = Some xit -> direct xit ->
  forall y, i_cont xit <> Some (PCharge y) /\ i_cont xit <> Some (PAuto y).
Proof.
  intros (_ & _ & J3 & J4) K Hx Dx y. destruct (kk_pc _ K x xit y Hx) as (P1 & P2). split; intros H.
  - destruct (P1 H) as (yit & Gy & Hy). pose proof (J4 y yit x Gy Hy) as C. unfold cls_of in C. rewrite Hx in C.
    injection C as C. apply (proj2 (direct_childcls xit)); [right; exact C|exact Dx].
  - destruct (P2 H) as (yit & Gy & Hy). apply in_map_iff in Hy as ([e a] & Ea & Hy). cbn in Ea. subst a.
    pose proof (J3 y yit e x Gy Hy) as C. unfold cls_of in C. rewrite Hx in C.
    injection C as C. apply (proj2 (direct_childcls xit)); [left; exact C|exact Dx].
Qed.

(* the fit of an item, read off its container reference when that is not an item *)
Lemma item_fit_top n w x xit : get_item w x = Some xit ->
  (forall y, i_cont xit <> Some (PCharge y) /\ i_cont xit <> Some (PAuto y)) ->
  item_fit_n (S n) w x = match fitcont_of xit with
                         | Some (PSlot f _) | Some (PSet f _) | Some (PRack f _) => Some f
                         | _ => None end.
Proof.
  intros Hx Hn. cbn [item_fit_n]. rewrite Hx. unfold fitcont_of.
  destruct (i_cont xit) as [[f k|f k|f k|y|y]|]; try reflexivity; exfalso; destruct (Hn y); congruence.
Qed.

Definition fit_of_place (p : option place) : option nat :=
  match p with Some (PSlot f _) | Some (PSet f _) | Some (PRack f _) => Some f | _ => None end.
Lemma item_fit_child w j it x xit : get_item w j = Some it ->
  (i_cont it = Some (PCharge x) \/ i_cont it = Some (PAuto x)) -> get_item w x = Some xit ->
  (forall y, i_cont xit <> Some (PCharge y) /\ i_cont xit <> Some (PAuto y)) ->
  item_fit w j = fit_of_place (fitcont_of xit).
Proof.
  intros Hj Hp Hx Hn. unfold item_fit. cbn [item_fit_n]. rewrite Hj.
  destruct Hp as [E|E]; rewrite E; cbv iota; rewrite Hx; unfold fitcont_of;
    destruct (i_cont xit) as [[f k|f k|f k|y|y]|]; try reflexivity; exfalso; destruct (Hn y); congruence.
Qed.

(* the parent of a charge / autocharge of a flat world is directly held *)
Lemma parent_direct w c cit m : KK w -> get_item w c = Some cit ->
  (i_cont cit = Some (PCharge m) \/ i_cont cit = Some (PAuto m)) ->
  exists mit, get_item w m = Some mit /\ direct mit.
Proof.
  intros K Hc Hp. destruct (kk_pc _ K c cit m Hc) as (P1 & P2).
  destruct Hp as [H|H]; [destruct (P1 H) as (mit & Gm & Hm)|destruct (P2 H) as (mit & Gm & Hm)];
    exists mit; (split; [exact Gm|]); destruct (direct_dec mit) as [D|D]; try exact D; exfalso;
    destruct (kk_flat _ K m mit Gm D) as (F1 & F2).
  - congruence.
  - rewrite F2 in Hm. destruct Hm.
Qed.

Lemma item_state_put_direct w m old new :
  get_item w m = Some old -> direct old -> i_cls new = i_cls old -> i_state new = i_state old ->
  forall j, item_state (put_item w m new) j = item_state w j.
Proof.
  intros Hm Dm Ec Es. unfold item_state. generalize 4%nat. induction n as [|n IH]; intros j; cbn [item_state_n]; [reflexivity|].
  destruct (Nat.eq_dec j m) as [->|Nj].
  - rewrite get_put_item_same', Hm, Ec, Es. unfold direct in Dm.
    destruct (cr_state (class_row_of (i_cls old))); try reflexivity. congruence.
  - rewrite get_put_item_other by exact Nj. destruct (get_item w j) as [it|]; [|reflexivity].
    destruct (cr_state (class_row_of (i_cls it))); try reflexivity.
    destruct (i_cont it) as [[| | |p|p]|]; try reflexivity; apply IH.
Qed.

Lemma KK_direct_put w m old new :
  J w -> KK w -> get_item w m = Some old -> direct old ->
  i_cls new = i_cls old -> i_state new = i_state old ->
  (forall y, i_cont new <> Some (PCharge y) /\ i_cont new <> Some (PAuto y)) ->
  (i_loaded new = None -> i_autos new = []) ->
  (forall c cit, get_item w c = Some cit -> i_cont cit = Some (PCharge m) -> i_charge new = Some c) ->
  (forall c cit, get_item w c = Some cit -> i_cont cit = Some (PAuto m) -> In c (map snd (i_autos new))) ->
  (fitcont_of new = None ->
   forall c cit, get_item w c = Some cit -> (i_cont cit = Some (PCharge m) \/ i_cont cit = Some (PAuto m)) ->
                 i_loaded cit = None) ->
  KK (put_item w m new).
Proof.
  intros Jw K Hm Dm Ec Es Hcont Hau HpC HpA Hnl. pose proof K as [R F N P A L].
  set (w' := put_item w m new).
  assert (Ho : forall j, j <> m -> get_item w' j = get_item w j) by (intros; now apply get_put_item_other).
  assert (Gm : get_item w' m = Some new) by apply get_put_item_same'.
  assert (Dn : direct new) by (unfold direct in *; now rewrite Ec).
  assert (Hst : forall j, item_state w' j = item_state w j) by (apply (item_state_put_direct w m old new Hm Dm Ec Es)).
  constructor.
  - intros j it _ G D. destruct (Nat.eq_dec j m) as [->|Nj]; [rewrite Gm in G; injection G as <-; contradiction|].
    rewrite (Ho j Nj) in G. apply (goodA_ext w w' j it it eq_refl eq_refl (Hst j)). now apply R.
  - intros j it G D. destruct (Nat.eq_dec j m) as [->|Nj]; [rewrite Gm in G; injection G as <-; contradiction|].
    rewrite (Ho j Nj) in G. now apply (F j it).
  - intros j it G D. apply (NAtid_srcs w w' _ eq_refl).
    destruct (Nat.eq_dec j m) as [->|Nj]; [rewrite Gm in G; injection G as <-; contradiction|].
    rewrite (Ho j Nj) in G. now apply (N j it).
  - intros j it x G. destruct (Nat.eq_dec j m) as [->|Nj].
    + rewrite Gm in G. injection G as <-. destruct (Hcont x) as (C1 & C2). split; intros H; contradiction.
    + rewrite (Ho j Nj) in G. destruct (P j it x G) as (P1 & P2). split; intros H.
      * destruct (Nat.eq_dec x m) as [->|Nx].
        -- exists new. split; [exact Gm|]. now apply (HpC j it).
        -- destruct (P1 H) as (xit & Gx & Hx). exists xit. now rewrite (Ho x Nx).
      * destruct (Nat.eq_dec x m) as [->|Nx].
        -- exists new. split; [exact Gm|]. now apply (HpA j it).
        -- destruct (P2 H) as (xit & Gx & Hx). exists xit. now rewrite (Ho x Nx).
  - intros j it G Hl. destruct (Nat.eq_dec j m) as [->|Nj].
    + rewrite Gm in G. injection G as <-. now apply Hau.
    + rewrite (Ho j Nj) in G. now apply (A j it).
  - intros j it G D Hl. destruct (Nat.eq_dec j m) as [->|Nj]; [rewrite Gm in G; injection G as <-; contradiction|].
    rewrite (Ho j Nj) in G. pose proof (L j it G D Hl) as Lj.
    (* the fit of a charge / autocharge is the fit of its directly held parent *)
    assert (Hp : exists x, i_cont it = Some (PCharge x) \/ i_cont it = Some (PAuto x)).
    { unfold item_fit in Lj. cbn [item_fit_n] in Lj. rewrite G in Lj.
      destruct (i_cont it) as [[f k|f k|f k|x|x]|] eqn:Ecj; try (exfalso; apply Lj; reflexivity);
        try (exfalso; destruct Jw as (_ & J2 & _); apply (proj1 (direct_childcls it)) in D;
             specialize (J2 j it G D); unfold fitcont_of in J2; rewrite Ecj in J2; discriminate).
      - exists x. now left.
      - exists x. now right. }
    destruct Hp as (x & Hp). destruct (parent_direct w j it x K G Hp) as (xit & Gx & Dx).
    pose proof (direct_cont_fit w x xit Jw K Gx Dx) as Hnx.
    rewrite (item_fit_child w j it x xit G Hp Gx Hnx) in Lj.
    assert (Gj' : get_item w' j = Some it) by (now rewrite (Ho j Nj)).
    destruct (Nat.eq_dec x m) as [->|Nx].
    + rewrite (item_fit_child w' j it m new Gj' Hp Gm Hcont).
      destruct (fitcont_of new) as [pl|] eqn:Ef.
      * unfold fitcont_of in Ef. destruct (i_cont new) as [[f k|f k|f k|z|z]|]; try discriminate;
          injection Ef as <-; cbn; discriminate.
      * exfalso. apply Hl. now apply (Hnl eq_refl j it G Hp).
    + assert (Gx' : get_item w' x = Some xit) by (now rewrite (Ho x Nx)).
      rewrite (item_fit_child w' j it x xit Gj' Hp Gx' Hnx). exact Lj.
Qed.
