(* C05 for charges and autocharges: the items whose state is their container's.
   Worlds are "flat": no charge or autocharge type defines an autocharge of its
   own and only directly held items carry a charge (the hypothesis [flat_ok] is
   evaluated by the extracted driver on every generated history). In every such
   world reached by public calls without an internal error, a charge or
   autocharge runs exactly the effects the decision table yields for the state
   of the item that holds it, its own run modes and its type; unloaded it runs
   nothing. Together with proofs/Runs_p.v (directly held items) this covers
   every item of the model. *)
From Coq Require Import ZArith QArith List Bool Lia.
From EosV Require Import lib.AList gen.T_eos model.World model.Status model.Calc model.Engine model.Ops
     model.Wf proofs.AList_p proofs.Rack_p proofs.Frame_p proofs.Containers_p proofs.Status_p proofs.Owner_p
     proofs.Cinv_p proofs.Runs_p.
Import ListNotations.

Opaque add_item remove_item load unload.

(* ------------------------------------------------------------------ *)
(* the table for an item whose state is [st]                            *)

Definition expected_st (w : world) (st : Z) (it : item) : option (list Z) :=
  match resolve_effects st it (item_effects w it)
                        (match item_type w it with Some t => t_default t | None => None end) None with
  | Some statuses => Some (running_of statuses)
  | None => None
  end.

Definition goodA (w : world) (j : nat) (it : item) : Prop :=
  (i_loaded it = None -> i_running it = []) /\
  (forall s, i_loaded it = Some s -> get_src w s <> None) /\
  (i_loaded it <> None -> forall st r, item_state w j = Some st -> expected_st w st it = Some r ->
                          set_equiv (i_running it) r).

(* every charge / autocharge outside X *)
Definition RA (X : list nat) (w : world) : Prop :=
  forall j it, ~ In j X -> get_item w j = Some it -> ~ direct it -> goodA w j it.

(* what goodA reads of the item and of the world *)
Lemma expected_st_ext w w' st it it' :
  w_srcs w' = w_srcs w -> ek it' = ek it -> expected_st w' st it' = expected_st w st it.
Proof.
  intros Hs Hk. unfold ek in Hk.
  assert (Etid : i_tid it' = i_tid it) by congruence.
  assert (Eld : i_loaded it' = i_loaded it) by congruence.
  assert (Emo : i_modes it' = i_modes it) by congruence.
  assert (Ety : item_type w' it' = item_type w it).
  { unfold item_type, get_src. now rewrite Eld, Etid, Hs. }
  assert (Eun : item_universe w' it' = item_universe w it).
  { unfold item_universe, get_src. now rewrite Eld, Hs. }
  assert (Eef : item_effects w' it' = item_effects w it).
  { unfold item_effects. now rewrite Ety, Eun. }
  unfold expected_st. rewrite Ety, Eef.
  assert (Er : forall effs d, resolve_effects st it' effs d None = resolve_effects st it effs d None).
  { intros effs d. unfold resolve_effects, effect_mode. now rewrite Emo. }
  now rewrite Er.
Qed.

Lemma goodA_ext w w' j it it' :
  w_srcs w' = w_srcs w -> gk it' = gk it -> item_state w' j = item_state w j ->
  goodA w j it -> goodA w' j it'.
Proof.
  intros Hs Hk Hst (G1 & G2 & G3). unfold gk in Hk.
  assert (Hek : ek it' = ek it) by congruence.
  assert (Hr : i_running it' = i_running it) by congruence.
  assert (Eld : i_loaded it' = i_loaded it) by (unfold ek in Hek; congruence).
  split; [|split].
  - rewrite Eld, Hr. exact G1.
  - intros s. rewrite Eld. unfold get_src. rewrite Hs. apply G2.
  - rewrite Eld, Hr, Hst. intros Hl st r H1 H2. apply (G3 Hl st r H1).
    now rewrite <- (expected_st_ext w w' st it it' Hs Hek).
Qed.

(* ------------------------------------------------------------------ *)
(* item_state under updates                                             *)

Lemma item_state_n_put n w i old new :
  get_item w i = Some old -> i_cls new = i_cls old -> i_cont new = i_cont old -> i_state new = i_state old ->
  forall j, item_state_n n (put_item w i new) j = item_state_n n w j.
Proof.
  intros Hi Hc Hp Hs. induction n as [|n IH]; intros j; cbn [item_state_n]; [reflexivity|].
  destruct (Nat.eq_dec j i) as [->|N].
  - rewrite get_put_item_same', Hi, Hc, Hp, Hs.
    destruct (cr_state (class_row_of (i_cls old))); try reflexivity.
    destruct (i_cont old) as [[| | |p|p]|]; try reflexivity; apply IH.
  - rewrite get_put_item_other by exact N.
    destruct (get_item w j) as [it|]; [|reflexivity].
    destruct (cr_state (class_row_of (i_cls it))); try reflexivity.
    destruct (i_cont it) as [[| | |p|p]|]; try reflexivity; apply IH.
Qed.
Lemma item_state_put w i old new :
  get_item w i = Some old -> i_cls new = i_cls old -> i_cont new = i_cont old -> i_state new = i_state old ->
  forall j, item_state (put_item w i new) j = item_state w j.
Proof. intros. unfold item_state. now apply (item_state_n_put 4 w i old new). Qed.

Lemma item_state_fail w e j : item_state (fail w e) j = item_state w j.
Proof.
  unfold item_state. generalize 4%nat. intros n. revert j.
  induction n as [|n IH]; intros j; cbn [item_state_n]; [reflexivity|].
  rewrite get_fail. destruct (get_item w j) as [it|]; [|reflexivity].
  destruct (cr_state (class_row_of (i_cls it))); try reflexivity.
  destruct (i_cont it) as [[| | |p|p]|]; try reflexivity; apply IH.
Qed.

(* the state of a charge / autocharge held by a directly held item *)
Lemma item_state_child w c cit m mit :
  get_item w c = Some cit -> ~ direct cit -> (i_cont cit = Some (PCharge m) \/ i_cont cit = Some (PAuto m)) ->
  get_item w m = Some mit -> direct mit -> item_state w c = Some (i_state mit).
Proof.
  intros Hc Hd Hp Hm Dm. unfold item_state. cbn [item_state_n]. rewrite Hc.
  assert (E : cr_state (class_row_of (i_cls cit)) = StContainer).
  { unfold direct in Hd. destruct (cr_state (class_row_of (i_cls cit))); try reflexivity; exfalso; apply Hd; discriminate. }
  rewrite E. destruct Hp as [-> | ->]; rewrite Hm; unfold direct in Dm;
    destruct (cr_state (class_row_of (i_cls mit))); try reflexivity; congruence.
Qed.

(* worlds that agree on class, container reference and own state of every item agree on item_state *)
Definition skv (w : world) (j : nat) := option_map (fun it => (i_cls it, i_cont it, i_state it)) (get_item w j).
Definition SKE (w w' : world) : Prop := forall j, skv w' j = skv w j.
Lemma SKE_refl w : SKE w w. Proof. intros j; reflexivity. Qed.
Lemma SKE_trans a b c : SKE a b -> SKE b c -> SKE a c.
Proof. intros H1 H2 j. now rewrite H2, H1. Qed.
Lemma SKE_fail w e : SKE w (fail w e).
Proof. intros j. unfold skv. now rewrite get_fail. Qed.
Lemma SKE_put w i old new :
  get_item w i = Some old -> i_cls new = i_cls old -> i_cont new = i_cont old -> i_state new = i_state old ->
  SKE w (put_item w i new).
Proof.
  intros Hi Hc Hp Hs j. unfold skv. destruct (Nat.eq_dec j i) as [->|N].
  - rewrite get_put_item_same', Hi. cbn. now rewrite Hc, Hp, Hs.
  - now rewrite get_put_item_other.
Qed.
Lemma SKE_upd w i g :
  (forall it, i_cls (g it) = i_cls it /\ i_cont (g it) = i_cont it /\ i_state (g it) = i_state it) -> SKE w (upd_item w i g).
Proof.
  intros H. unfold upd_item. destruct (get_item w i) as [it|] eqn:E; [|apply SKE_fail].
  destruct (H it) as (H1 & H2 & H3). eapply SKE_put; eauto.
Qed.
Lemma SKE_item_state w w' : SKE w w' -> forall j, item_state w' j = item_state w j.
Proof.
  intros H. unfold item_state. generalize 4%nat. induction n as [|n IH]; intros j; cbn [item_state_n]; [reflexivity|].
  specialize (H j) as Hj. unfold skv in Hj.
  destruct (get_item w' j) as [a|], (get_item w j) as [b|]; cbn in Hj; try congruence.
  injection Hj as H1 H2 H3. rewrite H1, H2, H3.
  destruct (cr_state (class_row_of (i_cls b))); try reflexivity.
  destruct (i_cont b) as [[| | |p|p]|]; try reflexivity; apply IH.
Qed.
Lemma SKE_item_fit w w' : SKE w w' -> forall j, item_fit w' j = item_fit w j.
Proof.
  intros H. unfold item_fit. generalize 4%nat. induction n as [|n IH]; intros j; cbn [item_fit_n]; [reflexivity|].
  specialize (H j) as Hj. unfold skv in Hj.
  destruct (get_item w' j) as [a|], (get_item w j) as [b|]; cbn in Hj; try congruence.
  injection Hj as H1 H2 H3. rewrite H2.
  destruct (i_cont b) as [[| | |p|p]|]; try reflexivity; apply IH.
Qed.
Lemma SKE_run_only w w' i : run_only w w' i -> SKE w w'.
Proof.
  intros ((_ & G) & R & Nn) j. unfold skv. destruct (Nat.eq_dec j i) as [->|N]; [|now rewrite G].
  destruct (get_item w i) as [it|] eqn:E; [|now rewrite (Nn eq_refl)].
  destruct (R it eq_refl) as (r & ->). reflexivity.
Qed.

(* ------------------------------------------------------------------ *)
(* effects_update establishes the table for its item, whatever holds it *)

Lemma eu_goodA w i it w' m :
  get_item w i = Some it -> effects_update w i = (w', m) -> w_err w' = None ->
  (forall s, i_loaded it = Some s -> get_src w s <> None) ->
  forall it', get_item w' i = Some it' -> goodA w' i it'.
Proof.
  intros Hi E He Hsrc it' Hi'.
  pose proof (eu_run_only w i) as RO. rewrite E in RO. cbn [fst] in RO.
  pose proof (SKE_item_state _ _ (SKE_run_only _ _ _ RO)) as Hst.
  destruct RO as (U & R & _).
  destruct (R it Hi) as (r & Hr). rewrite Hr in Hi'. injection Hi' as <-.
  split; [|split].
  - intros Hl. change (i_loaded it = None) in Hl. cbn [i_running it_set_running].
    destruct (item_state w i) as [st|] eqn:Est.
    + destruct (resolve_effects st it (item_effects w it)
                  (match item_type w it with Some t => t_default t | None => None end) None) as [statuses|] eqn:Hres.
      * destruct (effects_update_sets_table w i it st statuses w' m Hi Est Hres E He) as (it2 & H2 & Heq).
        rewrite Hr in H2. injection H2 as <-. cbn [i_running it_set_running] in Heq.
        assert (E0 : statuses = []).
        { unfold item_effects, item_type, item_universe in Hres. rewrite Hl in Hres. cbn in Hres. congruence. }
        subst statuses. now apply set_equiv_nil.
      * exfalso. unfold effects_update in E. rewrite Hi, Est, Hres in E. injection E as <- _.
        exact (err_fail_none _ _ He).
    + exfalso. unfold effects_update in E. rewrite Hi, Est in E. injection E as <- _. exact (err_fail_none _ _ He).
  - intros s Hl. unfold get_src. destruct U as (Us & _). rewrite Us. now apply Hsrc.
  - intros Hl st r0 Hst0 Hr0. rewrite Hst in Hst0.
    change (i_loaded it <> None) in Hl. cbn [i_running it_set_running].
    assert (Ex : expected_st w' st (it_set_running it r) = expected_st w st it)
      by (apply expected_st_ext; [apply U|reflexivity]).
    rewrite Ex in Hr0. unfold expected_st in Hr0.
    destruct (resolve_effects st it (item_effects w it)
                (match item_type w it with Some t => t_default t | None => None end) None) as [statuses|] eqn:Hres;
      [|discriminate].
    injection Hr0 as <-.
    destruct (effects_update_sets_table w i it st statuses w' m Hi Hst0 Hres E He) as (it2 & H2 & Heq).
    rewrite Hr in H2. injection H2 as <-. exact Heq.
Qed.

(* ------------------------------------------------------------------ *)
(* flat worlds                                                          *)

(* a type that defines no autocharge: no effect of it names an autocharge attribute the type has *)
Definition no_auto_type (u : universe) (t : itype) : Prop :=
  forall e ef aa, In e (t_effects t) -> get_effect u e = Some ef -> e_autocharge_attr ef = Some aa ->
                  al_get zeqb (t_attrs t) aa = None.
Definition NAtid (w : world) (tid : Z) : Prop :=
  forall s u t, get_src w s = Some u -> get_type u tid = Some t -> no_auto_type u t.

Record KK (w : world) : Prop := mkKK {
  kk_ra : RA [] w;
  (* charges and autocharges hold nothing themselves, and their types define no autocharges *)
  kk_flat : forall c cit, get_item w c = Some cit -> ~ direct cit -> i_charge cit = None /\ i_autos cit = [];
  kk_na : forall c cit, get_item w c = Some cit -> ~ direct cit -> NAtid w (i_tid cit);
  (* an item that names an item container is listed by it *)
  kk_pc : forall c cit m, get_item w c = Some cit ->
            (i_cont cit = Some (PCharge m) -> exists mit, get_item w m = Some mit /\ i_charge mit = Some c) /\
            (i_cont cit = Some (PAuto m) -> exists mit, get_item w m = Some mit /\ In c (map snd (i_autos mit)));
  (* an unloaded item has no autocharges *)
  kk_au : forall i it, get_item w i = Some it -> i_loaded it = None -> i_autos it = [];
  (* a loaded charge / autocharge is on a fit *)
  kk_nl : forall c cit, get_item w c = Some cit -> ~ direct cit -> i_loaded cit <> None -> item_fit w c <> None }.

(* what KK reads of an item: of every item its class, container reference, own state, loaded flag, charge and
   autocharges; of a charge / autocharge also type, run modes and running set *)
Definition dk (it : item) := (i_cls it, i_cont it, i_state it, i_loaded it, i_charge it, i_autos it).
Definition kview (it : item) :=
  (dk it, match direct_dec it with left _ => None | right _ => Some (gk it) end).
Definition same_k (w w' : world) : Prop :=
  w_srcs w' = w_srcs w /\ forall j, option_map kview (get_item w' j) = option_map kview (get_item w j).

Lemma kview_dk a b : kview a = kview b -> dk a = dk b.
Proof. intros H. exact (f_equal fst H). Qed.
Lemma kview_direct a b : kview a = kview b -> (direct a <-> direct b).
Proof.
  intros H. pose proof (kview_dk _ _ H) as D. unfold dk in D. assert (E : i_cls a = i_cls b) by congruence.
  unfold direct. now rewrite E.
Qed.
Lemma kview_gk a b : kview a = kview b -> ~ direct a -> gk a = gk b.
Proof.
  intros H D. pose proof (proj1 (kview_direct _ _ H)) as Dab.
  pose proof (f_equal snd H) as S. cbn [snd kview] in S.
  destruct (direct_dec a) as [Da|_]; [contradiction|]. destruct (direct_dec b) as [Db|_]; congruence.
Qed.

Lemma same_k_refl w : same_k w w. Proof. split; auto. Qed.
Lemma same_k_trans a b c : same_k a b -> same_k b c -> same_k a c.
Proof. intros (S1 & H1) (S2 & H2). split; [congruence|]. intros j. now rewrite H2, H1. Qed.
Lemma same_k_fail w e : same_k w (fail w e).
Proof. split; [unfold fail; destruct (w_err w); reflexivity|]. intros j. now rewrite get_fail. Qed.
Lemma same_k_put w i old new : get_item w i = Some old -> kview new = kview old -> same_k w (put_item w i new).
Proof.
  intros Hi Hk. split; [reflexivity|]. intros j. destruct (Nat.eq_dec j i) as [->|N].
  - rewrite get_put_item_same', Hi. cbn. now rewrite Hk.
  - now rewrite get_put_item_other.
Qed.
Lemma same_k_upd w i g : (forall it, kview (g it) = kview it) -> same_k w (upd_item w i g).
Proof.
  intros H. unfold upd_item. destruct (get_item w i) as [it|] eqn:E; [|apply same_k_fail].
  eapply same_k_put; eauto.
Qed.

Lemma same_k_SKE w w' : same_k w w' -> SKE w w'.
Proof.
  intros (_ & H) j. specialize (H j). unfold skv.
  destruct (get_item w' j) as [a|], (get_item w j) as [b|]; cbn [option_map] in *; try congruence.
  assert (E : kview a = kview b) by congruence.
  pose proof (kview_dk _ _ E) as D. unfold dk in D. f_equal. congruence.
Qed.

Lemma same_k_get w w' j it' :
  same_k w w' -> get_item w' j = Some it' -> exists it, get_item w j = Some it /\ kview it' = kview it.
Proof.
  intros (_ & H) G. specialize (H j). rewrite G in H. destruct (get_item w j) as [it|]; cbn [option_map] in H; [|discriminate].
  exists it. split; [reflexivity|congruence].
Qed.
Lemma same_k_get' w w' j it :
  same_k w w' -> get_item w j = Some it -> exists it', get_item w' j = Some it' /\ kview it' = kview it.
Proof.
  intros (_ & H) G. specialize (H j). rewrite G in H. destruct (get_item w' j) as [it'|]; cbn [option_map] in H; [|discriminate].
  exists it'. split; [reflexivity|congruence].
Qed.

Lemma NAtid_srcs w w' tid : w_srcs w' = w_srcs w -> NAtid w tid -> NAtid w' tid.
Proof. intros Hs H s u t G. apply (H s u t). unfold get_src in *. now rewrite <- Hs. Qed.

Lemma KK_same_k w w' : same_k w w' -> KK w -> KK w'.
Proof.
  intros S [R F N P A L]. pose proof S as (Hs & _). pose proof (same_k_SKE _ _ S) as Hk. constructor.
  - intros j it' _ G D. destruct (same_k_get _ _ _ _ S G) as (it & G0 & Ek).
    apply (goodA_ext w w' j it it' Hs (kview_gk _ _ Ek D) (SKE_item_state _ _ Hk j)).
    apply R; [intros []|exact G0|]. intros D0. apply D. now apply (kview_direct _ _ Ek).
  - intros c cit G D. destruct (same_k_get _ _ _ _ S G) as (it & G0 & Ek).
    pose proof (kview_dk _ _ Ek) as Ed. unfold dk in Ed.
    assert (Ec : i_charge cit = i_charge it) by congruence. assert (Ea : i_autos cit = i_autos it) by congruence.
    rewrite Ec, Ea. apply (F c it G0). intros D0. apply D. now apply (kview_direct _ _ Ek).
  - intros c cit G D. destruct (same_k_get _ _ _ _ S G) as (it & G0 & Ek).
    pose proof (kview_gk _ _ Ek D) as Eg.
    assert (Et : i_tid cit = i_tid it) by (unfold gk, ek in Eg; congruence). rewrite Et.
    apply (NAtid_srcs w w' _ Hs). apply (N c it G0). intros D0. apply D. now apply (kview_direct _ _ Ek).
  - intros c cit m G. destruct (same_k_get _ _ _ _ S G) as (it & G0 & Ek).
    pose proof (kview_dk _ _ Ek) as Ed. unfold dk in Ed.
    assert (Ep : i_cont cit = i_cont it) by congruence. rewrite Ep.
    destruct (P c it m G0) as (P1 & P2). split; intros H.
    + destruct (P1 H) as (mit & Gm & Hc). destruct (same_k_get' _ _ _ _ S Gm) as (mit' & Gm' & Ek').
      pose proof (kview_dk _ _ Ek') as Ed'. unfold dk in Ed'.
      exists mit'. split; [exact Gm'|congruence].
    + destruct (P2 H) as (mit & Gm & Hc). destruct (same_k_get' _ _ _ _ S Gm) as (mit' & Gm' & Ek').
      pose proof (kview_dk _ _ Ek') as Ed'. unfold dk in Ed'.
      exists mit'. split; [exact Gm'|]. assert (Ea : i_autos mit' = i_autos mit) by congruence. now rewrite Ea.
  - intros i it' G Hl. destruct (same_k_get _ _ _ _ S G) as (it & G0 & Ek).
    pose proof (kview_dk _ _ Ek) as Ed. unfold dk in Ed.
    assert (Ea : i_autos it' = i_autos it) by congruence. rewrite Ea. apply (A i it G0). congruence.
  - intros c cit G D Hl. destruct (same_k_get _ _ _ _ S G) as (it & G0 & Ek).
    pose proof (kview_dk _ _ Ek) as Ed. unfold dk in Ed.
    rewrite (SKE_item_fit _ _ Hk c). apply (L c it G0).
    + intros D0. apply D. now apply (kview_direct _ _ Ek).
    + assert (El : i_loaded cit = i_loaded it) by congruence. now rewrite <- El.
Qed.

(* ------------------------------------------------------------------ *)
(* one charge / autocharge changes, everything KK reads of the others stays *)

Lemma child_upd_chain w w' c old new :
  upd1 w w' c -> get_item w c = Some old -> get_item w' c = Some new -> ~ direct old ->
  i_cls new = i_cls old -> i_cont new = i_cont old ->
  (forall j, item_state w' j = item_state w j) /\ (forall j, item_fit w' j = item_fit w j).
Proof.
  intros (_ & Ho) Hc Hc' Dc Ecls Econt. split.
  - unfold item_state. generalize 4%nat. induction n as [|n IH]; intros j; cbn [item_state_n]; [reflexivity|].
    destruct (Nat.eq_dec j c) as [->|Nj].
    + rewrite Hc', Hc, Ecls, Econt. unfold direct in Dc.
      destruct (cr_state (class_row_of (i_cls old))); try (exfalso; apply Dc; discriminate).
      destruct (i_cont old) as [[| | |p|p]|]; try reflexivity; apply IH.
    + rewrite (Ho j Nj). destruct (get_item w j) as [it|]; [|reflexivity].
      destruct (cr_state (class_row_of (i_cls it))); try reflexivity.
      destruct (i_cont it) as [[| | |p|p]|]; try reflexivity; apply IH.
  - unfold item_fit. generalize 4%nat. induction n as [|n IH]; intros j; cbn [item_fit_n]; [reflexivity|].
    destruct (Nat.eq_dec j c) as [->|Nj].
    + rewrite Hc', Hc, Econt. destruct (i_cont old) as [[| | |p|p]|]; try reflexivity; apply IH.
    + rewrite (Ho j Nj). destruct (get_item w j) as [it|]; [|reflexivity].
      destruct (i_cont it) as [[| | |p|p]|]; try reflexivity; apply IH.
Qed.

Lemma KK_child_step w w' c old new :
  KK w -> upd1 w w' c -> get_item w c = Some old -> get_item w' c = Some new -> ~ direct old ->
  i_cls new = i_cls old -> i_cont new = i_cont old -> i_tid new = i_tid old ->
  i_charge new = None -> i_autos new = [] ->
  goodA w' c new -> (i_loaded new <> None -> item_fit w c <> None) -> KK w'.
Proof.
  intros [R F N P A L] U Hc Hc' Dc Ecls Econt Etid Ech Eau Gd Hl.
  destruct (child_upd_chain w w' c old new U Hc Hc' Dc Ecls Econt) as (Hst & Hft).
  destruct U as (Hs & Ho).
  assert (Dn : ~ direct new) by (intros D; apply Dc; eapply direct_cls; [|exact D]; congruence).
  constructor.
  - intros j it _ G D. destruct (Nat.eq_dec j c) as [->|Nj].
    + rewrite Hc' in G. injection G as <-. exact Gd.
    + rewrite (Ho j Nj) in G. apply (goodA_ext w w' j it it Hs eq_refl (Hst j)).
      now apply R.
  - intros j it G D. destruct (Nat.eq_dec j c) as [->|Nj].
    + rewrite Hc' in G. injection G as <-. now split.
    + rewrite (Ho j Nj) in G. now apply (F j it).
  - intros j it G D. apply (NAtid_srcs w w' _ Hs). destruct (Nat.eq_dec j c) as [->|Nj].
    + rewrite Hc' in G. injection G as <-. rewrite Etid. now apply (N c old).
    + rewrite (Ho j Nj) in G. now apply (N j it).
  - intros j it m G.
    assert (Gl : forall x xit, get_item w x = Some xit ->
                               exists xit', get_item w' x = Some xit' /\ i_charge xit' = i_charge xit /\ i_autos xit' = i_autos xit).
    { intros x xit Gx. destruct (Nat.eq_dec x c) as [->|Nx].
      - rewrite Hc in Gx. injection Gx as <-. exists new. destruct (F c old Hc Dc) as (F1 & F2).
        split; [exact Hc'|]. now rewrite Ech, Eau, F1, F2.
      - exists xit. now rewrite (Ho x Nx). }
    assert (Hold : exists it0, get_item w j = Some it0 /\ i_cont it0 = i_cont it).
    { destruct (Nat.eq_dec j c) as [->|Nj].
      - rewrite Hc' in G. injection G as <-. exists old. now split.
      - rewrite (Ho j Nj) in G. exists it. now split. }
    destruct Hold as (it0 & G0 & E0). rewrite <- E0. destruct (P j it0 m G0) as (P1 & P2). split; intros H.
    + destruct (P1 H) as (mit & Gm & Hm). destruct (Gl m mit Gm) as (mit' & Gm' & Ec' & _).
      exists mit'. split; [exact Gm'|congruence].
    + destruct (P2 H) as (mit & Gm & Hm). destruct (Gl m mit Gm) as (mit' & Gm' & _ & Ea').
      exists mit'. split; [exact Gm'|now rewrite Ea'].
  - intros j it G Hld. destruct (Nat.eq_dec j c) as [->|Nj].
    + rewrite Hc' in G. injection G as <-. exact Eau.
    + rewrite (Ho j Nj) in G. now apply (A j it).
  - intros j it G D Hld. rewrite (Hft j). destruct (Nat.eq_dec j c) as [->|Nj].
    + rewrite Hc' in G. injection G as <-. now apply Hl.
    + rewrite (Ho j Nj) in G. now apply (L j it).
Qed.

Lemma unloaded_msgs_running_nil w c it' :
  w_err w = None -> w_err (fst (item_unloaded_msgs w c)) = None ->
  get_item (fst (item_unloaded_msgs w c)) c = Some it' -> i_running it' = [].
Proof.
  unfold item_unloaded_msgs. intros He0. destruct (get_item w c) as [it|] eqn:Hc;
    [|cbn [fst]; intros He; destruct (err_fail_none _ _ He)].
  destruct (i_running it) as [|e r] eqn:Er.
  - destruct (item_state w c); cbn [fst]; [|intros He; destruct (err_fail_none _ _ He)].
    intros _ G. rewrite Hc in G. injection G as <-. exact Er.
  - destruct (effects_tgts w it (e :: r)) as [tg|].
    + destruct (item_state (put_item w c (it_set_running it [])) c); cbn [fst];
        [|intros He; destruct (err_fail_none _ _ He)].
      intros _ G. rewrite get_put_item_same' in G. injection G as <-. reflexivity.
    + destruct (item_state (fail w EKeyAbsent) c); cbn [fst]; intros He; exfalso.
      * unfold fail in He. rewrite He0 in He. discriminate.
      * apply (err_fail_none _ _ He).
Qed.

Lemma it_set_autos_nil it : i_autos it = [] -> it_set_autos it [] = it.
Proof. destruct it. cbn. now intros ->. Qed.

(* ------------------------------------------------------------------ *)
(* unload / remove_item of a charge or autocharge (a leaf of a flat world) *)

Theorem unload_leaf n s c cit :
  KK (fst s) -> get_item (fst s) c = Some cit -> ~ direct cit ->
  w_err (fst (unload (S n) s c)) = None ->
  KK (fst (unload (S n) s c)) /\ upd1 (fst s) (fst (unload (S n) s c)) c /\
  exists cit', get_item (fst (unload (S n) s c)) c = Some cit' /\ i_loaded cit' = None /\
               view cit' = view cit /\ i_state cit' = i_state cit /\ i_tid cit' = i_tid cit.
Proof.
  intros K Hc Dc. pose proof K as [R F N P A L]. destruct (F c cit Hc Dc) as (Fch & Fau).
  set (s1 := match item_fit (fst s) c, i_loaded cit with
             | Some f, Some _ => with_msgs s f (fun w => item_unloaded_msgs w c)
             | _, _ => s end).
  assert (RO : run_only (fst s) (fst s1) c).
  { subst s1. destruct (item_fit (fst s) c) as [f|]; [|apply run_only_refl].
    destruct (i_loaded cit); [|apply run_only_refl]. unfold with_msgs.
    pose proof (unloaded_run_only (fst s) c) as H. destruct (item_unloaded_msgs (fst s) c). exact H. }
  destruct RO as (U1 & R1 & _). destruct (R1 cit Hc) as (r & Hr).
  set (new := it_set_loaded (it_set_running cit r) None).
  set (w3 := put_item (put_item (fst s1) c (it_set_running cit r)) c new).
  assert (Eres : fst (unload (S n) s c) = w3).
  { cbn [unload]. rewrite Hc. cbv zeta. fold s1. cbn [fst snd]. rewrite Hr. cbn [i_autos it_set_running].
    rewrite Fau. cbn [fold_left]. unfold lift. cbn [fst]. unfold upd_item. rewrite Hr.
    rewrite (it_set_autos_nil (it_set_running cit r)) by exact Fau.
    rewrite get_put_item_same'. reflexivity. }
  rewrite Eres. intros He.
  assert (He1 : w_err (fst s1) = None) by exact He.
  assert (U3 : upd1 (fst s) w3 c).
  { eapply upd1_trans; [exact U1|]. eapply upd1_trans; apply upd1_put. }
  assert (G3 : get_item w3 c = Some new) by apply get_put_item_same'.
  (* the running set is empty: either the unloaded messages emptied it, or the item was not loaded *)
  assert (Hrun : r = []).
  { subst s1. destruct (item_fit (fst s) c) as [f|] eqn:Ef.
    - destruct (i_loaded cit) eqn:El.
      + unfold with_msgs in Hr, He1. pose proof (unloaded_msgs_running_nil (fst s) c (it_set_running cit r)) as H.
        destruct (item_unloaded_msgs (fst s) c) as [w0 m0] eqn:E0. cbn [fst] in *.
        apply H; [|exact He1|exact Hr].
        pose proof (unloaded_sticky (fst s) c) as St. rewrite E0 in St. now apply St.
      + rewrite Hc in Hr. injection Hr as Hr. apply (f_equal i_running) in Hr. cbn in Hr. rewrite <- Hr.
        destruct (R c cit (fun x => x) Hc Dc) as (G1 & _). now apply G1.
    - destruct (i_loaded cit) eqn:El.
      + exfalso. apply (L c cit Hc Dc); [congruence|exact Ef].
      + rewrite Hc in Hr. injection Hr as Hr. apply (f_equal i_running) in Hr. cbn in Hr. rewrite <- Hr.
        destruct (R c cit (fun x => x) Hc Dc) as (G1 & _). now apply G1. }
  split; [|split; [exact U3|]].
  - apply (KK_child_step (fst s) w3 c cit new K U3 Hc G3 Dc); try reflexivity; try assumption.
    + split; [|split]; cbn.
      * intros _. exact Hrun.
      * intros x Hx. discriminate.
      * intros Hx. congruence.
    + cbn. congruence.
  - exists new. split; [exact G3|]. repeat split.
Qed.

(* nobody names c as its container: then c's own container reference matters to c alone *)
Definition unnamed (w : world) (c : nat) : Prop :=
  forall x xit, get_item w x = Some xit -> i_cont xit <> Some (PCharge c) /\ i_cont xit <> Some (PAuto c).

Lemma KK_unnamed w c cit : KK w -> get_item w c = Some cit -> ~ direct cit -> unnamed w c.
Proof.
  intros [R F N P A L] Hc Dc x xit Hx. destruct (F c cit Hc Dc) as (Fch & Fau).
  destruct (P x xit c Hx) as (P1 & P2). split; intros H.
  - destruct (P1 H) as (mit & Gm & Hm). rewrite Hc in Gm. injection Gm as <-. congruence.
  - destruct (P2 H) as (mit & Gm & Hm). rewrite Hc in Gm. injection Gm as <-. rewrite Fau in Hm. destruct Hm.
Qed.

Lemma item_state_unnamed w c new : unnamed w c ->
  forall j, j <> c -> item_state (put_item w c new) j = item_state w j.
Proof.
  intros U. unfold item_state. generalize 4%nat. induction n as [|n IH]; intros j Nj; cbn [item_state_n]; [reflexivity|].
  rewrite get_put_item_other by exact Nj. destruct (get_item w j) as [it|] eqn:G; [|reflexivity].
  destruct (cr_state (class_row_of (i_cls it))); try reflexivity.
  destruct (U j it G) as (U1 & U2).
  destruct (i_cont it) as [[| | |p|p]|]; try reflexivity; apply IH; intros ->; congruence.
Qed.
Lemma item_fit_unnamed w c new : unnamed w c ->
  forall j, j <> c -> item_fit (put_item w c new) j = item_fit w j.
Proof.
  intros U. unfold item_fit. generalize 4%nat. induction n as [|n IH]; intros j Nj; cbn [item_fit_n]; [reflexivity|].
  rewrite get_put_item_other by exact Nj. destruct (get_item w j) as [it|] eqn:G; [|reflexivity].
  destruct (U j it G) as (U1 & U2).
  destruct (i_cont it) as [[| | |p|p]|]; try reflexivity; apply IH; intros ->; congruence.
Qed.

(* the container reference of an unloaded charge / autocharge is set or cleared *)
Lemma KK_child_cont w c old p' :
  KK w -> get_item w c = Some old -> ~ direct old -> i_loaded old = None ->
  (forall m, p' = Some (PCharge m) -> exists mit, get_item w m = Some mit /\ i_charge mit = Some c) ->
  (forall m, p' = Some (PAuto m) -> exists mit, get_item w m = Some mit /\ In c (map snd (i_autos mit))) ->
  KK (put_item w c (it_set_cont old p')).
Proof.
  intros K Hc Dc Hl H1 H2. pose proof (KK_unnamed w c old K Hc Dc) as Un. destruct K as [R F N P A L].
  set (new := it_set_cont old p'). set (w' := put_item w c new).
  assert (Ho : forall j, j <> c -> get_item w' j = get_item w j) by (intros; now apply get_put_item_other).
  assert (Gc : get_item w' c = Some new) by apply get_put_item_same'.
  assert (Dn : ~ direct new) by exact Dc.
  constructor.
  - intros j it _ G D. destruct (Nat.eq_dec j c) as [->|Nj].
    + rewrite Gc in G. injection G as <-. destruct (R c old (fun x => x) Hc Dc) as (G1 & _).
      split; [|split]; cbn; [intros _; now apply G1|intros s Hs; congruence|intros Hx; congruence].
    + rewrite (Ho j Nj) in G. apply (goodA_ext w w' j it it eq_refl eq_refl (item_state_unnamed w c new Un j Nj)).
      now apply R.
  - intros j it G D. destruct (Nat.eq_dec j c) as [->|Nj].
    + rewrite Gc in G. injection G as <-. now apply (F c old).
    + rewrite (Ho j Nj) in G. now apply (F j it).
  - intros j it G D. apply (NAtid_srcs w w' _ eq_refl). destruct (Nat.eq_dec j c) as [->|Nj].
    + rewrite Gc in G. injection G as <-. now apply (N c old).
    + rewrite (Ho j Nj) in G. now apply (N j it).
  - intros j it m G.
    assert (Gl : forall x xit, get_item w x = Some xit ->
                               exists xit', get_item w' x = Some xit' /\ i_charge xit' = i_charge xit /\ i_autos xit' = i_autos xit).
    { intros x xit Gx. destruct (Nat.eq_dec x c) as [->|Nx].
      - rewrite Hc in Gx. injection Gx as <-. exists new. now split.
      - exists xit. now rewrite (Ho x Nx). }
    destruct (Nat.eq_dec j c) as [->|Nj].
    + rewrite Gc in G. injection G as <-. cbn [i_cont new it_set_cont]. split; intros H.
      * destruct (H1 m H) as (mit & Gm & Hm). destruct (Gl m mit Gm) as (mit' & Gm' & Ec' & _).
        exists mit'. split; [exact Gm'|congruence].
      * destruct (H2 m H) as (mit & Gm & Hm). destruct (Gl m mit Gm) as (mit' & Gm' & _ & Ea').
        exists mit'. split; [exact Gm'|now rewrite Ea'].
    + rewrite (Ho j Nj) in G. destruct (P j it m G) as (P1 & P2). split; intros H.
      * destruct (P1 H) as (mit & Gm & Hm). destruct (Gl m mit Gm) as (mit' & Gm' & Ec' & _).
        exists mit'. split; [exact Gm'|congruence].
      * destruct (P2 H) as (mit & Gm & Hm). destruct (Gl m mit Gm) as (mit' & Gm' & _ & Ea').
        exists mit'. split; [exact Gm'|now rewrite Ea'].
  - intros j it G Hld. destruct (Nat.eq_dec j c) as [->|Nj].
    + rewrite Gc in G. injection G as <-. now apply (A c old).
    + rewrite (Ho j Nj) in G. now apply (A j it).
  - intros j it G D Hld. destruct (Nat.eq_dec j c) as [->|Nj].
    + rewrite Gc in G. injection G as <-. cbn in Hld. congruence.
    + rewrite (Ho j Nj) in G. unfold w'. rewrite (item_fit_unnamed w c new Un j Nj). now apply (L j it).
Qed.

Lemma with_msgs_removed_same (s : st) f c :
  w_err (fst (with_msgs s f (fun w => item_removed_msgs w c))) = None ->
  fst (with_msgs s f (fun w => item_removed_msgs w c)) = fst s.
Proof.
  unfold with_msgs. destruct (removed_same (fst s) c) as [E|(e & E)];
    destruct (item_removed_msgs (fst s) c) as [w0 m0]; cbn [fst] in *; subst w0; [reflexivity|].
  intros He. destruct (err_fail_none _ _ He).
Qed.
Lemma with_msgs_added_same (s : st) f c :
  w_err (fst (with_msgs s f (fun w => item_added_msgs w c))) = None ->
  fst (with_msgs s f (fun w => item_added_msgs w c)) = fst s.
Proof.
  unfold with_msgs. destruct (added_same (fst s) c) as [E|(e & E)];
    destruct (item_added_msgs (fst s) c) as [w0 m0]; cbn [fst] in *; subst w0; [reflexivity|].
  intros He. destruct (err_fail_none _ _ He).
Qed.

Theorem remove_leaf n s c cit :
  KK (fst s) -> get_item (fst s) c = Some cit -> ~ direct cit ->
  w_err (fst (remove_item (S (S n)) s c)) = None ->
  KK (fst (remove_item (S (S n)) s c)) /\ upd1 (fst s) (fst (remove_item (S (S n)) s c)) c /\
  exists cit', get_item (fst (remove_item (S (S n)) s c)) c = Some cit' /\ i_loaded cit' = None /\
               i_cont cit' = None /\ i_cls cit' = i_cls cit /\ i_charge cit' = None /\ i_autos cit' = [] /\
               i_state cit' = i_state cit /\ i_tid cit' = i_tid cit.
Proof.
  intros K Hc Dc. destruct (kk_flat _ K c cit Hc Dc) as (Fch & Fau).
  set (fit := item_fit (fst s) c).
  set (su := unload (S n) s c).
  set (s1 := match fit with Some f => with_msgs su f (fun w => item_removed_msgs w c) | None => su end).
  assert (Eres : forall cit1, get_item (fst s1) c = Some cit1 -> i_charge cit1 = None ->
                 fst (remove_item (S (S n)) s c) = upd_item (fst s1) c (fun it => it_set_cont it None)).
  { intros cit1 G1 Ch1. cbn [remove_item]. fold fit. cbv zeta. fold su. fold s1. rewrite G1.
    unfold child_items. rewrite Ch1. cbn [app fold_left]. reflexivity. }
  assert (St1 : sticky (fst su) (fst s1)).
  { subst s1. destruct fit; [|apply sticky_refl]. apply with_msgs_sticky. intros; apply removed_sticky. }
  (* whatever the error flag, the shape of the result is known once the item is found *)
  intros He.
  assert (Hsu : w_err (fst su) = None).
  { apply St1. destruct (get_item (fst s1) c) as [x|] eqn:G1.
    - (* cont step is sticky *)
      revert He. cbn [remove_item]. fold fit. cbv zeta. fold su. fold s1. rewrite G1.
      set (s2 := fold_left _ _ s1). intros He.
      assert (St2 : sticky (fst s1) (fst s2)).
      { subst s2. apply (C_fold sticky sticky_refl sticky_trans). intros s0 x0. cbv zeta.
        eapply sticky_trans; [apply sticky_unload|]. destruct fit; [|apply sticky_refl].
        apply with_msgs_sticky. intros; apply removed_sticky. }
      apply St2. apply (sticky_upd _ c (fun it => it_set_cont it None)). exact He.
    - revert He. cbn [remove_item]. fold fit. cbv zeta. fold su. fold s1. rewrite G1.
      unfold lift. cbn [fst]. intros He. apply (sticky_upd _ c (fun it => it_set_cont it None)) in He.
      destruct (err_fail_none _ _ He). }
  destruct (unload_leaf n s c cit K Hc Dc Hsu) as (Ku & Uu & cu & Gu & Lu & Vu & Stu & Tu). fold su in Ku, Uu, Gu.
  assert (E1 : w_err (fst s1) = None -> fst s1 = fst su).
  { subst s1. destruct fit as [f|]; [|reflexivity]. apply with_msgs_removed_same. }
  assert (Chu : i_charge cu = None) by (unfold view in Vu; congruence).
  assert (Hs1 : w_err (fst s1) = None).
  { destruct (get_item (fst s1) c) as [x|] eqn:G1.
    - revert He. cbn [remove_item]. fold fit. cbv zeta. fold su. fold s1. rewrite G1.
      set (s2 := fold_left _ _ s1). intros He.
      assert (St2 : sticky (fst s1) (fst s2)).
      { subst s2. apply (C_fold sticky sticky_refl sticky_trans). intros s0 x0. cbv zeta.
        eapply sticky_trans; [apply sticky_unload|]. destruct fit; [|apply sticky_refl].
        apply with_msgs_sticky. intros; apply removed_sticky. }
      apply St2. apply (sticky_upd _ c (fun it => it_set_cont it None)). exact He.
    - revert He. cbn [remove_item]. fold fit. cbv zeta. fold su. fold s1. rewrite G1.
      unfold lift. cbn [fst]. intros He. apply (sticky_upd _ c (fun it => it_set_cont it None)) in He.
      destruct (err_fail_none _ _ He). }
  specialize (E1 Hs1).
  assert (G1 : get_item (fst s1) c = Some cu) by (now rewrite E1).
  rewrite (Eres cu G1 Chu). rewrite E1. unfold upd_item. rewrite Gu.
  assert (Du : ~ direct cu).
  { intros D. apply Dc. eapply direct_cls; [|exact D]. unfold view in Vu. congruence. }
  split; [|split].
  - apply (KK_child_cont (fst su) c cu None Ku Gu Du Lu); intros m H; discriminate.
  - eapply upd1_trans; [exact Uu|apply upd1_put].
  - exists (it_set_cont cu None). split; [apply get_put_item_same'|]. unfold view in Vu. cbn.
    repeat split; congruence.
Qed.

(* ------------------------------------------------------------------ *)
(* load / add_item of a charge or autocharge                            *)

Lemma fold_no_autos n (t : itype) (u : universe) c (l : list (Z * effect)) :
  (forall e ef, In (e, ef) l -> forall aa, e_autocharge_attr ef = Some aa -> al_get zeqb (t_attrs t) aa = None) ->
  forall s : st,
  fold_left
    (fun s (ee : Z * effect) =>
       match e_autocharge_attr (snd ee) with
       | None => s
       | Some aa =>
         match al_get zeqb (t_attrs t) aa with
         | None => s
         | Some q =>
           let a := w_next (fst s) in
           let s := lift s (fun w =>
                      let w := set_next w (S a) in
                      let w := put_item w a (new_item CAutocharge (q_trunc q) State_offline 0) in
                      upd_item w c (fun it => it_set_autos it (al_set zeqb (i_autos it) (fst ee) a))) in
           add_item n s a (PAuto c)
         end
       end) l s = s.
Proof.
  induction l as [|[e ef] l IH]; intros H s; cbn [fold_left]; [reflexivity|].
  cbn [snd fst]. destruct (e_autocharge_attr ef) as [aa|] eqn:Ea.
  - rewrite (H e ef (or_introl eq_refl) aa Ea). apply IH. intros e' ef' I. apply (H e' ef'). now right.
  - apply IH. intros e' ef' I. apply (H e' ef'). now right.
Qed.

Lemma item_effects_in w it e ef :
  In (e, ef) (item_effects w it) ->
  exists t u, item_type w it = Some t /\ item_universe w it = Some u /\ In e (t_effects t) /\ get_effect u e = Some ef.
Proof.
  unfold item_effects. destruct (item_type w it) as [t|]; [|intros []].
  destruct (item_universe w it) as [u|]; [|intros []].
  intros I. apply in_flat_map in I as (e' & I1 & I2). exists t, u.
  destruct (get_effect u e') as [ef'|] eqn:G; [|destruct I2]. destruct I2 as [E|[]]. injection E as -> ->. auto.
Qed.

Theorem load_leaf n s c cit :
  KK (fst s) -> get_item (fst s) c = Some cit -> ~ direct cit ->
  w_err (fst (load (S n) s c)) = None ->
  KK (fst (load (S n) s c)) /\ upd1 (fst s) (fst (load (S n) s c)) c /\
  exists cit', get_item (fst (load (S n) s c)) c = Some cit' /\ view cit' = view cit /\
               i_state cit' = i_state cit /\ i_tid cit' = i_tid cit.
Proof.
  intros K Hc Dc. destruct (kk_flat _ K c cit Hc Dc) as (Fch & Fau).
  assert (Same : KK (fst s) /\ upd1 (fst s) (fst s) c /\
                 exists cit', get_item (fst s) c = Some cit' /\ view cit' = view cit /\
                              i_state cit' = i_state cit /\ i_tid cit' = i_tid cit).
  { split; [exact K|split; [apply upd1_refl|]]. exists cit. auto. }
  cbn [load]. rewrite Hc.
  destruct (item_fit (fst s) c) as [f|] eqn:Ef; [|intros _; exact Same].
  destruct (fit_source_id (fst s) f) as [src|] eqn:Esrc; [|intros _; exact Same].
  destruct (get_src (fst s) src) as [u|] eqn:Eu; [|intros _; exact Same].
  destruct (get_type u (i_tid cit)) as [t|] eqn:Et; [|intros _; exact Same].
  cbv zeta.
  set (ld := it_set_loaded cit (Some src)).
  set (s1 := lift s (fun w => put_item w c ld)).
  set (s2 := with_msgs s1 f (fun w => item_loaded_msgs w c)).
  assert (G1 : get_item (fst s1) c = Some ld) by (unfold s1, lift; cbn [fst]; apply get_put_item_same').
  (* shape of the loaded messages *)
  assert (Sh : run_only (fst s1) (fst s2) c).
  { unfold s2, with_msgs. pose proof (loaded_run_only (fst s1) c) as H.
    destruct (item_loaded_msgs (fst s1) c). exact H. }
  destruct Sh as (U2 & R2 & _). destruct (R2 ld G1) as (r & Hr). rewrite Hr.
  (* no autocharges are created *)
  assert (NAc : NAtid (fst s) (i_tid cit)) by (apply (kk_na _ K c cit Hc Dc)).
  rewrite (fold_no_autos n t u c).
  2:{ intros e ef I aa Ha. apply item_effects_in in I as (t' & u' & Ht & Hu & It & Ge).
      unfold item_type, item_universe in Ht, Hu. cbn [i_loaded it_set_running it_set_loaded ld i_tid] in Ht, Hu.
      destruct U2 as (Us2 & _). unfold get_src in Ht, Hu. rewrite Us2 in Ht, Hu.
      unfold s1, lift in Ht, Hu. cbn [fst w_srcs put_item set_items] in Ht, Hu.
      unfold get_src in Eu. rewrite Eu in Ht, Hu. injection Hu as <-. rewrite Et in Ht. injection Ht as <-.
      exact (NAc src u t Eu Et e ef aa It Ge Ha). }
  intros He.
  assert (U : upd1 (fst s) (fst s2) c).
  { eapply upd1_trans; [|exact U2]. unfold s1, lift. cbn [fst]. apply upd1_put. }
  (* the table holds for c after the loaded messages *)
  assert (Gd : goodA (fst s2) c (it_set_running ld r)).
  { unfold s2, with_msgs in *. unfold item_loaded_msgs in *.
    destruct (item_state (fst s1) c) as [st|] eqn:Est; [|cbn [fst] in He; destruct (err_fail_none _ _ He)].
    destruct (effects_update (fst s1) c) as [w0 m0] eqn:Eeu. cbn [fst] in *.
    apply (eu_goodA (fst s1) c ld w0 m0 G1 Eeu He); [|exact Hr].
    intros x Hx. cbn in Hx. injection Hx as <-. unfold s1, lift. cbn [fst]. unfold get_src in *.
    cbn [w_srcs put_item set_items]. congruence. }
  split; [|split; [exact U|]].
  - apply (KK_child_step (fst s) (fst s2) c cit (it_set_running ld r) K U Hc Hr Dc); try reflexivity; try assumption.
    intros _. congruence.
  - exists (it_set_running ld r). split; [exact Hr|]. repeat split.
Qed.

Theorem add_leaf n s c cit p :
  KK (fst s) -> get_item (fst s) c = Some cit -> ~ direct cit -> i_loaded cit = None ->
  (forall m, p = PCharge m -> exists mit, get_item (fst s) m = Some mit /\ i_charge mit = Some c) ->
  (forall m, p = PAuto m -> exists mit, get_item (fst s) m = Some mit /\ In c (map snd (i_autos mit))) ->
  w_err (fst (add_item (S (S n)) s c p)) = None ->
  KK (fst (add_item (S (S n)) s c p)) /\ upd1 (fst s) (fst (add_item (S (S n)) s c p)) c /\
  exists cit', get_item (fst (add_item (S (S n)) s c p)) c = Some cit' /\ i_cont cit' = Some p /\
               i_cls cit' = i_cls cit /\ i_charge cit' = None /\ i_autos cit' = [] /\
               i_state cit' = i_state cit /\ i_tid cit' = i_tid cit.
Proof.
  intros K Hc Dc Hl H1 H2. destruct (kk_flat _ K c cit Hc Dc) as (Fch & Fau).
  set (cc := it_set_cont cit (Some p)).
  set (s1 := lift s (fun w => upd_item w c (fun it => it_set_cont it (Some p)))).
  assert (E1 : fst s1 = put_item (fst s) c cc) by (unfold s1, lift, upd_item; cbn [fst]; now rewrite Hc).
  assert (K1 : KK (fst s1)).
  { rewrite E1. apply (KK_child_cont (fst s) c cit (Some p) K Hc Dc Hl).
    - intros m E. injection E as ->. now apply H1.
    - intros m E. injection E as ->. now apply H2. }
  assert (G1 : get_item (fst s1) c = Some cc) by (rewrite E1; apply get_put_item_same').
  assert (U1 : upd1 (fst s) (fst s1) c) by (rewrite E1; apply upd1_put).
  cbn [add_item]. fold s1.
  destruct (item_fit (fst s1) c) as [f|] eqn:Ef.
  2:{ intros _. split; [exact K1|split; [exact U1|]]. exists cc. split; [exact G1|]. now repeat split. }
  cbv zeta.
  set (sa := with_msgs s1 f (fun w => item_added_msgs w c)).
  set (sl := load (S n) sa c).
  (* whatever follows the load touches nothing: the item holds no charge *)
  assert (Shape : forall x, get_item (fst sl) c = Some x -> i_charge x = None ->
                  (match get_item (fst sl) c with
                   | Some it => fold_left (fun s sub => load (S n) (with_msgs s f (fun w => item_added_msgs w sub)) sub)
                                          (child_items it true) sl
                   | None => lift sl (fun w => fail w EKeyAbsent)
                   end) = sl).
  { intros x Gx Cx. rewrite Gx. unfold child_items. rewrite Cx. reflexivity. }
  intros He.
  assert (Hsl : w_err (fst sl) = None).
  { destruct (get_item (fst sl) c) as [x|] eqn:Gx.
    - revert He. apply (C_fold sticky sticky_refl sticky_trans). intros s0 x0.
      eapply sticky_trans; [|apply sticky_load]. apply with_msgs_sticky. intros; apply added_sticky.
    - unfold lift in He. cbn [fst] in He. destruct (err_fail_none _ _ He). }
  assert (Hsa : w_err (fst sa) = None) by (apply (sticky_load (S n) sa c); exact Hsl).
  assert (Esa : fst sa = fst s1) by (apply with_msgs_added_same; exact Hsa).
  assert (Ka : KK (fst sa)) by (now rewrite Esa).
  assert (Ga : get_item (fst sa) c = Some cc) by (now rewrite Esa).
  destruct (load_leaf n sa c cc Ka Ga Dc Hsl) as (Kl & Ul & cl & Gl & Vl & Stl & Tl). fold sl in Kl, Ul, Gl.
  assert (Chl : i_charge cl = None) by (unfold view in Vl; cbn in Vl; congruence).
  rewrite (Shape cl Gl Chl).
  split; [exact Kl|split].
  - eapply upd1_trans; [exact U1|]. rewrite <- Esa. exact Ul.
  - exists cl. split; [exact Gl|]. unfold view, cc in Vl. cbn in Vl.
    assert (E4 : (i_cls cl, i_cont cl, i_autos cl, i_charge cl) = (i_cls cit, Some p, i_autos cit, i_charge cit)) by exact Vl.
    injection E4 as Ea Eb Ec Ed. unfold cc in Stl, Tl. cbn in Stl, Tl.
    repeat split; congruence.
Qed.

(* ------------------------------------------------------------------ *)
(* a directly held item changes                                         *)

Lemma direct_cont_fit w x xit : J w -> KK w -> get_item w x = Some xit -> direct xit ->
  forall y, i_cont xit <> Some (PCharge y) /\ i_cont xit <> Some (PAuto y).
Proof.
  intros (_ & _ & J3 & J4) K Hx Dx y. destruct (kk_pc _ K x xit y Hx) as (P1 & P2). split; intros H.
  - destruct (P1 H) as (yit & Gy & Hy). pose proof (J4 y yit x Gy Hy) as C. unfold cls_of in C. rewrite Hx in C.
    injection C as C. apply (proj2 (direct_childcls xit)); [right; exact C|exact Dx].
  - destruct (P2 H) as (yit & Gy & Hy). apply in_map_iff in Hy as ([e a] & Ea & Hy). cbn in Ea. subst a.
    pose proof (J3 y yit e x Gy Hy) as C. unfold cls_of in C. rewrite Hx in C.
    injection C as C. apply (proj2 (direct_childcls xit)); [left; exact C|exact Dx].
Qed.

(* the fit of an item, read off its container reference when that is not an item *)
Lemma item_fit_top n w x xit : get_item w x = Some xit ->
  (forall y, i_cont xit <> Some (PCharge y) /\ i_cont xit <> Some (PAuto y)) ->
  item_fit_n (S n) w x = match fitcont_of xit with
                         | Some (PSlot f _) | Some (PSet f _) | Some (PRack f _) => Some f
                         | _ => None end.
Proof.
  intros Hx Hn. cbn [item_fit_n]. rewrite Hx. unfold fitcont_of.
  destruct (i_cont xit) as [[f k|f k|f k|y|y]|]; try reflexivity; exfalso; destruct (Hn y); congruence.
Qed.

Definition fit_of_place (p : option place) : option nat :=
  match p with Some (PSlot f _) | Some (PSet f _) | Some (PRack f _) => Some f | _ => None end.
Lemma item_fit_child w j it x xit : get_item w j = Some it ->
  (i_cont it = Some (PCharge x) \/ i_cont it = Some (PAuto x)) -> get_item w x = Some xit ->
  (forall y, i_cont xit <> Some (PCharge y) /\ i_cont xit <> Some (PAuto y)) ->
  item_fit w j = fit_of_place (fitcont_of xit).
Proof.
  intros Hj Hp Hx Hn. unfold item_fit. cbn [item_fit_n]. rewrite Hj.
  destruct Hp as [E|E]; rewrite E; cbv iota; rewrite Hx; unfold fitcont_of;
    destruct (i_cont xit) as [[f k|f k|f k|y|y]|]; try reflexivity; exfalso; destruct (Hn y); congruence.
Qed.

(* the parent of a charge / autocharge of a flat world is directly held *)
Lemma parent_direct w c cit m : KK w -> get_item w c = Some cit ->
  (i_cont cit = Some (PCharge m) \/ i_cont cit = Some (PAuto m)) ->
  exists mit, get_item w m = Some mit /\ direct mit.
Proof.
  intros K Hc Hp. destruct (kk_pc _ K c cit m Hc) as (P1 & P2).
  destruct Hp as [H|H]; [destruct (P1 H) as (mit & Gm & Hm)|destruct (P2 H) as (mit & Gm & Hm)];
    exists mit; (split; [exact Gm|]); destruct (direct_dec mit) as [D|D]; try exact D; exfalso;
    destruct (kk_flat _ K m mit Gm D) as (F1 & F2).
  - congruence.
  - rewrite F2 in Hm. destruct Hm.
Qed.

Lemma item_state_put_direct w m old new :
  get_item w m = Some old -> direct old -> i_cls new = i_cls old -> i_state new = i_state old ->
  forall j, item_state (put_item w m new) j = item_state w j.
Proof.
  intros Hm Dm Ec Es. unfold item_state. generalize 4%nat. induction n as [|n IH]; intros j; cbn [item_state_n]; [reflexivity|].
  destruct (Nat.eq_dec j m) as [->|Nj].
  - rewrite get_put_item_same', Hm, Ec, Es. unfold direct in Dm.
    destruct (cr_state (class_row_of (i_cls old))); try reflexivity. congruence.
  - rewrite get_put_item_other by exact Nj. destruct (get_item w j) as [it|]; [|reflexivity].
    destruct (cr_state (class_row_of (i_cls it))); try reflexivity.
    destruct (i_cont it) as [[| | |p|p]|]; try reflexivity; apply IH.
Qed.

Lemma KK_direct_put w m old new :
  J w -> KK w -> get_item w m = Some old -> direct old ->
  i_cls new = i_cls old -> i_state new = i_state old ->
  (forall y, i_cont new <> Some (PCharge y) /\ i_cont new <> Some (PAuto y)) ->
  (i_loaded new = None -> i_autos new = []) ->
  (forall c cit, get_item w c = Some cit -> i_cont cit = Some (PCharge m) -> i_charge new = Some c) ->
  (forall c cit, get_item w c = Some cit -> i_cont cit = Some (PAuto m) -> In c (map snd (i_autos new))) ->
  (fitcont_of new = None ->
   forall c cit, get_item w c = Some cit -> (i_cont cit = Some (PCharge m) \/ i_cont cit = Some (PAuto m)) ->
                 i_loaded cit = None) ->
  KK (put_item w m new).
Proof.
  intros Jw K Hm Dm Ec Es Hcont Hau HpC HpA Hnl. pose proof K as [R F N P A L].
  set (w' := put_item w m new).
  assert (Ho : forall j, j <> m -> get_item w' j = get_item w j) by (intros; now apply get_put_item_other).
  assert (Gm : get_item w' m = Some new) by apply get_put_item_same'.
  assert (Dn : direct new) by (unfold direct in *; now rewrite Ec).
  assert (Hst : forall j, item_state w' j = item_state w j) by (apply (item_state_put_direct w m old new Hm Dm Ec Es)).
  constructor.
  - intros j it _ G D. destruct (Nat.eq_dec j m) as [->|Nj]; [rewrite Gm in G; injection G as <-; contradiction|].
    rewrite (Ho j Nj) in G. apply (goodA_ext w w' j it it eq_refl eq_refl (Hst j)). now apply R.
  - intros j it G D. destruct (Nat.eq_dec j m) as [->|Nj]; [rewrite Gm in G; injection G as <-; contradiction|].
    rewrite (Ho j Nj) in G. now apply (F j it).
  - intros j it G D. apply (NAtid_srcs w w' _ eq_refl).
    destruct (Nat.eq_dec j m) as [->|Nj]; [rewrite Gm in G; injection G as <-; contradiction|].
    rewrite (Ho j Nj) in G. now apply (N j it).
  - intros j it x G. destruct (Nat.eq_dec j m) as [->|Nj].
    + rewrite Gm in G. injection G as <-. destruct (Hcont x) as (C1 & C2). split; intros H; contradiction.
    + rewrite (Ho j Nj) in G. destruct (P j it x G) as (P1 & P2). split; intros H.
      * destruct (Nat.eq_dec x m) as [->|Nx].
        -- exists new. split; [exact Gm|]. now apply (HpC j it).
        -- destruct (P1 H) as (xit & Gx & Hx). exists xit. now rewrite (Ho x Nx).
      * destruct (Nat.eq_dec x m) as [->|Nx].
        -- exists new. split; [exact Gm|]. now apply (HpA j it).
        -- destruct (P2 H) as (xit & Gx & Hx). exists xit. now rewrite (Ho x Nx).
  - intros j it G Hl. destruct (Nat.eq_dec j m) as [->|Nj].
    + rewrite Gm in G. injection G as <-. now apply Hau.
    + rewrite (Ho j Nj) in G. now apply (A j it).
  - intros j it G D Hl. destruct (Nat.eq_dec j m) as [->|Nj]; [rewrite Gm in G; injection G as <-; contradiction|].
    rewrite (Ho j Nj) in G. pose proof (L j it G D Hl) as Lj.
    (* the fit of a charge / autocharge is the fit of its directly held parent *)
    assert (Hp : exists x, i_cont it = Some (PCharge x) \/ i_cont it = Some (PAuto x)).
    { unfold item_fit in Lj. cbn [item_fit_n] in Lj. rewrite G in Lj.
      destruct (i_cont it) as [[f k|f k|f k|x|x]|] eqn:Ecj; try (exfalso; apply Lj; reflexivity);
        try (exfalso; destruct Jw as (_ & J2 & _); apply (proj1 (direct_childcls it)) in D;
             specialize (J2 j it G D); unfold fitcont_of in J2; rewrite Ecj in J2; discriminate).
      - exists x. now left.
      - exists x. now right. }
    destruct Hp as (x & Hp). destruct (parent_direct w j it x K G Hp) as (xit & Gx & Dx).
    pose proof (direct_cont_fit w x xit Jw K Gx Dx) as Hnx.
    rewrite (item_fit_child w j it x xit G Hp Gx Hnx) in Lj.
    assert (Gj' : get_item w' j = Some it) by (now rewrite (Ho j Nj)).
    destruct (Nat.eq_dec x m) as [->|Nx].
    + rewrite (item_fit_child w' j it m new Gj' Hp Gm Hcont).
      destruct (fitcont_of new) as [pl|] eqn:Ef.
      * unfold fitcont_of in Ef. destruct (i_cont new) as [[f k|f k|f k|z|z]|]; try discriminate;
          injection Ef as <-; cbn; discriminate.
      * exfalso. apply Hl. now apply (Hnl eq_refl j it G Hp).
    + assert (Gx' : get_item w' x = Some xit) by (now rewrite (Ho x Nx)).
      rewrite (item_fit_child w' j it x xit Gj' Hp Gx' Hnx). exact Lj.
Qed.

(* ------------------------------------------------------------------ *)
(* unload / remove_item of a directly held item                         *)

Lemma children_of_detached_unloaded w m mit c cit :
  J w -> KK w -> get_item w m = Some mit -> direct mit -> fitcont_of mit = None ->
  get_item w c = Some cit -> (i_cont cit = Some (PCharge m) \/ i_cont cit = Some (PAuto m)) ->
  i_loaded cit = None.
Proof.
  intros Jw K Hm Dm Hf Hc Hp.
  assert (Dc : ~ direct cit).
  { intros D. destruct (direct_cont_fit w c cit Jw K Hc D m) as (A1 & A2). destruct Hp; contradiction. }
  destruct (i_loaded cit) as [x|] eqn:El; [|reflexivity]. exfalso.
  apply (kk_nl _ K c cit Hc Dc); [congruence|].
  rewrite (item_fit_child w c cit m mit Hc Hp Hm (direct_cont_fit w m mit Jw K Hm Dm)). now rewrite Hf.
Qed.

(* removing a list of autocharges of m, one after the other *)
Lemma remove_autos_fold n m mit : forall (l : list (Z * nat)) (s : st),
  J (fst s) -> KK (fst s) -> get_item (fst s) m = Some mit -> direct mit ->
  (forall e a, In (e, a) l -> cls_of (fst s) a = Some CAutocharge) ->
  w_err (fst (fold_left (fun s0 (ea : Z * nat) => remove_item (S (S n)) s0 (snd ea)) l s)) = None ->
  let s' := fold_left (fun s0 (ea : Z * nat) => remove_item (S (S n)) s0 (snd ea)) l s in
  J (fst s') /\ KK (fst s') /\ get_item (fst s') m = Some mit /\
  (forall j, ~ In j (map snd l) -> get_item (fst s') j = get_item (fst s) j) /\
  w_srcs (fst s') = w_srcs (fst s) /\
  (forall e a, In (e, a) l -> exists ait, get_item (fst s') a = Some ait /\ i_cont ait = None /\ i_loaded ait = None).
Proof.
  induction l as [|[e a] l IH]; intros s Js K Hm Dm Hcls He; cbn [fold_left] in *.
  - cbv zeta. split; [exact Js|split; [exact K|split; [exact Hm|split; [auto|split; [reflexivity|intros e a []]]]]].
  - cbv zeta. cbn [snd] in *.
    set (s1 := remove_item (S (S n)) s a) in *.
    assert (He1 : w_err (fst s1) = None).
    { revert He. apply (C_fold sticky sticky_refl sticky_trans). intros s0 x. apply sticky_remove. }
    assert (Ca : cls_of (fst s) a = Some CAutocharge) by (apply (Hcls e a); now left).
    destruct (cls_of_some' _ _ _ Ca) as (ait & Ga & Eca).
    assert (Da : ~ direct ait) by (apply direct_childcls; left; exact Eca).
    destruct (remove_leaf n s a ait K Ga Da He1) as (K1 & U1 & ait' & Ga' & La' & Ca' & Ecl' & _).
    fold s1 in K1, U1, Ga'.
    assert (J1 : J (fst s1)).
    { apply (unload_keeps_ownership (S (S n))); [exact Js|]. eapply J_cls_fitcont; [exact Js|now left]. }
    assert (Nam : a <> m).
    { intros ->. rewrite Hm in Ga. injection Ga as <-. contradiction. }
    assert (Hm1 : get_item (fst s1) m = Some mit) by (destruct U1 as (_ & G); rewrite G; auto).
    assert (Hcls1 : forall e0 a0, In (e0, a0) l -> cls_of (fst s1) a0 = Some CAutocharge).
    { intros e0 a0 I. specialize (Hcls e0 a0 (or_intror I)). unfold cls_of in *.
      destruct (Nat.eq_dec a0 a) as [->|Na]; [rewrite Ga'; now rewrite Ecl', <- Eca|].
      destruct U1 as (_ & G). now rewrite (G a0 Na). }
    destruct (IH s1 J1 K1 Hm1 Dm Hcls1 He) as (J2 & K2 & Hm2 & Fr2 & Sr2 & Cl2).
    split; [exact J2|split; [exact K2|split; [exact Hm2|split; [|split]]]].
    + intros j Nj. rewrite Fr2 by (intros I; apply Nj; now right).
      destruct U1 as (_ & G). apply G. intros ->. apply Nj. now left.
    + rewrite Sr2. apply U1.
    + intros e0 a0 [E|I].
      * injection E as <- <-. destruct (in_dec Nat.eq_dec a (map snd l)) as [I|NI].
        -- apply in_map_iff in I as ([e1 a1] & E1 & I1). cbn in E1. subst a1. now apply (Cl2 e1 a).
        -- exists ait'. rewrite (Fr2 a NI). now repeat split.
      * now apply (Cl2 e0 a0).
Qed.

Lemma same_k_run_only_direct w w' m mit :
  run_only w w' m -> get_item w m = Some mit -> direct mit -> same_k w w'.
Proof.
  intros ((Hs & G) & R & _) Hm Dm. split; [exact Hs|]. intros j. destruct (Nat.eq_dec j m) as [->|N]; [|now rewrite G].
  destruct (R mit Hm) as (r & ->). rewrite Hm. cbn [option_map]. f_equal. unfold kview. f_equal.
  destruct (direct_dec (it_set_running mit r)) as [_|D']; [|exfalso; apply D'; exact Dm].
  destruct (direct_dec mit) as [_|D']; [reflexivity|contradiction].
Qed.

Theorem unload_dir n s m mit :
  J (fst s) -> KK (fst s) -> get_item (fst s) m = Some mit -> direct mit ->
  w_err (fst (unload (S (S (S n))) s m)) = None ->
  let w' := fst (unload (S (S (S n))) s m) in
  J w' /\ KK w' /\ w_srcs w' = w_srcs (fst s) /\
  (exists mit', get_item w' m = Some mit' /\ i_loaded mit' = None /\ i_autos mit' = [] /\
                i_cls mit' = i_cls mit /\ i_cont mit' = i_cont mit /\ i_state mit' = i_state mit /\
                i_charge mit' = i_charge mit /\ i_tid mit' = i_tid mit /\ i_modes mit' = i_modes mit) /\
  (forall j, j <> m -> ~ In j (map snd (i_autos mit)) -> get_item w' j = get_item (fst s) j).
Proof.
  intros Js K Hm Dm.
  set (s1 := match item_fit (fst s) m, i_loaded mit with
             | Some f, Some _ => with_msgs s f (fun w => item_unloaded_msgs w m)
             | _, _ => s end).
  assert (RO : run_only (fst s) (fst s1) m).
  { subst s1. destruct (item_fit (fst s) m) as [f|]; [|apply run_only_refl].
    destruct (i_loaded mit); [|apply run_only_refl]. unfold with_msgs.
    pose proof (unloaded_run_only (fst s) m) as H. destruct (item_unloaded_msgs (fst s) m). exact H. }
  assert (F1 : FC (fst s) (fst s1)).
  { subst s1. destruct (item_fit (fst s) m) as [f|]; [|apply FC_refl].
    destruct (i_loaded mit); [|apply FC_refl]. unfold with_msgs.
    pose proof (FC_item_unloaded_msgs (fst s) m) as H. destruct (item_unloaded_msgs (fst s) m). exact H. }
  pose proof (FC_J _ _ F1 Js) as J1.
  pose proof (KK_same_k _ _ (same_k_run_only_direct _ _ m mit RO Hm Dm) K) as K1.
  destruct RO as (U1 & R1 & _). destruct (R1 mit Hm) as (r & Hm1).
  set (mit1 := it_set_running mit r) in *.
  set (s2 := (fst s1, snd s1 ++ [EvClear m])).
  set (s4 := fold_left (fun s0 (ea : Z * nat) => remove_item (S (S n)) s0 (snd ea)) (i_autos mit) s2).
  assert (Eres : fst (unload (S (S (S n))) s m) =
                 upd_item (upd_item (fst s4) m (fun it => it_set_autos it [])) m (fun it => it_set_loaded it None)).
  { cbn [unload]. rewrite Hm. cbv zeta. fold s1. cbn [fst snd]. fold s2. change (fst s1) with (fst s2).
    change (fst s2) with (fst s1) at 1. rewrite Hm1. cbn [i_autos mit1 it_set_running]. fold s4. reflexivity. }
  cbv zeta. rewrite Eres. intros He.
  assert (He4 : w_err (fst s4) = None).
  { apply (sticky_upd _ m (fun it => it_set_autos it [])). apply (sticky_upd _ m (fun it => it_set_loaded it None)). exact He. }
  assert (Hcls : forall e a, In (e, a) (i_autos mit) -> cls_of (fst s2) a = Some CAutocharge).
  { intros e a I. destruct J1 as (_ & _ & J4 & _). apply (J4 m mit1 e a Hm1). exact I. }
  destruct (remove_autos_fold n m mit1 (i_autos mit) s2 J1 K1 Hm1 Dm Hcls He4) as (J4 & K4 & Hm4 & Fr4 & Sr4 & Cl4).
  fold s4 in J4, K4, Hm4, Fr4, Sr4, Cl4.
  set (mit5 := it_set_autos mit1 []).
  set (w5 := put_item (fst s4) m mit5).
  set (mit6 := it_set_loaded mit5 None).
  assert (E56 : upd_item (upd_item (fst s4) m (fun it => it_set_autos it [])) m (fun it => it_set_loaded it None)
                = put_item w5 m mit6).
  { unfold upd_item. rewrite Hm4. rewrite get_put_item_same'. reflexivity. }
  rewrite E56. clear E56.
  assert (Hnc : forall y, i_cont mit1 <> Some (PCharge y) /\ i_cont mit1 <> Some (PAuto y))
    by (apply (direct_cont_fit (fst s4) m mit1 J4 K4 Hm4 Dm)).
  assert (K5 : KK w5).
  { apply (KK_direct_put (fst s4) m mit1 mit5 J4 K4 Hm4 Dm); try reflexivity.
    - exact Hnc.
    - intros c cit Gc Hp. destruct (kk_pc _ K4 c cit m Gc) as (P1 & _). destruct (P1 Hp) as (x & Gx & Hx).
      rewrite Hm4 in Gx. injection Gx as <-. exact Hx.
    - intros c cit Gc Hp. exfalso. destruct (kk_pc _ K4 c cit m Gc) as (_ & P2). destruct (P2 Hp) as (x & Gx & Hx).
      rewrite Hm4 in Gx. injection Gx as <-. cbn [i_autos mit1 it_set_running] in Hx.
      apply in_map_iff in Hx as ([e a] & Ea & Ia). cbn in Ea. subst a.
      destruct (Cl4 e c Ia) as (ait & Ga & Ca & _). rewrite Gc in Ga. injection Ga as <-. congruence.
    - intros Hf c cit Gc Hp. apply (children_of_detached_unloaded (fst s4) m mit1 c cit J4 K4 Hm4 Dm Hf Gc Hp). }
  assert (J5 : J w5).
  { apply (J_put_keepcls (fst s4) m mit1 mit5 J4 Hm4 eq_refl).
    - intros C. exfalso. apply (proj2 (direct_childcls mit1)); [exact C|exact Dm].
    - intros e a [].
    - intros o Ho. destruct J4 as (_ & _ & _ & J5'). apply (J5' m mit1 o Hm4). exact Ho. }
  assert (Hm5 : get_item w5 m = Some mit5) by apply get_put_item_same'.
  assert (K6 : KK (put_item w5 m mit6)).
  { apply (KK_direct_put w5 m mit5 mit6 J5 K5 Hm5 Dm); try reflexivity.
    - exact Hnc.
    - intros c cit Gc Hp. destruct (kk_pc _ K5 c cit m Gc) as (P1 & _). destruct (P1 Hp) as (x & Gx & Hx).
      rewrite Hm5 in Gx. injection Gx as <-. exact Hx.
    - intros c cit Gc Hp. destruct (kk_pc _ K5 c cit m Gc) as (_ & P2). destruct (P2 Hp) as (x & Gx & Hx).
      rewrite Hm5 in Gx. injection Gx as <-. exact Hx.
    - intros Hf c cit Gc Hp. apply (children_of_detached_unloaded w5 m mit5 c cit J5 K5 Hm5 Dm Hf Gc Hp). }
  split; [|split; [exact K6|split; [|split]]].
  - apply (J_put_keepcls w5 m mit5 mit6 J5 Hm5 eq_refl).
    + intros C. exfalso. apply (proj2 (direct_childcls mit5)); [exact C|exact Dm].
    + intros e a [].
    + intros o Ho. destruct J5 as (_ & _ & _ & J5'). apply (J5' m mit5 o Hm5). exact Ho.
  - change (w_srcs (fst s4) = w_srcs (fst s)). rewrite Sr4. apply U1.
  - exists mit6. split; [apply get_put_item_same'|]. repeat split.
  - intros j Nj Na. rewrite get_put_item_other by exact Nj. unfold w5. rewrite get_put_item_other by exact Nj.
    rewrite (Fr4 j Na). destruct U1 as (_ & G). now apply G.
Qed.

Theorem remove_dir n s m mit :
  J (fst s) -> KK (fst s) -> get_item (fst s) m = Some mit -> direct mit ->
  w_err (fst (remove_item (S (S (S (S n)))) s m)) = None ->
  let w' := fst (remove_item (S (S (S (S n)))) s m) in
  KK w' /\ w_srcs w' = w_srcs (fst s) /\
  (exists mit', get_item w' m = Some mit' /\ i_loaded mit' = None /\ i_cont mit' = None /\ i_autos mit' = [] /\
                i_cls mit' = i_cls mit /\ i_state mit' = i_state mit /\ i_charge mit' = i_charge mit).
Proof.
  intros Js K Hm Dm.
  set (fit := item_fit (fst s) m).
  set (one := fun (s : st) sub => let s := unload (S (S (S n))) s sub in
                                  match fit with
                                  | Some f => with_msgs s f (fun w => item_removed_msgs w sub)
                                  | None => s
                                  end).
  set (s1 := one s m).
  set (s2 := match get_item (fst s1) m with
             | Some it => fold_left one (child_items it true) s1
             | None => lift s1 (fun w => fail w EKeyAbsent)
             end).
  assert (Eres : fst (remove_item (S (S (S (S n)))) s m) = upd_item (fst s2) m (fun it => it_set_cont it None))
    by reflexivity.
  cbv zeta. rewrite Eres. intros He.
  assert (He2 : w_err (fst s2) = None) by (apply (sticky_upd _ m (fun it => it_set_cont it None)); exact He).
  assert (Sone : forall s0 x, sticky (fst s0) (fst (one s0 x))).
  { intros s0 x. unfold one. cbv zeta. eapply sticky_trans; [apply sticky_unload|].
    destruct fit; [|apply sticky_refl]. apply with_msgs_sticky. intros; apply removed_sticky. }
  assert (He1 : w_err (fst s1) = None).
  { subst s2. destruct (get_item (fst s1) m).
    - revert He2. apply (C_fold sticky sticky_refl sticky_trans). intros; apply Sone.
    - unfold lift in He2. cbn [fst] in He2. destruct (err_fail_none _ _ He2). }
  set (su := unload (S (S (S n))) s m).
  assert (Esu : fst s1 = fst su).
  { unfold s1, one. cbv zeta. fold su. destruct fit as [f|]; [|reflexivity].
    apply with_msgs_removed_same. exact He1. }
  assert (Heu : w_err (fst su) = None) by (now rewrite <- Esu).
  destruct (unload_dir n s m mit Js K Hm Dm Heu) as (Ju & Ku & Sru & (mu & Gmu & Lmu & Amu & Ecl & Eco & Est & Ech & Etd & Emo) & Fru).
  fold su in Ju, Ku, Sru, Gmu, Fru.
  assert (Dmu : direct mu) by (unfold direct in *; now rewrite Ecl).
  (* the charge, if any, is unloaded next *)
  assert (Gm1 : get_item (fst s1) m = Some mu) by (now rewrite Esu).
  assert (S2 : J (fst s2) /\ KK (fst s2) /\ w_srcs (fst s2) = w_srcs (fst su) /\ get_item (fst s2) m = Some mu /\
               forall c, i_charge mu = Some c -> exists cit, get_item (fst s2) c = Some cit /\ i_loaded cit = None).
  { assert (Eone : forall s0 x, w_err (fst (one s0 x)) = None -> fst (one s0 x) = fst (unload (S (S (S n))) s0 x)).
    { intros s0 x H. unfold one in *. cbv zeta in *. destruct fit as [f|]; [|reflexivity].
      now apply with_msgs_removed_same. }
    subst s2. rewrite Gm1 in *. unfold child_items in *. rewrite app_nil_r in *.
    destruct (i_charge mu) as [c|] eqn:Ec.
    - cbn [fold_left] in *. rewrite (Eone s1 c He2).
      set (sc := unload (S (S (S n))) s1 c).
      assert (Hec : w_err (fst sc) = None) by (unfold sc; rewrite <- (Eone s1 c He2); exact He2).
      assert (Cc : cls_of (fst su) c = Some CCharge).
      { destruct Ju as (_ & _ & _ & J5). apply (J5 m mu c Gmu Ec). }
      destruct (cls_of_some' _ _ _ Cc) as (cit & Gc & Ecc).
      assert (Dc : ~ direct cit) by (apply direct_childcls; right; exact Ecc).
      rewrite <- Esu in Ku, Gc, Ju.
      destruct (unload_leaf (S (S n)) s1 c cit Ku Gc Dc Hec) as (Kc & Uc & cit' & Gc' & Lc' & _).
      fold sc in Kc, Uc, Gc'.
      assert (Jc : J (fst sc)) by (apply (unload_KEEP (S (S (S n))) s1 c Ju)).
      assert (Ncm : c <> m).
      { intros ->. rewrite Gm1 in Gc. injection Gc as <-. contradiction. }
      split; [exact Jc|split; [exact Kc|split; [|split]]].
      + rewrite <- Esu. apply Uc.
      + destruct Uc as (_ & G). rewrite (G m); [exact Gm1|]. intros E. now apply Ncm.
      + intros c0 E0. injection E0 as <-. exists cit'. now split.
    - cbn [fold_left]. rewrite Esu.
      split; [exact Ju|split; [exact Ku|split; [reflexivity|split; [exact Gmu|intros c0 E0; discriminate]]]]. }
  destruct S2 as (J2 & K2 & Sr2 & Gm2 & Ch2).
  unfold upd_item. rewrite Gm2.
  assert (Hnc : forall y, i_cont mu <> Some (PCharge y) /\ i_cont mu <> Some (PAuto y))
    by (apply (direct_cont_fit (fst s2) m mu J2 K2 Gm2 Dmu)).
  split; [|split].
  - apply (KK_direct_put (fst s2) m mu (it_set_cont mu None) J2 K2 Gm2 Dmu); try reflexivity.
    + intros y. cbn. split; discriminate.
    + intros Hl. exact Amu.
    + intros c cit Gc Hp. destruct (kk_pc _ K2 c cit m Gc) as (P1 & _). destruct (P1 Hp) as (x & Gx & Hx).
      rewrite Gm2 in Gx. injection Gx as <-. exact Hx.
    + intros c cit Gc Hp. destruct (kk_pc _ K2 c cit m Gc) as (_ & P2). destruct (P2 Hp) as (x & Gx & Hx).
      rewrite Gm2 in Gx. injection Gx as <-. exact Hx.
    + intros _ c cit Gc [Hp|Hp].
      * destruct (kk_pc _ K2 c cit m Gc) as (P1 & _). destruct (P1 Hp) as (x & Gx & Hx).
        rewrite Gm2 in Gx. injection Gx as <-. destruct (Ch2 c Hx) as (cit2 & Gc2 & Lc2). congruence.
      * exfalso. destruct (kk_pc _ K2 c cit m Gc) as (_ & P2). destruct (P2 Hp) as (x & Gx & Hx).
        rewrite Gm2 in Gx. injection Gx as <-. rewrite Amu in Hx. destruct Hx.
  - change (w_srcs (fst s2) = w_srcs (fst s)). now rewrite Sr2, Sru.
  - exists (it_set_cont mu None). split; [apply get_put_item_same'|]. cbn. repeat split; assumption.
Qed.

(* ------------------------------------------------------------------ *)
(* load / add_item of a directly held item                              *)

Lemma KK_set_next w n : KK w -> KK (set_next w n).
Proof.
  intros [R F N P A L]. constructor.
  - intros j it Hx G D. apply (goodA_ext w (set_next w n) j it it eq_refl eq_refl eq_refl). now apply R.
  - exact F.
  - intros c cit G D. apply (NAtid_srcs w (set_next w n) _ eq_refl). now apply (N c cit).
  - exact P.
  - exact A.
  - exact L.
Qed.

(* a new charge / autocharge item with a fresh id *)
Lemma KK_new_child w a tid st lvl c :
  KK w -> get_item w a = None -> (c = CAutocharge \/ c = CCharge) -> NAtid w tid ->
  (forall x xit, get_item w x = Some xit -> i_charge xit <> Some a /\ ~ In a (map snd (i_autos xit))) ->
  KK (put_item w a (new_item c tid st lvl)).
Proof.
  intros K Ha Hc Hna Hun. pose proof K as [R F N P A L].
  set (new := new_item c tid st lvl). set (w' := put_item w a new).
  assert (Ho : forall j, j <> a -> get_item w' j = get_item w j) by (intros; now apply get_put_item_other).
  assert (Ga : get_item w' a = Some new) by apply get_put_item_same'.
  assert (Dn : ~ direct new) by (apply direct_childcls; exact Hc).
  (* nobody names a as its container: a did not exist, and listed items exist *)
  assert (Un : forall x xit, get_item w x = Some xit -> i_cont xit <> Some (PCharge a) /\ i_cont xit <> Some (PAuto a)).
  { intros x xit Gx. destruct (P x xit a Gx) as (P1 & P2). split; intros H.
    - destruct (P1 H) as (y & Gy & _). congruence.
    - destruct (P2 H) as (y & Gy & _). congruence. }
  assert (Hst : forall j, j <> a -> item_state w' j = item_state w j).
  { unfold item_state. generalize 4%nat. induction n as [|n IH]; intros j Nj; cbn [item_state_n]; [reflexivity|].
    rewrite (Ho j Nj). destruct (get_item w j) as [it|] eqn:G; [|reflexivity].
    destruct (cr_state (class_row_of (i_cls it))); try reflexivity.
    destruct (Un j it G) as (U1 & U2).
    destruct (i_cont it) as [[| | |p|p]|]; try reflexivity; apply IH; intros ->; congruence. }
  assert (Hft : forall j, j <> a -> item_fit w' j = item_fit w j).
  { unfold item_fit. generalize 4%nat. induction n as [|n IH]; intros j Nj; cbn [item_fit_n]; [reflexivity|].
    rewrite (Ho j Nj). destruct (get_item w j) as [it|] eqn:G; [|reflexivity].
    destruct (Un j it G) as (U1 & U2).
    destruct (i_cont it) as [[| | |p|p]|]; try reflexivity; apply IH; intros ->; congruence. }
  constructor.
  - intros j it _ G D. destruct (Nat.eq_dec j a) as [->|Nj].
    + rewrite Ga in G. injection G as <-. split; [|split]; cbn; [reflexivity|discriminate|congruence].
    + rewrite (Ho j Nj) in G. apply (goodA_ext w w' j it it eq_refl eq_refl (Hst j Nj)). now apply R.
  - intros j it G D. destruct (Nat.eq_dec j a) as [->|Nj].
    + rewrite Ga in G. injection G as <-. now split.
    + rewrite (Ho j Nj) in G. now apply (F j it).
  - intros j it G D. apply (NAtid_srcs w w' _ eq_refl). destruct (Nat.eq_dec j a) as [->|Nj].
    + rewrite Ga in G. injection G as <-. exact Hna.
    + rewrite (Ho j Nj) in G. now apply (N j it).
  - intros j it x G. destruct (Nat.eq_dec j a) as [->|Nj].
    + rewrite Ga in G. injection G as <-. split; discriminate.
    + rewrite (Ho j Nj) in G. destruct (P j it x G) as (P1 & P2).
      assert (Nx : forall y, get_item w x = Some y -> get_item w' x = Some y).
      { intros y Gy. rewrite Ho; [exact Gy|]. intros ->. congruence. }
      split; intros H.
      * destruct (P1 H) as (y & Gy & Hy). exists y. split; [now apply Nx|exact Hy].
      * destruct (P2 H) as (y & Gy & Hy). exists y. split; [now apply Nx|exact Hy].
  - intros j it G Hl. destruct (Nat.eq_dec j a) as [->|Nj].
    + rewrite Ga in G. injection G as <-. reflexivity.
    + rewrite (Ho j Nj) in G. now apply (A j it).
  - intros j it G D Hl. destruct (Nat.eq_dec j a) as [->|Nj].
    + rewrite Ga in G. injection G as <-. cbn in Hl. congruence.
    + rewrite (Ho j Nj) in G. rewrite (Hft j Nj). now apply (L j it).
Qed.

Lemma al_set_absent_snd (l : list (Z * nat)) k v :
  al_get zeqb l k = None -> map snd (al_set zeqb l k v) = map snd l ++ [v] /\
                            map fst (al_set zeqb l k v) = map fst l ++ [k].
Proof.
  induction l as [|[k0 v0] r IH]; cbn; [intros _; split; reflexivity|]. destruct (zeqb k k0); [discriminate|].
  intros H. destruct (IH H) as (H1 & H2). cbn. now rewrite H1, H2.
Qed.
Lemma al_get_set_other_z (l : list (Z * nat)) k v k' : k' <> k -> al_get zeqb (al_set zeqb l k v) k' = al_get zeqb l k'.
Proof.
  intros N. induction l as [|[k0 v0] r IH]; cbn.
  - unfold zeqb. destruct (Z.eqb_spec k' k); [contradiction|reflexivity].
  - unfold zeqb in *. destruct (Z.eqb_spec k k0); cbn.
    + subst k0. destruct (Z.eqb_spec k' k); [contradiction|reflexivity].
    + destruct (Z.eqb_spec k' k0); [reflexivity|exact IH].
Qed.

(* one autocharge is created for m, linked and loaded *)
Lemma new_auto_step n (s : st) m mit e tid :
  J (fst s) -> KK (fst s) -> get_item (fst s) m = Some mit -> direct mit -> i_loaded mit <> None ->
  al_get zeqb (i_autos mit) e = None -> NAtid (fst s) tid ->
  let a := w_next (fst s) in
  let s1 := lift s (fun w =>
              let w := set_next w (S a) in
              let w := put_item w a (new_item CAutocharge tid State_offline 0) in
              upd_item w m (fun it => it_set_autos it (al_set zeqb (i_autos it) e a))) in
  w_err (fst (add_item (S (S n)) s1 a (PAuto m))) = None ->
  let w' := fst (add_item (S (S n)) s1 a (PAuto m)) in
  J w' /\ KK w' /\ w_srcs w' = w_srcs (fst s) /\
  get_item w' m = Some (it_set_autos mit (al_set zeqb (i_autos mit) e a)) /\
  (forall j, j <> m -> j <> a -> get_item w' j = get_item (fst s) j).
Proof.
  intros Js K Hm Dm Hld He Hna. cbv zeta.
  set (a := w_next (fst s)).
  set (nit := new_item CAutocharge tid State_offline 0).
  set (w0 := set_next (fst s) (S a)).
  set (w1 := put_item w0 a nit).
  set (mit' := it_set_autos mit (al_set zeqb (i_autos mit) e a)).
  assert (Fresh : get_item (fst s) a = None).
  { destruct (get_item (fst s) a) as [x|] eqn:E; [|reflexivity]. destruct Js as (I & _). apply I in E. unfold a in E. lia. }
  assert (Nam : a <> m) by (intros E; rewrite E in Fresh; congruence).
  assert (Hm1 : get_item w1 m = Some mit).
  { unfold w1. rewrite get_put_item_other by (intros E; now apply Nam). exact Hm. }
  set (s1 := lift s _).
  assert (E1 : fst s1 = put_item w1 m mit').
  { unfold s1, lift. cbn [fst]. fold a. fold nit. fold w0. fold w1. unfold upd_item. rewrite Hm1. reflexivity. }
  destruct (KEEP_new_autocharge (fst s) m e tid Js) as (Kn & Fa). fold a in Kn, Fa.
  assert (J1 : J (fst s1)) by (destruct Kn as (_ & _ & Jx & _); exact Jx).
  assert (Fa1 : fitcont (fst s1) a = None) by exact Fa.
  (* KK of the world with the new, still unlinked item *)
  assert (K0 : KK w0) by (apply KK_set_next; exact K).
  assert (K1 : KK w1).
  { apply (KK_new_child w0 a tid State_offline 0 CAutocharge K0); [exact Fresh|now left|exact Hna|].
    intros x xit Gx. split.
    - intros H. destruct Js as (I & _ & _ & J5). pose proof (J5 x xit a Gx H) as C. unfold cls_of in C.
      change (get_item (fst s) a) with (get_item (fst s) a) in C. rewrite Fresh in C. discriminate.
    - intros H. apply in_map_iff in H as ([e0 a0] & Ea & H). cbn in Ea. subst a0.
      destruct Js as (I & _ & J4 & _). pose proof (J4 x xit e0 a Gx H) as C. unfold cls_of in C.
      rewrite Fresh in C. discriminate. }
  assert (Jw1 : J w1).
  { (* the world before the parent is updated: the frame lemma's intermediate world *)
    destruct Js as (I & J3 & J4 & J5). split; [|split; [|split]].
    - intros j it H. unfold w1, w0 in *. cbn [w_next put_item set_items set_next]. destruct (Nat.eq_dec j a) as [->|N]; [lia|].
      rewrite get_put_item_other in H by exact N. apply I in H. unfold a. lia.
    - intros j it H C. destruct (Nat.eq_dec j a) as [->|N].
      + unfold w1 in H. rewrite get_put_item_same' in H. injection H as <-. reflexivity.
      + unfold w1 in H. rewrite get_put_item_other in H by exact N. eapply J3; eauto.
    - intros j it e0 a0 H Hin. destruct (Nat.eq_dec j a) as [->|N].
      + unfold w1 in H. rewrite get_put_item_same' in H. injection H as <-. destruct Hin.
      + unfold w1 in H. rewrite get_put_item_other in H by exact N. pose proof (J4 j it e0 a0 H Hin) as C.
        unfold cls_of in *. destruct (Nat.eq_dec a0 a) as [->|Na]; [now rewrite Fresh in C|].
        unfold w1. now rewrite get_put_item_other.
    - intros j it o H Ho. destruct (Nat.eq_dec j a) as [->|N].
      + unfold w1 in H. rewrite get_put_item_same' in H. injection H as <-. discriminate.
      + unfold w1 in H. rewrite get_put_item_other in H by exact N. pose proof (J5 j it o H Ho) as C.
        unfold cls_of in *. destruct (Nat.eq_dec o a) as [->|Na]; [now rewrite Fresh in C|].
        unfold w1. now rewrite get_put_item_other. }
  destruct (al_set_absent_snd (i_autos mit) e a He) as (Esnd & _).
  assert (K2 : KK (fst s1)).
  { rewrite E1. apply (KK_direct_put w1 m mit mit' Jw1 K1 Hm1 Dm); try reflexivity.
    - apply (direct_cont_fit w1 m mit Jw1 K1 Hm1 Dm).
    - intros Hl. exfalso. apply Hld. exact Hl.
    - intros c cit Gc Hp. destruct (kk_pc _ K1 c cit m Gc) as (P1 & _). destruct (P1 Hp) as (x & Gx & Hx).
      rewrite Hm1 in Gx. injection Gx as <-. exact Hx.
    - intros c cit Gc Hp. destruct (kk_pc _ K1 c cit m Gc) as (_ & P2). destruct (P2 Hp) as (x & Gx & Hx).
      rewrite Hm1 in Gx. injection Gx as <-. cbn [i_autos mit' it_set_autos]. rewrite Esnd. apply in_or_app. now left.
    - intros Hf c cit Gc Hp. apply (children_of_detached_unloaded w1 m mit c cit Jw1 K1 Hm1 Dm Hf Gc Hp). }
  (* the new item is linked and loaded *)
  assert (Ga1 : get_item (fst s1) a = Some nit).
  { rewrite E1. rewrite get_put_item_other by exact Nam. unfold w1. apply get_put_item_same'. }
  assert (Dn : ~ direct nit) by (apply direct_childcls; now left).
  intros Herr.
  destruct (add_leaf n s1 a nit (PAuto m) K2 Ga1 Dn eq_refl) as (K3 & U3 & _); [| |exact Herr|].
  - intros x E. discriminate.
  - intros x E. injection E as <-. exists mit'. split; [rewrite E1; apply get_put_item_same'|].
    cbn [i_autos mit' it_set_autos]. rewrite Esnd. apply in_or_app. right. now left.
  - split; [|split; [exact K3|split; [|split]]].
    + apply (load_keeps_ownership (S (S n))); [exact J1|exact Fa1].
    + destruct U3 as (S3 & _). rewrite S3, E1. reflexivity.
    + destruct U3 as (_ & G3). rewrite (G3 m) by (intros E; now apply Nam). rewrite E1. apply get_put_item_same'.
    + intros j Njm Nja. destruct U3 as (_ & G3). rewrite (G3 j Nja), E1.
      rewrite get_put_item_other by exact Njm. unfold w1. now rewrite get_put_item_other.
Qed.

Definition auto_stepf (n : nat) (t : itype) (m : nat) (s : st) (ee : Z * effect) : st :=
  match e_autocharge_attr (snd ee) with
  | None => s
  | Some aa =>
    match al_get zeqb (t_attrs t) aa with
    | None => s
    | Some q =>
      let a := w_next (fst s) in
      let s := lift s (fun w =>
                 let w := set_next w (S a) in
                 let w := put_item w a (new_item CAutocharge (q_trunc q) State_offline 0) in
                 upd_item w m (fun it => it_set_autos it (al_set zeqb (i_autos it) (fst ee) a))) in
      add_item n s a (PAuto m)
    end
  end.

Lemma auto_stepf_sticky n t m s ee : sticky (fst s) (fst (auto_stepf n t m s ee)).
Proof.
  unfold auto_stepf. destruct (e_autocharge_attr (snd ee)); [|apply sticky_refl].
  destruct (al_get zeqb (t_attrs t) z); [|apply sticky_refl]. cbv zeta.
  eapply sticky_trans; [|apply sticky_add]. unfold lift. cbn [fst].
  eapply sticky_trans; [apply sticky_set_next|]. eapply sticky_trans; [apply sticky_put|apply sticky_upd].
Qed.

(* the fields of m that creating autocharges leaves alone *)
Definition mk (it : item) := (i_cls it, i_tid it, i_state it, i_cont it, i_loaded it, i_running it, i_modes it, i_charge it).

Lemma autos_fold n t m : forall (l : list (Z * effect)) (s : st) (mit : item),
  J (fst s) -> KK (fst s) -> get_item (fst s) m = Some mit -> direct mit -> i_loaded mit <> None ->
  NoDup (map fst l) -> (forall e, In e (map fst l) -> al_get zeqb (i_autos mit) e = None) ->
  (forall e ef aa q, In (e, ef) l -> e_autocharge_attr ef = Some aa -> al_get zeqb (t_attrs t) aa = Some q ->
                     NAtid (fst s) (q_trunc q)) ->
  w_err (fst (fold_left (auto_stepf (S (S n)) t m) l s)) = None ->
  let s' := fold_left (auto_stepf (S (S n)) t m) l s in
  J (fst s') /\ KK (fst s') /\ w_srcs (fst s') = w_srcs (fst s) /\
  (exists mit', get_item (fst s') m = Some mit' /\ mk mit' = mk mit) /\
  (forall j, j <> m -> (j < w_next (fst s))%nat -> get_item (fst s') j = get_item (fst s) j) /\
  (w_next (fst s) <= w_next (fst s'))%nat.
Proof.
  induction l as [|[e ef] l IH]; intros s mit Js K Hm Dm Hld Hnd Hk Hna He; cbn [fold_left] in *.
  - cbv zeta. split; [exact Js|split; [exact K|split; [reflexivity|split; [exists mit; auto|split; [auto|lia]]]]].
  - cbv zeta. inversion Hnd as [|? ? Ne Hnd']; subst.
    set (s1 := auto_stepf (S (S n)) t m s (e, ef)) in *.
    assert (He1 : w_err (fst s1) = None).
    { revert He. apply (C_fold sticky sticky_refl sticky_trans). intros; apply auto_stepf_sticky. }
    assert (Step : J (fst s1) /\ KK (fst s1) /\ w_srcs (fst s1) = w_srcs (fst s) /\
                   (exists mit1, get_item (fst s1) m = Some mit1 /\ mk mit1 = mk mit /\
                                 (forall e', e' <> e -> al_get zeqb (i_autos mit1) e' = al_get zeqb (i_autos mit) e')) /\
                   (forall j, j <> m -> (j < w_next (fst s))%nat -> get_item (fst s1) j = get_item (fst s) j) /\
                   (w_next (fst s) <= w_next (fst s1))%nat).
    { unfold s1, auto_stepf in *. cbn [snd fst] in *. destruct (e_autocharge_attr ef) as [aa|] eqn:Ea.
      - destruct (al_get zeqb (t_attrs t) aa) as [q|] eqn:Eq.
        + cbv zeta in *.
          assert (Hk0 : al_get zeqb (i_autos mit) e = None) by (apply Hk; now left).
          assert (Hn0 : NAtid (fst s) (q_trunc q)) by (apply (Hna e ef aa q); [now left|exact Ea|exact Eq]).
          destruct (new_auto_step n s m mit e (q_trunc q) Js K Hm Dm Hld Hk0 Hn0 He1) as (J1 & K1 & S1 & G1 & F1).
          split; [exact J1|split; [exact K1|split; [exact S1|split; [|split]]]].
          * eexists. split; [exact G1|]. split; [reflexivity|]. intros e' Ne'. cbn [i_autos it_set_autos].
            now apply al_get_set_other_z.
          * intros j Njm Hlt. apply F1; [exact Njm|lia].
          * destruct (load_keeps_ownership (S (S n))) as (_ & Hadd).
            match goal with |- (_ <= w_next (fst (add_item _ ?S0 _ _)))%nat => set (sx := S0) end.
            assert (Jx : J (fst sx)).
            { destruct (KEEP_new_autocharge (fst s) m e (q_trunc q) Js) as ((_ & _ & Jx & _) & _). exact Jx. }
            assert (Fx : fitcont (fst sx) (w_next (fst s)) = None).
            { destruct (KEEP_new_autocharge (fst s) m e (q_trunc q) Js) as (_ & Fx). exact Fx. }
            destruct (Hadd sx (w_next (fst s)) m Jx Fx) as (_ & Nx & _).
            assert (Nsx : w_next (fst sx) = S (w_next (fst s))).
            { unfold sx, lift. cbn [fst]. unfold upd_item.
              match goal with |- context[get_item ?W m] => destruct (get_item W m) end;
                [rewrite next_put_item|rewrite next_fail]; rewrite next_put_item; reflexivity. }
            lia.
        + split; [exact Js|split; [exact K|split; [reflexivity|split; [exists mit; auto|split; [auto|lia]]]]].
      - split; [exact Js|split; [exact K|split; [reflexivity|split; [exists mit; auto|split; [auto|lia]]]]]. }
    destruct Step as (J1 & K1 & S1 & (mit1 & G1 & M1 & A1) & F1 & N1).
    assert (Dm1 : direct mit1) by (unfold mk in M1; unfold direct in *; assert (i_cls mit1 = i_cls mit) by congruence; congruence).
    assert (Hld1 : i_loaded mit1 <> None) by (unfold mk in M1; assert (i_loaded mit1 = i_loaded mit) by congruence; congruence).
    destruct (IH s1 mit1 J1 K1 G1 Dm1 Hld1 Hnd') as (J2 & K2 & S2 & (mit2 & G2 & M2) & F2 & N2).
    + intros e' I. rewrite A1; [apply Hk; now right|]. intros ->. apply Ne. exact I.
    + intros e' ef' aa q I Ha Hq. apply (NAtid_srcs (fst s) (fst s1) _ S1). apply (Hna e' ef' aa q); [now right|exact Ha|exact Hq].
    + exact He.
    + split; [exact J2|split; [exact K2|split; [congruence|split; [|split]]]].
      * exists mit2. split; [exact G2|congruence].
      * intros j Njm Hlt. rewrite F2; [apply F1; assumption|exact Njm|lia].
      * lia.
Qed.

(* what the flat-world hypothesis says about the type a directly held item is loaded with *)
Definition auto_ok (w : world) (tid : Z) : Prop :=
  forall s u t, get_src w s = Some u -> get_type u tid = Some t ->
    NoDup (t_effects t) /\
    forall e ef aa q, In e (t_effects t) -> get_effect u e = Some ef -> e_autocharge_attr ef = Some aa ->
                      al_get zeqb (t_attrs t) aa = Some q -> NAtid w (q_trunc q).

Lemma item_effects_keys_nodup w it t :
  item_type w it = Some t -> NoDup (t_effects t) -> NoDup (map fst (item_effects w it)).
Proof.
  intros Ht Hn. unfold item_effects. rewrite Ht. destruct (item_universe w it) as [u|]; [|constructor].
  induction (t_effects t) as [|e l IH]; cbn; [constructor|].
  inversion Hn as [|? ? Ne Hn']; subst. rewrite map_app. destruct (get_effect u e) as [ef|]; cbn.
  - constructor; [|now apply IH]. intros I. apply Ne. apply in_map_iff in I as ([e' ef'] & E & I). cbn in E. subst e'.
    apply in_flat_map in I as (x & Ix & Hx). destruct (get_effect u x); [|destruct Hx].
    destruct Hx as [Ex|[]]. injection Ex as -> _. exact Ix.
  - now apply IH.
Qed.

Theorem load_dir n s m mit :
  J (fst s) -> KK (fst s) -> get_item (fst s) m = Some mit -> direct mit -> i_loaded mit = None ->
  auto_ok (fst s) (i_tid mit) ->
  w_err (fst (load (S (S (S n))) s m)) = None ->
  let w' := fst (load (S (S (S n))) s m) in
  J w' /\ KK w' /\ w_srcs w' = w_srcs (fst s) /\
  (exists mit', get_item w' m = Some mit' /\ i_cls mit' = i_cls mit /\ i_cont mit' = i_cont mit /\
                i_state mit' = i_state mit /\ i_charge mit' = i_charge mit /\ i_tid mit' = i_tid mit) /\
  (forall j, j <> m -> (j < w_next (fst s))%nat -> get_item w' j = get_item (fst s) j).
Proof.
  intros Js K Hm Dm Hl Hok.
  assert (Same : let w' := fst s in
                 J w' /\ KK w' /\ w_srcs w' = w_srcs (fst s) /\
                 (exists mit', get_item w' m = Some mit' /\ i_cls mit' = i_cls mit /\ i_cont mit' = i_cont mit /\
                               i_state mit' = i_state mit /\ i_charge mit' = i_charge mit /\ i_tid mit' = i_tid mit) /\
                 (forall j, j <> m -> (j < w_next (fst s))%nat -> get_item w' j = get_item (fst s) j)).
  { cbv zeta. split; [exact Js|split; [exact K|split; [reflexivity|split; [|auto]]]].
    exists mit. split; [exact Hm|]. repeat split; reflexivity. }
  cbn [load]. rewrite Hm.
  destruct (item_fit (fst s) m) as [f|] eqn:Ef; [|intros _; exact Same].
  destruct (fit_source_id (fst s) f) as [src|] eqn:Esrc; [|intros _; exact Same].
  destruct (get_src (fst s) src) as [u|] eqn:Eu; [|intros _; exact Same].
  destruct (get_type u (i_tid mit)) as [t|] eqn:Et; [|intros _; exact Same].
  clear Same. cbv zeta.
  set (ld := it_set_loaded mit (Some src)).
  set (s1 := lift s (fun w => put_item w m ld)).
  pose proof (kk_au _ K m mit Hm Hl) as Au0.
  assert (Hnc : forall y, i_cont mit <> Some (PCharge y) /\ i_cont mit <> Some (PAuto y))
    by (apply (direct_cont_fit (fst s) m mit Js K Hm Dm)).
  assert (K1 : KK (fst s1)).
  { unfold s1, lift. cbn [fst]. apply (KK_direct_put (fst s) m mit ld Js K Hm Dm); try reflexivity.
    - exact Hnc.
    - intros Hx. discriminate.
    - intros c cit Gc Hp. destruct (kk_pc _ K c cit m Gc) as (P1 & _). destruct (P1 Hp) as (x & Gx & Hx).
      rewrite Hm in Gx. injection Gx as <-. exact Hx.
    - intros c cit Gc Hp. destruct (kk_pc _ K c cit m Gc) as (_ & P2). destruct (P2 Hp) as (x & Gx & Hx).
      rewrite Hm in Gx. injection Gx as <-. exact Hx.
    - intros Hf c cit Gc Hp. apply (children_of_detached_unloaded (fst s) m mit c cit Js K Hm Dm Hf Gc Hp). }
  assert (J1 : J (fst s1)).
  { unfold s1, lift. cbn [fst]. apply (J_put_keepcls (fst s) m mit ld Js Hm eq_refl).
    - intros C. exfalso. apply (proj2 (direct_childcls mit)); [exact C|exact Dm].
    - intros e a I. destruct Js as (_ & _ & J4 & _). apply (J4 m mit e a Hm I).
    - intros o Ho. destruct Js as (_ & _ & _ & J5). apply (J5 m mit o Hm Ho). }
  assert (G1 : get_item (fst s1) m = Some ld) by (unfold s1, lift; cbn [fst]; apply get_put_item_same').
  set (s2 := with_msgs s1 f (fun w => item_loaded_msgs w m)).
  assert (RO : run_only (fst s1) (fst s2) m).
  { unfold s2, with_msgs. pose proof (loaded_run_only (fst s1) m) as H. destruct (item_loaded_msgs (fst s1) m). exact H. }
  assert (F2 : FC (fst s1) (fst s2)).
  { unfold s2, with_msgs. pose proof (FC_item_loaded_msgs (fst s1) m) as H. destruct (item_loaded_msgs (fst s1) m). exact H. }
  pose proof (FC_J _ _ F2 J1) as J2.
  pose proof (KK_same_k _ _ (same_k_run_only_direct _ _ m ld RO G1 Dm) K1) as K2.
  destruct RO as (U2 & R2 & _). destruct (R2 ld G1) as (r & G2). rewrite G2.
  set (mit2 := it_set_running ld r) in *.
  change (fold_left _ (item_effects (fst s2) mit2) s2) with (fold_left (auto_stepf (S (S n)) t m) (item_effects (fst s2) mit2) s2).
  intros He.
  assert (S12 : w_srcs (fst s2) = w_srcs (fst s)) by (destruct U2 as (S2 & _); rewrite S2; reflexivity).
  assert (Ety : item_type (fst s2) mit2 = Some t).
  { unfold item_type. cbn [i_loaded mit2 ld it_set_running it_set_loaded i_tid]. unfold get_src in *. rewrite S12, Eu. exact Et. }
  assert (Eun : item_universe (fst s2) mit2 = Some u).
  { unfold item_universe. cbn [i_loaded mit2 ld it_set_running it_set_loaded]. unfold get_src in *. now rewrite S12. }
  destruct (Hok src u t Eu Et) as (Hnd & Hauto).
  destruct (autos_fold n t m (item_effects (fst s2) mit2) s2 mit2 J2 K2 G2 Dm) as (J3 & K3 & S3 & (mit3 & G3 & M3) & F3 & _).
  - cbn. discriminate.
  - apply (item_effects_keys_nodup _ _ t Ety Hnd).
  - intros e _. cbn [i_autos mit2 ld it_set_running it_set_loaded]. now rewrite Au0.
  - intros e ef aa q I Ha Hq. apply item_effects_in in I as (t' & u' & Ht' & Hu' & It & Ge).
    rewrite Ety in Ht'. injection Ht' as <-. rewrite Eun in Hu'. injection Hu' as <-.
    apply (NAtid_srcs (fst s) (fst s2) _ S12). apply (Hauto e ef aa q It Ge Ha Hq).
  - exact He.
  - cbv zeta. split; [exact J3|split; [exact K3|split; [congruence|split]]].
    + exists mit3. split; [exact G3|]. unfold mk in M3. cbn in M3. repeat split; congruence.
    + intros j Nj Hlt. rewrite F3; [|exact Nj|].
      * destruct U2 as (_ & Gx). rewrite (Gx j Nj). unfold s1, lift. cbn [fst]. now apply get_put_item_other.
      * assert (w_next (fst s2) = w_next (fst s)).
        { destruct F2 as (_ & N2). rewrite N2. unfold s1, lift. cbn [fst]. apply next_put_item. }
        lia.
Qed.

Theorem add_dir n s m mit p :
  J (fst s) -> KK (fst s) -> get_item (fst s) m = Some mit -> direct mit ->
  i_loaded mit = None -> racklike_of p = Some p -> auto_ok (fst s) (i_tid mit) ->
  w_err (fst (add_item (S (S (S (S n)))) s m p)) = None ->
  let w' := fst (add_item (S (S (S (S n)))) s m p) in
  KK w' /\ w_srcs w' = w_srcs (fst s) /\
  (exists mit', get_item w' m = Some mit' /\ i_cls mit' = i_cls mit /\ i_cont mit' = Some p /\
                i_state mit' = i_state mit /\ i_charge mit' = i_charge mit).
Proof.
  intros Js K Hm Dm Hl0 Hp Hok.
  set (mc := it_set_cont mit (Some p)).
  set (s1 := lift s (fun w => upd_item w m (fun it => it_set_cont it (Some p)))).
  assert (E1 : fst s1 = put_item (fst s) m mc) by (unfold s1, lift, upd_item; cbn [fst]; now rewrite Hm).
  assert (Hpn : forall y, Some p <> Some (PCharge y) /\ Some p <> Some (PAuto y)).
  { intros y. destruct p; cbn in Hp; try discriminate; split; discriminate. }
  assert (K1 : KK (fst s1)).
  { rewrite E1. apply (KK_direct_put (fst s) m mit mc Js K Hm Dm); try reflexivity.
    - exact Hpn.
    - intros Hx. apply (kk_au _ K m mit Hm). exact Hx.
    - intros c cit Gc Hq. destruct (kk_pc _ K c cit m Gc) as (P1 & _). destruct (P1 Hq) as (x & Gx & Hx).
      rewrite Hm in Gx. injection Gx as <-. exact Hx.
    - intros c cit Gc Hq. destruct (kk_pc _ K c cit m Gc) as (_ & P2). destruct (P2 Hq) as (x & Gx & Hx).
      rewrite Hm in Gx. injection Gx as <-. exact Hx.
    - intros Hf. exfalso. unfold fitcont_of, mc in Hf. cbn in Hf. destruct p; cbn in Hp; discriminate. }
  assert (J1 : J (fst s1)).
  { rewrite E1. apply (J_put_keepcls (fst s) m mit mc Js Hm eq_refl).
    - intros C. exfalso. apply (proj2 (direct_childcls mit)); [exact C|exact Dm].
    - intros e a I. destruct Js as (_ & _ & J4 & _). apply (J4 m mit e a Hm I).
    - intros o Ho. destruct Js as (_ & _ & _ & J5). apply (J5 m mit o Hm Ho). }
  assert (G1 : get_item (fst s1) m = Some mc) by (rewrite E1; apply get_put_item_same').
  assert (S1 : w_srcs (fst s1) = w_srcs (fst s)) by (rewrite E1; reflexivity).
  assert (N1 : w_next (fst s1) = w_next (fst s)) by (rewrite E1; apply next_put_item).
  cbn [add_item]. fold s1.
  destruct (item_fit (fst s1) m) as [f|] eqn:Ef.
  2:{ intros _. cbv zeta. split; [exact K1|split; [exact S1|]]. exists mc. split; [exact G1|]. now repeat split. }
  cbv zeta.
  set (one := fun (s : st) sub => load (S (S (S n))) (with_msgs s f (fun w => item_added_msgs w sub)) sub).
  set (sl := one s1 m).
  set (sfin := match get_item (fst sl) m with
               | Some it => fold_left one (child_items it true) sl
               | None => lift sl (fun w => fail w EKeyAbsent)
               end).
  change (w_err (fst sfin) = None ->
          KK (fst sfin) /\ w_srcs (fst sfin) = w_srcs (fst s) /\
          (exists mit', get_item (fst sfin) m = Some mit' /\ i_cls mit' = i_cls mit /\ i_cont mit' = Some p /\
                        i_state mit' = i_state mit /\ i_charge mit' = i_charge mit)).
  intros He. unfold sfin in *. clear sfin.
  assert (Sone : forall s0 x, sticky (fst s0) (fst (one s0 x))).
  { intros s0 x. unfold one. eapply sticky_trans; [|apply sticky_load]. apply with_msgs_sticky. intros; apply added_sticky. }
  assert (Hsl : w_err (fst sl) = None).
  { destruct (get_item (fst sl) m) as [x|] eqn:Gx.
    - revert He. apply (C_fold sticky sticky_refl sticky_trans). intros; apply Sone.
    - unfold lift in He. cbn [fst] in He. destruct (err_fail_none _ _ He). }
  set (sa := with_msgs s1 f (fun w => item_added_msgs w m)).
  assert (Hsa : w_err (fst sa) = None) by (apply (sticky_load (S (S (S n))) sa m); exact Hsl).
  assert (Esa : fst sa = fst s1) by (apply with_msgs_added_same; exact Hsa).
  assert (Hok1 : auto_ok (fst sa) (i_tid mc)).
  { rewrite Esa. intros x u t Gu Gt. unfold get_src in Gu. rewrite S1 in Gu.
    destruct (Hok x u t Gu Gt) as (H1 & H2). split; [exact H1|]. intros e ef aa q I Ge Ha Hq.
    apply (NAtid_srcs (fst s) (fst s1) _ S1). now apply (H2 e ef aa q). }
  destruct (load_dir n sa m mc) as (Jl & Kl & Sl & (ml & Gml & Ecl & Eco & Est & Ech & Etd) & Frl);
    try (rewrite Esa; assumption); try assumption.
  change (load (S (S (S n))) sa m) with sl in Jl, Kl, Sl, Gml, Frl.
  rewrite Gml in He |- *. unfold child_items in He |- *. rewrite app_nil_r in He |- *.
  destruct (i_charge ml) as [c|] eqn:Ec.
  - cbn [fold_left] in He |- *.
    set (sac := with_msgs sl f (fun w => item_added_msgs w c)).
    change (one sl c) with (load (S (S (S n))) sac c) in He |- *.
    assert (Hsc : w_err (fst (load (S (S (S n))) sac c)) = None) by exact He.
    assert (Hsac : w_err (fst sac) = None) by (apply (sticky_load (S (S (S n))) sac c); exact Hsc).
    assert (Esac : fst sac = fst sl) by (apply with_msgs_added_same; exact Hsac).
    assert (Cc : cls_of (fst sl) c = Some CCharge).
    { destruct Jl as (_ & _ & _ & J5). apply (J5 m ml c Gml Ec). }
    destruct (cls_of_some' _ _ _ Cc) as (cit & Gc & Ecc).
    assert (Dc : ~ direct cit) by (apply direct_childcls; right; exact Ecc).
    assert (Ncm : c <> m).
    { intros ->. rewrite Gml in Gc. injection Gc as <-. apply Dc. unfold direct in *. now rewrite Ecl. }
    rewrite <- Esac in Kl, Gc.
    destruct (load_leaf (S (S n)) sac c cit Kl Gc Dc Hsc) as (Kc & Uc & _).
    split; [exact Kc|split].
    + destruct Uc as (Sc & _). rewrite Sc, Esac, Sl, Esa. exact S1.
    + exists ml. split.
      * destruct Uc as (_ & G). rewrite (G m) by (intros E; now apply Ncm). now rewrite Esac.
      * cbn in Ecl, Eco, Est, Ech. repeat split; congruence.
  - cbn [fold_left]. split; [exact Kl|split; [now rewrite Sl, Esa|]].
    exists ml. split; [exact Gml|]. cbn in Ecl, Eco, Est, Ech. repeat split; congruence.
Qed.

(* ------------------------------------------------------------------ *)
(* any item, the fuel of the operations                                 *)

(* sources are flat: effect lists have no duplicates, and whatever a type loads as an autocharge defines no
   autocharge itself (a property of the sources alone) *)
Definition FLATs (w : world) : Prop := forall tid, auto_ok w tid.
Lemma FLATs_srcs w w' : w_srcs w' = w_srcs w -> FLATs w -> FLATs w'.
Proof.
  intros Hs H tid s u t Gu Gt. unfold get_src in Gu. rewrite Hs in Gu. destruct (H tid s u t Gu Gt) as (H1 & H2).
  split; [exact H1|]. intros e ef aa q I Ge Ha Hq. apply (NAtid_srcs w w' _ Hs). now apply (H2 e ef aa q).
Qed.

Lemma F_eq : F = S (S (S (S 8))). Proof. reflexivity. Qed.

Lemma KK_same_is w w' : same_is w w' -> KK w -> KK w'.
Proof.
  intros (Hi & _ & Hs) K. apply (KK_same_k w w'); [|exact K]. split; [exact Hs|].
  intros j. unfold get_item. now rewrite Hi.
Qed.

Lemma remove_sticky_unload n s i : sticky (fst (unload n s i)) (fst (remove_item (S n) s i)).
Proof.
  set (fit := item_fit (fst s) i).
  set (one := fun (s : st) sub => let s := unload n s sub in
                                  match fit with
                                  | Some f => with_msgs s f (fun w => item_removed_msgs w sub)
                                  | None => s
                                  end).
  set (s1 := one s i).
  set (s2 := match get_item (fst s1) i with
             | Some it => fold_left one (child_items it true) s1
             | None => lift s1 (fun w => fail w EKeyAbsent)
             end).
  assert (Eres : fst (remove_item (S n) s i) = upd_item (fst s2) i (fun it => it_set_cont it None)) by reflexivity.
  rewrite Eres.
  assert (Sone : forall s0 x, sticky (fst s0) (fst (one s0 x))).
  { intros s0 x. unfold one. cbv zeta. eapply sticky_trans; [apply sticky_unload|].
    destruct fit; [|apply sticky_refl]. apply with_msgs_sticky. intros; apply removed_sticky. }
  eapply sticky_trans; [|apply sticky_upd].
  assert (S12 : sticky (fst s1) (fst s2)).
  { subst s2. destruct (get_item (fst s1) i).
    - apply (C_fold sticky sticky_refl sticky_trans). intros; apply Sone.
    - unfold lift. cbn [fst]. apply sticky_fail. }
  eapply sticky_trans; [|exact S12].
  unfold s1, one. cbv zeta. destruct fit; [|apply sticky_refl]. apply with_msgs_sticky. intros; apply removed_sticky.
Qed.

Theorem remove_KK s i :
  J (fst s) -> KK (fst s) -> w_err (fst (remove_item F s i)) = None ->
  KK (fst (remove_item F s i)) /\ w_srcs (fst (remove_item F s i)) = w_srcs (fst s).
Proof.
  intros Js K He. rewrite F_eq in *.
  destruct (get_item (fst s) i) as [it|] eqn:Hi.
  - destruct (direct_dec it) as [D|D].
    + destruct (remove_dir 8 s i it Js K Hi D He) as (K' & S' & _). now split.
    + destruct (remove_leaf 10 s i it K Hi D He) as (K' & (S' & _) & _). now split.
  - exfalso. apply (remove_sticky_unload 11 s i) in He. revert He. cbn [unload]. rewrite Hi.
    unfold lift. cbn [fst]. intros H. exact (err_fail_none _ _ H).
Qed.

Lemma racklike_some p : racklike_of p <> None -> racklike_of p = Some p.
Proof. destruct p; cbn; congruence. Qed.

(* the invariant carried through the operations *)
Definition KJ (w : world) : Prop := RJ w /\ KK w /\ FLATs w.
Lemma KJ_same_is w w' : same_is w w' -> KJ w -> KJ w'.
Proof.
  intros S (R & K & Fl). split; [eapply RJ_same_is; eauto|split; [eapply KK_same_is; eauto|]].
  apply (FLATs_srcs w w'); [apply S|exact Fl].
Qed.

Theorem enter_KJ (s s1 : st) i p it :
  KJ (fst s) -> same_is (fst s) (fst s1) -> get_item (fst s) i = Some it -> direct it ->
  has_container (fst s) i = false -> racklike_of p <> None ->
  w_err (fst (add_item F s1 i p)) = None -> KJ (fst (add_item F s1 i p)).
Proof.
  intros (R & K & Fl) S Hi D Hc Hp He.
  assert (R1 : RJ (fst (add_item F s1 i p))) by (eapply (enter_RJ s); eauto).
  pose proof (KJ_same_is _ _ S (conj R (conj K Fl))) as (R' & K' & Fl').
  assert (Hi1 : get_item (fst s1) i = Some it) by (now rewrite (same_is_get _ _ i S)).
  assert (Hl : i_loaded it = None) by (apply (no_container_unloaded (fst s) i it (proj1 R) Hi D Hc)).
  rewrite F_eq in *.
  destruct (add_dir 8 s1 i it p (proj2 R') K' Hi1 D Hl (racklike_some p Hp) (Fl' (i_tid it)) He) as (K2 & S2 & _).
  split; [exact R1|split; [exact K2|]]. apply (FLATs_srcs (fst s1)); [exact S2|exact Fl'].
Qed.

Theorem remove_KJ s i :
  KJ (fst s) -> w_err (fst (remove_item F s i)) = None -> KJ (fst (remove_item F s i)).
Proof.
  intros (R & K & Fl) He. destruct (remove_KK s i (proj2 R) K He) as (K2 & S2).
  split; [now apply remove_RJ|split; [exact K2|]]. apply (FLATs_srcs (fst s)); [exact S2|exact Fl].
Qed.

(* ------------------------------------------------------------------ *)
(* the container operations keep KJ (the proofs of proofs/Runs_p.v, over the larger invariant) *)

Lemma KJ_fold_err {A} (f : st -> A -> st) l :
  (forall s x, sticky (fst s) (fst (f s x))) ->
  (forall s x, KJ (fst s) -> w_err (fst (f s x)) = None -> KJ (fst (f s x))) ->
  forall s, KJ (fst s) -> w_err (fst (fold_left f l s)) = None -> KJ (fst (fold_left f l s)).
Proof.
  intros Hs H. induction l as [|x r IH]; intros s R He; simpl in *; [exact R|].
  apply IH; [|exact He]. apply H; [exact R|].
  exact (C_fold sticky sticky_refl sticky_trans f r Hs (f s x) He).
Qed.

Lemma rack_enter_KJ s f k i l2 c :
  KJ (fst s) -> cls_of (fst s) i = Some c -> rack_accepts k c = true -> has_container (fst s) i = false ->
  w_err (fst (add_item F (set_rack s f k l2) i (PRack f k))) = None ->
  KJ (fst (add_item F (set_rack s f k l2) i (PRack f k))).
Proof.
  intros R Hc Ha Hn He. destruct (cls_of_some' _ _ _ Hc) as (it & Hi & Ec).
  eapply (enter_KJ s); eauto.
  - apply same_is_set_rack.
  - eapply rack_accepts_direct; eauto.
  - discriminate.
Qed.

Theorem rack_append_KJ s f k i :
  KJ (fst s) -> w_err (fst (fst (rack_append s f k i))) = None -> KJ (fst (fst (rack_append s f k i))).
Proof.
  intros R. unfold rack_append.
  destruct (cls_of (fst s) i) as [c|] eqn:Hc; [|auto].
  destruct (rack_accepts k c) eqn:Ha; cbn [negb]; [|auto].
  destruct (has_container (fst s) i) eqn:Hn; [auto|]. cbn [fst].
  now apply (rack_enter_KJ s f k i _ c).
Qed.

Theorem rack_insert_KJ s f k idx v :
  KJ (fst s) -> w_err (fst (fst (rack_insert s f k idx v))) = None -> KJ (fst (fst (rack_insert s f k idx v))).
Proof.
  intros R. unfold rack_insert.
  destruct v as [i|].
  - destruct (cls_of (fst s) i) as [c|] eqn:Hc; cbn [negb]; [|auto].
    destruct (rack_accepts k c) eqn:Ha; cbn [negb]; [|auto].
    destruct (has_container (fst s) i) eqn:Hn; cbn [fst].
    + intros _. eapply KJ_same_is; [apply same_is_set_rack|exact R].
    + now apply (rack_enter_KJ s f k i _ c).
  - cbn [negb fst]. intros _. eapply KJ_same_is; [apply same_is_set_rack|exact R].
Qed.

Theorem rack_place_KJ s f k idx i :
  KJ (fst s) -> w_err (fst (fst (rack_place s f k idx i))) = None -> KJ (fst (fst (rack_place s f k idx i))).
Proof.
  intros R. unfold rack_place.
  destruct (cls_of (fst s) i) as [c|] eqn:Hc; [|auto].
  destruct (rack_accepts k c) eqn:Ha; cbn [negb]; [|auto].
  set (l := get_rack (fst s) f k).
  assert (P : forall l1,
    w_err (fst (fst (match norm_index (length l1) idx with
                     | None => (s, RExn XIndex)
                     | Some n =>
                       if has_container (fst s) i
                       then (set_rack s f k (cleanup (list_set l1 n None)), RExn XValue)
                       else (add_item F (set_rack s f k (list_set l1 n (Some i))) i (PRack f k), ROk)
                     end))) = None ->
    KJ (fst (fst (match norm_index (length l1) idx with
                  | None => (s, RExn XIndex)
                  | Some n =>
                    if has_container (fst s) i
                    then (set_rack s f k (cleanup (list_set l1 n None)), RExn XValue)
                    else (add_item F (set_rack s f k (list_set l1 n (Some i))) i (PRack f k), ROk)
                  end)))).
  { intros l1. destruct (norm_index (length l1) idx) as [n|]; [|auto].
    destruct (has_container (fst s) i) eqn:Hn; cbn [fst].
    - intros _. eapply KJ_same_is; [apply same_is_set_rack|exact R].
    - now apply (rack_enter_KJ s f k i _ c). }
  destruct (norm_index (length l) idx) as [n|] eqn:En.
  - destruct (nth_error l n) as [[j|]|]; [auto| |]; specialize (P l); rewrite En in P; exact P.
  - apply P.
Qed.

Theorem rack_equip_KJ s f k i :
  KJ (fst s) -> w_err (fst (fst (rack_equip s f k i))) = None -> KJ (fst (fst (rack_equip s f k i))).
Proof.
  intros R. unfold rack_equip.
  destruct (cls_of (fst s) i) as [c|] eqn:Hc; [|auto].
  destruct (rack_accepts k c) eqn:Ha; cbn [negb]; [|auto].
  destruct (equip_list _ i) as [l1 n].
  destruct (has_container (fst s) i) eqn:Hn; cbn [fst].
  - intros _. eapply KJ_same_is; [apply same_is_set_rack|exact R].
  - now apply (rack_enter_KJ s f k i _ c).
Qed.

Theorem rack_remove_KJ s f k a :
  KJ (fst s) -> w_err (fst (fst (rack_remove s f k a))) = None -> KJ (fst (fst (rack_remove s f k a))).
Proof.
  intros R. unfold rack_remove.
  destruct (rack_locate _ a) as [[n v]|e]; [|auto]. cbn [fst]. destruct v as [i|].
  - intros He. pose proof (sticky_set_rack _ _ _ _ He) as E1.
    eapply KJ_same_is; [apply same_is_set_rack|]. now apply remove_KJ.
  - intros _. eapply KJ_same_is; [apply same_is_set_rack|exact R].
Qed.

Theorem rack_free_KJ s f k a :
  KJ (fst s) -> w_err (fst (fst (rack_free s f k a))) = None -> KJ (fst (fst (rack_free s f k a))).
Proof.
  intros R. unfold rack_free.
  destruct (rack_locate _ a) as [[n [i|]]|e]; auto. cbn [fst].
  intros He. pose proof (sticky_set_rack _ _ _ _ He) as E1.
  eapply KJ_same_is; [apply same_is_set_rack|]. now apply remove_KJ.
Qed.

Lemma remove_fold_KJ {A} (g : A -> option nat) l : forall s,
  KJ (fst s) ->
  w_err (fst (fold_left (fun s v => match g v with Some i => remove_item F s i | None => s end) l s)) = None ->
  KJ (fst (fold_left (fun s v => match g v with Some i => remove_item F s i | None => s end) l s)).
Proof.
  apply KJ_fold_err.
  - intros s x. destruct (g x); [apply sticky_remove|apply sticky_refl].
  - intros s x R He. destruct (g x); [now apply remove_KJ|exact R].
Qed.

Theorem rack_clear_KJ s f k :
  KJ (fst s) -> w_err (fst (fst (rack_clear s f k))) = None -> KJ (fst (fst (rack_clear s f k))).
Proof.
  intros R. unfold rack_clear. cbn [fst]. intros He. pose proof (sticky_set_rack _ _ _ _ He) as E1.
  eapply KJ_same_is; [apply same_is_set_rack|]. now apply (remove_fold_KJ (fun v => v)).
Qed.

(* ------------------------------------------------------------------ *)
(* sets                                                                 *)

Theorem itemset_add_KJ s f k i :
  KJ (fst s) -> w_err (fst (fst (itemset_add s f k i))) = None -> KJ (fst (fst (itemset_add s f k i))).
Proof.
  intros R. unfold itemset_add.
  destruct (cls_of (fst s) i) as [c|] eqn:Hc; [|auto].
  destruct (set_accepts k c) eqn:Ha; cbn [negb]; [|auto].
  destruct (has_container (fst s) i) eqn:Hn.
  - intros _. destruct (mem neqb _ i); cbn [fst]; unfold lift; cbn [fst].
    + eapply KJ_same_is; [apply same_is_put_setc|exact R].
    + eapply KJ_same_is; [|exact R]. eapply same_is_trans; apply same_is_put_setc.
  - cbn [fst]. destruct (cls_of_some' _ _ _ Hc) as (it & Hi & Ec).
    eapply (enter_KJ s); eauto.
    + unfold lift. cbn [fst]. apply same_is_put_setc.
    + eapply set_accepts_direct; eauto.
    + discriminate.
Qed.

Theorem set_add_op_KJ s f k i :
  KJ (fst s) -> w_err (fst (fst (set_add_op s f k i))) = None -> KJ (fst (fst (set_add_op s f k i))).
Proof.
  intros R. unfold set_add_op. destruct k; try (now apply itemset_add_KJ).
  destruct (get_item (fst s) i) as [it|]; [|auto].
  destruct (set_accepts SeSkills (i_cls it)); cbn [negb]; [|auto].
  destruct (al_mem zeqb _ (i_tid it)); [auto|].
  set (s1 := lift s _).
  assert (R1 : KJ (fst s1)) by (eapply KJ_same_is; [|exact R]; unfold s1, lift; cbn [fst]; apply same_is_put_skillmap).
  pose proof (itemset_add_KJ s1 f SeSkills i R1) as H.
  destruct (itemset_add s1 f SeSkills i) as [s2 r]. cbn [fst] in H.
  destruct r; cbn [fst]; try exact H.
  unfold lift. cbn [fst]. intros He. pose proof (sticky_put_skillmap _ _ _ He) as E2.
  eapply KJ_same_is; [apply same_is_put_skillmap|now apply H].
Qed.

Theorem set_remove_op_KJ s f k i :
  KJ (fst s) -> w_err (fst (fst (set_remove_op s f k i))) = None -> KJ (fst (fst (set_remove_op s f k i))).
Proof.
  intros R. unfold set_remove_op.
  destruct (mem neqb _ i); cbn [negb]; [|auto].
  set (s2 := remove_item F s i).
  set (s3 := lift s2 (fun w => put_setc w f k (set_rm neqb (get_setc w f k) i))).
  assert (H3 : w_err (fst s3) = None -> KJ (fst s3)).
  { intros E3. unfold s3, lift in *. cbn [fst] in *. pose proof (sticky_put_setc _ _ _ _ E3) as E2.
    eapply KJ_same_is; [apply same_is_put_setc|]. now apply remove_KJ. }
  destruct k; try exact H3.
  destruct (get_item (fst s3) i) as [it|]; [|exact H3]. cbn [fst]. unfold lift at 1. cbn [fst].
  intros He. pose proof (sticky_put_skillmap _ _ _ He) as E3.
  eapply KJ_same_is; [apply same_is_put_skillmap|now apply H3].
Qed.

Theorem skill_del_op_KJ s f tid :
  KJ (fst s) -> w_err (fst (fst (skill_del_op s f tid))) = None -> KJ (fst (fst (skill_del_op s f tid))).
Proof.
  intros R. unfold skill_del_op. destruct (al_get zeqb _ tid); [now apply set_remove_op_KJ|auto].
Qed.

Theorem set_clear_op_KJ s f k :
  KJ (fst s) -> w_err (fst (fst (set_clear_op s f k))) = None -> KJ (fst (fst (set_clear_op s f k))).
Proof.
  intros R. unfold set_clear_op.
  match goal with |- context[fold_left ?g ?l s] => set (s2 := fold_left g l s) end.
  set (s3 := lift s2 (fun w => put_setc w f k [])).
  assert (H3 : w_err (fst s3) = None -> KJ (fst s3)).
  { intros E3. unfold s3, lift in *. cbn [fst] in *. pose proof (sticky_put_setc _ _ _ _ E3) as E2.
    eapply KJ_same_is; [apply same_is_put_setc|]. now apply (remove_fold_KJ (fun v => Some v)). }
  destruct k; try exact H3. cbn [fst]. unfold lift at 1. cbn [fst].
  intros He. pose proof (sticky_put_skillmap _ _ _ He) as E3.
  eapply KJ_same_is; [apply same_is_put_skillmap|now apply H3].
Qed.



Theorem slot_set_op_KJ s f k new :
  KJ (fst s) ->
  (forall o, match get_fit (fst s) f with Some ft => fit_slot ft k | None => None end = Some o ->
             exists ito, get_item (fst s) o = Some ito /\ direct ito) ->
  w_err (fst (fst (slot_set_op s f k new))) = None -> KJ (fst (fst (slot_set_op s f k new))).
Proof.
  intros R Hold. unfold slot_set_op, descriptor_set. cbv beta.
  set (old := match get_fit (fst s) f with Some ft => fit_slot ft k | None => None end) in *.
  match goal with |- context[negb ?b] => destruct b eqn:Hok end; cbn [negb]; [|auto].
  set (s1 := match old with Some o => remove_item F s o | None => s end).
  assert (H1 : w_err (fst s1) = None ->
               KJ (fst s1) /\ cls_kept (fst s) (fst s1) /\
               (forall o x, old = Some o -> get_item (fst s1) o = Some x -> direct x /\ i_loaded x = None /\ i_cont x = None)).
  { intros E1. subst s1. destruct old as [o|] eqn:Eo.
    - destruct (Hold o eq_refl) as (ito & Ho & Do).
      destruct (remove_RJ F s o (proj1 R) E1) as (R1 & P1).
      pose proof (remove_item_ownership 11 s o (proj2 (proj1 R))) as (_ & _ & _ & Ck). fold F in Ck.
      split; [now apply remove_KJ|split; [exact Ck|]]. intros o' x [= <-] Hx.
      pose proof (direct_of_cls _ _ o ito Ho Do Ck x Hx) as Dx. split; [exact Dx|]. now apply (P1 x Hx Dx).
    - split; [exact R|split; [intros j c E; exact E|intros o x [=]]]. }
  set (s2 := lift s1 (fun w => upd_fit w f (fun ft => fit_set_slot ft k new))).
  assert (S12 : same_is (fst s1) (fst s2)) by (unfold s2, lift; cbn [fst]; apply same_is_upd_fit).
  assert (K12 : sticky (fst s1) (fst s2)) by (unfold s2, lift; cbn [fst]; apply sticky_upd_fit).
  destruct new as [i|].
  2:{ cbn [fst]. intros He. pose proof (K12 He) as E1. eapply KJ_same_is; [exact S12|]. now apply H1. }
  destruct (cls_of (fst s) i) as [c|] eqn:Hc; [|discriminate].
  destruct (has_container (fst s2) i) eqn:Hh.
  - (* roll-back *)
    set (s3 := lift s2 (fun w => upd_fit w f (fun ft => fit_set_slot ft k old))).
    assert (S13 : same_is (fst s1) (fst s3)).
    { eapply same_is_trans; [exact S12|]. unfold s3, lift. cbn [fst]. apply same_is_upd_fit. }
    assert (K13 : sticky (fst s1) (fst s3)).
    { eapply sticky_trans; [exact K12|]. unfold s3, lift. cbn [fst]. apply sticky_upd_fit. }
    destruct old as [o|] eqn:Eo.
    + cbn [fst]. intros He. pose proof (sticky_add _ _ _ _ He) as E3. pose proof (K13 E3) as E1.
      destruct (H1 E1) as (R1 & Ck & P1).
      destruct (Hold o eq_refl) as (ito & Ho & Do).
      assert (Co : cls_of (fst s1) o = Some (i_cls ito)) by (apply Ck; unfold cls_of; now rewrite Ho).
      destruct (cls_of_some' _ _ _ Co) as (x & Hx & _).
      destruct (P1 o x eq_refl Hx) as (Dx & Lx & Cx).
      apply (enter_KJ s1 s3 o (PSlot f k) x R1 S13 Hx Dx); [|discriminate|exact He].
      unfold has_container. now rewrite Hx, Cx.
    + cbn [fst]. intros He. pose proof (K13 He) as E1. eapply KJ_same_is; [exact S13|]. now apply H1.
  - cbn [fst]. intros He. pose proof (sticky_add _ _ _ _ He) as E2. pose proof (K12 E2) as E1.
    destruct (H1 E1) as (R1 & Ck & _).
    destruct (cls_of_some' _ _ _ (Ck _ _ Hc)) as (it & Hi & Ec).
    eapply (enter_KJ s1 s2); eauto.
    + eapply slot_accepts_direct; eauto.
    + rewrite <- Hh. symmetry. now apply has_container_same_is.
    + discriminate.
Qed.

(* ------------------------------------------------------------------ *)
(* the charge slot of a directly held item                              *)

Lemma leaf_no_cont_unloaded w c cit : KK w -> get_item w c = Some cit -> ~ direct cit -> i_cont cit = None -> i_loaded cit = None.
Proof.
  intros K Hc Dc Hn. destruct (i_loaded cit) as [x|] eqn:El; [|reflexivity]. exfalso.
  apply (kk_nl _ K c cit Hc Dc); [congruence|]. unfold item_fit. cbn [item_fit_n]. now rewrite Hc, Hn.
Qed.

Lemma KK_store_charge w m mit v :
  J w -> KK w -> get_item w m = Some mit -> direct mit ->
  (forall c cit, get_item w c = Some cit -> i_cont cit <> Some (PCharge m)) ->
  KK (put_item w m (it_set_charge mit v)).
Proof.
  intros Jw K Hm Dm Hno. apply (KK_direct_put w m mit (it_set_charge mit v) Jw K Hm Dm); try reflexivity.
  - apply (direct_cont_fit w m mit Jw K Hm Dm).
  - intros Hl. apply (kk_au _ K m mit Hm Hl).
  - intros c cit Gc Hp. exfalso. exact (Hno c cit Gc Hp).
  - intros c cit Gc Hp. destruct (kk_pc _ K c cit m Gc) as (_ & P2). destruct (P2 Hp) as (x & Gx & Hx).
    rewrite Hm in Gx. injection Gx as <-. exact Hx.
  - intros Hf c cit Gc Hp. apply (children_of_detached_unloaded w m mit c cit Jw K Hm Dm Hf Gc Hp).
Qed.

Theorem charge_set_op_KJ s m new :
  KJ (fst s) -> (forall mit, get_item (fst s) m = Some mit -> direct mit) ->
  w_err (fst (fst (charge_set_op s m new))) = None -> KJ (fst (fst (charge_set_op s m new))).
Proof.
  intros (R & K & Fl) Hdm He.
  split; [now apply charge_set_op_RJ|].
  revert He. unfold charge_set_op. destruct (get_item (fst s) m) as [mit|] eqn:Hm; [|intros _; now split].
  specialize (Hdm mit eq_refl). unfold descriptor_set. cbv beta.
  match goal with |- context[negb ?b] => destruct b eqn:Hok end; cbn [negb]; [|intros _; now split].
  pose proof (proj2 R) as Js.
  set (old := i_charge mit).
  set (s1 := match old with Some o => remove_item F s o | None => s end).
  (* after the old charge left: KK, J, m untouched, nobody names the charge slot of m *)
  assert (H1 : w_err (fst s1) = None ->
               J (fst s1) /\ KK (fst s1) /\ w_srcs (fst s1) = w_srcs (fst s) /\ get_item (fst s1) m = Some mit /\
               (forall c cit, get_item (fst s1) c = Some cit -> i_cont cit <> Some (PCharge m)) /\
               cls_kept (fst s) (fst s1)).
  { intros E1. subst s1. destruct old as [o|] eqn:Eo.
    - assert (Co : cls_of (fst s) o = Some CCharge) by (destruct Js as (_ & _ & _ & J5); apply (J5 m mit o Hm Eo)).
      destruct (cls_of_some' _ _ _ Co) as (oit & Go & Eco).
      assert (Do : ~ direct oit) by (apply direct_childcls; right; exact Eco).
      rewrite F_eq in *.
      destruct (remove_leaf 10 s o oit K Go Do E1) as (K1 & U1 & o' & Go' & Lo' & Co' & _).
      assert (Nom : o <> m) by (intros ->; rewrite Hm in Go; injection Go as <-; contradiction).
      pose proof (proj2 (unload_keeps_ownership 12) s o Js (J_cls_fitcont _ _ Js (or_intror Co))) as Kp.
      split; [apply Kp|split; [exact K1|split; [apply U1|split; [|split]]]].
      + destruct U1 as (_ & G). rewrite (G m); [exact Hm|]. intros E. now apply Nom.
      + intros c cit Gc Hp. destruct (Nat.eq_dec c o) as [->|Nc].
        * rewrite Go' in Gc. injection Gc as <-. congruence.
        * destruct U1 as (_ & G). rewrite (G c Nc) in Gc.
          destruct (kk_pc _ K c cit m Gc) as (P1 & _). destruct (P1 Hp) as (x & Gx & Hx).
          rewrite Hm in Gx. injection Gx as <-. unfold old in Eo. congruence.
      + apply Kp.
    - split; [exact Js|split; [exact K|split; [reflexivity|split; [exact Hm|split; [|intros j c E; exact E]]]]].
      intros c cit Gc Hp. destruct (kk_pc _ K c cit m Gc) as (P1 & _). destruct (P1 Hp) as (x & Gx & Hx).
      rewrite Hm in Gx. injection Gx as <-. unfold old in Eo. congruence. }
  set (s2 := lift s1 (fun w => upd_item w m (fun it0 => it_set_charge it0 new))).
  assert (St12 : sticky (fst s1) (fst s2)) by (unfold s2, lift; cbn [fst]; apply sticky_upd).
  (* storing a value in the charge slot while nobody names it *)
  assert (Store : forall (s0 : st) x v, J (fst s0) -> KK (fst s0) -> get_item (fst s0) m = Some x -> direct x ->
            (forall c cit, get_item (fst s0) c = Some cit -> i_cont cit <> Some (PCharge m)) ->
            (forall o, v = Some o -> cls_of (fst s0) o = Some CCharge) ->
            let s' := lift s0 (fun w => upd_item w m (fun it0 => it_set_charge it0 v)) in
            J (fst s') /\ KK (fst s') /\ w_srcs (fst s') = w_srcs (fst s0) /\
            get_item (fst s') m = Some (it_set_charge x v) /\
            (forall j, j <> m -> get_item (fst s') j = get_item (fst s0) j)).
  { intros s0 x v J0 K0 G0 D0 Hno Hv. cbv zeta. unfold lift. cbn [fst]. unfold upd_item. rewrite G0.
    split; [|split; [apply (KK_store_charge (fst s0) m x v J0 K0 G0 D0 Hno)|split; [reflexivity|split]]].
    - apply (J_put_keepcls (fst s0) m x (it_set_charge x v) J0 G0 eq_refl).
      + intros C. exfalso. apply (proj2 (direct_childcls x)); [exact C|exact D0].
      + intros e a I. destruct J0 as (_ & _ & J4 & _). apply (J4 m x e a G0 I).
      + intros o Ho. cbn in Ho. now apply Hv.
    - apply get_put_item_same'.
    - intros j Nj. now apply get_put_item_other. }
  assert (Hnew : forall i, new = Some i -> cls_of (fst s) i = Some CCharge).
  { intros i ->. destruct (cls_of (fst s) i) as [c|]; [|discriminate]. now rewrite (icls_eqb_charge c Hok). }
  (* adding a charge item to the slot that lists it *)
  assert (Add : forall (s0 : st) a x, J (fst s0) -> KK (fst s0) -> get_item (fst s0) m = Some x -> i_charge x = Some a ->
            cls_of (fst s0) a = Some CCharge ->
            (forall ait, get_item (fst s0) a = Some ait -> i_loaded ait = None) ->
            w_err (fst (add_item F s0 a (PCharge m))) = None ->
            KK (fst (add_item F s0 a (PCharge m))) /\ w_srcs (fst (add_item F s0 a (PCharge m))) = w_srcs (fst s0)).
  { intros s0 a x J0 K0 G0 Hx Ca Hla Hea. destruct (cls_of_some' _ _ _ Ca) as (ait & Ga & Eca).
    assert (Da : ~ direct ait) by (apply direct_childcls; right; exact Eca).
    rewrite F_eq in *.
    destruct (add_leaf 10 s0 a ait (PCharge m) K0 Ga Da (Hla ait Ga)) as (K' & (S' & _) & _); try exact Hea.
    - intros y E. injection E as <-. exists x. now split.
    - intros y E. discriminate.
    - now split. }
  destruct new as [i|].
  2:{ cbn [fst]. intros He. pose proof (St12 He) as E1. destruct (H1 E1) as (J1 & K1 & S1 & G1 & Hno & _).
      destruct (Store s1 mit None J1 K1 G1 Hdm Hno) as (_ & K2 & S2 & _); [intros o E; discriminate|].
      split; [exact K2|]. apply (FLATs_srcs (fst s)); [|exact Fl]. fold s2 in S2. congruence. }
  specialize (Hnew i eq_refl).
  destruct (has_container (fst s2) i) eqn:Hh; cbn [fst].
  - (* refused: the old charge comes back *)
    set (s3 := lift s2 (fun w => upd_item w m (fun it0 => it_set_charge it0 old))).
    assert (St23 : sticky (fst s2) (fst s3)) by (unfold s3, lift; cbn [fst]; apply sticky_upd).
    assert (Fin : forall sfin : st, sticky (fst s3) (fst sfin) ->
              (w_err (fst sfin) = None -> w_err (fst s3) = None ->
               forall J1 : J (fst s1), True) -> True) by auto.
    clear Fin.
    assert (Body : w_err (fst s3) = None ->
              J (fst s3) /\ KK (fst s3) /\ w_srcs (fst s3) = w_srcs (fst s) /\
              get_item (fst s3) m = Some (it_set_charge (it_set_charge mit (Some i)) old) /\
              (forall o, old = Some o -> cls_of (fst s3) o = Some CCharge /\
                                         forall oit, get_item (fst s3) o = Some oit -> i_loaded oit = None)).
    { intros E3. pose proof (St23 E3) as E2. pose proof (St12 E2) as E1.
      destruct (H1 E1) as (J1 & K1 & S1 & G1 & Hno & Ck1).
      destruct (Store s1 mit (Some i) J1 K1 G1 Hdm Hno) as (J2 & K2 & S2 & G2 & Fr2).
      { intros o E. injection E as <-. now apply Ck1. }
      fold s2 in J2, K2, S2, G2, Fr2.
      assert (Hno2 : forall c cit, get_item (fst s2) c = Some cit -> i_cont cit <> Some (PCharge m)).
      { intros c cit Gc. destruct (Nat.eq_dec c m) as [->|Nc].
        - rewrite G2 in Gc. injection Gc as <-. cbn. apply (direct_cont_fit (fst s1) m mit J1 K1 G1 Hdm m).
        - rewrite (Fr2 c Nc) in Gc. now apply (Hno c cit). }
      assert (D2 : direct (it_set_charge mit (Some i))) by exact Hdm.
      destruct (Store s2 (it_set_charge mit (Some i)) old J2 K2 G2 D2 Hno2) as (J3 & K3 & S3 & G3 & Fr3).
      { intros o Eo. destruct J2 as (_ & _ & _ & _). unfold cls_of.
        assert (Co : cls_of (fst s) o = Some CCharge) by (destruct Js as (_ & _ & _ & J5); apply (J5 m mit o Hm Eo)).
        assert (C1 : cls_of (fst s1) o = Some CCharge) by (now apply Ck1).
        unfold cls_of in C1. destruct (Nat.eq_dec o m) as [->|No].
        - rewrite G1 in C1. injection C1 as C1. exfalso. apply (proj2 (direct_childcls mit)); [right; exact C1|exact Hdm].
        - now rewrite (Fr2 o No). }
      fold s3 in J3, K3, S3, G3, Fr3.
      split; [exact J3|split; [exact K3|split; [congruence|split; [exact G3|]]]].
      intros o Eo.
      assert (Co : cls_of (fst s) o = Some CCharge) by (destruct Js as (_ & _ & _ & J5); apply (J5 m mit o Hm Eo)).
      assert (C1 : cls_of (fst s1) o = Some CCharge) by (now apply Ck1).
      assert (No : o <> m).
      { intros ->. unfold cls_of in C1. rewrite G1 in C1. injection C1 as C1.
        apply (proj2 (direct_childcls mit)); [right; exact C1|exact Hdm]. }
      split.
      + unfold cls_of. rewrite (Fr3 o No), (Fr2 o No). exact C1.
      + intros oit Go. rewrite (Fr3 o No), (Fr2 o No) in Go.
        (* the old charge was removed: it has no container reference, hence is not loaded *)
        assert (Doit : ~ direct oit).
        { apply direct_childcls. right. unfold cls_of in C1. rewrite Go in C1. now injection C1. }
        apply (leaf_no_cont_unloaded (fst s1) o oit K1 Go Doit).
        destruct (i_cont oit) as [pl|] eqn:Ecp; [|reflexivity]. exfalso.
        (* remove_item ends by clearing the reference *)
        revert Go Ecp. unfold s1. rewrite Eo. intros Go Ecp.
        assert (Hcl : forall x, get_item (fst (remove_item F s o)) o = Some x -> i_cont x = None).
        { intros x Gx. rewrite F_eq in Gx. revert Gx. cbn [remove_item].
          match goal with |- get_item (fst (lift ?S0 _)) o = Some x -> _ => set (sx := S0) end.
          unfold lift. cbn [fst]. unfold upd_item. destruct (get_item (fst sx) o) as [y|] eqn:Ey.
          - rewrite get_put_item_same'. intros [= <-]. reflexivity.
          - rewrite get_fail, Ey. discriminate. }
        rewrite (Hcl oit Go) in Ecp. discriminate. }
    destruct old as [o|] eqn:Eo.
    + intros He. pose proof (sticky_add _ _ _ _ He) as E3. destruct (Body E3) as (J3 & K3 & S3 & G3 & Ho).
      destruct (Ho o eq_refl) as (Co3 & Lo3).
      destruct (Add s3 o _ J3 K3 G3 eq_refl Co3 Lo3 He) as (K4 & S4).
      split; [exact K4|]. apply (FLATs_srcs (fst s)); [congruence|exact Fl].
    + intros He. destruct (Body He) as (J3 & K3 & S3 & _).
      split; [exact K3|]. apply (FLATs_srcs (fst s)); [exact S3|exact Fl].
  - intros He. pose proof (sticky_add _ _ _ _ He) as E2. pose proof (St12 E2) as E1.
    destruct (H1 E1) as (J1 & K1 & S1 & G1 & Hno & Ck1).
    destruct (Store s1 mit (Some i) J1 K1 G1 Hdm Hno) as (J2 & K2 & S2 & G2 & Fr2).
    { intros o E. injection E as <-. now apply Ck1. }
    fold s2 in J2, K2, S2, G2, Fr2.
    assert (Ci2 : cls_of (fst s2) i = Some CCharge).
    { pose proof (Ck1 _ _ Hnew) as C1. unfold cls_of in *. destruct (Nat.eq_dec i m) as [->|Ni].
      - rewrite G1 in C1. injection C1 as C1. exfalso. apply (proj2 (direct_childcls mit)); [right; exact C1|exact Hdm].
      - now rewrite (Fr2 i Ni). }
    destruct (Add s2 i _ J2 K2 G2 eq_refl Ci2) as (K3 & S3); [|exact He|].
    + intros ait Ga. assert (Da : ~ direct ait).
      { apply direct_childcls. right. unfold cls_of in Ci2. rewrite Ga in Ci2. now injection Ci2. }
      apply (leaf_no_cont_unloaded (fst s2) i ait K2 Ga Da).
      unfold has_container in Hh. rewrite Ga in Hh. destruct (i_cont ait); [discriminate|reflexivity].
    + split; [exact K3|]. apply (FLATs_srcs (fst s)); [congruence|exact Fl].
Qed.

(* ------------------------------------------------------------------ *)
(* item setters                                                         *)

Lemma kview_set_target it v : kview (it_set_target it v) = kview it.
Proof.
  unfold kview. f_equal. destruct (direct_dec (it_set_target it v)) as [D|D], (direct_dec it) as [D'|D']; try reflexivity; contradiction.
Qed.
Lemma kview_set_level it v : kview (it_set_level it v) = kview it.
Proof.
  unfold kview. f_equal. destruct (direct_dec (it_set_level it v)) as [D|D], (direct_dec it) as [D'|D']; try reflexivity; contradiction.
Qed.

Theorem target_set_op_KK s i new : KK (fst s) -> KK (fst (fst (target_set_op s i new))) /\
  w_srcs (fst (fst (target_set_op s i new))) = w_srcs (fst s).
Proof.
  intros K. unfold target_set_op. destruct (get_item (fst s) i) as [it|] eqn:Hi.
  2:{ cbn [fst]. unfold lift. cbn [fst]. split; [apply (KK_same_k _ _ (same_k_fail _ _) K)|apply same_k_fail]. }
  destruct (onat_eqb (i_target it) new); [now split|].
  destruct (item_fit (fst s) i) as [f|]; cbn [fst].
  - match goal with |- context[match ?X with Some _ => _ | None => _ end] =>
      match X with fold_right _ _ _ => destruct X as [pe|] end end.
    2:{ cbn [fst]. unfold lift. cbn [fst]. split; [apply (KK_same_k _ _ (same_k_fail _ _) K)|apply same_k_fail]. }
    cbn [fst].
    set (s1 := match i_target it with Some o => emit_always s f _ | None => s end).
    assert (E1 : fst s1 = fst s) by (subst s1; destruct (i_target it); reflexivity).
    set (s2 := lift s1 (fun w => upd_item w i (fun it0 => it_set_target it0 new))).
    assert (S2 : same_k (fst s) (fst s2)).
    { unfold s2, lift. cbn [fst]. rewrite E1. apply same_k_upd. intros x. apply kview_set_target. }
    destruct new; (split; [apply (KK_same_k _ _ S2 K)|apply S2]).
  - unfold lift. cbn [fst].
    assert (S2 : same_k (fst s) (put_item (fst s) i (it_set_target it new)))
      by (eapply same_k_put; [exact Hi|apply kview_set_target]).
    split; [apply (KK_same_k _ _ S2 K)|apply S2].
Qed.

Theorem level_set_op_KK s i l : KK (fst s) -> KK (fst (fst (level_set_op s i l))) /\
  w_srcs (fst (fst (level_set_op s i l))) = w_srcs (fst s).
Proof.
  intros K. unfold level_set_op. destruct (get_item (fst s) i) as [it|] eqn:Hi.
  2:{ cbn [fst]. unfold lift. cbn [fst]. split; [apply (KK_same_k _ _ (same_k_fail _ _) K)|apply same_k_fail]. }
  destruct (i_level it =? l)%Z; [now split|].
  set (s1 := lift s _).
  assert (S1 : same_k (fst s) (fst s1)).
  { unfold s1, lift. cbn [fst]. eapply same_k_put; [exact Hi|apply kview_set_level]. }
  destruct (item_fit (fst s1) i); (split; [apply (KK_same_k _ _ S1 K)|apply S1]).
Qed.

Theorem mode_set_op_KK s i e m :
  KK (fst s) -> w_err (fst (fst (mode_set_op s i e m))) = None ->
  KK (fst (fst (mode_set_op s i e m))) /\ w_srcs (fst (fst (mode_set_op s i e m))) = w_srcs (fst s).
Proof.
  intros K. unfold mode_set_op. destruct (get_item (fst s) i) as [it|] eqn:Hi;
    [|cbn [fst]; unfold lift; cbn [fst]; intros He; destruct (err_fail_none _ _ He)].
  set (it1 := it_set_modes it _).
  set (s1 := lift s (fun w => put_item w i it1)).
  assert (E1 : fst s1 = put_item (fst s) i it1) by reflexivity.
  assert (G1 : get_item (fst s1) i = Some it1) by (rewrite E1; apply get_put_item_same').
  assert (U1 : upd1 (fst s) (fst s1) i) by (rewrite E1; apply upd1_put).
  destruct (direct_dec it) as [D|D].
  - (* a directly held item: nothing KK reads changes *)
    assert (S1 : same_k (fst s) (fst s1)).
    { rewrite E1. eapply same_k_put; [exact Hi|]. unfold kview. f_equal.
      destruct (direct_dec it1) as [Dx|Dx], (direct_dec it) as [D'|D']; try reflexivity; contradiction. }
    destruct (item_fit (fst s1) i) as [f|]; cbn [fst].
    + intros _. unfold with_msgs. pose proof (eu_run_only (fst s1) i) as RO.
      destruct (effects_update (fst s1) i) as [w2 m2]. cbn [fst] in *.
      pose proof (same_k_run_only_direct _ _ i it1 RO G1 D) as S2.
      split; [apply (KK_same_k _ _ (same_k_trans _ _ _ S1 S2) K)|]. apply (same_k_trans _ _ _ S1 S2).
    + intros _. split; [apply (KK_same_k _ _ S1 K)|apply S1].
  - (* a charge / autocharge: its table is re-established when it is on a fit; otherwise it is not loaded *)
    destruct (kk_flat _ K i it Hi D) as (Fc & Fa).
    destruct (item_fit (fst s1) i) as [f|] eqn:Ef; cbn [fst].
    + unfold with_msgs. pose proof (eu_run_only (fst s1) i) as RO.
      destruct (effects_update (fst s1) i) as [w2 m2] eqn:Eu. cbn [fst] in *. intros He.
      destruct RO as (U2 & R2 & _). destruct (R2 it1 G1) as (r & G2).
      assert (U : upd1 (fst s) w2 i) by (eapply upd1_trans; eauto).
      assert (Hfit : item_fit (fst s) i = Some f).
      { rewrite <- Ef. symmetry. apply (SKE_item_fit (fst s) (fst s1)). rewrite E1. eapply SKE_put; eauto. }
      split; [|destruct U as (Su & _); exact Su].
      apply (KK_child_step (fst s) w2 i it (it_set_running it1 r) K U Hi G2 D); try reflexivity; try assumption.
      * apply (eu_goodA (fst s1) i it1 w2 m2 G1 Eu He); [|exact G2].
        intros x Hx. cbn in Hx. destruct (kk_ra _ K i it (fun z => z) Hi D) as (_ & G2' & _).
        rewrite E1. unfold get_src. cbn [w_srcs put_item set_items]. now apply G2'.
      * intros _. congruence.
    + intros _. split; [|apply U1].
      assert (Hfit : item_fit (fst s) i = None).
      { rewrite <- Ef. symmetry. apply (SKE_item_fit (fst s) (fst s1)). rewrite E1. eapply SKE_put; eauto. }
      assert (Hl : i_loaded it = None).
      { destruct (i_loaded it) eqn:El; [|reflexivity]. exfalso. apply (kk_nl _ K i it Hi D); [congruence|exact Hfit]. }
      apply (KK_child_step (fst s) (fst s1) i it it1 K U1 Hi G1 D); try reflexivity; try assumption.
      * destruct (kk_ra _ K i it (fun z => z) Hi D) as (Ga & _).
        split; [|split]; cbn; [intros _; now apply Ga|intros x Hx; congruence|intros Hx; congruence].
      * cbn. intros Hx. congruence.
Qed.

(* --- the state of an item --------------------------------------------------------------------------- *)

(* everything KK reads except own states and running sets *)
Definition sview (it : item) := (i_cls it, i_cont it, i_loaded it, i_charge it, i_autos it, i_tid it, i_modes it).
Definition same_s (w w' : world) : Prop :=
  w_srcs w' = w_srcs w /\ forall j, option_map sview (get_item w' j) = option_map sview (get_item w j).
Lemma same_s_refl w : same_s w w. Proof. split; auto. Qed.
Lemma same_s_trans a b c : same_s a b -> same_s b c -> same_s a c.
Proof. intros (S1 & H1) (S2 & H2). split; [congruence|]. intros j. now rewrite H2, H1. Qed.
Lemma same_s_get w w' j it' : same_s w w' -> get_item w' j = Some it' -> exists it, get_item w j = Some it /\ sview it' = sview it.
Proof.
  intros (_ & H) G. specialize (H j). rewrite G in H. destruct (get_item w j) as [it|]; cbn [option_map] in H; [|discriminate].
  exists it. split; [reflexivity|congruence].
Qed.
Lemma same_s_get' w w' j it : same_s w w' -> get_item w j = Some it -> exists it', get_item w' j = Some it' /\ sview it' = sview it.
Proof.
  intros (_ & H) G. specialize (H j). rewrite G in H. destruct (get_item w' j) as [it'|]; cbn [option_map] in H; [|discriminate].
  exists it'. split; [reflexivity|congruence].
Qed.
Lemma same_s_run_only w w' i : run_only w w' i -> same_s w w'.
Proof.
  intros ((Hs & G) & R & Nn). split; [exact Hs|]. intros j. destruct (Nat.eq_dec j i) as [->|N]; [|now rewrite G].
  destruct (get_item w i) as [it|] eqn:E; [|now rewrite (Nn eq_refl)]. destruct (R it eq_refl) as (r & ->). reflexivity.
Qed.
Lemma sview_direct a b : sview a = sview b -> (direct a <-> direct b).
Proof. intros H. unfold sview in H. assert (E : i_cls a = i_cls b) by congruence. unfold direct. now rewrite E. Qed.
Lemma same_s_item_fit w w' : same_s w w' -> forall j, item_fit w' j = item_fit w j.
Proof.
  intros (_ & H). unfold item_fit. generalize 4%nat. induction n as [|n IH]; intros j; cbn [item_fit_n]; [reflexivity|].
  specialize (H j) as Hj.
  destruct (get_item w' j) as [a|], (get_item w j) as [b|]; cbn [option_map] in Hj; try congruence.
  assert (E : sview a = sview b) by congruence. unfold sview in E. assert (Ec : i_cont a = i_cont b) by congruence. rewrite Ec.
  destruct (i_cont b) as [[| | |p|p]|]; try reflexivity; apply IH.
Qed.

Lemma KK_same_s w w' : same_s w w' -> RA [] w' -> KK w -> KK w'.
Proof.
  intros S Ra [R F N P A L]. pose proof S as (Hs & _). constructor.
  - exact Ra.
  - intros c cit G D. destruct (same_s_get _ _ _ _ S G) as (it & G0 & E). unfold sview in E.
    assert (Ec : i_charge cit = i_charge it) by congruence. assert (Ea : i_autos cit = i_autos it) by congruence.
    rewrite Ec, Ea. apply (F c it G0). intros D0. apply D. apply (sview_direct cit it); [exact E|exact D0].
  - intros c cit G D. destruct (same_s_get _ _ _ _ S G) as (it & G0 & E).
    assert (Et : i_tid cit = i_tid it) by (unfold sview in E; congruence). rewrite Et.
    apply (NAtid_srcs w w' _ Hs). apply (N c it G0). intros D0. apply D. apply (sview_direct cit it); [exact E|exact D0].
  - intros c cit m G. destruct (same_s_get _ _ _ _ S G) as (it & G0 & E).
    assert (Ep : i_cont cit = i_cont it) by (unfold sview in E; congruence). rewrite Ep.
    destruct (P c it m G0) as (P1 & P2). split; intros H.
    + destruct (P1 H) as (mit & Gm & Hc). destruct (same_s_get' _ _ _ _ S Gm) as (mit' & Gm' & E').
      exists mit'. split; [exact Gm'|]. unfold sview in E'. congruence.
    + destruct (P2 H) as (mit & Gm & Hc). destruct (same_s_get' _ _ _ _ S Gm) as (mit' & Gm' & E').
      exists mit'. split; [exact Gm'|]. unfold sview in E'. assert (Ea : i_autos mit' = i_autos mit) by congruence. now rewrite Ea.
  - intros i it' G Hl. destruct (same_s_get _ _ _ _ S G) as (it & G0 & E). unfold sview in E.
    assert (Ea : i_autos it' = i_autos it) by congruence. rewrite Ea. apply (A i it G0). congruence.
  - intros c cit G D Hl. destruct (same_s_get _ _ _ _ S G) as (it & G0 & E).
    rewrite (same_s_item_fit _ _ S c). apply (L c it G0).
    + intros D0. apply D. apply (sview_direct cit it); [exact E|exact D0].
    + unfold sview in E. assert (El : i_loaded cit = i_loaded it) by congruence. now rewrite <- El.
Qed.

(* in a flat world the work list of the state setter is the state-inheriting part of the list it starts from *)
Lemma state_desc_flat w : forall (l : list nat) n,
  (forall x xit, In x l -> is_container_state w x = true -> get_item w x = Some xit -> child_items xit false = []) ->
  (length l <= n)%nat -> state_desc n w l = filter (is_container_state w) l.
Proof.
  induction l as [|x r IH]; intros n Hf Hlen.
  - destruct n; reflexivity.
  - destruct n as [|n]; [cbn in Hlen; lia|]. cbn [state_desc filter].
    destruct (is_container_state w x) eqn:Ex.
    + assert (Ech : match get_item w x with Some cit => child_items cit false | None => [] end = []).
      { destruct (get_item w x) as [xit|] eqn:Gx; [|reflexivity]. apply (Hf x xit); [now left|exact Ex|exact Gx]. }
      rewrite Ech, app_nil_r. f_equal. apply IH; [|cbn in Hlen; lia].
      intros y yit Iy. apply Hf. now right.
    + apply IH; [|cbn in Hlen; lia]. intros y yit Iy. apply Hf. now right.
Qed.

Lemma container_state_iff w c cit : get_item w c = Some cit -> (is_container_state w c = true <-> ~ direct cit).
Proof.
  intros G. unfold is_container_state, direct. rewrite G.
  destruct (cr_state (class_row_of (i_cls cit))); split; intros H; try discriminate; try reflexivity;
    try (intros X; now apply X); exfalso; apply H; discriminate.
Qed.

Definition unl_nil (w : world) : Prop :=
  forall c cit, get_item w c = Some cit -> ~ direct cit -> i_loaded cit = None -> i_running cit = [].
Definition src_ok (w : world) : Prop :=
  forall c cit s, get_item w c = Some cit -> ~ direct cit -> i_loaded cit = Some s -> get_src w s <> None.

(* the children on the work list are told about the switch, one after the other *)
Lemma state_fold_KK old new : forall (l : list nat) (w : world) (ms : list msg),
  RA l w -> unl_nil w -> src_ok w ->
  let r := fold_left (fun (acc : world * list msg) ch =>
                        let (w, ms) := acc in
                        if is_container_state w ch
                        then let (w, m2) := state_update_msgs w ch old new in (w, ms ++ m2)
                        else (w, ms)) l (w, ms) in
  w_err (fst r) = None ->
  RA [] (fst r) /\ same_s w (fst r) /\ SKE w (fst r).
Proof.
  induction l as [|ch rest IH]; intros w ms Ra Un So; cbn [fold_left].
  - cbv zeta. cbn [fst]. intros _. split; [exact Ra|split; [apply same_s_refl|apply SKE_refl]].
  - destruct (is_container_state w ch) eqn:Ec.
    + pose proof (state_update_run_only w ch old new) as RO.
      pose proof (state_update_sticky w ch old new) as St.
      destruct (state_update_msgs w ch old new) as [w1 m2] eqn:Esu. cbn [fst] in RO, St.
      pose proof (same_s_run_only _ _ _ RO) as Ss. pose proof (SKE_run_only _ _ _ RO) as Sk.
      cbv zeta. intros He.
      assert (He1 : w_err w1 = None).
      { destruct (state_fold_props old new rest w1 (ms ++ m2)) as (_ & S2 & _). now apply S2. }
      assert (Ra1 : RA rest w1).
      { intros c cit Nc G D. destruct (Nat.eq_dec c ch) as [->|Nch].
        - (* the item just handled *)
          destruct RO as (U1 & R1 & N1).
          destruct (get_item w ch) as [cit0|] eqn:G0; [|rewrite (N1 eq_refl) in G; discriminate].
          destruct (R1 cit0 eq_refl) as (r & G1). rewrite G1 in G. injection G as <-.
          unfold state_update_msgs in Esu. unfold is_loaded in Esu. rewrite G0 in Esu.
          assert (D0 : ~ direct cit0) by exact D.
          destruct (i_loaded cit0) as [sid|] eqn:El.
          + destruct (effects_update w ch) as [w2 m3] eqn:Eu. injection Esu as <- <-.
            apply (eu_goodA w ch cit0 w2 m3 G0 Eu He1); [|exact G1].
            intros x Hx. apply (So ch cit0 x G0 D0 Hx).
          + injection Esu as <- <-. rewrite G0 in G1. injection G1 as G1. rewrite <- G1.
            split; [|split]; [intros _; apply (Un ch cit0 G0 D0 El)|intros x Hx; congruence|intros Hx; congruence].
        - destruct RO as ((Hs & Go) & _). rewrite (Go c Nch) in G.
          apply (goodA_ext w w1 c cit cit Hs eq_refl (SKE_item_state _ _ Sk c)).
          apply Ra; [|exact G|exact D]. intros [E|I]; [now apply Nch|now apply Nc]. }
      assert (Un1 : unl_nil w1).
      { intros c cit G D El. destruct RO as ((_ & Go) & R1 & N1). destruct (Nat.eq_dec c ch) as [->|Nch].
        - destruct (get_item w ch) as [cit0|] eqn:G0; [|rewrite (N1 eq_refl) in G; discriminate].
          destruct (R1 cit0 eq_refl) as (r & G1). rewrite G1 in G. injection G as <-.
          unfold state_update_msgs, is_loaded in Esu. rewrite G0 in Esu. cbn in El. rewrite El in Esu.
          injection Esu as <- <-. rewrite G0 in G1. injection G1 as G1. rewrite <- G1. apply (Un ch cit0 G0 D El).
        - rewrite (Go c Nch) in G. now apply (Un c cit). }
      assert (So1 : src_ok w1).
      { intros c cit x G D El. destruct (same_s_get _ _ _ _ Ss G) as (it0 & G0 & E). unfold sview in E.
        unfold get_src. rewrite (proj1 Ss). apply (So c it0 x G0).
        - intros D0. apply D. apply (sview_direct cit it0); [exact E|exact D0].
        - congruence. }
      destruct (IH w1 (ms ++ m2) Ra1 Un1 So1 He) as (Rf & Sf & Kf).
      split; [exact Rf|split; [eapply same_s_trans; eauto|eapply SKE_trans; eauto]].
    + cbv zeta. intros He. apply (IH w ms); [|exact Un|exact So|exact He].
      intros c cit Nc G D. apply Ra; [|exact G|exact D]. intros [E|I]; [|now apply Nc].
      subst c. apply (container_state_iff w ch cit G) in D. congruence.
Qed.

Lemma item_state_child_class w c cit new :
  get_item w c = Some cit -> ~ direct cit -> i_cls new = i_cls cit -> i_cont new = i_cont cit ->
  forall j, item_state (put_item w c new) j = item_state w j.
Proof.
  intros Hc Dc Ec Ep. unfold item_state. generalize 4%nat. induction n as [|n IH]; intros j; cbn [item_state_n]; [reflexivity|].
  destruct (Nat.eq_dec j c) as [->|Nj].
  - rewrite get_put_item_same', Hc, Ec, Ep. unfold direct in Dc.
    destruct (cr_state (class_row_of (i_cls cit))); try (exfalso; apply Dc; discriminate).
    destruct (i_cont cit) as [[| | |p|p]|]; try reflexivity; apply IH.
  - rewrite get_put_item_other by exact Nj. destruct (get_item w j) as [it|]; [|reflexivity].
    destruct (cr_state (class_row_of (i_cls it))); try reflexivity.
    destruct (i_cont it) as [[| | |p|p]|]; try reflexivity; apply IH.
Qed.

(* the state of what a directly held item i does not hold is no concern of i's own state *)
Lemma item_state_not_child w i old new c cit :
  J w -> KK w -> get_item w i = Some old -> direct old -> i_cls new = i_cls old -> i_cont new = i_cont old ->
  get_item w c = Some cit -> ~ direct cit ->
  i_cont cit <> Some (PCharge i) -> i_cont cit <> Some (PAuto i) ->
  item_state (put_item w i new) c = item_state w c.
Proof.
  intros Jw K Hi Di Ec Ep Hc Dc N1 N2.
  assert (Nci : c <> i) by (intros ->; rewrite Hi in Hc; injection Hc as <-; contradiction).
  assert (Hc' : get_item (put_item w i new) c = Some cit) by (now rewrite get_put_item_other).
  destruct (i_cont cit) as [[f k|f k|f k|p|p]|] eqn:Ecc.
  1-3,6: unfold item_state; cbn [item_state_n]; rewrite Hc', Hc, Ecc;
    unfold direct in Dc; destruct (cr_state (class_row_of (i_cls cit))); try reflexivity; exfalso; apply Dc; discriminate.
  - destruct (parent_direct w c cit p K Hc (or_introl Ecc)) as (pit & Gp & Dp).
    assert (Npi : p <> i) by (intros ->; congruence).
    rewrite (item_state_child w c cit p pit Hc Dc (or_introl Ecc) Gp Dp).
    apply (item_state_child (put_item w i new) c cit p pit Hc' Dc (or_introl Ecc)); [|exact Dp].
    now rewrite get_put_item_other.
  - destruct (parent_direct w c cit p K Hc (or_intror Ecc)) as (pit & Gp & Dp).
    assert (Npi : p <> i) by (intros ->; congruence).
    rewrite (item_state_child w c cit p pit Hc Dc (or_intror Ecc) Gp Dp).
    apply (item_state_child (put_item w i new) c cit p pit Hc' Dc (or_intror Ecc)); [|exact Dp].
    now rewrite get_put_item_other.
Qed.

Theorem state_set_op_KK s i new :
  J (fst s) -> KK (fst s) -> w_err (fst (fst (state_set_op s i new))) = None ->
  KK (fst (fst (state_set_op s i new))) /\ w_srcs (fst (fst (state_set_op s i new))) = w_srcs (fst s).
Proof.
  intros Js K. unfold state_set_op. destruct (get_item (fst s) i) as [it|] eqn:Hi;
    [|cbn [fst]; unfold lift; cbn [fst]; intros He; destruct (err_fail_none _ _ He)].
  destruct (i_state it =? new)%Z; [intros _; now split|].
  set (it1 := it_set_state it new).
  set (s1 := lift s (fun w => put_item w i it1)).
  assert (E1 : fst s1 = put_item (fst s) i it1) by reflexivity.
  assert (G1 : get_item (fst s1) i = Some it1) by (rewrite E1; apply get_put_item_same').
  assert (Go1 : forall j, j <> i -> get_item (fst s1) j = get_item (fst s) j) by (intros j N; rewrite E1; now apply get_put_item_other).
  assert (Ss1 : same_s (fst s) (fst s1)).
  { split; [reflexivity|]. intros j. destruct (Nat.eq_dec j i) as [->|N]; [now rewrite G1, Hi|now rewrite Go1]. }
  destruct (direct_dec it) as [D|D].
  - (* a directly held item *)
    assert (Chi : forall c cit, get_item (fst s) c = Some cit -> ~ direct cit ->
                  (i_cont cit = Some (PCharge i) \/ i_cont cit = Some (PAuto i)) -> In c (child_items it false)).
    { intros c cit Gc Dc [Hp|Hp].
      - destruct (kk_pc _ K c cit i Gc) as (P1 & _). destruct (P1 Hp) as (x & Gx & Hx). rewrite Hi in Gx. injection Gx as <-.
        unfold child_items. rewrite Hx. now left.
      - destruct (kk_pc _ K c cit i Gc) as (_ & P2). destruct (P2 Hp) as (x & Gx & Hx). rewrite Hi in Gx. injection Gx as <-.
        unfold child_items. apply in_or_app. now right. }
    assert (Other : forall c cit, get_item (fst s) c = Some cit -> ~ direct cit -> ~ In c (child_items it false) ->
                    item_state (fst s1) c = item_state (fst s) c).
    { intros c cit Gc Dc Nin. rewrite E1. apply (item_state_not_child (fst s) i it it1 c cit Js K Hi D eq_refl eq_refl Gc Dc).
      - intros Hp. apply Nin. apply (Chi c cit Gc Dc). now left.
      - intros Hp. apply Nin. apply (Chi c cit Gc Dc). now right. }
    destruct (item_fit (fst s1) i) as [f|] eqn:Ef; cbn [fst].
    + unfold with_msgs.
      pose proof (state_update_run_only (fst s1) i (i_state it) new) as RO.
      destruct (state_update_msgs (fst s1) i (i_state it) new) as [w2 m2] eqn:Esu. cbn [fst] in RO.
      set (l := state_desc (length (child_items it false) + S (length (w_items w2))) w2 (child_items it false)).
      match goal with |- context[let (_, _) := ?X in _] => remember X as r eqn:Er end.
      fold l in Er. destruct r as [w3 m3]. unfold emit_always. cbn [fst]. intros He.
      pose proof (same_s_run_only _ _ _ RO) as Ss2. pose proof (SKE_run_only _ _ _ RO) as Sk2.
      destruct RO as ((Hs2 & Go2) & R2 & _). destruct (R2 it1 G1) as (rr & G2).
      (* children of i are on the work list *)
      assert (Lin : forall c cit, get_item w2 c = Some cit -> ~ direct cit -> In c (child_items it false) -> In c l).
      { intros c cit Gc Dc I. unfold l. rewrite state_desc_flat; [|intros x xit Ix Ex Gx|lia].
        - apply filter_In. split; [exact I|]. now apply (container_state_iff w2 c cit Gc).
        - apply (container_state_iff w2 x xit Gx) in Ex.
          destruct (same_s_get _ _ _ _ (same_s_trans _ _ _ Ss1 Ss2) Gx) as (x0 & Gx0 & E0).
          assert (Dx0 : ~ direct x0) by (intros Dx; apply Ex; apply (sview_direct xit x0); assumption).
          destruct (kk_flat _ K x x0 Gx0 Dx0) as (F1 & F2). unfold sview in E0. unfold child_items.
          assert (i_charge xit = None) by congruence. assert (i_autos xit = []) by congruence. now rewrite H, H0. }
      assert (Ra2 : RA l w2).
      { intros c cit Nc Gc Dc.
        assert (Nci : c <> i) by (intros ->; rewrite G2 in Gc; injection Gc as <-; apply Dc; exact D).
        rewrite (Go2 c Nci), (Go1 c Nci) in Gc.
        assert (Nin : ~ In c (child_items it false)).
        { intros I. apply Nc. apply (Lin c cit); [now rewrite (Go2 c Nci), (Go1 c Nci)|exact Dc|exact I]. }
        apply (goodA_ext (fst s) w2 c cit cit); [now rewrite Hs2|reflexivity| |apply (kk_ra _ K c cit (fun z => z) Gc Dc)].
        rewrite (SKE_item_state _ _ Sk2 c). apply (Other c cit Gc Dc Nin). }
      assert (Un2 : unl_nil w2).
      { intros c cit Gc Dc El.
        assert (Nci : c <> i) by (intros ->; rewrite G2 in Gc; injection Gc as <-; apply Dc; exact D).
        rewrite (Go2 c Nci), (Go1 c Nci) in Gc. destruct (kk_ra _ K c cit (fun z => z) Gc Dc) as (A1 & _). now apply A1. }
      assert (So2 : src_ok w2).
      { intros c cit x Gc Dc El.
        assert (Nci : c <> i) by (intros ->; rewrite G2 in Gc; injection Gc as <-; apply Dc; exact D).
        rewrite (Go2 c Nci), (Go1 c Nci) in Gc. destruct (kk_ra _ K c cit (fun z => z) Gc Dc) as (_ & A2 & _).
        unfold get_src. rewrite Hs2. now apply (A2 x). }
      pose proof (state_fold_KK (i_state it) new l w2 m2 Ra2 Un2 So2) as HF. cbv zeta in HF. rewrite <- Er in HF.
      cbn [fst] in HF. destruct (HF He) as (Rf & Sf & _).
      split.
      * apply (KK_same_s (fst s) w3); [|exact Rf|exact K].
        eapply same_s_trans; [exact Ss1|]. eapply same_s_trans; [exact Ss2|exact Sf].
      * rewrite (proj1 Sf), Hs2. reflexivity.
    + intros _. split; [|reflexivity].
      apply (KK_same_s (fst s) (fst s1) Ss1); [|exact K].
      intros c cit _ Gc Dc.
      assert (Nci : c <> i) by (intros ->; rewrite G1 in Gc; injection Gc as <-; apply Dc; exact D).
      rewrite (Go1 c Nci) in Gc. pose proof (kk_ra _ K c cit (fun z => z) Gc Dc) as Gd.
      assert (Hfit : item_fit (fst s) i = None).
      { rewrite <- Ef. symmetry. apply (same_s_item_fit _ _ Ss1). }
      assert (Hni : forall y, i_cont it <> Some (PCharge y) /\ i_cont it <> Some (PAuto y))
        by (apply (direct_cont_fit (fst s) i it Js K Hi D)).
      assert (Hfc : fitcont_of it = None).
      { unfold item_fit in Hfit. rewrite (item_fit_top 3 (fst s) i it Hi Hni) in Hfit.
        destruct (fitcont_of it) as [[f k|f k|f k|y|y]|] eqn:Efc; try discriminate; try reflexivity;
          exfalso; unfold fitcont_of in Efc; destruct (i_cont it) as [[| | |z|z]|]; discriminate. }
      destruct (i_cont cit) as [pl|] eqn:Ecc.
      * destruct (place_eq_dec pl (PCharge i)) as [->|N1].
        -- (* a child of a detached item is not loaded *)
           pose proof (children_of_detached_unloaded (fst s) i it c cit Js K Hi D Hfc Gc (or_introl Ecc)) as Hl.
           destruct Gd as (A1 & A2 & A3). split; [exact A1|split; [intros x Hx; congruence|intros Hx; congruence]].
        -- destruct (place_eq_dec pl (PAuto i)) as [->|N2].
           ++ pose proof (children_of_detached_unloaded (fst s) i it c cit Js K Hi D Hfc Gc (or_intror Ecc)) as Hl.
              destruct Gd as (A1 & A2 & A3). split; [exact A1|split; [intros x Hx; congruence|intros Hx; congruence]].
           ++ apply (goodA_ext (fst s) (fst s1) c cit cit eq_refl eq_refl); [|exact Gd]. rewrite E1.
              apply (item_state_not_child (fst s) i it it1 c cit Js K Hi D eq_refl eq_refl Gc Dc); congruence.
      * apply (goodA_ext (fst s) (fst s1) c cit cit eq_refl eq_refl); [|exact Gd]. rewrite E1.
        apply (item_state_not_child (fst s) i it it1 c cit Js K Hi D eq_refl eq_refl Gc Dc); congruence.
  - (* a charge / autocharge: its own state field is not its state *)
    destruct (kk_flat _ K i it Hi D) as (Fc & Fa).
    assert (Hst1 : forall j, item_state (fst s1) j = item_state (fst s) j).
    { intros j. rewrite E1. apply (item_state_child_class (fst s) i it it1 Hi D eq_refl eq_refl). }
    assert (U1 : upd1 (fst s) (fst s1) i) by (rewrite E1; apply upd1_put).
    assert (Hfit1 : item_fit (fst s1) i = item_fit (fst s) i) by (apply (same_s_item_fit _ _ Ss1)).
    destruct (kk_ra _ K i it (fun z => z) Hi D) as (A1 & A2 & A3).
    destruct (item_fit (fst s1) i) as [f|] eqn:Ef; cbn [fst].
    + unfold with_msgs.
      pose proof (state_update_run_only (fst s1) i (i_state it) new) as RO.
      pose proof (state_update_sticky (fst s1) i (i_state it) new) as St.
      destruct (state_update_msgs (fst s1) i (i_state it) new) as [w2 m2] eqn:Esu. cbn [fst] in RO, St.
      assert (El : state_desc (length (child_items it false) + S (length (w_items w2))) w2 (child_items it false) = []).
      { unfold child_items. rewrite Fc, Fa. cbn [app map length]. reflexivity. }
      rewrite El. cbn [fold_left]. unfold emit_always. cbn [fst]. intros He.
      destruct RO as (U2 & R2 & _). destruct (R2 it1 G1) as (rr & G2).
      assert (U : upd1 (fst s) w2 i) by (eapply upd1_trans; eauto).
      split; [|apply U].
      apply (KK_child_step (fst s) w2 i it (it_set_running it1 rr) K U Hi G2 D); try reflexivity; try assumption.
      * unfold state_update_msgs, is_loaded in Esu. rewrite G1 in Esu. cbn [i_loaded it1 it_set_state] in Esu.
        destruct (i_loaded it) as [sid|] eqn:Eld.
        -- destruct (effects_update (fst s1) i) as [w3 m3] eqn:Eu. injection Esu as <- <-.
           apply (eu_goodA (fst s1) i it1 w3 m3 G1 Eu He); [|exact G2].
           intros x Hx. cbn in Hx. rewrite E1. unfold get_src. cbn [w_srcs put_item set_items]. apply (A2 x). congruence.
        -- injection Esu as Ew Em. rewrite <- Ew in G2 |- *. rewrite get_put_item_same' in G2. injection G2 as G2'. rewrite <- G2'.
           split; [|split]; cbn; [intros _; now apply A1|intros x Hx; congruence|intros Hx; congruence].
      * intros _. rewrite <- Hfit1. congruence.
    + intros _. split; [|apply U1].
      assert (Hl : i_loaded it = None).
      { destruct (i_loaded it) eqn:Eld; [|reflexivity]. exfalso. apply (kk_nl _ K i it Hi D); [congruence|congruence]. }
      apply (KK_child_step (fst s) (fst s1) i it it1 K U1 Hi G1 D); try reflexivity; try assumption.
      * split; [|split]; cbn; [intros _; now apply A1|intros x Hx; congruence|intros Hx; congruence].
      * cbn. intros Hx. congruence.
Qed.


(* ------------------------------------------------------------------ *)
(* fleets: nothing an item knows changes                                *)

Theorem fleet_add_op_KJ s fl f : KJ (fst s) -> KJ (fst (fst (fleet_add_op s fl f))).
Proof.
  intros R. unfold fleet_add_op. destruct (fit_fleet (fst s) f); [exact R|].
  cbn [fst]. unfold emit_always, lift. cbn [fst]. eapply KJ_same_is; [apply same_is_fleet_link|exact R].
Qed.
Lemma fleet_remove_one_KJ s fl f : KJ (fst s) -> KJ (fst (fleet_remove_one s fl f)).
Proof.
  intros R. unfold fleet_remove_one, emit_always, lift. cbn [fst].
  eapply KJ_same_is; [apply same_is_fleet_link|exact R].
Qed.
Theorem fleet_remove_op_KJ s fl f : KJ (fst s) -> KJ (fst (fst (fleet_remove_op s fl f))).
Proof.
  intros R. unfold fleet_remove_op. destruct (mem neqb _ f); cbn [negb fst]; [|exact R].
  now apply fleet_remove_one_KJ.
Qed.
Theorem fleet_clear_op_KJ s fl : KJ (fst s) -> KJ (fst (fst (fleet_clear_op s fl))).
Proof.
  intros R. unfold fleet_clear_op. cbn [fst].
  generalize (fleet_fits (fst s) fl). intros l. revert s R. induction l as [|x l IH]; intros s R; cbn [fold_left]; [exact R|].
  apply IH. now apply fleet_remove_one_KJ.
Qed.

(* ------------------------------------------------------------------ *)
(* unloading and loading the items of a fit                             *)

Definition dir_unloaded (w : world) (j : nat) : Prop :=
  forall jit, get_item w j = Some jit -> direct jit -> i_loaded jit = None.

Theorem unload_KJ s i :
  KJ (fst s) -> w_err (fst (unload F s i)) = None ->
  KJ (fst (unload F s i)) /\ dir_unloaded (fst (unload F s i)) i /\
  (forall j, j <> i -> dir_unloaded (fst s) j -> dir_unloaded (fst (unload F s i)) j).
Proof.
  intros (R & K & Fl) He. pose proof (proj2 R) as Js.
  assert (R' : RJ (fst (unload F s i))) by (now apply unload_RJ).
  rewrite F_eq in *.
  destruct (get_item (fst s) i) as [it|] eqn:Hi.
  - destruct (direct_dec it) as [D|D].
    + destruct (unload_dir 9 s i it Js K Hi D He) as (_ & K' & S' & (mi & Gi & Li & _) & Fr).
      split; [split; [exact R'|split; [exact K'|apply (FLATs_srcs (fst s)); assumption]]|split].
      * intros x Gx _. rewrite Gi in Gx. injection Gx as <-. exact Li.
      * intros j Nj Hj jit Gj Dj.
        destruct (in_dec Nat.eq_dec j (map snd (i_autos it))) as [I|NI].
        -- exfalso. apply in_map_iff in I as ([e a] & Ea & I). cbn in Ea. subst a.
           destruct Js as (_ & _ & J4 & _). pose proof (J4 i it e j Hi I) as C.
           (* j is an autocharge: its class is kept, so it is not directly held *)
           pose proof (unload_KEEP 12 s i (proj2 R)) as (_ & _ & _ & Ck).
           specialize (Ck j _ C). unfold cls_of in Ck. rewrite Gj in Ck. injection Ck as Ck.
           apply (proj2 (direct_childcls jit)); [left; exact Ck|exact Dj].
        -- rewrite (Fr j Nj NI) in Gj. now apply (Hj jit).
    + destruct (unload_leaf 11 s i it K Hi D He) as (K' & (S' & Go) & _).
      split; [split; [exact R'|split; [exact K'|apply (FLATs_srcs (fst s)); assumption]]|split].
      * intros x Gx Dx. exfalso.
        pose proof (unload_KEEP 12 s i (proj2 R)) as (_ & _ & _ & Ck).
        assert (C : cls_of (fst s) i = Some (i_cls it)) by (unfold cls_of; now rewrite Hi).
        specialize (Ck i _ C). unfold cls_of in Ck. rewrite Gx in Ck. injection Ck as Ck.
        apply D. unfold direct in *. now rewrite <- Ck.
      * intros j Nj Hj jit Gj Dj. rewrite (Go j Nj) in Gj. now apply (Hj jit).
  - exfalso. revert He. cbn [unload]. rewrite Hi. unfold lift. cbn [fst]. intros H. exact (err_fail_none _ _ H).
Qed.

(* creating autocharges for m leaves every other directly held item as it was (new items are autocharges) *)
Lemma autos_fold_direct n t m : forall (l : list (Z * effect)) (s : st) (mit : item),
  J (fst s) -> KK (fst s) -> get_item (fst s) m = Some mit -> direct mit -> i_loaded mit <> None ->
  NoDup (map fst l) -> (forall e, In e (map fst l) -> al_get zeqb (i_autos mit) e = None) ->
  (forall e ef aa q, In (e, ef) l -> e_autocharge_attr ef = Some aa -> al_get zeqb (t_attrs t) aa = Some q ->
                     NAtid (fst s) (q_trunc q)) ->
  w_err (fst (fold_left (auto_stepf (S (S n)) t m) l s)) = None ->
  forall j jit, get_item (fst (fold_left (auto_stepf (S (S n)) t m) l s)) j = Some jit -> direct jit -> j <> m ->
                get_item (fst s) j = Some jit.
Proof.
  induction l as [|[e ef] l IH]; intros s mit Js K Hm Dm Hld Hnd Hk Hna He j jit Gj Dj Nj; cbn [fold_left] in *.
  - exact Gj.
  - inversion Hnd as [|? ? Ne Hnd']; subst.
    set (s1 := auto_stepf (S (S n)) t m s (e, ef)) in *.
    assert (He1 : w_err (fst s1) = None).
    { revert He. apply (C_fold sticky sticky_refl sticky_trans). intros; apply auto_stepf_sticky. }
    (* one step, as in autos_fold *)
    assert (Step : J (fst s1) /\ KK (fst s1) /\ w_srcs (fst s1) = w_srcs (fst s) /\
                   (exists mit1, get_item (fst s1) m = Some mit1 /\ mk mit1 = mk mit /\
                                 (forall e', e' <> e -> al_get zeqb (i_autos mit1) e' = al_get zeqb (i_autos mit) e')) /\
                   (forall x xit, get_item (fst s1) x = Some xit -> direct xit -> x <> m -> get_item (fst s) x = Some xit)).
    { unfold s1, auto_stepf in *. cbn [snd fst] in *. destruct (e_autocharge_attr ef) as [aa|] eqn:Ea.
      - destruct (al_get zeqb (t_attrs t) aa) as [q|] eqn:Eq.
        + cbv zeta in *.
          assert (Hk0 : al_get zeqb (i_autos mit) e = None) by (apply Hk; now left).
          assert (Hn0 : NAtid (fst s) (q_trunc q)) by (apply (Hna e ef aa q); [now left|exact Ea|exact Eq]).
          destruct (new_auto_step n s m mit e (q_trunc q) Js K Hm Dm Hld Hk0 Hn0 He1) as (J1 & K1 & S1 & G1 & F1).
          split; [exact J1|split; [exact K1|split; [exact S1|split]]].
          * eexists. split; [exact G1|]. split; [reflexivity|]. intros e' Ne'. cbn [i_autos it_set_autos].
            now apply al_get_set_other_z.
          * intros x xit Gx Dx Nx. destruct (Nat.eq_dec x (w_next (fst s))) as [->|Nxa].
            -- exfalso. destruct J1 as (_ & _ & J4 & _).
               assert (Ia : In (e, w_next (fst s)) (al_set zeqb (i_autos mit) e (w_next (fst s)))).
               { clear -Hk0. induction (i_autos mit) as [|[k0 v0] r IHr]; cbn; [now left|].
                 cbn in Hk0. destruct (zeqb e k0); [discriminate|]. right. now apply IHr. }
               pose proof (J4 m _ e (w_next (fst s)) G1 Ia) as C. unfold cls_of in C. rewrite Gx in C. injection C as C.
               apply (proj2 (direct_childcls xit)); [left; exact C|exact Dx].
            -- rewrite <- (F1 x Nx Nxa). exact Gx.
        + split; [exact Js|split; [exact K|split; [reflexivity|split; [exists mit; auto|auto]]]].
      - split; [exact Js|split; [exact K|split; [reflexivity|split; [exists mit; auto|auto]]]]. }
    destruct Step as (J1 & K1 & S1 & (mit1 & G1 & M1 & A1) & F1).
    assert (Dm1 : direct mit1) by (unfold mk in M1; unfold direct in *; assert (i_cls mit1 = i_cls mit) by congruence; congruence).
    assert (Hld1 : i_loaded mit1 <> None) by (unfold mk in M1; assert (i_loaded mit1 = i_loaded mit) by congruence; congruence).
    apply (F1 j jit); [|exact Dj|exact Nj].
    apply (IH s1 mit1 J1 K1 G1 Dm1 Hld1 Hnd'); try assumption.
    + intros e' I. rewrite A1; [apply Hk; now right|]. intros ->. apply Ne. exact I.
    + intros e' ef' aa q I Ha Hq. apply (NAtid_srcs (fst s) (fst s1) _ S1). apply (Hna e' ef' aa q); [now right|exact Ha|exact Hq].
Qed.

Theorem load_dir_frame n s m mit :
  J (fst s) -> KK (fst s) -> get_item (fst s) m = Some mit -> direct mit -> i_loaded mit = None ->
  auto_ok (fst s) (i_tid mit) ->
  w_err (fst (load (S (S (S n))) s m)) = None ->
  forall j jit, get_item (fst (load (S (S (S n))) s m)) j = Some jit -> direct jit -> j <> m ->
                get_item (fst s) j = Some jit.
Proof.
  intros Js K Hm Dm Hl Hok.
  cbn [load]. rewrite Hm.
  destruct (item_fit (fst s) m) as [f|] eqn:Ef; [|intros _ j jit G _ _; exact G].
  destruct (fit_source_id (fst s) f) as [src|] eqn:Esrc; [|intros _ j jit G _ _; exact G].
  destruct (get_src (fst s) src) as [u|] eqn:Eu; [|intros _ j jit G _ _; exact G].
  destruct (get_type u (i_tid mit)) as [t|] eqn:Et; [|intros _ j jit G _ _; exact G].
  cbv zeta.
  set (ld := it_set_loaded mit (Some src)).
  set (s1 := lift s (fun w => put_item w m ld)).
  pose proof (kk_au _ K m mit Hm Hl) as Au0.
  assert (Hnc : forall y, i_cont mit <> Some (PCharge y) /\ i_cont mit <> Some (PAuto y))
    by (apply (direct_cont_fit (fst s) m mit Js K Hm Dm)).
  assert (K1 : KK (fst s1)).
  { unfold s1, lift. cbn [fst]. apply (KK_direct_put (fst s) m mit ld Js K Hm Dm); try reflexivity.
    - exact Hnc.
    - intros Hx. discriminate.
    - intros c cit Gc Hp. destruct (kk_pc _ K c cit m Gc) as (P1 & _). destruct (P1 Hp) as (x & Gx & Hx).
      rewrite Hm in Gx. injection Gx as <-. exact Hx.
    - intros c cit Gc Hp. destruct (kk_pc _ K c cit m Gc) as (_ & P2). destruct (P2 Hp) as (x & Gx & Hx).
      rewrite Hm in Gx. injection Gx as <-. exact Hx.
    - intros Hf c cit Gc Hp. apply (children_of_detached_unloaded (fst s) m mit c cit Js K Hm Dm Hf Gc Hp). }
  assert (J1 : J (fst s1)).
  { unfold s1, lift. cbn [fst]. apply (J_put_keepcls (fst s) m mit ld Js Hm eq_refl).
    - intros C. exfalso. apply (proj2 (direct_childcls mit)); [exact C|exact Dm].
    - intros e a I. destruct Js as (_ & _ & J4 & _). apply (J4 m mit e a Hm I).
    - intros o Ho. destruct Js as (_ & _ & _ & J5). apply (J5 m mit o Hm Ho). }
  assert (G1 : get_item (fst s1) m = Some ld) by (unfold s1, lift; cbn [fst]; apply get_put_item_same').
  set (s2 := with_msgs s1 f (fun w => item_loaded_msgs w m)).
  assert (RO : run_only (fst s1) (fst s2) m).
  { unfold s2, with_msgs. pose proof (loaded_run_only (fst s1) m) as H. destruct (item_loaded_msgs (fst s1) m). exact H. }
  assert (F2 : FC (fst s1) (fst s2)).
  { unfold s2, with_msgs. pose proof (FC_item_loaded_msgs (fst s1) m) as H. destruct (item_loaded_msgs (fst s1) m). exact H. }
  pose proof (FC_J _ _ F2 J1) as J2.
  pose proof (KK_same_k _ _ (same_k_run_only_direct _ _ m ld RO G1 Dm) K1) as K2.
  destruct RO as (U2 & R2 & _). destruct (R2 ld G1) as (r & G2). rewrite G2.
  set (mit2 := it_set_running ld r) in *.
  change (fold_left _ (item_effects (fst s2) mit2) s2) with (fold_left (auto_stepf (S (S n)) t m) (item_effects (fst s2) mit2) s2).
  intros He j jit Gj Dj Nj.
  assert (S12 : w_srcs (fst s2) = w_srcs (fst s)) by (destruct U2 as (S2 & _); rewrite S2; reflexivity).
  assert (Ety : item_type (fst s2) mit2 = Some t).
  { unfold item_type. cbn [i_loaded mit2 ld it_set_running it_set_loaded i_tid]. unfold get_src in *. rewrite S12, Eu. exact Et. }
  assert (Eun : item_universe (fst s2) mit2 = Some u).
  { unfold item_universe. cbn [i_loaded mit2 ld it_set_running it_set_loaded]. unfold get_src in *. now rewrite S12. }
  destruct (Hok src u t Eu Et) as (Hnd & Hauto).
  assert (G3 : get_item (fst s2) j = Some jit).
  { apply (autos_fold_direct n t m (item_effects (fst s2) mit2) s2 mit2 J2 K2 G2 Dm); try assumption.
    - cbn. discriminate.
    - apply (item_effects_keys_nodup _ _ t Ety Hnd).
    - intros e _. cbn [i_autos mit2 ld it_set_running it_set_loaded]. now rewrite Au0.
    - intros e ef aa q I Ha Hq. apply item_effects_in in I as (t' & u' & Ht' & Hu' & It & Ge).
      rewrite Ety in Ht'. injection Ht' as <-. rewrite Eun in Hu'. injection Hu' as <-.
      apply (NAtid_srcs (fst s) (fst s2) _ S12). apply (Hauto e ef aa q It Ge Ha Hq). }
  destruct U2 as (_ & Gx). rewrite (Gx j Nj) in G3. unfold s1, lift in G3. cbn [fst] in G3.
  now rewrite get_put_item_other in G3.
Qed.

Theorem load_KJ s i :
  KJ (fst s) -> dir_unloaded (fst s) i -> w_err (fst (load F s i)) = None ->
  KJ (fst (load F s i)) /\
  (forall j, j <> i -> dir_unloaded (fst s) j -> dir_unloaded (fst (load F s i)) j).
Proof.
  intros (R & K & Fl) Hu He. pose proof (proj2 R) as Js.
  assert (R' : RJ (fst (load F s i))) by (now apply load_RJ).
  rewrite F_eq in *.
  destruct (get_item (fst s) i) as [it|] eqn:Hi.
  - destruct (direct_dec it) as [D|D].
    + pose proof (Hu it Hi D) as Hl.
      destruct (load_dir 9 s i it Js K Hi D Hl (Fl (i_tid it)) He) as (_ & K' & S' & _ & _).
      split; [split; [exact R'|split; [exact K'|apply (FLATs_srcs (fst s)); assumption]]|].
      intros j Nj Hj jit Gj Dj.
      pose proof (load_dir_frame 9 s i it Js K Hi D Hl (Fl (i_tid it)) He j jit Gj Dj Nj) as G0. now apply (Hj jit).
    + destruct (load_leaf 11 s i it K Hi D He) as (K' & (S' & Go) & _).
      split; [split; [exact R'|split; [exact K'|apply (FLATs_srcs (fst s)); assumption]]|].
      intros j Nj Hj jit Gj Dj. rewrite (Go j Nj) in Gj. now apply (Hj jit).
  - exfalso. revert He. cbn [load]. rewrite Hi. unfold lift. cbn [fst]. intros H. exact (err_fail_none _ _ H).
Qed.

Lemma load_list_KJ : forall (l : list nat) (s : st),
  KJ (fst s) -> NoDup l -> (forall j, In j l -> dir_unloaded (fst s) j) ->
  w_err (fst (fold_left (fun s i => load F s i) l s)) = None ->
  KJ (fst (fold_left (fun s i => load F s i) l s)) /\
  (forall j, ~ In j l -> dir_unloaded (fst s) j -> dir_unloaded (fst (fold_left (fun s i => load F s i) l s)) j).
Proof.
  induction l as [|i l IH]; intros s R Hn Hu He; cbn [fold_left] in *.
  - split; [exact R|auto].
  - inversion Hn as [|? ? Ni Hn']; subst.
    assert (He1 : w_err (fst (load F s i)) = None).
    { revert He. apply (C_fold sticky sticky_refl sticky_trans). intros; apply sticky_load. }
    destruct (load_KJ s i R (Hu i (or_introl eq_refl)) He1) as (R1 & Fr1).
    destruct (IH (load F s i) R1 Hn') as (R2 & Fr2); [|exact He|].
    + intros j Ij. apply Fr1; [intros ->; contradiction|apply Hu; now right].
    + split; [exact R2|]. intros j Nj Hj. apply Fr2; [intros I; apply Nj; now right|].
      apply Fr1; [intros ->; apply Nj; now left|exact Hj].
Qed.

Lemma unload_list_KJ : forall (l : list nat) (s : st),
  KJ (fst s) -> w_err (fst (fold_left (fun s i => unload F s i) l s)) = None ->
  KJ (fst (fold_left (fun s i => unload F s i) l s)) /\
  (forall j, In j l \/ dir_unloaded (fst s) j -> dir_unloaded (fst (fold_left (fun s i => unload F s i) l s)) j).
Proof.
  induction l as [|i l IH]; intros s R He; cbn [fold_left] in *.
  - split; [exact R|]. intros j [[]|H]; exact H.
  - assert (He1 : w_err (fst (unload F s i)) = None).
    { revert He. apply (C_fold sticky sticky_refl sticky_trans). intros; apply sticky_unload. }
    destruct (unload_KJ s i R He1) as (R1 & Ui & Fr1).
    destruct (IH (unload F s i) R1 He) as (R2 & Fr2).
    split; [exact R2|]. intros j Hj. apply Fr2.
    destruct (Nat.eq_dec j i) as [->|Nj]; [right; exact Ui|].
    destruct Hj as [[E|I]|Hj]; [congruence|now left|right; now apply Fr1].
Qed.

(* the items of a fit, as the loops over a fit see them *)

Lemma load_fit_items_KJ s f :
  KJ (fst s) -> NoDup (fit_list (fst s) f) -> (forall j, In j (fit_list (fst s) f) -> dir_unloaded (fst s) j) ->
  w_err (fst (load_fit_items s f)) = None ->
  KJ (fst (load_fit_items s f)) /\
  (forall j, ~ In j (fit_list (fst s) f) -> dir_unloaded (fst s) j -> dir_unloaded (fst (load_fit_items s f)) j).
Proof.
  unfold load_fit_items, fit_list. destruct (get_fit (fst s) f);
    [|intros _ _ _; unfold lift; cbn [fst]; intros He; destruct (err_fail_none _ _ He)].
  apply load_list_KJ.
Qed.

Lemma unload_fit_items_KJ s f :
  KJ (fst s) -> w_err (fst (unload_fit_items s f)) = None ->
  KJ (fst (unload_fit_items s f)) /\
  (forall j, In j (fit_list (fst s) f) \/ dir_unloaded (fst s) j -> dir_unloaded (fst (unload_fit_items s f)) j).
Proof.
  unfold unload_fit_items, fit_list. destruct (get_fit (fst s) f);
    [|intros _; unfold lift; cbn [fst]; intros He; destruct (err_fail_none _ _ He)].
  apply unload_list_KJ.
Qed.

Theorem solsys_add_op_KJ s x f :
  KJ (fst s) ->
  (let w1 := upd_fit (ss_set_fits (fst s) x (set_add neqb (ss_fit_list (fst s) x) f)) f (fun ft => fit_set_solsys ft (Some x)) in
   NoDup (fit_list w1 f) /\ forall j, In j (fit_list w1 f) -> dir_unloaded w1 j) ->
  w_err (fst (fst (solsys_add_op s x f))) = None -> KJ (fst (fst (solsys_add_op s x f))).
Proof.
  intros R Hyp. unfold solsys_add_op. destruct (fit_solsys (fst s) f); [auto|]. cbn [fst].
  cbv zeta in Hyp. destruct Hyp as (Hn & Hu).
  set (s1 := lift s _).
  assert (R1 : KJ (fst s1)).
  { unfold s1, lift. cbn [fst]. eapply KJ_same_is; [apply same_is_solsys_link|exact R]. }
  intros He. now apply (load_fit_items_KJ s1 f R1 Hn Hu He).
Qed.

Lemma solsys_remove_one_KJ s x f :
  KJ (fst s) -> w_err (fst (solsys_remove_one s x f)) = None -> KJ (fst (solsys_remove_one s x f)).
Proof.
  intros R. unfold solsys_remove_one, lift. cbn [fst]. intros He.
  pose proof (sticky_solsys_link _ _ _ _ _ He) as E1.
  eapply KJ_same_is; [apply same_is_solsys_link|]. now apply unload_fit_items_KJ.
Qed.
Theorem solsys_remove_op_KJ s x f :
  KJ (fst s) -> w_err (fst (fst (solsys_remove_op s x f))) = None -> KJ (fst (fst (solsys_remove_op s x f))).
Proof.
  intros R. unfold solsys_remove_op. destruct (mem neqb _ f); cbn [negb fst]; [|auto].
  now apply solsys_remove_one_KJ.
Qed.
Theorem solsys_clear_op_KJ s x :
  KJ (fst s) -> w_err (fst (fst (solsys_clear_op s x))) = None -> KJ (fst (fst (solsys_clear_op s x))).
Proof.
  intros R. unfold solsys_clear_op. cbn [fst].
  apply KJ_fold_err; [intros; apply solsys_remove_one_sticky|intros; now apply solsys_remove_one_KJ|exact R].
Qed.

(* loading keeps who is whose charge, so the item lists of the fits stay what they are *)
Definition charge_kept (w w' : world) : Prop :=
  (forall j jit, get_item w j = Some jit -> exists jit', get_item w' j = Some jit' /\ i_charge jit' = i_charge jit) /\
  (forall j jit', get_item w j = None -> get_item w' j = Some jit' -> i_charge jit' = None).
Lemma charge_kept_refl w : charge_kept w w.
Proof. split; [intros j jit G; exists jit; auto|intros j x G G'; congruence]. Qed.
Lemma charge_kept_trans a b c : charge_kept a b -> charge_kept b c -> charge_kept a c.
Proof.
  intros (A1 & A2) (B1 & B2). split.
  - intros j jit G. destruct (A1 j jit G) as (x & Gx & Ex). destruct (B1 j x Gx) as (y & Gy & Ey). exists y. split; [exact Gy|congruence].
  - intros j z G Gz. destruct (get_item b j) as [x|] eqn:Gb.
    + destruct (B1 j x Gb) as (y & Gy & Ey). rewrite Gz in Gy. injection Gy as <-. rewrite Ey. now apply (A2 j x).
    + now apply (B2 j z).
Qed.

Lemma fit_list_kept w w' f : w_fits w' = w_fits w -> charge_kept w w' -> fit_list w' f = fit_list w f.
Proof.
  intros Hf (C1 & C2). unfold fit_list, get_fit. rewrite Hf. destruct (al_get neqb (w_fits w) f) as [ft|]; [|reflexivity].
  unfold fit_items. apply flat_map_ext. intros i. f_equal.
  destruct (get_item w i) as [it|] eqn:G.
  - destruct (C1 i it G) as (x & Gx & Ex). rewrite Gx. unfold child_items. now rewrite Ex.
  - destruct (get_item w' i) as [x|] eqn:Gx; [|reflexivity]. unfold child_items. now rewrite (C2 i x G Gx).
Qed.

Lemma load_charge_kept s i :
  KJ (fst s) -> dir_unloaded (fst s) i -> w_err (fst (load F s i)) = None -> charge_kept (fst s) (fst (load F s i)).
Proof.
  intros (R & K & Fl) Hu He. pose proof (proj2 R) as Js.
  destruct (load_KJ s i (conj R (conj K Fl)) Hu He) as ((R' & K' & _) & _).
  rewrite F_eq in *.
  destruct (get_item (fst s) i) as [it|] eqn:Hi.
  - destruct (direct_dec it) as [D|D].
    + pose proof (Hu it Hi D) as Hl.
      destruct (load_dir 9 s i it Js K Hi D Hl (Fl (i_tid it)) He) as (_ & _ & _ & (mi & Gi & _ & _ & _ & Eci & _) & Fr).
      assert (New : forall j x, get_item (fst (load 12 s i)) j = Some x -> j <> i -> ~ (j < w_next (fst s))%nat -> i_charge x = None).
      { intros j x Gx Nj Nlt. destruct (direct_dec x) as [Dx|Dx].
        - pose proof (load_dir_frame 9 s i it Js K Hi D Hl (Fl (i_tid it)) He j x Gx Dx Nj) as G0.
          destruct Js as (I0 & _). apply I0 in G0. contradiction.
        - apply (kk_flat _ K' j x Gx Dx). }
      split.
      * intros j jit G. destruct (Nat.eq_dec j i) as [->|Nj].
        -- rewrite Hi in G. injection G as <-. exists mi. now split.
        -- exists jit. split; [|reflexivity]. rewrite Fr; [exact G|exact Nj|]. destruct Js as (I0 & _). now apply (I0 j jit).
      * intros j x G Gx. destruct (Nat.eq_dec j i) as [->|Nj]; [congruence|].
        destruct (lt_dec j (w_next (fst s))) as [Hlt|Hnl].
        -- rewrite (Fr j Nj Hlt) in Gx. congruence.
        -- now apply (New j x Gx Nj Hnl).
    + destruct (load_leaf 11 s i it K Hi D He) as (_ & (_ & Go) & (ci & Gci & Vci & _)).
      split.
      * intros j jit G. destruct (Nat.eq_dec j i) as [->|Nj].
        -- rewrite Hi in G. injection G as <-. exists ci. split; [exact Gci|]. unfold view in Vci. congruence.
        -- exists jit. split; [now rewrite (Go j Nj)|reflexivity].
      * intros j x G Gx. destruct (Nat.eq_dec j i) as [->|Nj]; [congruence|]. rewrite (Go j Nj) in Gx. congruence.
  - exfalso. revert He. cbn [load]. rewrite Hi. unfold lift. cbn [fst]. intros H. exact (err_fail_none _ _ H).
Qed.

Lemma load_list_kept : forall (l : list nat) (s : st),
  KJ (fst s) -> NoDup l -> (forall j, In j l -> dir_unloaded (fst s) j) ->
  w_err (fst (fold_left (fun s i => load F s i) l s)) = None ->
  charge_kept (fst s) (fst (fold_left (fun s i => load F s i) l s)) /\
  w_fits (fst (fold_left (fun s i => load F s i) l s)) = w_fits (fst s).
Proof.
  induction l as [|i l IH]; intros s R Hn Hu He; cbn [fold_left] in *.
  - split; [apply charge_kept_refl|reflexivity].
  - inversion Hn as [|? ? Ni Hn']; subst.
    assert (He1 : w_err (fst (load F s i)) = None).
    { revert He. apply (C_fold sticky sticky_refl sticky_trans). intros; apply sticky_load. }
    destruct (load_KJ s i R (Hu i (or_introl eq_refl)) He1) as (R1 & Fr1).
    pose proof (load_charge_kept s i R (Hu i (or_introl eq_refl)) He1) as C1.
    destruct (IH (load F s i) R1 Hn') as (C2 & F2); [|exact He|].
    + intros j Ij. apply Fr1; [intros ->; contradiction|apply Hu; now right].
    + split; [eapply charge_kept_trans; eauto|]. rewrite F2.
      pose proof (S_load F s i) as Sl. unfold structure in Sl. congruence.
Qed.

Lemma NoDup_app_inv {A} (a b : list A) : NoDup (a ++ b) -> NoDup a /\ NoDup b /\ forall x, In x a -> In x b -> False.
Proof.
  induction a as [|x a IH]; cbn; intros H; [split; [constructor|split; [exact H|intros x []]]|].
  inversion H as [|? ? Nx H']; subst. destruct (IH H') as (Na & Nb & Dj). split; [|split; [exact Nb|]].
  - constructor; [|exact Na]. intros I. apply Nx. apply in_or_app. now left.
  - intros y [<-|Iy] Ib; [apply Nx; apply in_or_app; now right|now apply (Dj y)].
Qed.

Lemma load_fits_KJ : forall (fl : list nat) (s : st),
  KJ (fst s) -> NoDup (flat_map (fit_list (fst s)) fl) ->
  (forall j, In j (flat_map (fit_list (fst s)) fl) -> dir_unloaded (fst s) j) ->
  w_err (fst (fold_left load_fit_items fl s)) = None ->
  KJ (fst (fold_left load_fit_items fl s)).
Proof.
  induction fl as [|f fl IH]; intros s R Hn Hu He; cbn [fold_left flat_map] in *; [exact R|].
  assert (He1 : w_err (fst (load_fit_items s f)) = None).
  { revert He. apply (C_fold sticky sticky_refl sticky_trans). intros; apply load_fit_items_sticky. }
  destruct (NoDup_app_inv _ _ Hn) as (Hn1 & Hn2 & Hdj).
  assert (Hu1 : forall j, In j (fit_list (fst s) f) -> dir_unloaded (fst s) j) by (intros j I; apply Hu; apply in_or_app; now left).
  destruct (load_fit_items_KJ s f R Hn1 Hu1 He1) as (R1 & Fr1).
  (* the item lists of the remaining fits are unchanged *)
  assert (Kept : forall g, fit_list (fst (load_fit_items s f)) g = fit_list (fst s) g).
  { intros g. unfold load_fit_items in *.
    destruct (get_fit (fst s) f) as [ft|] eqn:Gf.
    - assert (El : fit_list (fst s) f = fit_items (fst s) ft true) by (unfold fit_list; now rewrite Gf).
      rewrite El in Hn1, Hu1.
      destruct (load_list_kept (fit_items (fst s) ft true) s R Hn1 Hu1 He1) as (Ck & Fk).
      now apply fit_list_kept.
    - exfalso. unfold lift in He1. cbn [fst] in He1. exact (err_fail_none _ _ He1). }
  apply IH; [exact R1| | |exact He].
  - rewrite (flat_map_ext _ _ Kept). exact Hn2.
  - intros j I. rewrite (flat_map_ext _ _ Kept) in I. apply Fr1.
    + intros I1. apply (Hdj j I1 I).
    + apply Hu. apply in_or_app. now right.
Qed.

Theorem source_set_op_KJ s x new :
  KJ (fst s) ->
  (forall y, get_ss (fst s) x = Some y -> new <> None ->
     let m := fst (src_mid s x y new) in
     NoDup (flat_map (fit_list m) (ss_fit_list m x)) /\
     forall j, In j (flat_map (fit_list m) (ss_fit_list m x)) -> dir_unloaded m j) ->
  w_err (fst (fst (source_set_op s x new))) = None -> KJ (fst (fst (source_set_op s x new))).
Proof.
  intros R Hyp. unfold source_set_op. destruct (get_ss (fst s) x) as [y|] eqn:Gy;
    [|cbn [fst]; unfold lift; cbn [fst]; intros He; destruct (err_fail_none _ _ He)].
  specialize (Hyp y eq_refl).
  destruct (onat_eqb (ss_source y) new); [auto|].
  match goal with |- context[if ?b then (s, RExn XUnknownSource) else _] => destruct b end; [auto|]. cbn [fst].
  change (lift (match ss_source y with Some _ => fold_left unload_fit_items (ss_fits y) s | None => s end)
               (fun w => match get_ss w x with Some y0 => put_ss w x (mkSolsys new (ss_fits y0)) | None => fail w EKeyAbsent end))
    with (src_mid s x y new) in *.
  set (s1 := match ss_source y with Some _ => fold_left unload_fit_items (ss_fits y) s | None => s end).
  assert (H1 : w_err (fst s1) = None -> KJ (fst s1)).
  { subst s1. destruct (ss_source y); [|auto].
    apply KJ_fold_err; [intros; apply unload_fit_items_sticky|intros s0 f0 R0 E0; now apply unload_fit_items_KJ|exact R]. }
  assert (S12 : same_is (fst s1) (fst (src_mid s x y new))).
  { unfold src_mid. fold s1. unfold lift. cbn [fst]. destruct (get_ss (fst s1) x); [repeat split|apply same_is_fail]. }
  assert (K12 : sticky (fst s1) (fst (src_mid s x y new))).
  { unfold src_mid. fold s1. unfold lift. cbn [fst]. destruct (get_ss (fst s1) x); [intros H; exact H|apply sticky_fail]. }
  destruct new as [sid|].
  - intros He. destruct Hyp as (Hn & Hu); [discriminate|].
    assert (E2 : w_err (fst (src_mid s x y (Some sid))) = None).
    { exact (C_fold sticky sticky_refl sticky_trans load_fit_items _ load_fit_items_sticky _ He). }
    apply load_fits_KJ; [|exact Hn|exact Hu|exact He].
    eapply KJ_same_is; [exact S12|]. apply H1. now apply K12.
  - intros He. eapply KJ_same_is; [exact S12|]. apply H1. now apply K12.
Qed.
