(* C03 proofs: register exactness (generic lemma + all 29 registers), the
   validation theorems, table obligations. *)
From Coq Require Import ZArith QArith List Bool Arith Permutation Lia.
From EosV Require Import lib.AList gen.T_eos gen.T_restr model.World model.Status model.Calc model.Engine
  model.Ops model.Restrictions model.RestrictionsSpec.
Import ListNotations.
Open Scope Z_scope.

(* ------------------------------------------------------------------ *)
(* small list facts                                                    *)

Lemma NoDup_snoc {A} (l : list A) (a : A) : NoDup l -> ~ In a l -> NoDup (l ++ [a]).
Proof.
  intros Hn Hi. induction l as [|b l IH]; simpl.
  - constructor; [intros []|constructor].
  - inversion Hn as [|? ? Hb Hl]; subst. constructor.
    + rewrite in_app_iff. intros [H|[H|[]]]; [auto|]. subst. apply Hi. now left.
    + apply IH; auto. intros H. apply Hi. now right.
Qed.

Lemma al_get_set_same {V} (l : list (nat * V)) k v : al_get Nat.eqb (al_set Nat.eqb l k v) k = Some v.
Proof.
  induction l as [|[k' v'] l IH]; simpl.
  - now rewrite Nat.eqb_refl.
  - destruct (Nat.eqb k k') eqn:E; simpl; rewrite E; auto.
Qed.
Lemma al_get_set_other {V} (l : list (nat * V)) k k' v :
  k <> k' -> al_get Nat.eqb (al_set Nat.eqb l k v) k' = al_get Nat.eqb l k'.
Proof.
  intros Hne. induction l as [|[k2 v2] l IH]; simpl.
  - destruct (Nat.eqb k' k) eqn:E; auto. apply Nat.eqb_eq in E. congruence.
  - destruct (Nat.eqb k k2) eqn:E; simpl.
    + apply Nat.eqb_eq in E. subst k2.
      destruct (Nat.eqb k' k) eqn:E2; auto. apply Nat.eqb_eq in E2. congruence.
    + destruct (Nat.eqb k' k2); auto.
Qed.

Lemma al_get_in {V} (l : list (nat * V)) k v : al_get Nat.eqb l k = Some v -> In k (map fst l).
Proof.
  induction l as [|[k' v'] l IH]; simpl; [discriminate|].
  destruct (Nat.eqb k k') eqn:E; intros H.
  - apply Nat.eqb_eq in E. now left.
  - right. auto.
Qed.

(* ------------------------------------------------------------------ *)
(* RX: the generic register-exactness lemma                            *)

(* what a register does with one signal of its channel *)
Definition sig_step (d : rdesc) (r : list rentry) (s : csig) : list rentry :=
  match s with
  | (x, KOn, Some st) => match rd_P d st with Some p => reg_on (rd_kind d) r x p | None => r end
  | (x, KOff, Some st) => reg_off r x (rd_off d st)
  | (_, _, None) => r
  end.

(* the off-handler removes what the on-handler inserted *)
Definition desc_ok (d : rdesc) : Prop :=
  forall s p, rd_P d s = Some p ->
    rd_off d s = OffAll \/ (rd_off d s = OffKey p /\ payload_eqb p p = true).

(* register contents determined by the per-item status *)
Definition entry_of (d : rdesc) (st : istatus) (p : payload) : Prop :=
  exists s, st = Some (Some s) /\ rd_P d s = Some p.
Definition reg_inv (d : rdesc) (r : list rentry) (st : nat -> istatus) : Prop :=
  NoDup r /\ forall x p, In (x, p) r <-> entry_of d (st x) p.

Lemma reg_inv_ext d r st st' : (forall x, st x = st' x) -> reg_inv d r st -> reg_inv d r st'.
Proof.
  intros E [Hn Hi]. split; auto. intros x p. rewrite Hi. unfold entry_of. now rewrite E.
Qed.

Lemma item_sigs_cons x (s : csig) l :
  item_sigs x (s :: l) =
  (if Nat.eqb (fst (fst s)) x then [(snd (fst s), snd s)] else []) ++ item_sigs x l.
Proof. reflexivity. Qed.

Definition upd_status (st : nat -> istatus) (s : csig) : nat -> istatus :=
  fun x => if Nat.eqb (fst (fst s)) x
           then match snd (fst s) with KOn => Some (snd s) | KOff => None end
           else st x.

Lemma no_entries_off d r st y :
  reg_inv d r st -> st y = None -> forall e, In e r -> fst e <> y.
Proof.
  intros [_ Hi] Hy [x p] He Hx. simpl in Hx. subst x.
  apply Hi in He. destruct He as [s [E _]]. congruence.
Qed.

Lemma rentry_eqb_fst a b : rentry_eqb a b = true -> fst a = fst b.
Proof. unfold rentry_eqb. intros H. apply andb_true_iff in H. now apply Nat.eqb_eq. Qed.

Lemma reg_on_fresh k r y p :
  NoDup r -> (forall e, In e r -> fst e <> y) ->
  NoDup (reg_on k r y p) /\ forall e, In e (reg_on k r y p) <-> In e r \/ e = (y, p).
Proof.
  intros Hn Hf.
  assert (Hnot : ~ In (y, p) r) by (intros H; now apply (Hf _ H)).
  assert (Hset : existsb (rentry_eqb (y, p)) r = false).
  { apply not_true_is_false. intros H. apply existsb_exists in H. destruct H as [e [He Heq]].
    apply rentry_eqb_fst in Heq. simpl in Heq. symmetry in Heq. now apply (Hf _ He). }
  assert (Hfil : forall g : rentry -> bool, (forall e, In e r -> g e = true) -> filter g r = r).
  { clear. induction r as [|e r IH]; intros g Hg; simpl; auto.
    rewrite (Hg e (or_introl eq_refl)). f_equal. apply IH. intros e' He'. apply Hg. now right. }
  destruct k; unfold reg_on; rewrite ?Hset.
  - split; [now apply NoDup_snoc|]. intros e; rewrite in_app_iff; simpl; intuition.
  - rewrite Hfil.
    + split; [now apply NoDup_snoc|]. intros e; rewrite in_app_iff; simpl; intuition.
    + intros e He. apply negb_true_iff. apply Nat.eqb_neq. now apply Hf.
  - split; [now apply NoDup_snoc|]. intros e; rewrite in_app_iff; simpl; intuition.
Qed.

Lemma reg_inv_step d r st (s : csig) :
  desc_ok d -> reg_inv d r st ->
  (match snd (fst s) with KOn => st (fst (fst s)) = None | KOff => st (fst (fst s)) = Some (snd s) end) ->
  reg_inv d (sig_step d r s) (upd_status st s).
Proof.
  intros Hok Hinv Hpre. destruct s as [[y k] so]. simpl in Hpre.
  destruct Hinv as [Hn Hi]. unfold upd_status; simpl.
  destruct k.
  - (* on *)
    assert (Hf : forall e, In e r -> fst e <> y) by (eapply no_entries_off; [split; eauto|auto]).
    destruct so as [s0|]; simpl.
    + destruct (rd_P d s0) as [p|] eqn:EP.
      * destruct (reg_on_fresh (rd_kind d) r y p Hn Hf) as [Hn' Hi']. split; auto.
        intros x q. rewrite Hi'. destruct (Nat.eqb y x) eqn:E.
        -- apply Nat.eqb_eq in E. subst x. split.
           ++ intros [H|H]; [exfalso; now apply (Hf _ H)|]. inversion H; subst. exists s0. auto.
           ++ intros [s1 [E1 E2]]. inversion E1; subst. right. congruence.
        -- apply Nat.eqb_neq in E. rewrite Hi. split; [intros [H|H]; auto; inversion H; congruence|auto].
      * split; auto. intros x q. destruct (Nat.eqb y x) eqn:E.
        -- apply Nat.eqb_eq in E. subst x. split.
           ++ intros H. exfalso. now apply (Hf _ H).
           ++ intros [s1 [E1 E2]]. inversion E1; subst. congruence.
        -- apply Hi.
    + split; auto. intros x q. destruct (Nat.eqb y x) eqn:E.
      * apply Nat.eqb_eq in E. subst x. split.
        -- intros H. exfalso. now apply (Hf _ H).
        -- intros [s1 [E1 _]]. discriminate.
      * apply Hi.
  - (* off *)
    assert (Hothers : forall (g : rentry -> bool),
               (forall e, In e r -> fst e <> y -> g e = true) ->
               (forall e, In e r -> fst e = y -> g e = false) ->
               reg_inv d (filter g r) (fun x => if Nat.eqb y x then None else st x)).
    { intros g G1 G2. split; [now apply NoDup_filter|].
      intros x q. rewrite filter_In. destruct (Nat.eqb y x) eqn:E.
      - apply Nat.eqb_eq in E. subst x. split.
        + intros [H1 H2]. rewrite (G2 _ H1 eq_refl) in H2. discriminate.
        + intros [s1 [E1 _]]. discriminate.
      - apply Nat.eqb_neq in E. rewrite <- Hi. split; [tauto|].
        intros H. split; auto; apply G1; auto; simpl; congruence. }
    destruct so as [s0|]; simpl.
    + destruct (rd_P d s0) as [p|] eqn:EP.
      * (* the only entry of y is (y, p) *)
        assert (Hy : forall e, In e r -> fst e = y -> e = (y, p)).
        { intros [x q] He Hx. simpl in Hx. subst x. apply Hi in He. destruct He as [s1 [E1 E2]].
          rewrite Hpre in E1. inversion E1; subst. congruence. }
        destruct (Hok _ _ EP) as [Hoff|[Hoff Hrefl]]; rewrite Hoff; simpl.
        -- apply Hothers.
           ++ intros e _ Hne. apply negb_true_iff. now apply Nat.eqb_neq.
           ++ intros e _ He. apply negb_false_iff. now apply Nat.eqb_eq.
        -- apply Hothers.
           ++ intros e _ Hne. apply negb_true_iff. apply not_true_is_false. intros H.
              apply rentry_eqb_fst in H. simpl in H. congruence.
           ++ intros e He Hfy. rewrite (Hy _ He Hfy). apply negb_false_iff.
              unfold rentry_eqb. simpl. now rewrite Nat.eqb_refl, Hrefl.
      * (* nothing of y is in the register *)
        assert (Hf : forall e, In e r -> fst e <> y).
        { intros [x q] He Hx. simpl in Hx. subst x. apply Hi in He. destruct He as [s1 [E1 E2]].
          rewrite Hpre in E1. inversion E1; subst. congruence. }
        assert (Hsame : forall r', (forall e, In e r' <-> In e r) -> NoDup r' ->
                   reg_inv d r' (fun x => if Nat.eqb y x then None else st x)).
        { intros r' Hr' Hn'. split; auto. intros x q. rewrite Hr'. destruct (Nat.eqb y x) eqn:E.
          - apply Nat.eqb_eq in E. subst x. split.
            + intros H. exfalso. now apply (Hf _ H).
            + intros [s1 [E1 _]]. discriminate.
          - apply Hi. }
        destruct (rd_off d s0); simpl.
        -- apply Hsame; [tauto|auto].
        -- apply Hsame; [|now apply NoDup_filter]. intros e. rewrite filter_In. split; [tauto|].
           intros H. split; auto. apply negb_true_iff. apply Nat.eqb_neq. now apply Hf.
        -- apply Hsame; [|now apply NoDup_filter]. intros e. rewrite filter_In. split; [tauto|].
           intros H. split; auto. apply negb_true_iff. apply not_true_is_false. intros H2.
           apply rentry_eqb_fst in H2. simpl in H2. symmetry in H2. now apply (Hf _ H).
    + (* item absent at the off message: it was absent at the on message too *)
      split; auto. intros x q. destruct (Nat.eqb y x) eqn:E.
      * apply Nat.eqb_eq in E. subst x. split.
        -- intros H. apply Hi in H. destruct H as [s1 [E1 _]]. rewrite Hpre in E1. discriminate.
        -- intros [s1 [E1 _]]. discriminate.
      * apply Hi.
Qed.

(* RX. A register that inserts x (with payload P x) on the "on" message of its
   channel when P x is defined, and removes it on the "off" message, holds
   exactly {(x, P x) | x is on} after any faithful edit script. *)
Theorem register_exact_generic : forall d sigs r st fin,
  desc_ok d -> reg_inv d r st ->
  (forall x, script_ok (st x) (item_sigs x sigs) (fin x)) ->
  reg_inv d (fold_left (sig_step d) sigs r) fin.
Proof.
  intros d sigs. induction sigs as [|s sigs IH]; intros r st fin Hok Hinv Hs; simpl.
  - eapply reg_inv_ext; [|exact Hinv]. intros x. exact (Hs x).
  - apply (IH _ (upd_status st s)); auto.
    + apply reg_inv_step; auto.
      specialize (Hs (fst (fst s))). rewrite item_sigs_cons, Nat.eqb_refl in Hs. simpl in Hs.
      destruct s as [[y k] so]; simpl in *. destruct k; tauto.
    + intros x. specialize (Hs x). rewrite item_sigs_cons in Hs. unfold upd_status.
      destruct s as [[y k] so]; simpl in *. destruct (Nat.eqb y x); simpl in *; auto.
      destruct k; tauto.
Qed.

(* ------------------------------------------------------------------ *)
(* the registers of the model are such folds                           *)

Lemma desc_ok_all : forall r, desc_ok (desc r).
Proof.
  intros r s p. destruct r as [| | | | |k|k| | | |k| | | | | | | | | |k]; simpl; unfold off_all, off_if, unit_if;
    try (intros _; now left);
    try (destruct (is_cls CDrone s); simpl; [intros _; now left|discriminate]).
  - (* RMgAll *)
    destruct (is_module (fst s)); [|discriminate]. destruct (s_group s) as [g|]; [|discriminate].
    intros H. inversion H; subst. right. split; auto; simpl; apply Z.eqb_refl.
  - (* RIdx *)
    destruct (is_cls (idx_cls k) s); [|discriminate]. destruct (s_attr s (idx_attr k)) as [v|]; [|discriminate].
    intros H. inversion H; subst. right. split; auto; simpl; unfold q_struct_eqb;
    now rewrite Z.eqb_refl, Pos.eqb_refl.
Qed.

Lemma reg_step_sigs d w m r :
  reg_step d w m r = fold_left (sig_step d) (msg_sig (rd_chan d) w m) r.
Proof.
  unfold reg_step, msg_sig. destruct (chan_msg (rd_chan d) m) as [[x k]|]; simpl; auto;
  destruct k; destruct (chan_static (rd_chan d) w x); reflexivity.
Qed.

Lemma fr_get_step w m g r : fr_get (fr_step w m g) r = reg_step (desc r) w m (fr_get g r).
Proof.
  unfold fr_get at 1, fr_step.
  destruct r as [| | | | |k|k| | | |k| | | | | | | | | |k]; try destruct k; reflexivity.
Qed.

Lemma rr_get_set_same rr f g : rr_get (al_set neqb rr f g) f = g.
Proof. unfold rr_get, neqb. now rewrite al_get_set_same. Qed.
Lemma rr_get_set_other rr f f' g : f <> f' -> rr_get (al_set neqb rr f g) f' = rr_get rr f'.
Proof. intros H. unfold rr_get, neqb. now rewrite al_get_set_other. Qed.

Lemma restr_msgs_get w f msgs : forall rr r,
  fr_get (rr_get (fold_left (fun rr m => restr_msg w f m rr) msgs rr) f) r =
  fold_left (sig_step (desc r)) (flat_map (msg_sig (rd_chan (desc r)) w) msgs) (fr_get (rr_get rr f) r).
Proof.
  induction msgs as [|m msgs IH]; intros rr r; simpl; auto.
  rewrite IH. unfold restr_msg. rewrite rr_get_set_same, fr_get_step, reg_step_sigs.
  now rewrite fold_left_app.
Qed.
Lemma restr_msgs_other w f f' msgs : f <> f' -> forall rr,
  rr_get (fold_left (fun rr m => restr_msg w f m rr) msgs rr) f' = rr_get rr f'.
Proof.
  intros Hne. induction msgs as [|m msgs IH]; intros rr; simpl; auto.
  rewrite IH. unfold restr_msg. now apply rr_get_set_other.
Qed.

Lemma restr_events_get f r : forall evs rr,
  fr_get (rr_get (restr_events rr evs) f) r =
  fold_left (sig_step (desc r)) (chan_sigs (rd_chan (desc r)) f evs) (fr_get (rr_get rr f) r).
Proof.
  unfold restr_events, chan_sigs. induction evs as [|ev evs IH]; intros rr; simpl; auto.
  rewrite IH, fold_left_app. f_equal. destruct ev as [w f' msgs|i]; simpl; auto.
  destruct (Nat.eqb f' f) eqn:E.
  - apply Nat.eqb_eq in E. subst f'. apply restr_msgs_get.
  - apply Nat.eqb_neq in E. simpl. now rewrite restr_msgs_other.
Qed.

(* instantiation for every register of every fit *)
Theorem registers_exact_inv : forall evs w f r,
  faithful (rd_chan (desc r)) evs w f ->
  reg_inv (desc r) (fr_get (rr_get (restr_events [] evs) f) r) (cur_status (rd_chan (desc r)) w f).
Proof.
  intros evs w f r Hf. rewrite restr_events_get.
  apply (register_exact_generic (desc r) _ [] (fun _ => None)).
  - apply desc_ok_all.
  - split; [constructor|]. intros x p. split; [intros []|intros [s [E _]]; discriminate].
  - exact Hf.
Qed.

(* ... and as equality (up to order) with the stateless tracked set *)
Lemma on_fit_item w f x : on_fit w f x = true -> In x (all_items w).
Proof.
  unfold on_fit, all_items, item_fit. intros H. apply nodup_In.
  simpl in H. unfold get_item in H. destruct (al_get neqb (w_items w) x) eqn:E; [|discriminate].
  unfold neqb in E. eapply al_get_in; eauto.
Qed.

Lemma spec_reg_in w f r x p :
  In (x, p) (spec_reg w f r) <-> entry_of (desc r) (cur_status (rd_chan (desc r)) w f x) p.
Proof.
  unfold spec_reg, entry_of, cur_status. rewrite in_flat_map. split.
  - intros [y [Hy He]]. unfold spec_entry in He.
    destruct (chan_act (rd_chan (desc r)) w f y) eqn:Ea; [|destruct He].
    destruct (chan_static (rd_chan (desc r)) w y) as [s|] eqn:Es; [|destruct He].
    destruct (rd_P (desc r) s) as [q|] eqn:Ep; [|destruct He].
    destruct He as [He|[]]. inversion He; subst. rewrite Ea, Es. eauto.
  - intros [s [E1 E2]]. destruct (chan_act (rd_chan (desc r)) w f x) eqn:Ea; [|discriminate].
    inversion E1 as [E3]. exists x. split.
    + apply (on_fit_item w f). unfold chan_act in Ea. now apply andb_true_iff in Ea.
    + unfold spec_entry. rewrite Ea, E3, E2. now left.
Qed.

Lemma spec_reg_nodup w f r : NoDup (spec_reg w f r).
Proof.
  unfold spec_reg. assert (Hn : NoDup (all_items w)) by apply NoDup_nodup.
  induction (all_items w) as [|x l IH]; simpl; [constructor|].
  inversion Hn as [|? ? Hx Hl]; subst. specialize (IH Hl).
  assert (Hfst : forall e, In e (flat_map (spec_entry w f r) l) -> In (fst e) l).
  { intros e He. apply in_flat_map in He. destruct He as [y [Hy He]]. unfold spec_entry in He.
    destruct (chan_act _ w f y); [|destruct He]. destruct (chan_static _ w y); [|destruct He].
    destruct (rd_P _ s); [|destruct He]. destruct He as [He|[]]. now subst e. }
  unfold spec_entry at 1. destruct (chan_act _ w f x); simpl; auto.
  destruct (chan_static _ w x); simpl; auto. destruct (rd_P _ s); simpl; auto.
  constructor; auto. intros H. apply Hfst in H. auto.
Qed.

Theorem registers_exact : forall evs w f r,
  faithful (rd_chan (desc r)) evs w f ->
  Permutation (fr_get (rr_get (restr_events [] evs) f) r) (spec_reg w f r).
Proof.
  intros evs w f r Hf. destruct (registers_exact_inv evs w f r Hf) as [Hn Hi].
  apply NoDup_Permutation; auto using spec_reg_nodup.
  intros [x p]. now rewrite Hi, spec_reg_in.
Qed.

(* ------------------------------------------------------------------ *)
(* attribute reads: the monadic rules return what the pure ones return *)

Section Coherence.
  Context {D : Type} (rd : D -> nat -> Z -> D * option Q) (Inv : D -> Prop) (val : oracle).
  (* reads do not change values: every read returns the oracle's value and
     keeps the invariant (this is what cache coherence, C01/C09, provides) *)
  Definition coherent : Prop :=
    forall d x a, Inv d -> Inv (fst (rd d x a)) /\ snd (rd d x a) = val x a.
  Hypothesis Hco : coherent.

  Definition rel {A} (m : D -> D * A) (a : A) : Prop := forall d, Inv d -> Inv (fst (m d)) /\ snd (m d) = a.

  Lemma rel_ret {A} (a : A) : rel (ret a) a.
  Proof. intros d Hd. split; auto. Qed.
  Lemma rel_bind {A B} (m : D -> D * A) (k : A -> D -> D * B) a b :
    rel m a -> rel (k a) b -> rel (bind m k) b.
  Proof.
    intros Hm Hk d Hd. unfold bind. destruct (Hm d Hd) as [H1 H2]. destruct (m d) as [d' a']. simpl in *. subst a'.
    apply Hk; auto.
  Qed.
  Lemma rel_rdm x a : rel (rdm rd x a) (val x a).
  Proof. intros d Hd. apply Hco; auto. Qed.
  Lemma rel_mapM {A B} (g : A -> D -> D * B) (h : A -> B) l :
    (forall x, rel (g x) (h x)) -> rel (mapM g l) (map h l).
  Proof.
    intros Hg. induction l as [|x l IH]; simpl.
    - apply rel_ret.
    - eapply rel_bind; [apply Hg|]. eapply rel_bind; [apply IH|]. apply rel_ret.
  Qed.
End Coherence.

(* the pure instance computes by plain evaluation *)
Lemma pure_bind {A B} (m : unit -> unit * A) (k : A -> unit -> unit * B) :
  snd (bind m k tt) = snd (k (snd (m tt)) tt).
Proof. unfold bind. destruct (m tt) as [[] a]. reflexivity. Qed.
Lemma pure_mapM {A B} (g : A -> unit -> unit * B) l :
  snd (mapM g l tt) = map (fun x => snd (g x tt)) l.
Proof.
  induction l as [|x l IH]; simpl; auto.
  rewrite pure_bind, pure_bind. simpl. now rewrite IH.
Qed.

Lemma run_cons {D} skip (p : Z * (D -> D * rres)) l :
  run_restrictions skip (p :: l) =
  if mem zeqb skip (fst p) then run_restrictions skip l
  else bind (snd p) (fun a => bind (run_restrictions skip l) (fun b => ret (vres_app (tag (fst p) a) b))).
Proof. reflexivity. Qed.

Section Transfer.
  Context {D : Type} (rd : D -> nat -> Z -> D * option Q) (Inv : D -> Prop) (val : oracle).
  Hypothesis Hco : coherent rd Inv val.
  Variable w : world.
  Variable tr : rid -> list rentry.
  Variable f : nat.
  Notation prd := (pure_rd val).
  Notation R := (rel Inv).

  Lemma rel_holder h a : R (holder_attr rd h a) (snd (holder_attr prd h a tt)).
  Proof. destruct h; simpl; [apply (rel_rdm rd Inv val Hco)|apply rel_ret]. Qed.

  Lemma rel_uses reg a :
    R (mapM (fun x => bind (rdm rd x a) (fun v => ret (x, v))) (items_of tr reg))
      (snd (mapM (fun x => bind (rdm prd x a) (fun v => ret (x, v))) (items_of tr reg) tt)).
  Proof.
    rewrite pure_mapM. apply rel_mapM. intros x. rewrite pure_bind. simpl.
    eapply rel_bind; [apply (rel_rdm rd Inv val Hco)|apply rel_ret].
  Qed.

  Lemma rel_resource reg ua oa rnd :
    R (v_resource rd w tr f reg ua oa rnd) (snd (v_resource prd w tr f reg ua oa rnd tt)).
  Proof.
    unfold v_resource. rewrite pure_bind, pure_bind.
    eapply rel_bind; [apply rel_uses|]. eapply rel_bind; [apply rel_holder|]. apply rel_ret.
  Qed.
  Lemma rel_stat_slot reg h a :
    R (v_stat_slot rd tr reg h a) (snd (v_stat_slot prd tr reg h a tt)).
  Proof. unfold v_stat_slot. rewrite pure_bind. eapply rel_bind; [apply rel_holder|apply rel_ret]. Qed.
  Lemma rel_ordered k a : R (v_ordered rd w f k a) (snd (v_ordered prd w f k a tt)).
  Proof. unfold v_ordered. rewrite pure_bind. eapply rel_bind; [apply rel_holder|apply rel_ret]. Qed.
  Lemma rel_unordered k a : R (v_unordered rd w f k a) (snd (v_unordered prd w f k a tt)).
  Proof. unfold v_unordered. rewrite pure_bind. eapply rel_bind; [apply rel_holder|apply rel_ret]. Qed.
  Lemma rel_max_group k : R (v_max_group rd w tr k) (snd (v_max_group prd w tr k tt)).
  Proof. unfold v_max_group. rewrite pure_bind. eapply rel_bind; [apply rel_uses|apply rel_ret]. Qed.

  Lemma rel_run skip : forall (l : list (Z * (D -> D * rres))) (l' : list (Z * (unit -> unit * rres))),
    Forall2 (fun p p' => fst p = fst p' /\ R (snd p) (snd (snd p' tt))) l l' ->
    R (run_restrictions skip l) (snd (run_restrictions skip l' tt)).
  Proof.
    intros l l' H. induction H as [|p p' l l' [Ht Hp] _ IH].
    - apply rel_ret.
    - rewrite !run_cons. rewrite <- Ht. destruct (mem zeqb skip (fst p)); auto.
      rewrite pure_bind, pure_bind. eapply rel_bind; [apply Hp|]. eapply rel_bind; [apply IH|].
      simpl. apply rel_ret.
  Qed.

  (* the model's validate returns the pure result, whatever the cache state *)
  Theorem validate_rules_coherent skip :
    R (validate_rules rd w tr f skip) (snd (validate_rules prd w tr f skip tt)).
  Proof.
    unfold validate_rules. apply rel_run. unfold restrictions.
    repeat (constructor; [split; [reflexivity|simpl;
      first [apply rel_ret | apply rel_resource | apply rel_stat_slot | apply rel_ordered
            | apply rel_unordered | apply rel_max_group]]|]).
    constructor.
  Qed.
End Transfer.

(* ------------------------------------------------------------------ *)
(* skip_checks is a filter on restriction types                        *)

Lemma restrict_tag_in skip t (l : list rentry_err) :
  mem zeqb skip t = true ->
  restrict_types skip (map (fun ke : rentry_err => (fst ke, t, snd ke)) l) = [].
Proof. intros H. induction l as [|e l IH]; simpl; auto. now rewrite H. Qed.
Lemma restrict_tag_out skip t (l : list rentry_err) :
  mem zeqb skip t = false ->
  restrict_types skip (map (fun ke : rentry_err => (fst ke, t, snd ke)) l) =
  map (fun ke : rentry_err => (fst ke, t, snd ke)) l.
Proof. intros H. induction l as [|e l IH]; simpl; auto. rewrite H. simpl. now rewrite IH. Qed.

Lemma run_nil {D} skip : @run_restrictions D skip (@nil (Z * (D -> D * rres))) = ret (Some []).
Proof. reflexivity. Qed.

Lemma skip_filter_run skip : forall (l : list (Z * (unit -> unit * rres))) out,
  snd (run_restrictions [] l tt) = Some out ->
  snd (run_restrictions skip l tt) = Some (restrict_types skip out).
Proof.
  induction l as [|p l IH]; intros out.
  - rewrite !run_nil. unfold ret. cbn [snd]. intros H. inversion H. reflexivity.
  - rewrite !run_cons. change (mem zeqb [] (fst p)) with false. cbv iota.
    rewrite pure_bind, pure_bind. unfold ret at 1. cbn [snd].
    destruct (snd (snd p tt)) as [la|] eqn:Ea; [|discriminate].
    destruct (snd (run_restrictions [] l tt)) as [lb|] eqn:Eb; [|discriminate].
    unfold tag, vres_app. intros H. inversion H; subst out. clear H. specialize (IH lb eq_refl).
    unfold restrict_types at 1. rewrite filter_app.
    change (filter (fun e : ventry => negb (mem zeqb skip (snd (fst e)))) lb) with (restrict_types skip lb).
    change (filter (fun e : ventry => negb (mem zeqb skip (snd (fst e))))
                   (map (fun ke : rentry_err => (fst ke, fst p, snd ke)) la))
      with (restrict_types skip (map (fun ke : rentry_err => (fst ke, fst p, snd ke)) la)).
    destruct (mem zeqb skip (fst p)) eqn:Em.
    + rewrite restrict_tag_in by auto. exact IH.
    + rewrite pure_bind, pure_bind. unfold ret. cbn [snd]. rewrite Ea, IH. unfold tag, vres_app.
      now rewrite restrict_tag_out by auto.
Qed.

Lemma validate_rules_unfold {D} (rd : D -> nat -> Z -> D * option Q) w tr f skip :
  validate_rules rd w tr f skip = run_restrictions skip (restrictions rd w tr f).
Proof. reflexivity. Qed.

Theorem skip_is_filter_pure : forall w val tr f skip out,
  snd (validate_rules (pure_rd val) w tr f [] tt) = Some out ->
  snd (validate_rules (pure_rd val) w tr f skip tt) = Some (restrict_types skip out).
Proof.
  intros w val tr f skip out. rewrite !validate_rules_unfold.
  generalize (restrictions (pure_rd val) w tr f). intros L H. apply skip_filter_run. exact H.
Qed.

(* ------------------------------------------------------------------ *)
(* validation does not depend on the order in which registers list     *)
(* their entries                                                       *)

Lemma oequiv_refl {A} (a : option (list A)) : oequiv a a.
Proof. destruct a; simpl; auto. Qed.
Lemma oequiv_trans {A} (a b c : option (list A)) : oequiv a b -> oequiv b c -> oequiv a c.
Proof. destruct a, b, c; simpl; try tauto. apply Permutation_trans. Qed.
Lemma oequiv_sym {A} (a b : option (list A)) : oequiv a b -> oequiv b a.
Proof. destruct a, b; simpl; try tauto. apply Permutation_sym. Qed.

Lemma collect_cons {A B} (g : A -> option (list B)) a l :
  collect g (a :: l) = match g a, collect g l with Some x, Some y => Some (x ++ y) | _, _ => None end.
Proof. reflexivity. Qed.

Lemma collect_perm {A B} (g : A -> option (list B)) l l' :
  Permutation l l' -> oequiv (collect g l) (collect g l').
Proof.
  intros H. induction H.
  - simpl. auto.
  - rewrite !collect_cons. destruct (g x); [|simpl; auto].
    destruct (collect g l), (collect g l'); simpl in *; try tauto. now apply Permutation_app_head.
  - rewrite !collect_cons. destruct (g x), (g y), (collect g l); simpl; auto.
    rewrite !app_assoc. apply Permutation_app_tail. apply Permutation_app_comm.
  - eapply oequiv_trans; eauto.
Qed.
Lemma collect_ext {A B} (g g' : A -> option (list B)) l :
  (forall a, In a l -> g a = g' a) -> collect g l = collect g' l.
Proof.
  induction l as [|a l IH]; intros H; auto. rewrite !collect_cons, H by now left.
  rewrite IH; auto. intros b Hb. apply H. now right.
Qed.
Lemma count_perm {A} (q : A -> bool) l l' :
  Permutation l l' -> length (filter q l) = length (filter q l').
Proof.
  intros H. induction H; simpl; auto.
  - destruct (q x); simpl; auto.
  - destruct (q x), (q y); simpl; auto.
  - congruence.
Qed.

Definition osum_eq (a b : option Q) : Prop :=
  match a, b with Some x, Some y => x == y | None, None => True | _, _ => False end.
Lemma sum_opt_perm l l' : Permutation l l' -> osum_eq (sum_opt l) (sum_opt l').
Proof.
  intros H. induction H; simpl.
  - reflexivity.
  - destruct x; [|simpl; auto]. unfold osum_eq in *.
    destruct (sum_opt l), (sum_opt l'); try tauto. now rewrite IHPermutation.
  - destruct x, y, (sum_opt l); simpl; auto. ring.
  - unfold osum_eq in *. destruct (sum_opt l), (sum_opt l'), (sum_opt l''); try tauto.
    now rewrite IHPermutation1.
Qed.

Lemma resource_result_perm rnd uses uses' out :
  Permutation uses uses' -> oequiv (resource_result rnd uses out) (resource_result rnd uses' out).
Proof.
  intros H. unfold resource_result.
  pose proof (sum_opt_perm _ _ (Permutation_map snd H)) as Hs. unfold osum_eq in Hs.
  destruct (sum_opt (map snd uses)) as [s|], (sum_opt (map snd uses')) as [s'|]; try (simpl; tauto).
  rewrite (Qred_complete _ _ Hs).
  destruct (Qle_bool _ (or0 out)); [simpl; auto|]. now apply collect_perm.
Qed.

Lemma slot_entries_perm used total k k' :
  Permutation k k' -> oequiv (slot_entries used total k) (slot_entries used total k').
Proof. intros H. unfold slot_entries. destruct (used >? total); simpl; auto. now apply Permutation_map. Qed.

Lemma tag_equiv t a b : oequiv a b -> oequiv (tag t a) (tag t b).
Proof. destruct a, b; simpl; auto. now apply Permutation_map. Qed.
Lemma vres_app_equiv (a a' b b' : vres) : oequiv a a' -> oequiv b b' -> oequiv (vres_app a b) (vres_app a' b').
Proof. destruct a, a', b, b'; simpl; try tauto. apply Permutation_app. Qed.

Lemma run_equiv skip : forall (l l' : list (Z * (unit -> unit * rres))),
  Forall2 (fun p p' => fst p = fst p' /\ oequiv (snd (snd p tt)) (snd (snd p' tt))) l l' ->
  oequiv (snd (run_restrictions skip l tt)) (snd (run_restrictions skip l' tt)).
Proof.
  intros l l' H. induction H as [|p p' l l' [Ht Hp] _ IH].
  - apply oequiv_refl.
  - destruct p as [t m], p' as [t' m']. cbn [fst snd] in *. subst t'.
    unfold run_restrictions in *. cbn [fold_right fst snd].
    destruct (mem zeqb skip t); auto.
    rewrite !pure_bind. unfold ret. cbn [snd]. apply vres_app_equiv; auto. now apply tag_equiv.
Qed.

Section PermInv.
  Variable val : oracle.
  Variable w : world.
  Variables tr tr' : rid -> list rentry.
  Variable f : nat.
  Hypothesis Hp : forall r, Permutation (tr r) (tr' r).
  Notation prd := (pure_rd val).

  Lemma items_perm r : Permutation (items_of tr r) (items_of tr' r).
  Proof. unfold items_of. apply Permutation_map, Hp. Qed.
  Lemma zlen_perm r : zlen (tr r) = zlen (tr' r).
  Proof. unfold zlen. f_equal. apply Permutation_length, Hp. Qed.

  Lemma uses_pure tr0 reg a :
    snd (mapM (fun x => bind (rdm prd x a) (fun v => ret (x, v))) (items_of tr0 reg) tt)
    = map (fun x => (x, val x a)) (items_of tr0 reg).
  Proof. rewrite pure_mapM. apply map_ext. intros x. now rewrite pure_bind. Qed.

  Lemma perm_resource reg ua oa rnd :
    oequiv (snd (v_resource prd w tr f reg ua oa rnd tt)) (snd (v_resource prd w tr' f reg ua oa rnd tt)).
  Proof.
    unfold v_resource. rewrite !pure_bind, !uses_pure. unfold ret. cbn [snd].
    apply resource_result_perm. apply Permutation_map, items_perm.
  Qed.
  Lemma perm_stat_slot reg h a :
    oequiv (snd (v_stat_slot prd tr reg h a tt)) (snd (v_stat_slot prd tr' reg h a tt)).
  Proof.
    unfold v_stat_slot. rewrite !pure_bind. unfold ret. cbn [snd]. rewrite zlen_perm.
    apply slot_entries_perm. apply Permutation_map, items_perm.
  Qed.
  Lemma perm_max_group k :
    oequiv (snd (v_max_group prd w tr k tt)) (snd (v_max_group prd w tr' k tt)).
  Proof.
    unfold v_max_group. rewrite !pure_bind, !uses_pure. unfold ret. cbn [snd].
    eapply oequiv_trans; [apply collect_perm; apply Permutation_map, items_perm|].
    erewrite collect_ext; [apply oequiv_refl|]. intros [x v] _. cbn [fst snd].
    destruct (type_group w x) as [g|]; auto. destruct v; auto.
    unfold zlen. now rewrite (count_perm _ _ _ (Hp (RMgAll k))).
  Qed.
  Lemma perm_slot_index k : oequiv (v_slot_index tr k) (v_slot_index tr' k).
  Proof.
    unfold v_slot_index.
    eapply oequiv_trans; [apply collect_perm, Hp|].
    erewrite collect_ext; [apply oequiv_refl|]. intros [x p] _. cbn [fst snd].
    destruct p; auto. now rewrite (count_perm _ _ _ (Hp (RIdx k))).
  Qed.
  Lemma perm_capital : oequiv (v_capital w tr f) (v_capital w tr' f).
  Proof. unfold v_capital. match goal with |- context [if ?b then _ else _] => destruct b end;
         [apply oequiv_refl|apply collect_perm, items_perm]. Qed.
  Lemma perm_charge_group : oequiv (v_charge_group w tr) (v_charge_group w tr').
  Proof. apply collect_perm, Hp. Qed.
  Lemma perm_charge_size : oequiv (v_charge_size w tr) (v_charge_size w tr').
  Proof. apply collect_perm, items_perm. Qed.
  Lemma perm_charge_volume : oequiv (v_charge_volume w tr) (v_charge_volume w tr').
  Proof. apply collect_perm, items_perm. Qed.
  Lemma perm_drone_group : oequiv (v_drone_group w tr f) (v_drone_group w tr' f).
  Proof.
    unfold v_drone_group. destruct (w_ship w f); [|apply oequiv_refl].
    destruct (w_static w n); [|apply oequiv_refl].
    destruct (attr_values s DRONE_GROUP_ATTRS); [apply oequiv_refl|apply collect_perm, items_perm].
  Qed.
  Lemma perm_rig_size : oequiv (v_rig_size w tr f) (v_rig_size w tr' f).
  Proof.
    unfold v_rig_size. destruct (w_ship w f); [|apply oequiv_refl].
    destruct (w_tattr w n AttrId_rig_size); [apply collect_perm, items_perm|apply oequiv_refl].
  Qed.
  Lemma perm_stg : oequiv (v_ship_type_group w tr f) (v_ship_type_group w tr' f).
  Proof. unfold v_ship_type_group. match goal with |- context [let '(a, b) := ?x in _] => destruct x end.
         apply collect_perm, Hp. Qed.
  Lemma perm_skillrq : oequiv (v_skill_requirement w tr f) (v_skill_requirement w tr' f).
  Proof. apply collect_perm, items_perm. Qed.
  Lemma perm_state : oequiv (v_state w tr) (v_state w tr').
  Proof. apply collect_perm, items_perm. Qed.

  Theorem validate_rules_perm skip :
    oequiv (snd (validate_rules prd w tr f skip tt)) (snd (validate_rules prd w tr' f skip tt)).
  Proof.
    unfold validate_rules. apply run_equiv. unfold restrictions.
    repeat (constructor; [split; [reflexivity|cbn [snd fst]; unfold ret; cbn [snd];
      first [apply perm_resource | apply perm_stat_slot | apply perm_max_group | apply perm_slot_index
            | apply perm_capital | apply perm_charge_group | apply perm_charge_size | apply perm_charge_volume
            | apply perm_drone_group | apply perm_rig_size | apply perm_stg | apply perm_skillrq
            | apply perm_state | apply oequiv_refl]]|]).
    constructor.
  Qed.
End PermInv.

(* ------------------------------------------------------------------ *)
(* the theorems about the registers of the model                       *)

Definition model_regs (evs : list event) (f : nat) : rid -> list rentry :=
  fr_get (rr_get (restr_events [] evs) f).

Theorem validate_eq_spec_pure : forall evs w f val skip,
  faithful_all evs w f ->
  oequiv (snd (validate_rules (pure_rd val) w (model_regs evs f) f skip tt)) (spec_validate w val f skip).
Proof.
  intros evs w f val skip Hf. unfold spec_validate. apply validate_rules_perm.
  intros r. apply registers_exact. apply Hf.
Qed.

(* the executable model: values through Calc.read_attr, caches threaded *)
Theorem validate_eq_spec_model : forall evs w f (Inv : derived -> Prop) val d skip,
  faithful_all evs w f -> coherent (read_attr PF w) Inv val -> Inv (d_clear d) ->
  oequiv (snd (validate w d (restr_events [] evs) f skip)) (spec_validate w val f skip)
  /\ Inv (fst (validate w d (restr_events [] evs) f skip)).
Proof.
  intros evs w f Inv val d skip Hf Hco Hd. unfold validate.
  destruct (validate_rules_coherent (read_attr PF w) Inv val Hco w (model_regs evs f) f skip _ Hd) as [H1 H2].
  fold (model_regs evs f). split; auto. rewrite H2. now apply validate_eq_spec_pure.
Qed.

Theorem skip_is_filter_model : forall w (Inv : derived -> Prop) val rr f d d' skip out,
  coherent (read_attr PF w) Inv val -> Inv (d_clear d) -> Inv (d_clear d') ->
  snd (validate w d rr f []) = Some out ->
  snd (validate w d' rr f skip) = Some (restrict_types skip out).
Proof.
  intros w Inv val rr f d d' skip out Hco Hd Hd'. unfold validate.
  destruct (validate_rules_coherent (read_attr PF w) Inv val Hco w (fr_get (rr_get rr f)) f [] _ Hd) as [_ H1].
  destruct (validate_rules_coherent (read_attr PF w) Inv val Hco w (fr_get (rr_get rr f)) f skip _ Hd') as [_ H2].
  rewrite H1, H2. apply skip_is_filter_pure.
Qed.

(* two histories ending in the same configuration give the same verdict and data *)
Theorem verdict_cfg_only : forall evs1 evs2 w f val skip,
  faithful_all evs1 w f -> faithful_all evs2 w f ->
  oequiv (snd (validate_rules (pure_rd val) w (model_regs evs1 f) f skip tt))
         (snd (validate_rules (pure_rd val) w (model_regs evs2 f) f skip tt)).
Proof.
  intros. eapply oequiv_trans; [apply validate_eq_spec_pure; auto|].
  apply oequiv_sym. now apply validate_eq_spec_pure.
Qed.

(* ------------------------------------------------------------------ *)
(* reported keys are items currently on the fit                        *)

Lemma collect_forall {A B} (K : B -> Prop) (g : A -> option (list B)) l out :
  collect g l = Some out ->
  (forall a o, In a l -> g a = Some o -> Forall K o) -> Forall K out.
Proof.
  revert out. induction l as [|a l IH]; intros out H Hg.
  - inversion H. constructor.
  - rewrite collect_cons in H. destruct (g a) as [o|] eqn:Ea; [|discriminate].
    destruct (collect g l) as [o'|] eqn:Ec; [|discriminate]. inversion H; subst.
    apply Forall_app. split.
    + eapply Hg; eauto. now left.
    + apply IH; auto. intros b ob Hb. apply Hg. now right.
Qed.

Lemma slice_from_in {A} (x : A) l : forall t, In x (slice_from l t) -> In x l.
Proof.
  induction l as [|y l IH]; intros t H; simpl in *; auto.
  destruct (t <=? 0); auto. right. eapply IH; eauto.
Qed.

Section Live.
  Variable val : oracle.
  Variable w : world.
  Variable tr : rid -> list rentry.
  Variable f : nat.
  Hypothesis Htr : forall r x p, In (x, p) (tr r) -> on_fit w f x = true.
  Hypothesis Hown : containers_owned w f.
  Notation prd := (pure_rd val).
  Definition K (e : rentry_err) : Prop := key_live w f (fst e).

  Lemma live_item x : on_fit w f x = true -> key_live w f (Some x).
  Proof. intros H. exists x. auto. Qed.
  Lemma items_live r x : In x (items_of tr r) -> on_fit w f x = true.
  Proof. unfold items_of. intros H. apply in_map_iff in H. destruct H as [[y p] [E H]]. simpl in E. subst. eauto. Qed.
  Lemma live_charge x c : on_fit w f x = true -> w_charge w x = Some c -> key_live w f (Some c).
  Proof. intros H1 H2. apply live_item. eapply own_charge; eauto. Qed.

  Ltac dm H := repeat match type of H with
                      | context [match ?x with _ => _ end] => destruct x eqn:?
                      | context [if ?x then _ else _] => destruct x eqn:?
                      end.
  Ltac fin H := try discriminate H; inversion H; subst; clear H;
                repeat (apply Forall_cons || apply Forall_nil); unfold K; cbn [fst];
                try (apply live_item; solve [eauto using items_live]);
                try (eapply live_charge; [solve [eauto using items_live]|eassumption]).

  Lemma live_resource reg ua oa rnd out :
    snd (v_resource prd w tr f reg ua oa rnd tt) = Some out -> Forall K out.
  Proof.
    unfold v_resource. rewrite !pure_bind, uses_pure. unfold ret. cbn [snd]. unfold resource_result.
    destruct (sum_opt _); [|discriminate]. destruct (Qle_bool _ _); [intros H; inversion H; constructor|].
    intros H. eapply collect_forall; [exact H|]. intros [x v] oo Ha Hg. cbn beta zeta in Hg; cbn [fst snd] in Hg.
    apply in_map_iff in Ha. destruct Ha as [y [E Hy]]. inversion E; subst.
    destruct (val x ua); [|discriminate]. dm Hg; fin Hg.
  Qed.
  Lemma live_slot_entries used total keys out :
    slot_entries used total keys = Some out -> Forall (key_live w f) keys -> Forall K out.
  Proof.
    unfold slot_entries. destruct (used >? total); intros H Hk; inversion H; subst; [|constructor].
    clear H. induction Hk; simpl; constructor; unfold K; simpl; auto.
  Qed.
  Lemma live_stat_slot reg h a out : snd (v_stat_slot prd tr reg h a tt) = Some out -> Forall K out.
  Proof.
    unfold v_stat_slot. rewrite pure_bind. unfold ret. cbn [snd]. intros H.
    eapply live_slot_entries; [exact H|]. apply Forall_forall. intros k Hk.
    apply in_map_iff in Hk. destruct Hk as [x [E Hx]]. subst. eauto using live_item, items_live.
  Qed.
  Lemma live_ordered k a out : snd (v_ordered prd w f k a tt) = Some out -> Forall K out.
  Proof.
    unfold v_ordered. rewrite pure_bind. unfold ret. cbn [snd]. intros H.
    eapply live_slot_entries; [exact H|]. apply Forall_forall. intros o Ho.
    apply filter_In in Ho. destruct Ho as [Ho Hs]. destruct o as [x|]; [|discriminate].
    apply live_item.
    assert (Hin : In (Some x) (rack_of w f k)) by (eapply slice_from_in; eauto).
    unfold rack_of in Hin. destruct (get_fit w f) eqn:Ef; [|destruct Hin]. eapply own_racks; eauto.
  Qed.
  Lemma live_unordered k a out : snd (v_unordered prd w f k a tt) = Some out -> Forall K out.
  Proof.
    unfold v_unordered. rewrite pure_bind. unfold ret. cbn [snd]. intros H.
    eapply live_slot_entries; [exact H|]. apply Forall_forall. intros o Ho.
    apply in_map_iff in Ho. destruct Ho as [x [E Hx]]. subst. apply live_item.
    unfold set_of in Hx. destruct (get_fit w f) eqn:Ef; [|destruct Hx]. eapply own_sets; eauto.
  Qed.
  Lemma live_max_group k out : snd (v_max_group prd w tr k tt) = Some out -> Forall K out.
  Proof.
    unfold v_max_group. rewrite pure_bind, uses_pure. unfold ret. cbn [snd]. intros H.
    eapply collect_forall; [exact H|]. intros [x v] oo Ha Hg. cbn beta zeta in Hg; cbn [fst snd] in Hg.
    apply in_map_iff in Ha. destruct Ha as [y [E Hy]]. inversion E; subst.
    dm Hg; fin Hg.
  Qed.
  Lemma live_slot_index k out : v_slot_index tr k = Some out -> Forall K out.
  Proof.
    intros H. eapply collect_forall; [exact H|]. intros [x p] oo Ha Hg. cbn beta zeta in Hg; cbn [fst snd] in Hg.
    dm Hg; fin Hg.
  Qed.
  Lemma live_capital out : v_capital w tr f = Some out -> Forall K out.
  Proof.
    unfold v_capital. match goal with |- context [if ?b then _ else _] => destruct b end;
      intros H; [inversion H; constructor|].
    eapply collect_forall; [exact H|]. intros x oo Ha Hg. cbn beta zeta in Hg. dm Hg; fin Hg.
  Qed.
  Lemma live_charge_group out : v_charge_group w tr = Some out -> Forall K out.
  Proof.
    intros H. eapply collect_forall; [exact H|]. intros [x p] oo Ha Hg. cbn beta zeta in Hg; cbn [fst snd] in Hg. dm Hg; fin Hg.
  Qed.
  Lemma live_charge_size out : v_charge_size w tr = Some out -> Forall K out.
  Proof. intros H. eapply collect_forall; [exact H|]. intros x oo Ha Hg. cbn beta zeta in Hg. dm Hg; fin Hg. Qed.
  Lemma live_charge_volume out : v_charge_volume w tr = Some out -> Forall K out.
  Proof.
    intros H. eapply collect_forall; [exact H|]. intros x oo Ha Hg. cbn beta zeta in Hg.
    dm Hg; fin Hg.
  Qed.
  Lemma live_drone_group out : v_drone_group w tr f = Some out -> Forall K out.
  Proof.
    unfold v_drone_group. destruct (w_ship w f); [|intros H; inversion H; constructor].
    destruct (w_static w n); [|intros H; inversion H; constructor].
    destruct (attr_values s DRONE_GROUP_ATTRS); [intros H; inversion H; constructor|].
    intros H. eapply collect_forall; [exact H|]. intros x oo Ha Hg. cbn beta zeta in Hg. dm Hg; fin Hg.
  Qed.
  Lemma live_rig_size out : v_rig_size w tr f = Some out -> Forall K out.
  Proof.
    unfold v_rig_size. destruct (w_ship w f); [|intros H; inversion H; constructor].
    destruct (w_tattr w n AttrId_rig_size); [|intros H; inversion H; constructor].
    intros H. eapply collect_forall; [exact H|]. intros x oo Ha Hg. cbn beta zeta in Hg. dm Hg; fin Hg.
  Qed.
  Lemma live_stg out : v_ship_type_group w tr f = Some out -> Forall K out.
  Proof.
    unfold v_ship_type_group. match goal with |- context [let '(a, b) := ?x in _] => destruct x end.
    intros H. eapply collect_forall; [exact H|]. intros [x p] oo Ha Hg. cbn beta zeta in Hg; cbn [fst snd] in Hg. dm Hg; fin Hg.
  Qed.
  Lemma live_skillrq out : v_skill_requirement w tr f = Some out -> Forall K out.
  Proof.
    intros H. eapply collect_forall; [exact H|]. intros x oo Ha Hg. cbn beta zeta in Hg.
    dm Hg; fin Hg.
  Qed.
  Lemma live_state out : v_state w tr = Some out -> Forall K out.
  Proof. intros H. eapply collect_forall; [exact H|]. intros x oo Ha Hg. cbn beta zeta in Hg. dm Hg; fin Hg. Qed.
  Lemma live_flat (g : nat -> list rentry_err) l :
    (forall x, In x l -> Forall K (g x)) -> Forall K (flat_map g l).
  Proof. intros H. apply Forall_forall. intros e He. apply in_flat_map in He. destruct He as [x [Hx He]].
         specialize (H x Hx). rewrite Forall_forall in H. auto. Qed.
  Lemma fit_list_live x : In x (fit_item_list w f true) -> on_fit w f x = true.
  Proof. unfold fit_item_list. destruct (get_fit w f) eqn:Ef; [|intros []]. intros H. eapply own_items; eauto. Qed.
  Lemma live_loaded_item out : v_loaded_item w f = Some out -> Forall K out.
  Proof.
    unfold v_loaded_item. intros H. inversion H. apply live_flat. intros x Hx.
    destruct (w_loaded w x); repeat constructor. apply live_item, fit_list_live, Hx.
  Qed.
  Lemma live_item_class out : v_item_class w f = Some out -> Forall K out.
  Proof.
    unfold v_item_class. intros H. inversion H. apply live_flat. intros x Hx.
    destruct (get_item w x); [|constructor]. destruct (item_type w i); [|constructor].
    destruct (class_validator _ _ _); repeat constructor. apply live_item, fit_list_live, Hx.
  Qed.

  Lemma live_run skip : forall (l : list (Z * (unit -> unit * rres))) out,
    Forall (fun p => forall o, snd (snd p tt) = Some o -> Forall K o) l ->
    snd (run_restrictions skip l tt) = Some out ->
    Forall (fun e : ventry => key_live w f (fst (fst e))) out.
  Proof.
    induction l as [|p l IH]; intros out Hl.
    - rewrite run_nil. unfold ret. cbn [snd]. intros H. inversion H. constructor.
    - inversion Hl as [|? ? Hp Hl']; subst. rewrite run_cons. destruct (mem zeqb skip (fst p)); [now apply IH|].
      rewrite !pure_bind. unfold ret. cbn [snd].
      destruct (snd (snd p tt)) as [la|] eqn:Ea; [|discriminate].
      destruct (snd (run_restrictions skip l tt)) as [lb|] eqn:Eb; [|discriminate].
      unfold tag, vres_app. intros H. inversion H; subst. apply Forall_app. split; [|now apply IH].
      specialize (Hp la Ea). clear -Hp. induction Hp; simpl; constructor; auto.
  Qed.

  Theorem reported_live_pure skip out :
    snd (validate_rules prd w tr f skip tt) = Some out ->
    Forall (fun e : ventry => key_live w f (fst (fst e))) out.
  Proof.
    unfold validate_rules. apply live_run. unfold restrictions.
    repeat (constructor; [cbn [snd fst]; unfold ret; cbn [snd]; intros o;
      first [apply live_resource | apply live_stat_slot | apply live_ordered | apply live_unordered
            | apply live_max_group | apply live_slot_index | apply live_capital | apply live_charge_group
            | apply live_charge_size | apply live_charge_volume | apply live_drone_group | apply live_rig_size
            | apply live_stg | apply live_skillrq | apply live_state | apply live_loaded_item
            | apply live_item_class]|]).
    constructor.
  Qed.
End Live.

Lemma model_regs_live evs w f :
  faithful_all evs w f -> forall r x p, In (x, p) (model_regs evs f r) -> on_fit w f x = true.
Proof.
  intros Hf r x p H. destruct (registers_exact_inv evs w f r (Hf r)) as [_ Hi].
  apply Hi in H. destruct H as [s [E _]]. unfold cur_status in E.
  destruct (chan_act (rd_chan (desc r)) w f x) eqn:Ea; [|discriminate].
  unfold chan_act in Ea. now apply andb_true_iff in Ea.
Qed.

Theorem reported_live_model : forall evs w f (Inv : derived -> Prop) val d skip out,
  faithful_all evs w f -> containers_owned w f ->
  coherent (read_attr PF w) Inv val -> Inv (d_clear d) ->
  snd (validate w d (restr_events [] evs) f skip) = Some out ->
  Forall (fun e : ventry => key_live w f (fst (fst e))) out.
Proof.
  intros evs w f Inv val d skip out Hf Hown Hco Hd. unfold validate.
  destruct (validate_rules_coherent (read_attr PF w) Inv val Hco w (model_regs evs f) f skip _ Hd) as [_ H2].
  fold (model_regs evs f). rewrite H2. apply reported_live_pure; auto. now apply model_regs_live.
Qed.

(* the stateless rules themselves only report live items *)
Theorem spec_reported_live : forall w val f skip out,
  containers_owned w f -> spec_validate w val f skip = Some out ->
  Forall (fun e : ventry => key_live w f (fst (fst e))) out.
Proof.
  intros w val f skip out Hown. unfold spec_validate. apply reported_live_pure; auto.
  intros r x p H. apply spec_reg_in in H. destruct H as [s [E _]]. unfold cur_status in E.
  destruct (chan_act (rd_chan (desc r)) w f x) eqn:Ea; [|discriminate].
  unfold chan_act in Ea. now apply andb_true_iff in Ea.
Qed.

(* ------------------------------------------------------------------ *)
(* obligations: the tables generated from the source are the constants *)
(* of the model                                                        *)

Definition chan_kinds (c : chan) : list Z :=
  match c with
  | ChLoaded => [5; 6] | ChStLoaded _ => [7; 8] | ChSt _ => [3; 4] | ChEff _ => [9; 10] end.
Definition chan_param (c : chan) : list Z :=
  match c with ChLoaded => [] | ChStLoaded s => [s] | ChSt s => [s] | ChEff e => [e] end.
Definition cls_code (c : icls) : Z :=
  match c with
  | CShip => 1 | CCharacter => 2 | CStance => 3 | CBeacon => 4 | CSkill => 5 | CImplant => 6 | CBooster => 7
  | CSubsystem => 8 | CModHigh => 9 | CModMid => 10 | CModLow => 11 | CRig => 12 | CDrone => 13
  | CFighter => 14 | CCharge => 15 | CAutocharge => 16 end.
Definition all_classes : list icls :=
  [CShip; CCharacter; CStance; CBeacon; CSkill; CImplant; CBooster; CSubsystem; CModHigh; CModMid; CModLow;
   CRig; CDrone; CFighter; CCharge; CAutocharge].
Definition model_types : list Z :=
  map fst (restrictions (pure_rd (fun _ _ => None)) empty_world (fun _ => []) 0%nat).
Definition kinds_of (r : rid) : list Z := chan_kinds (rd_chan (desc r)).
Definition param_of (r : rid) : list Z := chan_param (rd_chan (desc r)).

Definition tables_statement : Prop :=
  (* the service registers exactly the modelled restrictions, under their types *)
  service_types = model_types /\
  (* subscribed message kinds per register *)
  kinds_of RCapital = capital_item_CapitalItemRestrictionRegister_kinds /\
  kinds_of RChGroup = charge_group_ChargeGroupRestrictionRegister_kinds /\
  kinds_of RChSize = charge_size_ChargeSizeRestrictionRegister_kinds /\
  kinds_of RChVol = charge_volume_ChargeVolumeRestrictionRegister_kinds /\
  kinds_of RDroneGrp = drone_group_DroneGroupRestrictionRegister_kinds /\
  kinds_of (RMgAll MgFitted) = max_group_MaxGroupFittedRestrictionRegister_kinds /\
  kinds_of (RMgRes MgFitted) = max_group_MaxGroupFittedRestrictionRegister_kinds /\
  kinds_of (RMgAll MgOnline) = max_group_MaxGroupOnlineRestrictionRegister_kinds /\
  kinds_of (RMgRes MgOnline) = max_group_MaxGroupOnlineRestrictionRegister_kinds /\
  kinds_of (RMgAll MgActive) = max_group_MaxGroupActiveRestrictionRegister_kinds /\
  kinds_of (RMgRes MgActive) = max_group_MaxGroupActiveRestrictionRegister_kinds /\
  kinds_of RRigSize = rig_size_RigSizeRestrictionRegister_kinds /\
  kinds_of RStg = ship_type_group_ShipTypeGroupRestrictionRegister_kinds /\
  kinds_of RSkillRq = skill_requirement_SkillRequirementRestrictionRegister_kinds /\
  kinds_of (RIdx IxSubsystem) = slot_index_SlotIndexRestrictionRegister_kinds /\
  kinds_of RState = state_StateRestrictionRegister_kinds /\
  kinds_of SCpu = st_ship_regular_ShipRegularResourceRegister_kinds /\
  kinds_of SPower = st_ship_regular_ShipRegularResourceRegister_kinds /\
  kinds_of SCalib = st_ship_regular_ShipRegularResourceRegister_kinds /\
  kinds_of SDroneBay = st_dronebay_volume_DronebayVolumeRegister_kinds /\
  kinds_of SBandwidth = st_drone_bandwidth_DroneBandwidthRegister_kinds /\
  kinds_of STurret = st_hardpoint_effect_HardpointEffectSlotRegister_kinds /\
  kinds_of SLauncher = st_hardpoint_effect_HardpointEffectSlotRegister_kinds /\
  kinds_of SLaunched = st_launched_drone_LaunchedDroneRegister_kinds /\
  kinds_of (SFs FsSupport) = st_fighter_squad_FighterSquadTypeRegister_kinds /\
  (* the state / effect a handler looks for, and every other constant of the method bodies *)
  max_group_MaxGroupOnlineRestrictionRegister_consts
    = param_of (RMgAll MgOnline) ++ [-1] ++ param_of (RMgRes MgOnline) ++ [-1] /\
  max_group_MaxGroupActiveRestrictionRegister_consts
    = param_of (RMgAll MgActive) ++ [-1] ++ param_of (RMgRes MgActive) ++ [-1] /\
  state_StateRestrictionRegister_consts = [-1] ++ param_of RState ++ [-1] ++ param_of RState ++ [-1; -1] /\
  rig_size_RigSizeRestrictionRegister_consts
    = [-1] ++ param_of RRigSize ++ [AttrId_rig_size; -1] ++ param_of RRigSize
      ++ [-1; AttrId_rig_size; AttrId_rig_size; -1] /\
  capital_item_CapitalItemRestrictionRegister_consts
    = [-1; AttrId_volume; -1; -1; AttrId_is_capital_size; AttrId_volume; -1] /\
  charge_size_ChargeSizeRestrictionRegister_consts
    = [-1; AttrId_charge_size; -1; -1; AttrId_charge_size; AttrId_charge_size; -1] /\
  charge_volume_ChargeVolumeRestrictionRegister_consts = [-1; -1; -1; AttrId_volume; 0; AttrId_capacity; 0; -1] /\
  slot_index_SlotIndexRestrictionRegister_consts = [-1; -1; -1; -1; -1; 1; -1] /\
  resource_ResourceRestriction_consts = [-1; -1; -1; 0; 0; -1] /\
  st_drone_bandwidth_DroneBandwidthRegister_consts
    = [-1; AttrId_drone_bandwidth_used; -1; AttrId_drone_bandwidth; 0; -1; -1] ++ param_of SBandwidth
      ++ [AttrId_drone_bandwidth_used; -1] ++ param_of SBandwidth ++ [-1] /\
  st_dronebay_volume_DronebayVolumeRegister_consts
    = [-1; AttrId_volume; -1; AttrId_drone_capacity; 0; -1; -1; AttrId_volume; -1; -1] /\
  st_launched_drone_LaunchedDroneRegister_consts
    = [-1; -1; AttrId_max_active_drones; 0; -1; -1] ++ param_of SLaunched ++ [-1] ++ param_of SLaunched ++ [-1] /\
  st_ship_regular_RoundedShipRegularResourceRegister_consts = [2; -1] /\
  st_service_StatService_consts
    = [-1; AttrId_hi_slots; -1; AttrId_med_slots; -1; AttrId_low_slots; -1; AttrId_rig_slots; -1;
       AttrId_max_subsystems; -1; AttrId_fighter_tubes; -1; 0; -1] /\
  (* class-level ids: [output; effect; use] of the resource registers, [effect; slots] of the hardpoints ... *)
  st_ship_regular_CpuRegister_attrs = [AttrId_cpu_output] ++ param_of SCpu ++ [AttrId_cpu] /\
  st_ship_regular_PowergridRegister_attrs = [AttrId_power_output] ++ param_of SPower ++ [AttrId_power] /\
  st_ship_regular_CalibrationRegister_attrs = [AttrId_upgrade_capacity] ++ param_of SCalib ++ [AttrId_upgrade_cost] /\
  st_hardpoint_effect_TurretSlotRegister_attrs = param_of STurret ++ [AttrId_turret_slots_left] /\
  st_hardpoint_effect_LauncherSlotRegister_attrs = param_of SLauncher ++ [AttrId_launcher_slots_left] /\
  st_fighter_squad_FighterSquadSupportRegister_attrs = [fs_attr FsSupport; fs_ship_attr FsSupport] /\
  st_fighter_squad_FighterSquadLightRegister_attrs = [fs_attr FsLight; fs_ship_attr FsLight] /\
  st_fighter_squad_FighterSquadHeavyRegister_attrs = [fs_attr FsHeavy; fs_ship_attr FsHeavy] /\
  max_group_MaxGroupFittedRestrictionRegister_attrs = [mg_attr MgFitted] /\
  max_group_MaxGroupOnlineRestrictionRegister_attrs = [mg_attr MgOnline] /\
  max_group_MaxGroupActiveRestrictionRegister_attrs = [mg_attr MgActive] /\
  slot_index_SubsystemIndexRestrictionRegister_attrs = [cls_code (idx_cls IxSubsystem); idx_attr IxSubsystem] /\
  slot_index_ImplantIndexRestrictionRegister_attrs = [cls_code (idx_cls IxImplant); idx_attr IxImplant] /\
  slot_index_BoosterIndexRestrictionRegister_attrs = [cls_code (idx_cls IxBooster); idx_attr IxBooster] /\
  resource_CpuRestriction_attrs = [AttrId_cpu] /\ resource_PowergridRestriction_attrs = [AttrId_power] /\
  resource_CalibrationRestriction_attrs = [AttrId_upgrade_cost] /\
  resource_DroneBayVolumeRestriction_attrs = [AttrId_volume] /\
  resource_DroneBandwidthRestriction_attrs = [AttrId_drone_bandwidth_used] /\
  (* module-level constants *)
  inject_Z capital_item_MAX_SUBCAP_VOLUME = MAX_SUBCAP_VOLUME /\
  capital_item_TRACKED_ITEM_CLASSES = map cls_code (filter is_module all_classes) /\
  max_group_TRACKED_ITEM_CLASSES = map cls_code (filter is_module all_classes) /\
  ship_type_group_TRACKED_ITEM_CLASSES = map cls_code (filter is_module all_classes) /\
  charge_group_ALLOWED_GROUP_ATTR_IDS = CHARGE_GROUP_ATTRS /\
  drone_group_ALLOWED_GROUP_ATTR_IDS = DRONE_GROUP_ATTRS /\
  ship_type_group_ALLOWED_TYPE_ATTR_IDS = SHIP_TYPE_ATTRS /\
  ship_type_group_ALLOWED_GROUP_ATTR_IDS = SHIP_GROUP_ATTRS /\
  skill_requirement_EXCEPTIONS = [cls_code CRig] /\
  state_EXCEPTIONS = map cls_code (filter is_charge_cls all_classes) /\
  item_class_validated_classes = map cls_code VALIDATED_CLASSES /\
  item_class_validator_Booster = [TypeCategoryId_implant; AttrId_boosterness] /\
  item_class_validator_Character = [TypeGroupId_character] /\
  item_class_validator_Charge = [TypeCategoryId_charge] /\
  item_class_validator_Drone = [TypeCategoryId_drone] /\
  item_class_validator_EffectBeacon = [TypeGroupId_effect_beacon] /\
  item_class_validator_FighterSquad
    = [TypeCategoryId_fighter; AttrId_fighter_squadron_is_heavy; AttrId_fighter_squadron_is_light;
       AttrId_fighter_squadron_is_support] /\
  item_class_validator_Implant = [TypeCategoryId_implant; AttrId_implantness] /\
  item_class_validator_ModuleHigh = [TypeCategoryId_module; EffectId_hi_power] /\
  item_class_validator_ModuleMid = [TypeCategoryId_module; EffectId_med_power] /\
  item_class_validator_ModuleLow = [TypeCategoryId_module; EffectId_lo_power] /\
  item_class_validator_Rig = [TypeCategoryId_module; EffectId_rig_slot] /\
  item_class_validator_Ship = [TypeCategoryId_ship] /\
  item_class_validator_Skill = [TypeCategoryId_skill] /\
  item_class_validator_Stance = [TypeGroupId_ship_modifier] /\
  item_class_validator_Subsystem = [TypeCategoryId_subsystem; EffectId_subsystem].

Lemma tables_ok : tables_statement.
Proof. unfold tables_statement. vm_compute. repeat split; reflexivity. Qed.

(* ------------------------------------------------------------------ *)
(* faithfulness is an invariant of [Ops.md_op] — proved here only for   *)
(* the operations that publish nothing on the register channels and     *)
(* leave items untouched (the full statement is the message-discipline *)
(* theorem of the engine layer)                                        *)

Lemma faithful_frame : forall c evs evs' w w' f,
  faithful c evs w f ->
  chan_sigs c f evs' = [] ->
  (forall x, cur_status c w' f x = cur_status c w f x) ->
  faithful c (evs ++ evs') w' f.
Proof.
  intros c evs evs' w w' f H He Hs x. unfold chan_sigs in *. rewrite flat_map_app, He, app_nil_r, Hs. apply H.
Qed.

Definition quiet_op (o : op) : bool :=
  match o with
  | ONewSolsys _ | ORead _ _ | OGet _ _ | OKeys _ | OEffects _ => true
  | _ => false
  end.

Theorem faithful_md_op_partial : forall evs w f o,
  quiet_op o = true -> faithful_all evs w f ->
  faithful_all (evs ++ snd (fst (md_op w o))) (fst (fst (md_op w o))) f.
Proof.
  intros evs w f o Hq H r. destruct o; try discriminate Hq; simpl;
    (apply faithful_frame with (w := w); [apply H|reflexivity|]); intros x; reflexivity.
Qed.
