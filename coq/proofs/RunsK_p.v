(* C05 for charges and autocharges, second part: the invariant KJ (running sets of directly held items and of
   charges / autocharges, ownership, flat sources, links between items and the items they hold) through the
   container, setter, fleet, solar-system and source operations. First part: proofs/RunsC_p.v. *)
From Coq Require Import ZArith QArith List Bool Lia.
From EosV Require Import lib.AList gen.T_eos model.World model.Status model.Calc model.Engine model.Ops
     model.Wf proofs.AList_p proofs.Rack_p proofs.Frame_p proofs.Containers_p proofs.Status_p proofs.Owner_p
     proofs.Cinv_p proofs.Runs_p proofs.Link_p proofs.RunsC_p.
Import ListNotations.

Opaque add_item remove_item load unload.

(* ------------------------------------------------------------------ *)
(* any item, the fuel of the operations                                 *)

(* sources are flat: effect lists have no duplicates, and whatever a type loads as an autocharge defines no
   autocharge itself (a property of the sources alone) *)
Definition FLATs (w : world) : Prop := forall tid, auto_ok w tid.
Lemma FLATs_srcs w w' : w_srcs w' = w_srcs w -> FLATs w -> FLATs w'.
Proof.
  intros Hs H tid s u t Gu Gt. unfold get_src in Gu. rewrite Hs in Gu. destruct (H tid s u t Gu Gt) as (H1 & H2).
  split; [exact H1|]. intros e ef aa q I Ge Ha Hq. apply (NAtid_srcs w w' _ Hs). now apply (H2 e ef aa q).
Qed.

Lemma F_eq : F = S (S (S (S 8))). Proof. reflexivity. Qed.

Lemma KK_same_is w w' : same_is w w' -> KK w -> KK w'.
Proof.
  intros (Hi & _ & Hs) K. apply (KK_same_k w w'); [|exact K]. split; [exact Hs|].
  intros j. unfold get_item. now rewrite Hi.
Qed.

Lemma remove_sticky_unload n s i : sticky (fst (unload n s i)) (fst (remove_item (S n) s i)).
Proof.
  set (fit := item_fit (fst s) i).
  set (one := fun (s : st) sub => let s := unload n s sub in
                                  match fit with
                                  | Some f => with_msgs s f (fun w => item_removed_msgs w sub)
                                  | None => s
                                  end).
  set (s1 := one s i).
  set (s2 := match get_item (fst s1) i with
             | Some it => fold_left one (child_items it true) s1
             | None => lift s1 (fun w => fail w EKeyAbsent)
             end).
  assert (Eres : fst (remove_item (S n) s i) = upd_item (fst s2) i (fun it => it_set_cont it None)) by reflexivity.
  rewrite Eres.
  assert (Sone : forall s0 x, sticky (fst s0) (fst (one s0 x))).
  { intros s0 x. unfold one. cbv zeta. eapply sticky_trans; [apply sticky_unload|].
    destruct fit; [|apply sticky_refl]. apply with_msgs_sticky. intros; apply removed_sticky. }
  eapply sticky_trans; [|apply sticky_upd].
  assert (S12 : sticky (fst s1) (fst s2)).
  { subst s2. destruct (get_item (fst s1) i).
    - apply (C_fold sticky sticky_refl sticky_trans). intros; apply Sone.
    - unfold lift. cbn [fst]. apply sticky_fail. }
  eapply sticky_trans; [|exact S12].
  unfold s1, one. cbv zeta. destruct fit; [|apply sticky_refl]. apply with_msgs_sticky. intros; apply removed_sticky.
Qed.

Theorem remove_KK s i :
  J (fst s) -> KK (fst s) -> CP (fst s) -> LS (fst s) -> w_err (fst (remove_item F s i)) = None ->
  KK (fst (remove_item F s i)) /\ w_srcs (fst (remove_item F s i)) = w_srcs (fst s).
Proof.
  intros Js K Cp Ls He. rewrite F_eq in *.
  destruct (get_item (fst s) i) as [it|] eqn:Hi.
  - destruct (direct_dec it) as [D|D].
    + destruct (remove_dir 8 s i it Js K Cp Ls Hi D He) as (K' & S' & _). now split.
    + destruct (remove_leaf 10 s i it K Hi D He) as (K' & (S' & _) & _). now split.
  - exfalso. apply (remove_sticky_unload 11 s i) in He. revert He. cbn [unload]. rewrite Hi.
    unfold lift. cbn [fst]. intros H. exact (err_fail_none _ _ H).
Qed.

Lemma racklike_some p : racklike_of p <> None -> racklike_of p = Some p.
Proof. destruct p; cbn; congruence. Qed.

(* the invariant carried through the operations *)
Definition KJ (w : world) : Prop := RJ w /\ KK w /\ FLATs w /\ CP w /\ LS w.

(* same items, ids, sources, and every fit sees the source it saw *)
Definition same_isf (w w' : world) : Prop := same_is w w' /\ same_src w w'.
Lemma same_isf_refl w : same_isf w w. Proof. split; [apply same_is_refl|apply same_src_refl]. Qed.
Lemma same_isf_trans a b c : same_isf a b -> same_isf b c -> same_isf a c.
Proof. intros (A1 & A2) (B1 & B2). split; [eapply same_is_trans; eauto|eapply same_src_trans; eauto]. Qed.
Lemma same_src_fail w e : same_src w (fail w e).
Proof. intros f. unfold fail. destruct (w_err w); reflexivity. Qed.
Lemma same_src_upd_fit w f g : (forall ft, f_solsys (g ft) = f_solsys ft) -> same_src w (upd_fit w f g).
Proof.
  intros Hg. unfold upd_fit. destruct (get_fit w f) as [ft|] eqn:Gf; [|apply same_src_fail].
  intros f'. unfold fit_source_id, fit_solsys, get_fit, put_fit. cbn [w_fits set_fits w_ss].
  destruct (Nat.eq_dec f' f) as [->|N].
  - rewrite al_get_set_same. unfold get_fit in Gf. rewrite Gf. now rewrite Hg.
  - rewrite al_get_set_other by congruence. reflexivity.
Qed.
Lemma same_isf_upd_fit w f g : (forall ft, f_solsys (g ft) = f_solsys ft) -> same_isf w (upd_fit w f g).
Proof. intros Hg. split; [apply same_is_upd_fit|now apply same_src_upd_fit]. Qed.
Lemma same_isf_set_rack s f k l : same_isf (fst s) (fst (set_rack s f k l)).
Proof. unfold set_rack, lift, put_rack. cbn [fst]. apply same_isf_upd_fit. intros ft. destruct k; reflexivity. Qed.
Lemma same_isf_put_setc w f k l : same_isf w (put_setc w f k l).
Proof. unfold put_setc. apply same_isf_upd_fit. intros ft. destruct k; reflexivity. Qed.
Lemma same_isf_put_skillmap w f m : same_isf w (put_skillmap w f m).
Proof. unfold put_skillmap. apply same_isf_upd_fit. intros ft. reflexivity. Qed.
Lemma same_isf_set_slot w f k v : same_isf w (upd_fit w f (fun ft => fit_set_slot ft k v)).
Proof. apply same_isf_upd_fit. intros ft. destruct k; reflexivity. Qed.
Lemma same_isf_fleet_link w fl l f v :
  same_isf w (upd_fit (set_fleets w (al_set neqb (w_fleets w) fl l)) f (fun ft => fit_set_fleet ft v)).
Proof.
  eapply same_isf_trans; [|apply same_isf_upd_fit; intros ft; reflexivity].
  split; [repeat split|intros f0; reflexivity].
Qed.
Lemma LS_same_isf w w' : same_isf w w' -> LS w -> LS w'.
Proof.
  intros (S & Ss) L. apply (LS_frame w w' L Ss). intros j jit' Gj Dj. right. exists jit'.
  rewrite <- (same_is_get _ _ j S). auto.
Qed.
Lemma KJ_same_is w w' : same_isf w w' -> KJ w -> KJ w'.
Proof.
  intros Sf (R & K & Fl & Cp & Ls). pose proof (proj1 Sf) as S.
  split; [eapply RJ_same_is; eauto|split; [eapply KK_same_is; eauto|split; [|split]]].
  - apply (FLATs_srcs w w'); [apply S|exact Fl].
  - apply (CP_same_l w w'); [apply same_l_items; apply S|exact Cp].
  - now apply (LS_same_isf w w').
Qed.

Theorem enter_KJ (s s1 : st) i p it :
  KJ (fst s) -> same_isf (fst s) (fst s1) -> get_item (fst s) i = Some it -> direct it ->
  has_container (fst s) i = false -> racklike_of p <> None ->
  w_err (fst (add_item F s1 i p)) = None -> KJ (fst (add_item F s1 i p)).
Proof.
  intros (R & K & Fl & Cp & Ls) Sf Hi D Hc Hp He. pose proof (proj1 Sf) as S.
  assert (R1 : RJ (fst (add_item F s1 i p))) by (eapply (enter_RJ s); eauto).
  pose proof (KJ_same_is _ _ Sf (conj R (conj K (conj Fl (conj Cp Ls))))) as (R' & K' & Fl' & Cp' & Ls').
  assert (Hi1 : get_item (fst s1) i = Some it) by (now rewrite (same_is_get _ _ i S)).
  assert (Hl : i_loaded it = None) by (apply (no_container_unloaded (fst s) i it (proj1 R) Hi D Hc)).
  rewrite F_eq in *.
  destruct (add_dir 8 s1 i it p (proj2 R') K' Cp' Ls' Hi1 D Hl (racklike_some p Hp) (Fl' (i_tid it)) He) as (K2 & S2 & _ & Cp2 & Ls2).
  split; [exact R1|split; [exact K2|split; [|split; [exact Cp2|exact Ls2]]]]. apply (FLATs_srcs (fst s1)); [exact S2|exact Fl'].
Qed.

(* what fit containers list exists and is held directly *)
Definition LD (w : world) : Prop := forall p i, In i (members w p) -> exists it, get_item w i = Some it /\ direct it.
Lemma CI_LD w : CI w -> LD w.
Proof.
  intros (Jw & M & _) p i Hin. apply M in Hin. destruct (fitcont_some_cls w i _ Jw Hin) as (c & Hc & Nc).
  destruct (cls_of_some' _ _ _ Hc) as (it & Hi & Ec). exists it. split; [exact Hi|].
  destruct (direct_dec it) as [D|D]; [exact D|]. exfalso. apply Nc. rewrite <- Ec. now apply direct_childcls.
Qed.
Lemma direct_kept w w' i : cls_kept w w' -> (exists it, get_item w i = Some it /\ direct it) ->
  exists it', get_item w' i = Some it' /\ direct it'.
Proof.
  intros Ck (it & Hi & D). assert (C : cls_of w i = Some (i_cls it)) by (unfold cls_of; now rewrite Hi).
  destruct (cls_of_some' _ _ _ (Ck _ _ C)) as (it' & Hi' & Ec). exists it'. split; [exact Hi'|].
  unfold direct in *. now rewrite Ec.
Qed.

Theorem remove_KJ s i :
  KJ (fst s) -> (exists it, get_item (fst s) i = Some it /\ direct it) ->
  w_err (fst (remove_item F s i)) = None -> KJ (fst (remove_item F s i)).
Proof.
  intros (R & K & Fl & Cp & Ls) (it & Hi & D) He. destruct (remove_KK s i (proj2 R) K Cp Ls He) as (K2 & S2).
  split; [now apply remove_RJ|split; [exact K2|split; [|split]]].
  - apply (FLATs_srcs (fst s)); [exact S2|exact Fl].
  - rewrite F_eq in *. now destruct (remove_dir 8 s i it (proj2 R) K Cp Ls Hi D He) as (_ & _ & _ & Cp' & _).
  - rewrite F_eq in *. now destruct (remove_dir 8 s i it (proj2 R) K Cp Ls Hi D He) as (_ & _ & _ & _ & Ls').
Qed.

(* ------------------------------------------------------------------ *)
(* the container operations keep KJ (the proofs of proofs/Runs_p.v, over the larger invariant) *)

Lemma KJ_fold_err {A} (f : st -> A -> st) l :
  (forall s x, sticky (fst s) (fst (f s x))) ->
  (forall s x, KJ (fst s) -> w_err (fst (f s x)) = None -> KJ (fst (f s x))) ->
  forall s, KJ (fst s) -> w_err (fst (fold_left f l s)) = None -> KJ (fst (fold_left f l s)).
Proof.
  intros Hs H. induction l as [|x r IH]; intros s R He; simpl in *; [exact R|].
  apply IH; [|exact He]. apply H; [exact R|].
  exact (C_fold sticky sticky_refl sticky_trans f r Hs (f s x) He).
Qed.

Lemma rack_enter_KJ s f k i l2 c :
  KJ (fst s) -> cls_of (fst s) i = Some c -> rack_accepts k c = true -> has_container (fst s) i = false ->
  w_err (fst (add_item F (set_rack s f k l2) i (PRack f k))) = None ->
  KJ (fst (add_item F (set_rack s f k l2) i (PRack f k))).
Proof.
  intros R Hc Ha Hn He. destruct (cls_of_some' _ _ _ Hc) as (it & Hi & Ec).
  eapply (enter_KJ s); eauto.
  - apply same_isf_set_rack.
  - eapply rack_accepts_direct; eauto.
  - discriminate.
Qed.

Theorem rack_append_KJ s f k i :
  KJ (fst s) -> w_err (fst (fst (rack_append s f k i))) = None -> KJ (fst (fst (rack_append s f k i))).
Proof.
  intros R. unfold rack_append.
  destruct (cls_of (fst s) i) as [c|] eqn:Hc; [|auto].
  destruct (rack_accepts k c) eqn:Ha; cbn [negb]; [|auto].
  destruct (has_container (fst s) i) eqn:Hn; [auto|]. cbn [fst].
  now apply (rack_enter_KJ s f k i _ c).
Qed.

Theorem rack_insert_KJ s f k idx v :
  KJ (fst s) -> w_err (fst (fst (rack_insert s f k idx v))) = None -> KJ (fst (fst (rack_insert s f k idx v))).
Proof.
  intros R. unfold rack_insert.
  destruct v as [i|].
  - destruct (cls_of (fst s) i) as [c|] eqn:Hc; cbn [negb]; [|auto].
    destruct (rack_accepts k c) eqn:Ha; cbn [negb]; [|auto].
    destruct (has_container (fst s) i) eqn:Hn; cbn [fst].
    + intros _. eapply KJ_same_is; [apply same_isf_set_rack|exact R].
    + now apply (rack_enter_KJ s f k i _ c).
  - cbn [negb fst]. intros _. eapply KJ_same_is; [apply same_isf_set_rack|exact R].
Qed.

Theorem rack_place_KJ s f k idx i :
  KJ (fst s) -> w_err (fst (fst (rack_place s f k idx i))) = None -> KJ (fst (fst (rack_place s f k idx i))).
Proof.
  intros R. unfold rack_place.
  destruct (cls_of (fst s) i) as [c|] eqn:Hc; [|auto].
  destruct (rack_accepts k c) eqn:Ha; cbn [negb]; [|auto].
  set (l := get_rack (fst s) f k).
  assert (P : forall l1,
    w_err (fst (fst (match norm_index (length l1) idx with
                     | None => (s, RExn XIndex)
                     | Some n =>
                       if has_container (fst s) i
                       then (set_rack s f k (cleanup (list_set l1 n None)), RExn XValue)
                       else (add_item F (set_rack s f k (list_set l1 n (Some i))) i (PRack f k), ROk)
                     end))) = None ->
    KJ (fst (fst (match norm_index (length l1) idx with
                  | None => (s, RExn XIndex)
                  | Some n =>
                    if has_container (fst s) i
                    then (set_rack s f k (cleanup (list_set l1 n None)), RExn XValue)
                    else (add_item F (set_rack s f k (list_set l1 n (Some i))) i (PRack f k), ROk)
                  end)))).
  { intros l1. destruct (norm_index (length l1) idx) as [n|]; [|auto].
    destruct (has_container (fst s) i) eqn:Hn; cbn [fst].
    - intros _. eapply KJ_same_is; [apply same_isf_set_rack|exact R].
    - now apply (rack_enter_KJ s f k i _ c). }
  destruct (norm_index (length l) idx) as [n|] eqn:En.
  - destruct (nth_error l n) as [[j|]|]; [auto| |]; specialize (P l); rewrite En in P; exact P.
  - apply P.
Qed.

Theorem rack_equip_KJ s f k i :
  KJ (fst s) -> w_err (fst (fst (rack_equip s f k i))) = None -> KJ (fst (fst (rack_equip s f k i))).
Proof.
  intros R. unfold rack_equip.
  destruct (cls_of (fst s) i) as [c|] eqn:Hc; [|auto].
  destruct (rack_accepts k c) eqn:Ha; cbn [negb]; [|auto].
  destruct (equip_list _ i) as [l1 n].
  destruct (has_container (fst s) i) eqn:Hn; cbn [fst].
  - intros _. eapply KJ_same_is; [apply same_isf_set_rack|exact R].
  - now apply (rack_enter_KJ s f k i _ c).
Qed.

Lemma nth_rack_items (l : rack) n i : nth_error l n = Some (Some i) -> In i (rack_items l).
Proof.
  revert n. induction l as [|x l IH]; intros [|n] H; cbn in H; try discriminate.
  - injection H as ->. unfold rack_items. cbn. now left.
  - unfold rack_items in *. cbn. apply in_or_app. right. now apply (IH n).
Qed.

Theorem rack_remove_KJ s f k a :
  KJ (fst s) -> LD (fst s) -> w_err (fst (fst (rack_remove s f k a))) = None -> KJ (fst (fst (rack_remove s f k a))).
Proof.
  intros R Ld. unfold rack_remove.
  destruct (rack_locate _ a) as [[n v]|e] eqn:L; [|auto]. cbn [fst]. destruct v as [i|].
  - intros He. pose proof (sticky_set_rack _ _ _ _ He) as E1.
    eapply KJ_same_is; [apply same_isf_set_rack|]. apply remove_KJ; [exact R| |exact E1].
    apply (Ld (PRack f k)). rewrite members_rack. apply (nth_rack_items _ n). now apply (rack_locate_nth _ a).
  - intros _. eapply KJ_same_is; [apply same_isf_set_rack|exact R].
Qed.

Theorem rack_free_KJ s f k a :
  KJ (fst s) -> LD (fst s) -> w_err (fst (fst (rack_free s f k a))) = None -> KJ (fst (fst (rack_free s f k a))).
Proof.
  intros R Ld. unfold rack_free.
  destruct (rack_locate _ a) as [[n [i|]]|e] eqn:L; auto. cbn [fst].
  intros He. pose proof (sticky_set_rack _ _ _ _ He) as E1.
  eapply KJ_same_is; [apply same_isf_set_rack|]. apply remove_KJ; [exact R| |exact E1].
  apply (Ld (PRack f k)). rewrite members_rack. apply (nth_rack_items _ n). now apply (rack_locate_nth _ a).
Qed.

Lemma remove_fold_KJ {A} (g : A -> option nat) l : forall s,
  KJ (fst s) ->
  (forall v i, In v l -> g v = Some i -> exists it, get_item (fst s) i = Some it /\ direct it) ->
  w_err (fst (fold_left (fun s v => match g v with Some i => remove_item F s i | None => s end) l s)) = None ->
  KJ (fst (fold_left (fun s v => match g v with Some i => remove_item F s i | None => s end) l s)).
Proof.
  induction l as [|x r IH]; intros s R Hd He; cbn [fold_left] in *; [exact R|].
  assert (He1 : w_err (fst (match g x with Some i => remove_item F s i | None => s end)) = None).
  { revert He. apply (C_fold sticky sticky_refl sticky_trans).
    intros s0 y. destruct (g y); [apply sticky_remove|apply sticky_refl]. }
  apply IH; [| |exact He].
  - destruct (g x) as [i|] eqn:Eg; [|exact R]. apply remove_KJ; [exact R| |exact He1].
    apply (Hd x i); [now left|exact Eg].
  - intros v j Iv Ej. pose proof (Hd v j (or_intror Iv) Ej) as Dj.
    destruct (g x) as [i|]; [|exact Dj].
    pose proof (remove_item_ownership 11 s i (proj2 (proj1 R))) as (_ & _ & _ & Ck). fold F in Ck.
    exact (direct_kept _ _ j Ck Dj).
Qed.

Theorem rack_clear_KJ s f k :
  KJ (fst s) -> LD (fst s) -> w_err (fst (fst (rack_clear s f k))) = None -> KJ (fst (fst (rack_clear s f k))).
Proof.
  intros R Ld. unfold rack_clear. cbn [fst]. intros He. pose proof (sticky_set_rack _ _ _ _ He) as E1.
  eapply KJ_same_is; [apply same_isf_set_rack|]. apply (remove_fold_KJ (fun v => v)); [exact R| |exact E1].
  intros v i Iv ->. apply (Ld (PRack f k)). rewrite members_rack. unfold rack_items.
  apply in_flat_map. exists (Some i). split; [exact Iv|now left].
Qed.

(* ------------------------------------------------------------------ *)
(* sets                                                                 *)

Theorem itemset_add_KJ s f k i :
  KJ (fst s) -> w_err (fst (fst (itemset_add s f k i))) = None -> KJ (fst (fst (itemset_add s f k i))).
Proof.
  intros R. unfold itemset_add.
  destruct (cls_of (fst s) i) as [c|] eqn:Hc; [|auto].
  destruct (set_accepts k c) eqn:Ha; cbn [negb]; [|auto].
  destruct (has_container (fst s) i) eqn:Hn.
  - intros _. destruct (mem neqb _ i); cbn [fst]; unfold lift; cbn [fst].
    + eapply KJ_same_is; [apply same_isf_put_setc|exact R].
    + eapply KJ_same_is; [|exact R]. eapply same_isf_trans; apply same_isf_put_setc.
  - cbn [fst]. destruct (cls_of_some' _ _ _ Hc) as (it & Hi & Ec).
    eapply (enter_KJ s); eauto.
    + unfold lift. cbn [fst]. apply same_isf_put_setc.
    + eapply set_accepts_direct; eauto.
    + discriminate.
Qed.

Theorem set_add_op_KJ s f k i :
  KJ (fst s) -> w_err (fst (fst (set_add_op s f k i))) = None -> KJ (fst (fst (set_add_op s f k i))).
Proof.
  intros R. unfold set_add_op. destruct k; try (now apply itemset_add_KJ).
  destruct (get_item (fst s) i) as [it|]; [|auto].
  destruct (set_accepts SeSkills (i_cls it)); cbn [negb]; [|auto].
  destruct (al_mem zeqb _ (i_tid it)); [auto|].
  set (s1 := lift s _).
  assert (R1 : KJ (fst s1)) by (eapply KJ_same_is; [|exact R]; unfold s1, lift; cbn [fst]; apply same_isf_put_skillmap).
  pose proof (itemset_add_KJ s1 f SeSkills i R1) as H.
  destruct (itemset_add s1 f SeSkills i) as [s2 r]. cbn [fst] in H.
  destruct r; cbn [fst]; try exact H.
  unfold lift. cbn [fst]. intros He. pose proof (sticky_put_skillmap _ _ _ He) as E2.
  eapply KJ_same_is; [apply same_isf_put_skillmap|now apply H].
Qed.

Theorem set_remove_op_KJ s f k i :
  KJ (fst s) -> LD (fst s) -> w_err (fst (fst (set_remove_op s f k i))) = None -> KJ (fst (fst (set_remove_op s f k i))).
Proof.
  intros R Ld. unfold set_remove_op.
  destruct (mem neqb _ i) eqn:Hmem; cbn [negb]; [|auto].
  assert (Di : exists it, get_item (fst s) i = Some it /\ direct it).
  { apply (Ld (PSet f k)). rewrite members_set. now apply mem_In. }
  set (s2 := remove_item F s i).
  set (s3 := lift s2 (fun w => put_setc w f k (set_rm neqb (get_setc w f k) i))).
  assert (H3 : w_err (fst s3) = None -> KJ (fst s3)).
  { intros E3. unfold s3, lift in *. cbn [fst] in *. pose proof (sticky_put_setc _ _ _ _ E3) as E2.
    eapply KJ_same_is; [apply same_isf_put_setc|]. now apply remove_KJ. }
  destruct k; try exact H3.
  destruct (get_item (fst s3) i) as [it|]; [|exact H3]. cbn [fst]. unfold lift at 1. cbn [fst].
  intros He. pose proof (sticky_put_skillmap _ _ _ He) as E3.
  eapply KJ_same_is; [apply same_isf_put_skillmap|now apply H3].
Qed.

Theorem skill_del_op_KJ s f tid :
  KJ (fst s) -> LD (fst s) -> w_err (fst (fst (skill_del_op s f tid))) = None -> KJ (fst (fst (skill_del_op s f tid))).
Proof.
  intros R Ld. unfold skill_del_op. destruct (al_get zeqb _ tid); [now apply set_remove_op_KJ|auto].
Qed.

Theorem set_clear_op_KJ s f k :
  KJ (fst s) -> LD (fst s) -> w_err (fst (fst (set_clear_op s f k))) = None -> KJ (fst (fst (set_clear_op s f k))).
Proof.
  intros R Ld. unfold set_clear_op.
  match goal with |- context[fold_left ?g ?l s] => set (s2 := fold_left g l s) end.
  set (s3 := lift s2 (fun w => put_setc w f k [])).
  assert (H3 : w_err (fst s3) = None -> KJ (fst s3)).
  { intros E3. unfold s3, lift in *. cbn [fst] in *. pose proof (sticky_put_setc _ _ _ _ E3) as E2.
    eapply KJ_same_is; [apply same_isf_put_setc|]. apply (remove_fold_KJ (fun v => Some v)); [exact R| |exact E2].
    intros v i Iv [= <-]. apply (Ld (PSet f k)). now rewrite members_set. }
  destruct k; try exact H3. cbn [fst]. unfold lift at 1. cbn [fst].
  intros He. pose proof (sticky_put_skillmap _ _ _ He) as E3.
  eapply KJ_same_is; [apply same_isf_put_skillmap|now apply H3].
Qed.



Theorem slot_set_op_KJ s f k new :
  KJ (fst s) ->
  (forall o, match get_fit (fst s) f with Some ft => fit_slot ft k | None => None end = Some o ->
             exists ito, get_item (fst s) o = Some ito /\ direct ito) ->
  w_err (fst (fst (slot_set_op s f k new))) = None -> KJ (fst (fst (slot_set_op s f k new))).
Proof.
  intros R Hold. unfold slot_set_op, descriptor_set. cbv beta.
  set (old := match get_fit (fst s) f with Some ft => fit_slot ft k | None => None end) in *.
  match goal with |- context[negb ?b] => destruct b eqn:Hok end; cbn [negb]; [|auto].
  set (s1 := match old with Some o => remove_item F s o | None => s end).
  assert (H1 : w_err (fst s1) = None ->
               KJ (fst s1) /\ cls_kept (fst s) (fst s1) /\
               (forall o x, old = Some o -> get_item (fst s1) o = Some x -> direct x /\ i_loaded x = None /\ i_cont x = None)).
  { intros E1. subst s1. destruct old as [o|] eqn:Eo.
    - destruct (Hold o eq_refl) as (ito & Ho & Do).
      destruct (remove_RJ F s o (proj1 R) E1) as (R1 & P1).
      pose proof (remove_item_ownership 11 s o (proj2 (proj1 R))) as (_ & _ & _ & Ck). fold F in Ck.
      split; [apply remove_KJ; [exact R|now exists ito|exact E1]|split; [exact Ck|]]. intros o' x [= <-] Hx.
      pose proof (direct_of_cls _ _ o ito Ho Do Ck x Hx) as Dx. split; [exact Dx|]. now apply (P1 x Hx Dx).
    - split; [exact R|split; [intros j c E; exact E|intros o x [=]]]. }
  set (s2 := lift s1 (fun w => upd_fit w f (fun ft => fit_set_slot ft k new))).
  assert (S12 : same_isf (fst s1) (fst s2)) by (unfold s2, lift; cbn [fst]; apply same_isf_set_slot).
  assert (K12 : sticky (fst s1) (fst s2)) by (unfold s2, lift; cbn [fst]; apply sticky_upd_fit).
  destruct new as [i|].
  2:{ cbn [fst]. intros He. pose proof (K12 He) as E1. eapply KJ_same_is; [exact S12|]. now apply H1. }
  destruct (cls_of (fst s) i) as [c|] eqn:Hc; [|discriminate].
  destruct (has_container (fst s2) i) eqn:Hh.
  - (* roll-back *)
    set (s3 := lift s2 (fun w => upd_fit w f (fun ft => fit_set_slot ft k old))).
    assert (S13 : same_isf (fst s1) (fst s3)).
    { eapply same_isf_trans; [exact S12|]. unfold s3, lift. cbn [fst]. apply same_isf_set_slot. }
    assert (K13 : sticky (fst s1) (fst s3)).
    { eapply sticky_trans; [exact K12|]. unfold s3, lift. cbn [fst]. apply sticky_upd_fit. }
    destruct old as [o|] eqn:Eo.
    + cbn [fst]. intros He. pose proof (sticky_add _ _ _ _ He) as E3. pose proof (K13 E3) as E1.
      destruct (H1 E1) as (R1 & Ck & P1).
      destruct (Hold o eq_refl) as (ito & Ho & Do).
      assert (Co : cls_of (fst s1) o = Some (i_cls ito)) by (apply Ck; unfold cls_of; now rewrite Ho).
      destruct (cls_of_some' _ _ _ Co) as (x & Hx & _).
      destruct (P1 o x eq_refl Hx) as (Dx & Lx & Cx).
      apply (enter_KJ s1 s3 o (PSlot f k) x R1 S13 Hx Dx); [|discriminate|exact He].
      unfold has_container. now rewrite Hx, Cx.
    + cbn [fst]. intros He. pose proof (K13 He) as E1. eapply KJ_same_is; [exact S13|]. now apply H1.
  - cbn [fst]. intros He. pose proof (sticky_add _ _ _ _ He) as E2. pose proof (K12 E2) as E1.
    destruct (H1 E1) as (R1 & Ck & _).
    destruct (cls_of_some' _ _ _ (Ck _ _ Hc)) as (it & Hi & Ec).
    eapply (enter_KJ s1 s2); eauto.
    + eapply slot_accepts_direct; eauto.
    + rewrite <- Hh. symmetry. apply has_container_same_is. exact (proj1 S12).
    + discriminate.
Qed.

(* ------------------------------------------------------------------ *)
(* the charge slot of a directly held item                              *)

Lemma option_eq_dec (a b : option nat) : {a = b} + {a <> b}.
Proof. decide equality. apply Nat.eq_dec. Qed.

Lemma leaf_no_cont_unloaded w c cit : KK w -> get_item w c = Some cit -> ~ direct cit -> i_cont cit = None -> i_loaded cit = None.
Proof.
  intros K Hc Dc Hn. destruct (i_loaded cit) as [x|] eqn:El; [|reflexivity]. exfalso.
  apply (kk_nl _ K c cit Hc Dc); [congruence|]. unfold item_fit. cbn [item_fit_n]. now rewrite Hc, Hn.
Qed.

Lemma KK_store_charge w m mit v :
  J w -> KK w -> get_item w m = Some mit -> direct mit ->
  (forall c cit, get_item w c = Some cit -> i_cont cit <> Some (PCharge m)) ->
  KK (put_item w m (it_set_charge mit v)).
Proof.
  intros Jw K Hm Dm Hno. apply (KK_direct_put w m mit (it_set_charge mit v) Jw K Hm Dm); try reflexivity.
  - apply (direct_cont_fit w m mit Jw K Hm Dm).
  - intros Hl. apply (kk_au _ K m mit Hm Hl).
  - intros c cit Gc Hp. exfalso. exact (Hno c cit Gc Hp).
  - intros c cit Gc Hp. destruct (kk_pc _ K c cit m Gc) as (_ & P2). destruct (P2 Hp) as (x & Gx & Hx).
    rewrite Hm in Gx. injection Gx as <-. exact Hx.
  - intros Hf c cit Gc Hp. apply (children_of_detached_unloaded w m mit c cit Jw K Hm Dm Hf Gc Hp).
Qed.

(* the links after the charge slot of m was given a new occupant: the old one (if another) names nothing, the
   new one names the slot, everything else is untouched *)
Lemma CP_relink w w' m mit (new : option nat) :
  CP w -> get_item w m = Some mit ->
  (forall y, i_cont mit <> Some (PCharge y) /\ i_cont mit <> Some (PAuto y)) ->
  (forall j, j <> m -> Some j <> i_charge mit -> Some j <> new -> get_item w' j = get_item w j) ->
  (exists mit', get_item w' m = Some mit' /\ i_charge mit' = new /\ i_autos mit' = i_autos mit) ->
  (forall o, i_charge mit = Some o -> i_charge mit <> new ->
             exists oit', get_item w' o = Some oit' /\ i_charge oit' = None /\ i_autos oit' = []) ->
  (forall i, new = Some i ->
             exists iit', get_item w' i = Some iit' /\ i_cont iit' = Some (PCharge m) /\ i_charge iit' = None /\ i_autos iit' = []) ->
  (forall i, new = Some i -> i_charge mit <> new ->
             forall x xit, get_item w x = Some xit -> i_charge xit <> Some i /\ ~ In i (map snd (i_autos xit))) ->
  CP w'.
Proof.
  intros Cp Hm Hnc Fr (mit' & Gm' & Ech' & Eau') Hold Hnew Hun. pose proof Cp as (C1 & C2 & C3).
  pose proof (CP_direct_unlisted w m mit Cp Hm Hnc) as Hum.
  (* nobody but m lists the old charge *)
  assert (Huo : forall o, i_charge mit = Some o -> forall x xit, get_item w x = Some xit -> x <> m ->
                i_charge xit <> Some o /\ ~ In o (map snd (i_autos xit))).
  { intros o Eo x xit Gx Nx. destruct (C1 m mit o Hm Eo) as (oit & Go & Co). split; intros H.
    - destruct (C1 x xit o Gx H) as (y & Gy & Cy). rewrite Go in Gy. injection Gy as <-. congruence.
    - destruct (C2 x xit o Gx H) as (y & Gy & Cy). rewrite Go in Gy. injection Gy as <-. congruence. }
  (* the items of the new world, seen from the old one *)
  assert (Back : forall x xit', get_item w' x = Some xit' ->
            x = m \/
            (Some x = new /\ i_charge xit' = None /\ i_autos xit' = []) \/
            (Some x = i_charge mit /\ i_charge mit <> new /\ i_charge xit' = None /\ i_autos xit' = []) \/
            (x <> m /\ Some x <> i_charge mit /\ Some x <> new /\ get_item w x = Some xit')).
  { intros x xit' G. destruct (Nat.eq_dec x m) as [->|Nx]; [now left|]. right.
    destruct new as [i|] eqn:En.
    - destruct (Nat.eq_dec x i) as [->|Ni].
      + left. destruct (Hnew i eq_refl) as (y & Gy & _ & Y1 & Y2). rewrite G in Gy. injection Gy as <-. auto.
      + right. destruct (i_charge mit) as [o|] eqn:Eo.
        * destruct (Nat.eq_dec x o) as [->|No].
          -- left. assert (Hne : Some o <> Some i) by congruence.
             destruct (Hold o eq_refl Hne) as (y & Gy & Y1 & Y2). rewrite G in Gy. injection Gy as <-. auto.
          -- right. split; [exact Nx|split; [congruence|split; [congruence|]]]. rewrite <- (Fr x Nx); [exact G|congruence|congruence].
        * right. split; [exact Nx|split; [discriminate|split; [congruence|]]]. rewrite <- (Fr x Nx); [exact G|discriminate|congruence].
    - right. destruct (i_charge mit) as [o|] eqn:Eo.
      + destruct (Nat.eq_dec x o) as [->|No].
        * left. assert (Hne : Some o <> None) by discriminate.
          destruct (Hold o eq_refl Hne) as (y & Gy & Y1 & Y2). rewrite G in Gy. injection Gy as <-. auto.
        * right. split; [exact Nx|split; [congruence|split; [discriminate|]]]. rewrite <- (Fr x Nx); [exact G|congruence|discriminate].
      + right. split; [exact Nx|split; [discriminate|split; [discriminate|]]]. rewrite <- (Fr x Nx); [exact G|discriminate|discriminate]. }
  (* a child of the old world that names x and is listed by x is still there, unless it is the old charge of m *)
  assert (Keep : forall x xit c cit p, get_item w x = Some xit -> x <> m ->
                 (i_charge xit = Some c \/ In c (map snd (i_autos xit))) ->
                 get_item w c = Some cit -> i_cont cit = Some p ->
                 (forall i, new = Some i -> i_charge mit = new \/ (i_charge xit <> Some i /\ ~ In i (map snd (i_autos xit)))) ->
                 exists cit', get_item w' c = Some cit' /\ i_cont cit' = Some p).
  { intros x xit c cit p Gx Nx Hl Gc Ec Hi. exists cit. split; [|exact Ec]. rewrite Fr; [exact Gc| | |].
    - intros ->. destruct (Hum x xit Gx) as (U1 & U2). destruct Hl; contradiction.
    - intros E. symmetry in E. destruct (Huo c E x xit Gx Nx) as (U1 & U2). destruct Hl; contradiction.
    - intros E. symmetry in E. destruct (Hi c E) as [Eq|(U1 & U2)].
      + rewrite <- Eq in E. destruct (Huo c E x xit Gx Nx) as (V1 & V2). destruct Hl; contradiction.
      + destruct Hl; contradiction. }
  assert (Hi' : forall x xit, get_item w x = Some xit ->
                forall i, new = Some i -> i_charge mit = new \/ (i_charge xit <> Some i /\ ~ In i (map snd (i_autos xit)))).
  { intros x xit Gx i En. destruct (option_eq_dec (i_charge mit) new) as [E|E]; [now left|right]. apply (Hun i En E x xit Gx). }
  split; [|split].
  - intros x xit' c G Hc. destruct (Back x xit' G) as [->|[(_ & E & _)|[(_ & _ & E & _)|(Nx & _ & _ & G0)]]]; try congruence.
    + rewrite Gm' in G. injection G as <-. rewrite Ech' in Hc.
      destruct (Hnew c Hc) as (y & Gy & Cy & _). exists y. now split.
    + destruct (C1 x xit' c G0 Hc) as (cit & Gc & Ec).
      apply (Keep x xit' c cit _ G0 Nx (or_introl Hc) Gc Ec (Hi' x xit' G0)).
  - intros x xit' b G Hb. destruct (Back x xit' G) as [->|[(_ & _ & E)|[(_ & _ & _ & E)|(Nx & _ & _ & G0)]]];
      try (rewrite E in Hb; destruct Hb).
    + rewrite Gm' in G. injection G as <-. rewrite Eau' in Hb.
      destruct (C2 m mit b Hm Hb) as (bit & Gb & Eb). exists bit. split; [|exact Eb]. rewrite Fr; [exact Gb| | |].
      * intros ->. rewrite Hm in Gb. injection Gb as <-. now apply (proj2 (Hnc m)).
      * intros E. symmetry in E. destruct (C1 m mit b Hm E) as (y & Gy & Cy). rewrite Gb in Gy. injection Gy as <-. congruence.
      * intros E. symmetry in E. destruct (Hnew b E) as (y & Gy & Cy & _).
        destruct (option_eq_dec (i_charge mit) new) as [Eq|Ne].
        -- rewrite <- Eq in E. destruct (C1 m mit b Hm E) as (z & Gz & Cz). rewrite Gb in Gz. injection Gz as <-. congruence.
        -- destruct (Hun b E Ne m mit Hm) as (_ & U2). contradiction.
    + destruct (C2 x xit' b G0 Hb) as (bit & Gb & Eb).
      apply (Keep x xit' b bit _ G0 Nx (or_intror Hb) Gb Eb (Hi' x xit' G0)).
  - intros x xit' G. destruct (Back x xit' G) as [->|[(_ & _ & E)|[(_ & _ & _ & E)|(Nx & _ & _ & G0)]]];
      try (rewrite E; constructor).
    + rewrite Gm' in G. injection G as <-. rewrite Eau'. now apply (C3 m mit).
    + now apply (C3 x xit').
Qed.

(* LS after the charge slot of m was given a new occupant: directly held items keep container reference and
   loaded flag; the old and the new occupant are charges *)
Lemma LS_relink w w' m mit (new : option nat) :
  LS w -> same_src w w' -> get_item w m = Some mit -> direct mit ->
  (forall j, j <> m -> Some j <> i_charge mit -> Some j <> new -> get_item w' j = get_item w j) ->
  (exists mit', get_item w' m = Some mit' /\ i_loaded mit' = i_loaded mit /\ i_cont mit' = i_cont mit) ->
  (forall o oit', Some o = i_charge mit \/ Some o = new -> o <> m -> get_item w' o = Some oit' -> ~ direct oit') ->
  LS w'.
Proof.
  intros L Ss Hm Dm Fr (mit' & Gm' & El & Ec) Hch. apply (LS_frame w w' L Ss). intros j jit' Gj Dj. right.
  destruct (Nat.eq_dec j m) as [->|Nj].
  - rewrite Gm' in Gj. injection Gj as <-. exists mit. split; [exact Hm|split; [exact Dm|split; [symmetry; exact El|symmetry; exact Ec]]].
  - destruct (option_eq_dec (Some j) (i_charge mit)) as [E|N1]; [exfalso; now apply (Hch j jit' (or_introl E) Nj Gj)|].
    destruct (option_eq_dec (Some j) new) as [E|N2]; [exfalso; now apply (Hch j jit' (or_intror E) Nj Gj)|].
    exists jit'. rewrite <- (Fr j Nj N1 N2). auto.
Qed.

Theorem charge_set_op_KJ s m new :
  KJ (fst s) -> (forall mit, get_item (fst s) m = Some mit -> direct mit) ->
  w_err (fst (fst (charge_set_op s m new))) = None -> KJ (fst (fst (charge_set_op s m new))).
Proof.
  intros (R & K & Fl & Cp & Ls) Hdm He.
  split; [now apply charge_set_op_RJ|].
  revert He. unfold charge_set_op. destruct (get_item (fst s) m) as [mit|] eqn:Hm; [|intros _; split; [exact K|split; [exact Fl|split; [exact Cp|exact Ls]]]].
  specialize (Hdm mit eq_refl). unfold descriptor_set. cbv beta.
  match goal with |- context[negb ?b] => destruct b eqn:Hok end; cbn [negb]; [|intros _; split; [exact K|split; [exact Fl|split; [exact Cp|exact Ls]]]].
  pose proof (proj2 R) as Js.
  set (old := i_charge mit).
  set (s1 := match old with Some o => remove_item F s o | None => s end).
  (* after the old charge left: KK, J, m untouched, nobody names the charge slot of m *)
  assert (H1 : w_err (fst s1) = None ->
               J (fst s1) /\ KK (fst s1) /\ w_srcs (fst s1) = w_srcs (fst s) /\ get_item (fst s1) m = Some mit /\
               (forall c cit, get_item (fst s1) c = Some cit -> i_cont cit <> Some (PCharge m)) /\
               cls_kept (fst s) (fst s1) /\
               (forall j, Some j <> old -> get_item (fst s1) j = get_item (fst s) j) /\
               (forall o, old = Some o -> exists o', get_item (fst s1) o = Some o' /\ i_charge o' = None /\ i_autos o' = [] /\ ~ direct o')).
  { intros E1. subst s1. destruct old as [o|] eqn:Eo.
    - assert (Co : cls_of (fst s) o = Some CCharge) by (destruct Js as (_ & _ & _ & J5); apply (J5 m mit o Hm Eo)).
      destruct (cls_of_some' _ _ _ Co) as (oit & Go & Eco).
      assert (Do : ~ direct oit) by (apply direct_childcls; right; exact Eco).
      rewrite F_eq in *.
      destruct (remove_leaf 10 s o oit K Go Do E1) as (K1 & U1 & o' & Go' & Lo' & Co' & Eclo' & Cho' & Auo' & _).
      assert (Nom : o <> m) by (intros ->; rewrite Hm in Go; injection Go as <-; contradiction).
      pose proof (proj2 (unload_keeps_ownership 12) s o Js (J_cls_fitcont _ _ Js (or_intror Co))) as Kp.
      split; [apply Kp|split; [exact K1|split; [apply U1|split; [|split; [|split; [|split]]]]]].
      4:{ intros j Nj. destruct U1 as (_ & G). apply G. congruence. }
      4:{ intros o0 [= <-]. exists o'. split; [exact Go'|split; [exact Cho'|split; [exact Auo'|]]]. unfold direct in *. now rewrite Eclo'. }
      + destruct U1 as (_ & G). rewrite (G m); [exact Hm|]. intros E. now apply Nom.
      + intros c cit Gc Hp. destruct (Nat.eq_dec c o) as [->|Nc].
        * rewrite Go' in Gc. injection Gc as <-. congruence.
        * destruct U1 as (_ & G). rewrite (G c Nc) in Gc.
          destruct (kk_pc _ K c cit m Gc) as (P1 & _). destruct (P1 Hp) as (x & Gx & Hx).
          rewrite Hm in Gx. injection Gx as <-. unfold old in Eo. congruence.
      + apply Kp.
    - split; [exact Js|split; [exact K|split; [reflexivity|split; [exact Hm|split; [|split; [intros j c E; exact E|split; [reflexivity|intros o0 [=]]]]]]]].
      intros c cit Gc Hp. destruct (kk_pc _ K c cit m Gc) as (P1 & _). destruct (P1 Hp) as (x & Gx & Hx).
      rewrite Hm in Gx. injection Gx as <-. unfold old in Eo. congruence. }
  set (s2 := lift s1 (fun w => upd_item w m (fun it0 => it_set_charge it0 new))).
  assert (St12 : sticky (fst s1) (fst s2)) by (unfold s2, lift; cbn [fst]; apply sticky_upd).
  (* storing a value in the charge slot while nobody names it *)
  assert (Store : forall (s0 : st) x v, J (fst s0) -> KK (fst s0) -> get_item (fst s0) m = Some x -> direct x ->
            (forall c cit, get_item (fst s0) c = Some cit -> i_cont cit <> Some (PCharge m)) ->
            (forall o, v = Some o -> cls_of (fst s0) o = Some CCharge) ->
            let s' := lift s0 (fun w => upd_item w m (fun it0 => it_set_charge it0 v)) in
            J (fst s') /\ KK (fst s') /\ w_srcs (fst s') = w_srcs (fst s0) /\
            get_item (fst s') m = Some (it_set_charge x v) /\
            (forall j, j <> m -> get_item (fst s') j = get_item (fst s0) j)).
  { intros s0 x v J0 K0 G0 D0 Hno Hv. cbv zeta. unfold lift. cbn [fst]. unfold upd_item. rewrite G0.
    split; [|split; [apply (KK_store_charge (fst s0) m x v J0 K0 G0 D0 Hno)|split; [reflexivity|split]]].
    - apply (J_put_keepcls (fst s0) m x (it_set_charge x v) J0 G0 eq_refl).
      + intros C. exfalso. apply (proj2 (direct_childcls x)); [exact C|exact D0].
      + intros e a I. destruct J0 as (_ & _ & J4 & _). apply (J4 m x e a G0 I).
      + intros o Ho. cbn in Ho. now apply Hv.
    - apply get_put_item_same'.
    - intros j Nj. now apply get_put_item_other. }
  assert (Hnew : forall i, new = Some i -> cls_of (fst s) i = Some CCharge).
  { intros i ->. destruct (cls_of (fst s) i) as [c|]; [|discriminate]. now rewrite (icls_eqb_charge c Hok). }
  (* adding a charge item to the slot that lists it *)
  assert (Add : forall (s0 : st) a x, J (fst s0) -> KK (fst s0) -> get_item (fst s0) m = Some x -> i_charge x = Some a ->
            cls_of (fst s0) a = Some CCharge ->
            (forall ait, get_item (fst s0) a = Some ait -> i_loaded ait = None) ->
            w_err (fst (add_item F s0 a (PCharge m))) = None ->
            KK (fst (add_item F s0 a (PCharge m))) /\ w_srcs (fst (add_item F s0 a (PCharge m))) = w_srcs (fst s0) /\
            (forall j, j <> a -> get_item (fst (add_item F s0 a (PCharge m))) j = get_item (fst s0) j) /\
            (exists ait', get_item (fst (add_item F s0 a (PCharge m))) a = Some ait' /\ i_cont ait' = Some (PCharge m) /\
                          i_charge ait' = None /\ i_autos ait' = []) /\
            (forall x, get_item (fst (add_item F s0 a (PCharge m))) a = Some x -> ~ direct x)).
  { intros s0 a x J0 K0 G0 Hx Ca Hla Hea. destruct (cls_of_some' _ _ _ Ca) as (ait & Ga & Eca).
    assert (Da : ~ direct ait) by (apply direct_childcls; right; exact Eca).
    rewrite F_eq in *.
    destruct (add_leaf 10 s0 a ait (PCharge m) K0 Ga Da (Hla ait Ga)) as (K' & (S' & G') & (ait' & Ga' & Ca' & Ecla' & Cha' & Aua' & _)); try exact Hea.
    - intros y E. injection E as <-. exists x. now split.
    - intros y E. discriminate.
    - split; [exact K'|split; [exact S'|split; [exact G'|split]]]; [exists ait'; auto|].
      intros x0 Gx0. rewrite Ga' in Gx0. injection Gx0 as <-. unfold direct in *. now rewrite Ecla'. }
  pose proof (direct_cont_fit (fst s) m mit Js K Hm Hdm) as Hncm.
  assert (St1 : structure (fst s1) = structure (fst s)) by (unfold s1; destruct old; [apply S_remove_item|reflexivity]).
  assert (St2 : structure (fst s2) = structure (fst s)) by (unfold s2, lift; cbn [fst]; rewrite S_upd_item; exact St1).
  assert (Nold : forall o, old = Some o -> o <> m).
  { intros o Eo ->. destruct Js as (_ & _ & _ & J5). pose proof (J5 m mit m Hm Eo) as C. unfold cls_of in C. rewrite Hm in C.
    injection C as C. apply (proj2 (direct_childcls mit)); [right; exact C|exact Hdm]. }
  destruct new as [i|].
  2:{ cbn [fst]. intros He. pose proof (St12 He) as E1. destruct (H1 E1) as (J1 & K1 & S1 & G1 & Hno & _ & Fr1 & Old1).
      destruct (Store s1 mit None J1 K1 G1 Hdm Hno) as (_ & K2 & S2 & G2 & Fr2); [intros o E; discriminate|].
      fold s2 in S2, G2, Fr2.
      split; [exact K2|split; [|split]]; [apply (FLATs_srcs (fst s)); [|exact Fl]; congruence| |].
      { apply (CP_relink (fst s) (fst s2) m mit None Cp Hm Hncm).
        - intros j Nj No _. rewrite (Fr2 j Nj). now apply Fr1.
        - eexists. split; [exact G2|]. split; reflexivity.
        - intros o Eo _. destruct (Old1 o Eo) as (o' & Go' & X1 & X2 & _). exists o'. rewrite (Fr2 o (Nold o Eo)). auto.
        - intros i0 [=].
        - intros i0 [=]. }
      apply (LS_relink (fst s) (fst s2) m mit None Ls (same_src_structure _ _ St2) Hm Hdm).
      - intros j Nj No _. rewrite (Fr2 j Nj). now apply Fr1.
      - eexists. split; [exact G2|]. split; reflexivity.
      - intros o oit' [E|E] No Go; [|discriminate]. symmetry in E. destruct (Old1 o E) as (o' & Go' & _ & _ & Do').
        rewrite (Fr2 o No) in Go. rewrite Go' in Go. injection Go as <-. exact Do'. }
  specialize (Hnew i eq_refl).
  destruct (has_container (fst s2) i) eqn:Hh; cbn [fst].
  - (* refused: the old charge comes back *)
    set (s3 := lift s2 (fun w => upd_item w m (fun it0 => it_set_charge it0 old))).
    assert (St23 : sticky (fst s2) (fst s3)) by (unfold s3, lift; cbn [fst]; apply sticky_upd).
    assert (Fin : forall sfin : st, sticky (fst s3) (fst sfin) ->
              (w_err (fst sfin) = None -> w_err (fst s3) = None ->
               forall J1 : J (fst s1), True) -> True) by auto.
    clear Fin.
    assert (Body : w_err (fst s3) = None ->
              J (fst s3) /\ KK (fst s3) /\ w_srcs (fst s3) = w_srcs (fst s) /\
              get_item (fst s3) m = Some (it_set_charge (it_set_charge mit (Some i)) old) /\
              (forall o, old = Some o -> cls_of (fst s3) o = Some CCharge /\
                                         forall oit, get_item (fst s3) o = Some oit -> i_loaded oit = None) /\
              (forall j, j <> m -> Some j <> old -> get_item (fst s3) j = get_item (fst s) j)).
    { intros E3. pose proof (St23 E3) as E2. pose proof (St12 E2) as E1.
      destruct (H1 E1) as (J1 & K1 & S1 & G1 & Hno & Ck1 & Fr1 & Old1).
      destruct (Store s1 mit (Some i) J1 K1 G1 Hdm Hno) as (J2 & K2 & S2 & G2 & Fr2).
      { intros o E. injection E as <-. now apply Ck1. }
      fold s2 in J2, K2, S2, G2, Fr2.
      assert (Hno2 : forall c cit, get_item (fst s2) c = Some cit -> i_cont cit <> Some (PCharge m)).
      { intros c cit Gc. destruct (Nat.eq_dec c m) as [->|Nc].
        - rewrite G2 in Gc. injection Gc as <-. cbn. apply (direct_cont_fit (fst s1) m mit J1 K1 G1 Hdm m).
        - rewrite (Fr2 c Nc) in Gc. now apply (Hno c cit). }
      assert (D2 : direct (it_set_charge mit (Some i))) by exact Hdm.
      destruct (Store s2 (it_set_charge mit (Some i)) old J2 K2 G2 D2 Hno2) as (J3 & K3 & S3 & G3 & Fr3).
      { intros o Eo. destruct J2 as (_ & _ & _ & _). unfold cls_of.
        assert (Co : cls_of (fst s) o = Some CCharge) by (destruct Js as (_ & _ & _ & J5); apply (J5 m mit o Hm Eo)).
        assert (C1 : cls_of (fst s1) o = Some CCharge) by (now apply Ck1).
        unfold cls_of in C1. destruct (Nat.eq_dec o m) as [->|No].
        - rewrite G1 in C1. injection C1 as C1. exfalso. apply (proj2 (direct_childcls mit)); [right; exact C1|exact Hdm].
        - now rewrite (Fr2 o No). }
      fold s3 in J3, K3, S3, G3, Fr3.
      split; [exact J3|split; [exact K3|split; [congruence|split; [exact G3|split]]]].
      2:{ intros j Nj No. rewrite (Fr3 j Nj), (Fr2 j Nj). now apply Fr1. }
      intros o Eo.
      assert (Co : cls_of (fst s) o = Some CCharge) by (destruct Js as (_ & _ & _ & J5); apply (J5 m mit o Hm Eo)).
      assert (C1 : cls_of (fst s1) o = Some CCharge) by (now apply Ck1).
      assert (No : o <> m).
      { intros ->. unfold cls_of in C1. rewrite G1 in C1. injection C1 as C1.
        apply (proj2 (direct_childcls mit)); [right; exact C1|exact Hdm]. }
      split.
      + unfold cls_of. rewrite (Fr3 o No), (Fr2 o No). exact C1.
      + intros oit Go. rewrite (Fr3 o No), (Fr2 o No) in Go.
        (* the old charge was removed: it has no container reference, hence is not loaded *)
        assert (Doit : ~ direct oit).
        { apply direct_childcls. right. unfold cls_of in C1. rewrite Go in C1. now injection C1. }
        apply (leaf_no_cont_unloaded (fst s1) o oit K1 Go Doit).
        destruct (i_cont oit) as [pl|] eqn:Ecp; [|reflexivity]. exfalso.
        (* remove_item ends by clearing the reference *)
        revert Go Ecp. unfold s1. rewrite Eo. intros Go Ecp.
        assert (Hcl : forall x, get_item (fst (remove_item F s o)) o = Some x -> i_cont x = None).
        { intros x Gx. rewrite F_eq in Gx. revert Gx. cbn [remove_item].
          match goal with |- get_item (fst (lift ?S0 _)) o = Some x -> _ => set (sx := S0) end.
          unfold lift. cbn [fst]. unfold upd_item. destruct (get_item (fst sx) o) as [y|] eqn:Ey.
          - rewrite get_put_item_same'. intros [= <-]. reflexivity.
          - rewrite get_fail, Ey. discriminate. }
        rewrite (Hcl oit Go) in Ecp. discriminate. }
    destruct old as [o|] eqn:Eo.
    + intros He. pose proof (sticky_add _ _ _ _ He) as E3. destruct (Body E3) as (J3 & K3 & S3 & G3 & Ho & Fr3).
      destruct (Ho o eq_refl) as (Co3 & Lo3).
      destruct (Add s3 o _ J3 K3 G3 eq_refl Co3 Lo3 He) as (K4 & S4 & Fr4 & New4 & Nd4).
      assert (St3 : structure (fst s3) = structure (fst s)) by (unfold s3, lift; cbn [fst]; rewrite S_upd_item; exact St2).
      assert (Eom : i_charge mit = Some o) by exact Eo.
      split; [exact K4|split; [|split]]; [apply (FLATs_srcs (fst s)); [congruence|exact Fl]| |].
      { apply (CP_relink (fst s) _ m mit (Some o) Cp Hm Hncm).
        * intros j Nj No _. rewrite Fr4 by congruence. apply Fr3; [exact Nj|congruence].
        * eexists. split; [rewrite (Fr4 m); [exact G3|]; intros E; symmetry in E; now apply (Nold o eq_refl)|]. split; reflexivity.
        * intros o0 _ Hne. congruence.
        * intros i0 [= <-]. exact New4.
        * intros i0 _ Hne. congruence. }
      apply (LS_relink (fst s) _ m mit (Some o) Ls); [apply same_src_structure; rewrite S_add_item; exact St3|exact Hm|exact Hdm| | |].
      * intros j Nj No _. rewrite Fr4 by congruence. apply Fr3; [exact Nj|congruence].
      * eexists. split; [rewrite (Fr4 m); [exact G3|]; intros E; symmetry in E; now apply (Nold o eq_refl)|]. split; reflexivity.
      * intros o0 oit' [E|E] No0 Go0; assert (o0 = o) by congruence; subst o0; now apply (Nd4 oit').
    + intros He. destruct (Body He) as (J3 & K3 & S3 & G3 & _ & Fr3).
      assert (St3 : structure (fst s3) = structure (fst s)) by (unfold s3, lift; cbn [fst]; rewrite S_upd_item; exact St2).
      assert (Eom : i_charge mit = None) by exact Eo.
      split; [exact K3|split; [|split]]; [apply (FLATs_srcs (fst s)); [exact S3|exact Fl]| |].
      { apply (CP_relink (fst s) _ m mit None Cp Hm Hncm).
        * intros j Nj _ _. apply Fr3; [exact Nj|discriminate].
        * eexists. split; [exact G3|]. split; reflexivity.
        * intros o0 E0. congruence.
        * intros i0 [=].
        * intros i0 [=]. }
      apply (LS_relink (fst s) _ m mit None Ls (same_src_structure _ _ St3) Hm Hdm).
      * intros j Nj _ _. apply Fr3; [exact Nj|discriminate].
      * eexists. split; [exact G3|]. split; reflexivity.
      * intros o0 oit' [E|E]; congruence.
  - intros He. pose proof (sticky_add _ _ _ _ He) as E2. pose proof (St12 E2) as E1.
    destruct (H1 E1) as (J1 & K1 & S1 & G1 & Hno & Ck1 & Fr1 & Old1).
    destruct (Store s1 mit (Some i) J1 K1 G1 Hdm Hno) as (J2 & K2 & S2 & G2 & Fr2).
    { intros o E. injection E as <-. now apply Ck1. }
    fold s2 in J2, K2, S2, G2, Fr2.
    assert (Ci2 : cls_of (fst s2) i = Some CCharge).
    { pose proof (Ck1 _ _ Hnew) as C1. unfold cls_of in *. destruct (Nat.eq_dec i m) as [->|Ni].
      - rewrite G1 in C1. injection C1 as C1. exfalso. apply (proj2 (direct_childcls mit)); [right; exact C1|exact Hdm].
      - now rewrite (Fr2 i Ni). }
    assert (Nim : i <> m).
    { intros ->. unfold cls_of in Ci2. rewrite G2 in Ci2. injection Ci2 as C. cbn in C.
      apply (proj2 (direct_childcls mit)); [right; exact C|exact Hdm]. }
    destruct (Add s2 i _ J2 K2 G2 eq_refl Ci2) as (K3 & S3 & Fr3 & New3 & Nd3); [|exact He|].
    + intros ait Ga. assert (Da : ~ direct ait).
      { apply direct_childcls. right. unfold cls_of in Ci2. rewrite Ga in Ci2. now injection Ci2. }
      apply (leaf_no_cont_unloaded (fst s2) i ait K2 Ga Da).
      unfold has_container in Hh. rewrite Ga in Hh. destruct (i_cont ait); [discriminate|reflexivity].
    + split; [exact K3|split; [|split]]; [apply (FLATs_srcs (fst s)); [congruence|exact Fl]| |].
      2:{ apply (LS_relink (fst s) _ m mit (Some i) Ls); [apply same_src_structure; rewrite S_add_item; exact St2|exact Hm|exact Hdm| | |].
          - intros j Nj No Ni. rewrite Fr3 by congruence. rewrite (Fr2 j Nj). now apply Fr1.
          - eexists. split; [rewrite (Fr3 m); [exact G2|]; intros E; now apply Nim|]. split; reflexivity.
          - intros o0 oit' Hor No0 Go0. destruct (Nat.eq_dec o0 i) as [->|Noi]; [now apply (Nd3 oit')|].
            destruct Hor as [E|E]; [|congruence]. symmetry in E. destruct (Old1 o0 E) as (o' & Go' & _ & _ & Do').
            rewrite (Fr3 o0 Noi), (Fr2 o0 No0), Go' in Go0. injection Go0 as <-. exact Do'. }
      apply (CP_relink (fst s) _ m mit (Some i) Cp Hm Hncm).
      * intros j Nj No Ni. rewrite Fr3 by congruence. rewrite (Fr2 j Nj). now apply Fr1.
      * eexists. split; [rewrite (Fr3 m); [exact G2|]; intros E; now apply Nim|]. split; reflexivity.
      * intros o Eo Hne. destruct (Old1 o Eo) as (o' & Go' & X1 & X2 & _). exists o'.
        rewrite Fr3 by congruence. rewrite (Fr2 o (Nold o Eo)). auto.
      * intros i0 [= <-]. exact New3.
      * intros i0 [= <-] Hne x xit Gx.
        (* i had no container when it was accepted *)
        assert (Hci : forall iit, get_item (fst s) i = Some iit -> i_cont iit = None).
        { intros iit Gi. rewrite <- (Fr1 i) in Gi by (intros E; apply Hne; now rewrite E).
          rewrite <- (Fr2 i Nim) in Gi. unfold has_container in Hh. rewrite Gi in Hh.
          destruct (i_cont iit); [discriminate|reflexivity]. }
        destruct Cp as (C1 & C2 & _). split; intros H.
        -- destruct (C1 x xit i Gx H) as (y & Gy & Cy). rewrite (Hci y Gy) in Cy. discriminate.
        -- destruct (C2 x xit i Gx H) as (y & Gy & Cy). rewrite (Hci y Gy) in Cy. discriminate.
Qed.

(* ------------------------------------------------------------------ *)
(* item setters                                                         *)

Lemma kview_set_target it v : kview (it_set_target it v) = kview it.
Proof.
  unfold kview. f_equal. destruct (direct_dec (it_set_target it v)) as [D|D], (direct_dec it) as [D'|D']; try reflexivity; contradiction.
Qed.
Lemma kview_set_level it v : kview (it_set_level it v) = kview it.
Proof.
  unfold kview. f_equal. destruct (direct_dec (it_set_level it v)) as [D|D], (direct_dec it) as [D'|D']; try reflexivity; contradiction.
Qed.

Theorem target_set_op_KK s i new : KK (fst s) -> KK (fst (fst (target_set_op s i new))) /\
  w_srcs (fst (fst (target_set_op s i new))) = w_srcs (fst s).
Proof.
  intros K. unfold target_set_op. destruct (get_item (fst s) i) as [it|] eqn:Hi.
  2:{ cbn [fst]. unfold lift. cbn [fst]. split; [apply (KK_same_k _ _ (same_k_fail _ _) K)|apply same_k_fail]. }
  destruct (onat_eqb (i_target it) new); [now split|].
  destruct (item_fit (fst s) i) as [f|]; cbn [fst].
  - match goal with |- context[match ?X with Some _ => _ | None => _ end] =>
      match X with fold_right _ _ _ => destruct X as [pe|] end end.
    2:{ cbn [fst]. unfold lift. cbn [fst]. split; [apply (KK_same_k _ _ (same_k_fail _ _) K)|apply same_k_fail]. }
    cbn [fst].
    set (s1 := match i_target it with Some o => emit_always s f _ | None => s end).
    assert (E1 : fst s1 = fst s) by (subst s1; destruct (i_target it); reflexivity).
    set (s2 := lift s1 (fun w => upd_item w i (fun it0 => it_set_target it0 new))).
    assert (S2 : same_k (fst s) (fst s2)).
    { unfold s2, lift. cbn [fst]. rewrite E1. apply same_k_upd. intros x. apply kview_set_target. }
    destruct new; (split; [apply (KK_same_k _ _ S2 K)|apply S2]).
  - unfold lift. cbn [fst].
    assert (S2 : same_k (fst s) (put_item (fst s) i (it_set_target it new)))
      by (eapply same_k_put; [exact Hi|apply kview_set_target]).
    split; [apply (KK_same_k _ _ S2 K)|apply S2].
Qed.

Theorem level_set_op_KK s i l : KK (fst s) -> KK (fst (fst (level_set_op s i l))) /\
  w_srcs (fst (fst (level_set_op s i l))) = w_srcs (fst s).
Proof.
  intros K. unfold level_set_op. destruct (get_item (fst s) i) as [it|] eqn:Hi.
  2:{ cbn [fst]. unfold lift. cbn [fst]. split; [apply (KK_same_k _ _ (same_k_fail _ _) K)|apply same_k_fail]. }
  destruct (i_level it =? l)%Z; [now split|].
  set (s1 := lift s _).
  assert (S1 : same_k (fst s) (fst s1)).
  { unfold s1, lift. cbn [fst]. eapply same_k_put; [exact Hi|apply kview_set_level]. }
  destruct (item_fit (fst s1) i); (split; [apply (KK_same_k _ _ S1 K)|apply S1]).
Qed.

Theorem mode_set_op_KK s i e m :
  KK (fst s) -> w_err (fst (fst (mode_set_op s i e m))) = None ->
  KK (fst (fst (mode_set_op s i e m))) /\ w_srcs (fst (fst (mode_set_op s i e m))) = w_srcs (fst s).
Proof.
  intros K. unfold mode_set_op. destruct (get_item (fst s) i) as [it|] eqn:Hi;
    [|cbn [fst]; unfold lift; cbn [fst]; intros He; destruct (err_fail_none _ _ He)].
  set (it1 := it_set_modes it _).
  set (s1 := lift s (fun w => put_item w i it1)).
  assert (E1 : fst s1 = put_item (fst s) i it1) by reflexivity.
  assert (G1 : get_item (fst s1) i = Some it1) by (rewrite E1; apply get_put_item_same').
  assert (U1 : upd1 (fst s) (fst s1) i) by (rewrite E1; apply upd1_put).
  destruct (direct_dec it) as [D|D].
  - (* a directly held item: nothing KK reads changes *)
    assert (S1 : same_k (fst s) (fst s1)).
    { rewrite E1. eapply same_k_put; [exact Hi|]. unfold kview. f_equal.
      destruct (direct_dec it1) as [Dx|Dx], (direct_dec it) as [D'|D']; try reflexivity; contradiction. }
    destruct (item_fit (fst s1) i) as [f|]; cbn [fst].
    + intros _. unfold with_msgs. pose proof (eu_run_only (fst s1) i) as RO.
      destruct (effects_update (fst s1) i) as [w2 m2]. cbn [fst] in *.
      pose proof (same_k_run_only_direct _ _ i it1 RO G1 D) as S2.
      split; [apply (KK_same_k _ _ (same_k_trans _ _ _ S1 S2) K)|]. apply (same_k_trans _ _ _ S1 S2).
    + intros _. split; [apply (KK_same_k _ _ S1 K)|apply S1].
  - (* a charge / autocharge: its table is re-established when it is on a fit; otherwise it is not loaded *)
    destruct (kk_flat _ K i it Hi D) as (Fc & Fa).
    destruct (item_fit (fst s1) i) as [f|] eqn:Ef; cbn [fst].
    + unfold with_msgs. pose proof (eu_run_only (fst s1) i) as RO.
      destruct (effects_update (fst s1) i) as [w2 m2] eqn:Eu. cbn [fst] in *. intros He.
      destruct RO as (U2 & R2 & _). destruct (R2 it1 G1) as (r & G2).
      assert (U : upd1 (fst s) w2 i) by (eapply upd1_trans; eauto).
      assert (Hfit : item_fit (fst s) i = Some f).
      { rewrite <- Ef. symmetry. apply (SKE_item_fit (fst s) (fst s1)). rewrite E1. eapply SKE_put; eauto. }
      split; [|destruct U as (Su & _); exact Su].
      apply (KK_child_step (fst s) w2 i it (it_set_running it1 r) K U Hi G2 D); try reflexivity; try assumption.
      * apply (eu_goodA (fst s1) i it1 w2 m2 G1 Eu He); [|exact G2].
        intros x Hx. cbn in Hx. destruct (kk_ra _ K i it (fun z => z) Hi D) as (_ & G2' & _).
        rewrite E1. unfold get_src. cbn [w_srcs put_item set_items]. now apply G2'.
      * intros _. congruence.
    + intros _. split; [|apply U1].
      assert (Hfit : item_fit (fst s) i = None).
      { rewrite <- Ef. symmetry. apply (SKE_item_fit (fst s) (fst s1)). rewrite E1. eapply SKE_put; eauto. }
      assert (Hl : i_loaded it = None).
      { destruct (i_loaded it) eqn:El; [|reflexivity]. exfalso. apply (kk_nl _ K i it Hi D); [congruence|exact Hfit]. }
      apply (KK_child_step (fst s) (fst s1) i it it1 K U1 Hi G1 D); try reflexivity; try assumption.
      * destruct (kk_ra _ K i it (fun z => z) Hi D) as (Ga & _).
        split; [|split]; cbn; [intros _; now apply Ga|intros x Hx; congruence|intros Hx; congruence].
      * cbn. intros Hx. congruence.
Qed.

(* --- the state of an item --------------------------------------------------------------------------- *)

(* everything KK reads except own states and running sets *)
Definition sview (it : item) := (i_cls it, i_cont it, i_loaded it, i_charge it, i_autos it, i_tid it, i_modes it).
Definition same_s (w w' : world) : Prop :=
  w_srcs w' = w_srcs w /\ forall j, option_map sview (get_item w' j) = option_map sview (get_item w j).
Lemma same_s_refl w : same_s w w. Proof. split; auto. Qed.
Lemma same_s_trans a b c : same_s a b -> same_s b c -> same_s a c.
Proof. intros (S1 & H1) (S2 & H2). split; [congruence|]. intros j. now rewrite H2, H1. Qed.
Lemma same_s_get w w' j it' : same_s w w' -> get_item w' j = Some it' -> exists it, get_item w j = Some it /\ sview it' = sview it.
Proof.
  intros (_ & H) G. specialize (H j). rewrite G in H. destruct (get_item w j) as [it|]; cbn [option_map] in H; [|discriminate].
  exists it. split; [reflexivity|congruence].
Qed.
Lemma same_s_get' w w' j it : same_s w w' -> get_item w j = Some it -> exists it', get_item w' j = Some it' /\ sview it' = sview it.
Proof.
  intros (_ & H) G. specialize (H j). rewrite G in H. destruct (get_item w' j) as [it'|]; cbn [option_map] in H; [|discriminate].
  exists it'. split; [reflexivity|congruence].
Qed.
Lemma same_s_run_only w w' i : run_only w w' i -> same_s w w'.
Proof.
  intros ((Hs & G) & R & Nn). split; [exact Hs|]. intros j. destruct (Nat.eq_dec j i) as [->|N]; [|now rewrite G].
  destruct (get_item w i) as [it|] eqn:E; [|now rewrite (Nn eq_refl)]. destruct (R it eq_refl) as (r & ->). reflexivity.
Qed.
Lemma sview_direct a b : sview a = sview b -> (direct a <-> direct b).
Proof. intros H. unfold sview in H. assert (E : i_cls a = i_cls b) by congruence. unfold direct. now rewrite E. Qed.
Lemma same_s_item_fit w w' : same_s w w' -> forall j, item_fit w' j = item_fit w j.
Proof.
  intros (_ & H). unfold item_fit. generalize 4%nat. induction n as [|n IH]; intros j; cbn [item_fit_n]; [reflexivity|].
  specialize (H j) as Hj.
  destruct (get_item w' j) as [a|], (get_item w j) as [b|]; cbn [option_map] in Hj; try congruence.
  assert (E : sview a = sview b) by congruence. unfold sview in E. assert (Ec : i_cont a = i_cont b) by congruence. rewrite Ec.
  destruct (i_cont b) as [[| | |p|p]|]; try reflexivity; apply IH.
Qed.

Lemma KK_same_s w w' : same_s w w' -> RA [] w' -> KK w -> KK w'.
Proof.
  intros S Ra [R F N P A L]. pose proof S as (Hs & _). constructor.
  - exact Ra.
  - intros c cit G D. destruct (same_s_get _ _ _ _ S G) as (it & G0 & E). unfold sview in E.
    assert (Ec : i_charge cit = i_charge it) by congruence. assert (Ea : i_autos cit = i_autos it) by congruence.
    rewrite Ec, Ea. apply (F c it G0). intros D0. apply D. apply (sview_direct cit it); [exact E|exact D0].
  - intros c cit G D. destruct (same_s_get _ _ _ _ S G) as (it & G0 & E).
    assert (Et : i_tid cit = i_tid it) by (unfold sview in E; congruence). rewrite Et.
    apply (NAtid_srcs w w' _ Hs). apply (N c it G0). intros D0. apply D. apply (sview_direct cit it); [exact E|exact D0].
  - intros c cit m G. destruct (same_s_get _ _ _ _ S G) as (it & G0 & E).
    assert (Ep : i_cont cit = i_cont it) by (unfold sview in E; congruence). rewrite Ep.
    destruct (P c it m G0) as (P1 & P2). split; intros H.
    + destruct (P1 H) as (mit & Gm & Hc). destruct (same_s_get' _ _ _ _ S Gm) as (mit' & Gm' & E').
      exists mit'. split; [exact Gm'|]. unfold sview in E'. congruence.
    + destruct (P2 H) as (mit & Gm & Hc). destruct (same_s_get' _ _ _ _ S Gm) as (mit' & Gm' & E').
      exists mit'. split; [exact Gm'|]. unfold sview in E'. assert (Ea : i_autos mit' = i_autos mit) by congruence. now rewrite Ea.
  - intros i it' G Hl. destruct (same_s_get _ _ _ _ S G) as (it & G0 & E). unfold sview in E.
    assert (Ea : i_autos it' = i_autos it) by congruence. rewrite Ea. apply (A i it G0). congruence.
  - intros c cit G D Hl. destruct (same_s_get _ _ _ _ S G) as (it & G0 & E).
    rewrite (same_s_item_fit _ _ S c). apply (L c it G0).
    + intros D0. apply D. apply (sview_direct cit it); [exact E|exact D0].
    + unfold sview in E. assert (El : i_loaded cit = i_loaded it) by congruence. now rewrite <- El.
Qed.

(* in a flat world the work list of the state setter is the state-inheriting part of the list it starts from *)
Lemma state_desc_flat w : forall (l : list nat) n,
  (forall x xit, In x l -> is_container_state w x = true -> get_item w x = Some xit -> child_items xit false = []) ->
  (length l <= n)%nat -> state_desc n w l = filter (is_container_state w) l.
Proof.
  induction l as [|x r IH]; intros n Hf Hlen.
  - destruct n; reflexivity.
  - destruct n as [|n]; [cbn in Hlen; lia|]. cbn [state_desc filter].
    destruct (is_container_state w x) eqn:Ex.
    + assert (Ech : match get_item w x with Some cit => child_items cit false | None => [] end = []).
      { destruct (get_item w x) as [xit|] eqn:Gx; [|reflexivity]. apply (Hf x xit); [now left|exact Ex|exact Gx]. }
      rewrite Ech, app_nil_r. f_equal. apply IH; [|cbn in Hlen; lia].
      intros y yit Iy. apply Hf. now right.
    + apply IH; [|cbn in Hlen; lia]. intros y yit Iy. apply Hf. now right.
Qed.

Lemma container_state_iff w c cit : get_item w c = Some cit -> (is_container_state w c = true <-> ~ direct cit).
Proof.
  intros G. unfold is_container_state, direct. rewrite G.
  destruct (cr_state (class_row_of (i_cls cit))); split; intros H; try discriminate; try reflexivity;
    try (intros X; now apply X); exfalso; apply H; discriminate.
Qed.

Definition unl_nil (w : world) : Prop :=
  forall c cit, get_item w c = Some cit -> ~ direct cit -> i_loaded cit = None -> i_running cit = [].
Definition src_ok (w : world) : Prop :=
  forall c cit s, get_item w c = Some cit -> ~ direct cit -> i_loaded cit = Some s -> get_src w s <> None.

(* the children on the work list are told about the switch, one after the other *)
Lemma state_fold_KK old new : forall (l : list nat) (w : world) (ms : list msg),
  RA l w -> unl_nil w -> src_ok w ->
  let r := fold_left (fun (acc : world * list msg) ch =>
                        let (w, ms) := acc in
                        if is_container_state w ch
                        then let (w, m2) := state_update_msgs w ch old new in (w, ms ++ m2)
                        else (w, ms)) l (w, ms) in
  w_err (fst r) = None ->
  RA [] (fst r) /\ same_s w (fst r) /\ SKE w (fst r).
Proof.
  induction l as [|ch rest IH]; intros w ms Ra Un So; cbn [fold_left].
  - cbv zeta. cbn [fst]. intros _. split; [exact Ra|split; [apply same_s_refl|apply SKE_refl]].
  - destruct (is_container_state w ch) eqn:Ec.
    + pose proof (state_update_run_only w ch old new) as RO.
      pose proof (state_update_sticky w ch old new) as St.
      destruct (state_update_msgs w ch old new) as [w1 m2] eqn:Esu. cbn [fst] in RO, St.
      pose proof (same_s_run_only _ _ _ RO) as Ss. pose proof (SKE_run_only _ _ _ RO) as Sk.
      cbv zeta. intros He.
      assert (He1 : w_err w1 = None).
      { destruct (state_fold_props old new rest w1 (ms ++ m2)) as (_ & S2 & _). now apply S2. }
      assert (Ra1 : RA rest w1).
      { intros c cit Nc G D. destruct (Nat.eq_dec c ch) as [->|Nch].
        - (* the item just handled *)
          destruct RO as (U1 & R1 & N1).
          destruct (get_item w ch) as [cit0|] eqn:G0; [|rewrite (N1 eq_refl) in G; discriminate].
          destruct (R1 cit0 eq_refl) as (r & G1). rewrite G1 in G. injection G as <-.
          unfold state_update_msgs in Esu. unfold is_loaded in Esu. rewrite G0 in Esu.
          assert (D0 : ~ direct cit0) by exact D.
          destruct (i_loaded cit0) as [sid|] eqn:El.
          + destruct (effects_update w ch) as [w2 m3] eqn:Eu. injection Esu as <- <-.
            apply (eu_goodA w ch cit0 w2 m3 G0 Eu He1); [|exact G1].
            intros x Hx. apply (So ch cit0 x G0 D0 Hx).
          + injection Esu as <- <-. rewrite G0 in G1. injection G1 as G1. rewrite <- G1.
            split; [|split]; [intros _; apply (Un ch cit0 G0 D0 El)|intros x Hx; congruence|intros Hx; congruence].
        - destruct RO as ((Hs & Go) & _). rewrite (Go c Nch) in G.
          apply (goodA_ext w w1 c cit cit Hs eq_refl (SKE_item_state _ _ Sk c)).
          apply Ra; [|exact G|exact D]. intros [E|I]; [now apply Nch|now apply Nc]. }
      assert (Un1 : unl_nil w1).
      { intros c cit G D El. destruct RO as ((_ & Go) & R1 & N1). destruct (Nat.eq_dec c ch) as [->|Nch].
        - destruct (get_item w ch) as [cit0|] eqn:G0; [|rewrite (N1 eq_refl) in G; discriminate].
          destruct (R1 cit0 eq_refl) as (r & G1). rewrite G1 in G. injection G as <-.
          unfold state_update_msgs, is_loaded in Esu. rewrite G0 in Esu. cbn in El. rewrite El in Esu.
          injection Esu as <- <-. rewrite G0 in G1. injection G1 as G1. rewrite <- G1. apply (Un ch cit0 G0 D El).
        - rewrite (Go c Nch) in G. now apply (Un c cit). }
      assert (So1 : src_ok w1).
      { intros c cit x G D El. destruct (same_s_get _ _ _ _ Ss G) as (it0 & G0 & E). unfold sview in E.
        unfold get_src. rewrite (proj1 Ss). apply (So c it0 x G0).
        - intros D0. apply D. apply (sview_direct cit it0); [exact E|exact D0].
        - congruence. }
      destruct (IH w1 (ms ++ m2) Ra1 Un1 So1 He) as (Rf & Sf & Kf).
      split; [exact Rf|split; [eapply same_s_trans; eauto|eapply SKE_trans; eauto]].
    + cbv zeta. intros He. apply (IH w ms); [|exact Un|exact So|exact He].
      intros c cit Nc G D. apply Ra; [|exact G|exact D]. intros [E|I]; [|now apply Nc].
      subst c. apply (container_state_iff w ch cit G) in D. congruence.
Qed.

Lemma item_state_child_class w c cit new :
  get_item w c = Some cit -> ~ direct cit -> i_cls new = i_cls cit -> i_cont new = i_cont cit ->
  forall j, item_state (put_item w c new) j = item_state w j.
Proof.
  intros Hc Dc Ec Ep. unfold item_state. generalize 4%nat. induction n as [|n IH]; intros j; cbn [item_state_n]; [reflexivity|].
  destruct (Nat.eq_dec j c) as [->|Nj].
  - rewrite get_put_item_same', Hc, Ec, Ep. unfold direct in Dc.
    destruct (cr_state (class_row_of (i_cls cit))); try (exfalso; apply Dc; discriminate).
    destruct (i_cont cit) as [[| | |p|p]|]; try reflexivity; apply IH.
  - rewrite get_put_item_other by exact Nj. destruct (get_item w j) as [it|]; [|reflexivity].
    destruct (cr_state (class_row_of (i_cls it))); try reflexivity.
    destruct (i_cont it) as [[| | |p|p]|]; try reflexivity; apply IH.
Qed.

(* the state of what a directly held item i does not hold is no concern of i's own state *)
Lemma item_state_not_child w i old new c cit :
  J w -> KK w -> get_item w i = Some old -> direct old -> i_cls new = i_cls old -> i_cont new = i_cont old ->
  get_item w c = Some cit -> ~ direct cit ->
  i_cont cit <> Some (PCharge i) -> i_cont cit <> Some (PAuto i) ->
  item_state (put_item w i new) c = item_state w c.
Proof.
  intros Jw K Hi Di Ec Ep Hc Dc N1 N2.
  assert (Nci : c <> i) by (intros ->; rewrite Hi in Hc; injection Hc as <-; contradiction).
  assert (Hc' : get_item (put_item w i new) c = Some cit) by (now rewrite get_put_item_other).
  destruct (i_cont cit) as [[f k|f k|f k|p|p]|] eqn:Ecc.
  1-3,6: unfold item_state; cbn [item_state_n]; rewrite Hc', Hc, Ecc;
    unfold direct in Dc; destruct (cr_state (class_row_of (i_cls cit))); try reflexivity; exfalso; apply Dc; discriminate.
  - destruct (parent_direct w c cit p K Hc (or_introl Ecc)) as (pit & Gp & Dp).
    assert (Npi : p <> i) by (intros ->; congruence).
    rewrite (item_state_child w c cit p pit Hc Dc (or_introl Ecc) Gp Dp).
    apply (item_state_child (put_item w i new) c cit p pit Hc' Dc (or_introl Ecc)); [|exact Dp].
    now rewrite get_put_item_other.
  - destruct (parent_direct w c cit p K Hc (or_intror Ecc)) as (pit & Gp & Dp).
    assert (Npi : p <> i) by (intros ->; congruence).
    rewrite (item_state_child w c cit p pit Hc Dc (or_intror Ecc) Gp Dp).
    apply (item_state_child (put_item w i new) c cit p pit Hc' Dc (or_intror Ecc)); [|exact Dp].
    now rewrite get_put_item_other.
Qed.

Theorem state_set_op_KK s i new :
  J (fst s) -> KK (fst s) -> w_err (fst (fst (state_set_op s i new))) = None ->
  KK (fst (fst (state_set_op s i new))) /\ w_srcs (fst (fst (state_set_op s i new))) = w_srcs (fst s).
Proof.
  intros Js K. unfold state_set_op. destruct (get_item (fst s) i) as [it|] eqn:Hi;
    [|cbn [fst]; unfold lift; cbn [fst]; intros He; destruct (err_fail_none _ _ He)].
  destruct (i_state it =? new)%Z; [intros _; now split|].
  set (it1 := it_set_state it new).
  set (s1 := lift s (fun w => put_item w i it1)).
  assert (E1 : fst s1 = put_item (fst s) i it1) by reflexivity.
  assert (G1 : get_item (fst s1) i = Some it1) by (rewrite E1; apply get_put_item_same').
  assert (Go1 : forall j, j <> i -> get_item (fst s1) j = get_item (fst s) j) by (intros j N; rewrite E1; now apply get_put_item_other).
  assert (Ss1 : same_s (fst s) (fst s1)).
  { split; [reflexivity|]. intros j. destruct (Nat.eq_dec j i) as [->|N]; [now rewrite G1, Hi|now rewrite Go1]. }
  destruct (direct_dec it) as [D|D].
  - (* a directly held item *)
    assert (Chi : forall c cit, get_item (fst s) c = Some cit -> ~ direct cit ->
                  (i_cont cit = Some (PCharge i) \/ i_cont cit = Some (PAuto i)) -> In c (child_items it false)).
    { intros c cit Gc Dc [Hp|Hp].
      - destruct (kk_pc _ K c cit i Gc) as (P1 & _). destruct (P1 Hp) as (x & Gx & Hx). rewrite Hi in Gx. injection Gx as <-.
        unfold child_items. rewrite Hx. now left.
      - destruct (kk_pc _ K c cit i Gc) as (_ & P2). destruct (P2 Hp) as (x & Gx & Hx). rewrite Hi in Gx. injection Gx as <-.
        unfold child_items. apply in_or_app. now right. }
    assert (Other : forall c cit, get_item (fst s) c = Some cit -> ~ direct cit -> ~ In c (child_items it false) ->
                    item_state (fst s1) c = item_state (fst s) c).
    { intros c cit Gc Dc Nin. rewrite E1. apply (item_state_not_child (fst s) i it it1 c cit Js K Hi D eq_refl eq_refl Gc Dc).
      - intros Hp. apply Nin. apply (Chi c cit Gc Dc). now left.
      - intros Hp. apply Nin. apply (Chi c cit Gc Dc). now right. }
    destruct (item_fit (fst s1) i) as [f|] eqn:Ef; cbn [fst].
    + unfold with_msgs.
      pose proof (state_update_run_only (fst s1) i (i_state it) new) as RO.
      destruct (state_update_msgs (fst s1) i (i_state it) new) as [w2 m2] eqn:Esu. cbn [fst] in RO.
      set (l := state_desc (length (child_items it false) + S (length (w_items w2))) w2 (child_items it false)).
      match goal with |- context[let (_, _) := ?X in _] => remember X as r eqn:Er end.
      fold l in Er. destruct r as [w3 m3]. unfold emit_always. cbn [fst]. intros He.
      pose proof (same_s_run_only _ _ _ RO) as Ss2. pose proof (SKE_run_only _ _ _ RO) as Sk2.
      destruct RO as ((Hs2 & Go2) & R2 & _). destruct (R2 it1 G1) as (rr & G2).
      (* children of i are on the work list *)
      assert (Lin : forall c cit, get_item w2 c = Some cit -> ~ direct cit -> In c (child_items it false) -> In c l).
      { intros c cit Gc Dc I. unfold l. rewrite state_desc_flat; [|intros x xit Ix Ex Gx|lia].
        - apply filter_In. split; [exact I|]. now apply (container_state_iff w2 c cit Gc).
        - apply (container_state_iff w2 x xit Gx) in Ex.
          destruct (same_s_get _ _ _ _ (same_s_trans _ _ _ Ss1 Ss2) Gx) as (x0 & Gx0 & E0).
          assert (Dx0 : ~ direct x0) by (intros Dx; apply Ex; apply (sview_direct xit x0); assumption).
          destruct (kk_flat _ K x x0 Gx0 Dx0) as (F1 & F2). unfold sview in E0. unfold child_items.
          assert (i_charge xit = None) by congruence. assert (i_autos xit = []) by congruence. now rewrite H, H0. }
      assert (Ra2 : RA l w2).
      { intros c cit Nc Gc Dc.
        assert (Nci : c <> i) by (intros ->; rewrite G2 in Gc; injection Gc as <-; apply Dc; exact D).
        rewrite (Go2 c Nci), (Go1 c Nci) in Gc.
        assert (Nin : ~ In c (child_items it false)).
        { intros I. apply Nc. apply (Lin c cit); [now rewrite (Go2 c Nci), (Go1 c Nci)|exact Dc|exact I]. }
        apply (goodA_ext (fst s) w2 c cit cit); [now rewrite Hs2|reflexivity| |apply (kk_ra _ K c cit (fun z => z) Gc Dc)].
        rewrite (SKE_item_state _ _ Sk2 c). apply (Other c cit Gc Dc Nin). }
      assert (Un2 : unl_nil w2).
      { intros c cit Gc Dc El.
        assert (Nci : c <> i) by (intros ->; rewrite G2 in Gc; injection Gc as <-; apply Dc; exact D).
        rewrite (Go2 c Nci), (Go1 c Nci) in Gc. destruct (kk_ra _ K c cit (fun z => z) Gc Dc) as (A1 & _). now apply A1. }
      assert (So2 : src_ok w2).
      { intros c cit x Gc Dc El.
        assert (Nci : c <> i) by (intros ->; rewrite G2 in Gc; injection Gc as <-; apply Dc; exact D).
        rewrite (Go2 c Nci), (Go1 c Nci) in Gc. destruct (kk_ra _ K c cit (fun z => z) Gc Dc) as (_ & A2 & _).
        unfold get_src. rewrite Hs2. now apply (A2 x). }
      pose proof (state_fold_KK (i_state it) new l w2 m2 Ra2 Un2 So2) as HF. cbv zeta in HF. rewrite <- Er in HF.
      cbn [fst] in HF. destruct (HF He) as (Rf & Sf & _).
      split.
      * apply (KK_same_s (fst s) w3); [|exact Rf|exact K].
        eapply same_s_trans; [exact Ss1|]. eapply same_s_trans; [exact Ss2|exact Sf].
      * rewrite (proj1 Sf), Hs2. reflexivity.
    + intros _. split; [|reflexivity].
      apply (KK_same_s (fst s) (fst s1) Ss1); [|exact K].
      intros c cit _ Gc Dc.
      assert (Nci : c <> i) by (intros ->; rewrite G1 in Gc; injection Gc as <-; apply Dc; exact D).
      rewrite (Go1 c Nci) in Gc. pose proof (kk_ra _ K c cit (fun z => z) Gc Dc) as Gd.
      assert (Hfit : item_fit (fst s) i = None).
      { rewrite <- Ef. symmetry. apply (same_s_item_fit _ _ Ss1). }
      assert (Hni : forall y, i_cont it <> Some (PCharge y) /\ i_cont it <> Some (PAuto y))
        by (apply (direct_cont_fit (fst s) i it Js K Hi D)).
      assert (Hfc : fitcont_of it = None).
      { unfold item_fit in Hfit. rewrite (item_fit_top 3 (fst s) i it Hi Hni) in Hfit.
        destruct (fitcont_of it) as [[f k|f k|f k|y|y]|] eqn:Efc; try discriminate; try reflexivity;
          exfalso; unfold fitcont_of in Efc; destruct (i_cont it) as [[| | |z|z]|]; discriminate. }
      destruct (i_cont cit) as [pl|] eqn:Ecc.
      * destruct (place_eq_dec pl (PCharge i)) as [->|N1].
        -- (* a child of a detached item is not loaded *)
           pose proof (children_of_detached_unloaded (fst s) i it c cit Js K Hi D Hfc Gc (or_introl Ecc)) as Hl.
           destruct Gd as (A1 & A2 & A3). split; [exact A1|split; [intros x Hx; congruence|intros Hx; congruence]].
        -- destruct (place_eq_dec pl (PAuto i)) as [->|N2].
           ++ pose proof (children_of_detached_unloaded (fst s) i it c cit Js K Hi D Hfc Gc (or_intror Ecc)) as Hl.
              destruct Gd as (A1 & A2 & A3). split; [exact A1|split; [intros x Hx; congruence|intros Hx; congruence]].
           ++ apply (goodA_ext (fst s) (fst s1) c cit cit eq_refl eq_refl); [|exact Gd]. rewrite E1.
              apply (item_state_not_child (fst s) i it it1 c cit Js K Hi D eq_refl eq_refl Gc Dc); congruence.
      * apply (goodA_ext (fst s) (fst s1) c cit cit eq_refl eq_refl); [|exact Gd]. rewrite E1.
        apply (item_state_not_child (fst s) i it it1 c cit Js K Hi D eq_refl eq_refl Gc Dc); congruence.
  - (* a charge / autocharge: its own state field is not its state *)
    destruct (kk_flat _ K i it Hi D) as (Fc & Fa).
    assert (Hst1 : forall j, item_state (fst s1) j = item_state (fst s) j).
    { intros j. rewrite E1. apply (item_state_child_class (fst s) i it it1 Hi D eq_refl eq_refl). }
    assert (U1 : upd1 (fst s) (fst s1) i) by (rewrite E1; apply upd1_put).
    assert (Hfit1 : item_fit (fst s1) i = item_fit (fst s) i) by (apply (same_s_item_fit _ _ Ss1)).
    destruct (kk_ra _ K i it (fun z => z) Hi D) as (A1 & A2 & A3).
    destruct (item_fit (fst s1) i) as [f|] eqn:Ef; cbn [fst].
    + unfold with_msgs.
      pose proof (state_update_run_only (fst s1) i (i_state it) new) as RO.
      pose proof (state_update_sticky (fst s1) i (i_state it) new) as St.
      destruct (state_update_msgs (fst s1) i (i_state it) new) as [w2 m2] eqn:Esu. cbn [fst] in RO, St.
      assert (El : state_desc (length (child_items it false) + S (length (w_items w2))) w2 (child_items it false) = []).
      { unfold child_items. rewrite Fc, Fa. cbn [app map length]. reflexivity. }
      rewrite El. cbn [fold_left]. unfold emit_always. cbn [fst]. intros He.
      destruct RO as (U2 & R2 & _). destruct (R2 it1 G1) as (rr & G2).
      assert (U : upd1 (fst s) w2 i) by (eapply upd1_trans; eauto).
      split; [|apply U].
      apply (KK_child_step (fst s) w2 i it (it_set_running it1 rr) K U Hi G2 D); try reflexivity; try assumption.
      * unfold state_update_msgs, is_loaded in Esu. rewrite G1 in Esu. cbn [i_loaded it1 it_set_state] in Esu.
        destruct (i_loaded it) as [sid|] eqn:Eld.
        -- destruct (effects_update (fst s1) i) as [w3 m3] eqn:Eu. injection Esu as <- <-.
           apply (eu_goodA (fst s1) i it1 w3 m3 G1 Eu He); [|exact G2].
           intros x Hx. cbn in Hx. rewrite E1. unfold get_src. cbn [w_srcs put_item set_items]. apply (A2 x). congruence.
        -- injection Esu as Ew Em. rewrite <- Ew in G2 |- *. rewrite get_put_item_same' in G2. injection G2 as G2'. rewrite <- G2'.
           split; [|split]; cbn; [intros _; now apply A1|intros x Hx; congruence|intros Hx; congruence].
      * intros _. rewrite <- Hfit1. congruence.
    + intros _. split; [|apply U1].
      assert (Hl : i_loaded it = None).
      { destruct (i_loaded it) eqn:Eld; [|reflexivity]. exfalso. apply (kk_nl _ K i it Hi D); [congruence|congruence]. }
      apply (KK_child_step (fst s) (fst s1) i it it1 K U1 Hi G1 D); try reflexivity; try assumption.
      * split; [|split]; cbn; [intros _; now apply A1|intros x Hx; congruence|intros Hx; congruence].
      * cbn. intros Hx. congruence.
Qed.


(* ------------------------------------------------------------------ *)
(* fleets: nothing an item knows changes                                *)

Theorem fleet_add_op_KJ s fl f : KJ (fst s) -> KJ (fst (fst (fleet_add_op s fl f))).
Proof.
  intros R. unfold fleet_add_op. destruct (fit_fleet (fst s) f); [exact R|].
  cbn [fst]. unfold emit_always, lift. cbn [fst]. eapply KJ_same_is; [apply same_isf_fleet_link|exact R].
Qed.
Lemma fleet_remove_one_KJ s fl f : KJ (fst s) -> KJ (fst (fleet_remove_one s fl f)).
Proof.
  intros R. unfold fleet_remove_one, emit_always, lift. cbn [fst].
  eapply KJ_same_is; [apply same_isf_fleet_link|exact R].
Qed.
Theorem fleet_remove_op_KJ s fl f : KJ (fst s) -> KJ (fst (fst (fleet_remove_op s fl f))).
Proof.
  intros R. unfold fleet_remove_op. destruct (mem neqb _ f); cbn [negb fst]; [|exact R].
  now apply fleet_remove_one_KJ.
Qed.
Theorem fleet_clear_op_KJ s fl : KJ (fst s) -> KJ (fst (fst (fleet_clear_op s fl))).
Proof.
  intros R. unfold fleet_clear_op. cbn [fst].
  generalize (fleet_fits (fst s) fl). intros l. revert s R. induction l as [|x l IH]; intros s R; cbn [fold_left]; [exact R|].
  apply IH. now apply fleet_remove_one_KJ.
Qed.

(* ------------------------------------------------------------------ *)
(* unloading and loading the items of a fit                             *)

Definition dir_unloaded (w : world) (j : nat) : Prop :=
  forall jit, get_item w j = Some jit -> direct jit -> i_loaded jit = None.

Theorem unload_KJ s i :
  KJ (fst s) -> w_err (fst (unload F s i)) = None ->
  KJ (fst (unload F s i)) /\ dir_unloaded (fst (unload F s i)) i /\
  (forall j, j <> i -> dir_unloaded (fst s) j -> dir_unloaded (fst (unload F s i)) j).
Proof.
  intros (R & K & Fl & Cp & Ls) He. pose proof (proj2 R) as Js.
  assert (R' : RJ (fst (unload F s i))) by (now apply unload_RJ).
  rewrite F_eq in *.
  destruct (get_item (fst s) i) as [it|] eqn:Hi.
  - destruct (direct_dec it) as [D|D].
    + destruct (unload_dir 9 s i it Js K Hi D He) as (_ & K' & S' & (mi & Gi & Li & _) & Fr).
      pose proof (unload_dir_CP 9 s i it Js K Cp Hi D He) as Cp'.
      pose proof (unload_dir_LS 9 s i it Js K Ls Hi D He) as Ls'.
      split; [split; [exact R'|split; [exact K'|split; [apply (FLATs_srcs (fst s)); assumption|split; [exact Cp'|exact Ls']]]]|split].
      * intros x Gx _. rewrite Gi in Gx. injection Gx as <-. exact Li.
      * intros j Nj Hj jit Gj Dj.
        destruct (in_dec Nat.eq_dec j (map snd (i_autos it))) as [I|NI].
        -- exfalso. apply in_map_iff in I as ([e a] & Ea & I). cbn in Ea. subst a.
           destruct Js as (_ & _ & J4 & _). pose proof (J4 i it e j Hi I) as C.
           (* j is an autocharge: its class is kept, so it is not directly held *)
           pose proof (unload_KEEP 12 s i (proj2 R)) as (_ & _ & _ & Ck).
           specialize (Ck j _ C). unfold cls_of in Ck. rewrite Gj in Ck. injection Ck as Ck.
           apply (proj2 (direct_childcls jit)); [left; exact Ck|exact Dj].
        -- rewrite (Fr j Nj NI) in Gj. now apply (Hj jit).
    + destruct (unload_leaf 11 s i it K Hi D He) as (K' & (S' & Go) & (ci & Gci & _ & Vci & _)).
      assert (Cp' : CP (fst (unload 12 s i))).
      { apply (CP_same_l (fst s)); [|exact Cp]. apply (same_l_upd1_view (fst s) _ i it ci (conj S' Go) Hi Gci Vci). }
      assert (Ls' : LS (fst (unload 12 s i))).
      { apply (LS_upd1_leaf (fst s) _ i ci Ls (conj S' Go) (S_unload _ s i) Gci).
        unfold view in Vci. assert (Ecx : i_cls ci = i_cls it) by congruence. unfold direct in *. now rewrite Ecx. }
      split; [split; [exact R'|split; [exact K'|split; [apply (FLATs_srcs (fst s)); assumption|split; [exact Cp'|exact Ls']]]]|split].
      * intros x Gx Dx. exfalso.
        pose proof (unload_KEEP 12 s i (proj2 R)) as (_ & _ & _ & Ck).
        assert (C : cls_of (fst s) i = Some (i_cls it)) by (unfold cls_of; now rewrite Hi).
        specialize (Ck i _ C). unfold cls_of in Ck. rewrite Gx in Ck. injection Ck as Ck.
        apply D. unfold direct in *. now rewrite <- Ck.
      * intros j Nj Hj jit Gj Dj. rewrite (Go j Nj) in Gj. now apply (Hj jit).
  - exfalso. revert He. cbn [unload]. rewrite Hi. unfold lift. cbn [fst]. intros H. exact (err_fail_none _ _ H).
Qed.

(* creating autocharges for m leaves every other directly held item as it was (new items are autocharges) *)

Theorem load_KJ s i :
  KJ (fst s) -> dir_unloaded (fst s) i -> w_err (fst (load F s i)) = None ->
  KJ (fst (load F s i)) /\
  (forall j, j <> i -> dir_unloaded (fst s) j -> dir_unloaded (fst (load F s i)) j).
Proof.
  intros (R & K & Fl & Cp & Ls) Hu He. pose proof (proj2 R) as Js.
  assert (R' : RJ (fst (load F s i))) by (now apply load_RJ).
  rewrite F_eq in *.
  destruct (get_item (fst s) i) as [it|] eqn:Hi.
  - destruct (direct_dec it) as [D|D].
    + pose proof (Hu it Hi D) as Hl.
      destruct (load_dir 9 s i it Js K Cp Hi D Hl (Fl (i_tid it)) He) as (_ & K' & S' & _ & _ & Cp').
      pose proof (load_dir_LS 9 s i it Js K Cp Ls Hi D Hl (Fl (i_tid it)) He) as Ls'.
      split; [split; [exact R'|split; [exact K'|split; [apply (FLATs_srcs (fst s)); assumption|split; [exact Cp'|exact Ls']]]]|].
      intros j Nj Hj jit Gj Dj.
      pose proof (load_dir_frame 9 s i it Js K Hi D Hl (Fl (i_tid it)) He j jit Gj Dj Nj) as G0. now apply (Hj jit).
    + destruct (load_leaf 11 s i it K Hi D He) as (K' & (S' & Go) & (ci & Gci & Vci & _)).
      assert (Cp' : CP (fst (load 12 s i))).
      { apply (CP_same_l (fst s)); [|exact Cp]. apply (same_l_upd1_view (fst s) _ i it ci (conj S' Go) Hi Gci Vci). }
      assert (Ls' : LS (fst (load 12 s i))).
      { apply (LS_upd1_leaf (fst s) _ i ci Ls (conj S' Go) (S_load _ s i) Gci).
        unfold view in Vci. assert (Ecx : i_cls ci = i_cls it) by congruence. unfold direct in *. now rewrite Ecx. }
      split; [split; [exact R'|split; [exact K'|split; [apply (FLATs_srcs (fst s)); assumption|split; [exact Cp'|exact Ls']]]]|].
      intros j Nj Hj jit Gj Dj. rewrite (Go j Nj) in Gj. now apply (Hj jit).
  - exfalso. revert He. cbn [load]. rewrite Hi. unfold lift. cbn [fst]. intros H. exact (err_fail_none _ _ H).
Qed.

Lemma load_list_KJ : forall (l : list nat) (s : st),
  KJ (fst s) -> NoDup l -> (forall j, In j l -> dir_unloaded (fst s) j) ->
  w_err (fst (fold_left (fun s i => load F s i) l s)) = None ->
  KJ (fst (fold_left (fun s i => load F s i) l s)) /\
  (forall j, ~ In j l -> dir_unloaded (fst s) j -> dir_unloaded (fst (fold_left (fun s i => load F s i) l s)) j).
Proof.
  induction l as [|i l IH]; intros s R Hn Hu He; cbn [fold_left] in *.
  - split; [exact R|auto].
  - inversion Hn as [|? ? Ni Hn']; subst.
    assert (He1 : w_err (fst (load F s i)) = None).
    { revert He. apply (C_fold sticky sticky_refl sticky_trans). intros; apply sticky_load. }
    destruct (load_KJ s i R (Hu i (or_introl eq_refl)) He1) as (R1 & Fr1).
    destruct (IH (load F s i) R1 Hn') as (R2 & Fr2); [|exact He|].
    + intros j Ij. apply Fr1; [intros ->; contradiction|apply Hu; now right].
    + split; [exact R2|]. intros j Nj Hj. apply Fr2; [intros I; apply Nj; now right|].
      apply Fr1; [intros ->; apply Nj; now left|exact Hj].
Qed.

Lemma unload_list_KJ : forall (l : list nat) (s : st),
  KJ (fst s) -> w_err (fst (fold_left (fun s i => unload F s i) l s)) = None ->
  KJ (fst (fold_left (fun s i => unload F s i) l s)) /\
  (forall j, In j l \/ dir_unloaded (fst s) j -> dir_unloaded (fst (fold_left (fun s i => unload F s i) l s)) j).
Proof.
  induction l as [|i l IH]; intros s R He; cbn [fold_left] in *.
  - split; [exact R|]. intros j [[]|H]; exact H.
  - assert (He1 : w_err (fst (unload F s i)) = None).
    { revert He. apply (C_fold sticky sticky_refl sticky_trans). intros; apply sticky_unload. }
    destruct (unload_KJ s i R He1) as (R1 & Ui & Fr1).
    destruct (IH (unload F s i) R1 He) as (R2 & Fr2).
    split; [exact R2|]. intros j Hj. apply Fr2.
    destruct (Nat.eq_dec j i) as [->|Nj]; [right; exact Ui|].
    destruct Hj as [[E|I]|Hj]; [congruence|now left|right; now apply Fr1].
Qed.

(* the items of a fit, as the loops over a fit see them *)

Lemma load_fit_items_KJ s f :
  KJ (fst s) -> NoDup (fit_list (fst s) f) -> (forall j, In j (fit_list (fst s) f) -> dir_unloaded (fst s) j) ->
  w_err (fst (load_fit_items s f)) = None ->
  KJ (fst (load_fit_items s f)) /\
  (forall j, ~ In j (fit_list (fst s) f) -> dir_unloaded (fst s) j -> dir_unloaded (fst (load_fit_items s f)) j).
Proof.
  unfold load_fit_items, fit_list. destruct (get_fit (fst s) f);
    [|intros _ _ _; unfold lift; cbn [fst]; intros He; destruct (err_fail_none _ _ He)].
  apply load_list_KJ.
Qed.

Lemma unload_fit_items_KJ s f :
  KJ (fst s) -> w_err (fst (unload_fit_items s f)) = None ->
  KJ (fst (unload_fit_items s f)) /\
  (forall j, In j (fit_list (fst s) f) \/ dir_unloaded (fst s) j -> dir_unloaded (fst (unload_fit_items s f)) j).
Proof.
  unfold unload_fit_items, fit_list. destruct (get_fit (fst s) f);
    [|intros _; unfold lift; cbn [fst]; intros He; destruct (err_fail_none _ _ He)].
  apply unload_list_KJ.
Qed.

(* ------------------------------------------------------------------ *)
(* linking a fit to a solar system and back                             *)

Lemma KJ_same_is_ls w w' : same_is w w' -> LS w' -> KJ w -> KJ w'.
Proof.
  intros S L' (R & K & Fl & Cp & _).
  split; [eapply RJ_same_is; eauto|split; [eapply KK_same_is; eauto|split; [|split; [|exact L']]]].
  - apply (FLATs_srcs w w'); [apply S|exact Fl].
  - apply (CP_same_l w w'); [apply same_l_items; apply S|exact Cp].
Qed.

Lemma ss_set_fits_src w x l f : fit_source_id (ss_set_fits w x l) f = fit_source_id w f.
Proof.
  unfold ss_set_fits. destruct (get_ss w x) as [y|] eqn:Gy; [|apply same_src_fail].
  unfold fit_source_id, fit_solsys, get_fit, get_ss, put_ss. cbn [w_fits set_sss w_ss].
  destruct (match al_get neqb (w_fits w) f with Some ft => f_solsys ft | None => None end) as [z|]; [|reflexivity].
  destruct (Nat.eq_dec z x) as [->|N].
  - rewrite al_get_set_same. unfold get_ss in Gy. now rewrite Gy.
  - rewrite al_get_set_other by congruence. reflexivity.
Qed.
Lemma link_src_other w x l f g f' :
  f' <> f -> fit_source_id (upd_fit (ss_set_fits w x l) f g) f' = fit_source_id w f'.
Proof.
  intros N. rewrite <- (ss_set_fits_src w x l f'). set (w0 := ss_set_fits w x l).
  unfold upd_fit. destruct (get_fit w0 f) as [ft|]; [|apply same_src_fail].
  unfold fit_source_id, fit_solsys, get_fit, put_fit. cbn [w_fits set_fits w_ss]. now rewrite al_get_set_other by congruence.
Qed.
Lemma link_src_none w x l f : fit_source_id (upd_fit (ss_set_fits w x l) f (fun ft => fit_set_solsys ft None)) f = None.
Proof.
  set (w0 := ss_set_fits w x l). unfold upd_fit. destruct (get_fit w0 f) as [ft|] eqn:Gf.
  - unfold fit_source_id, fit_solsys, get_fit, put_fit. cbn [w_fits set_fits]. now rewrite al_get_set_same.
  - rewrite (same_src_fail w0 EKeyAbsent f). unfold fit_source_id, fit_solsys. now rewrite Gf.
Qed.

(* a directly held item whose container reference names a container of fit f is in the item list of f *)
Lemma cmem_top ft p j : In j (cmem ft p) -> In j (fit_top_items ft).
Proof.
  unfold fit_top_items. destruct p as [f k|f k|f k|y|y]; cbn [cmem]; try (intros []);
    destruct k; cbn [fit_slot fit_setc fit_rack]; rewrite !in_app_iff; tauto.
Qed.
Lemma members_fit_list w p f j : pfit p = Some f -> In j (members w p) -> In j (fit_list w f).
Proof.
  intros Hp. unfold members, fit_list. rewrite Hp. destruct (get_fit w f) as [ft|]; [|intros []].
  intros I. unfold fit_items. apply in_flat_map. exists j. split; [eapply cmem_top; eauto|now left].
Qed.
Lemma fit_of_place_fitcont it f : fit_of_place (i_cont it) = Some f ->
  exists p, fitcont_of it = Some p /\ pfit p = Some f.
Proof.
  unfold fit_of_place, fitcont_of. destruct (i_cont it) as [[a b|a b|a b|y|y]|]; try discriminate; intros [= ->]; eexists; split; reflexivity.
Qed.
Lemma listed_of_cont w j jit f :
  CI w -> get_item w j = Some jit -> fit_of_place (i_cont jit) = Some f -> In j (fit_list w f).
Proof.
  intros (_ & M & _) G E. destruct (fit_of_place_fitcont jit f E) as (p & Ep & Hp).
  apply (members_fit_list w p f j Hp). apply M. unfold fitcont. now rewrite G.
Qed.

(* ------------------------------------------------------------------ *)
(* the item list of a fit: duplicate-free; unloaded when the fit has no solar system *)

Definition places (f : nat) : list place :=
  [PSlot f SlCharacter; PSlot f SlShip; PSlot f SlStance; PSlot f SlBeacon;
   PSet f SeSkills; PSet f SeImplants; PSet f SeBoosters; PSet f SeSubsystems;
   PRack f RHigh; PRack f RMid; PRack f RLow; PSet f SeRigs; PSet f SeDrones; PSet f SeFighters].
Lemma top_places ft f : fit_top_items ft = flat_map (cmem ft) (places f).
Proof. unfold fit_top_items, places. cbn [flat_map cmem fit_slot fit_setc fit_rack]. now rewrite app_nil_r. Qed.
Lemma places_nodup f : NoDup (places f).
Proof. unfold places. repeat (constructor; [cbn; intuition discriminate|]). constructor. Qed.
Lemma places_pfit f p : In p (places f) -> pfit p = Some f.
Proof. unfold places. cbn. intuition (subst; reflexivity). Qed.

Lemma NoDup_app_intro {A} (a b : list A) :
  NoDup a -> NoDup b -> (forall x, In x a -> In x b -> False) -> NoDup (a ++ b).
Proof.
  induction a as [|x a IH]; cbn; intros Ha Hb Hd; [exact Hb|].
  inversion Ha as [|? ? Nx Ha']; subst. constructor.
  - rewrite in_app_iff. intros [I|I]; [contradiction|]. apply (Hd x); [now left|exact I].
  - apply IH; [exact Ha'|exact Hb|]. intros y Iy. apply Hd. now right.
Qed.
Lemma NoDup_flat_map_disjoint {A B} (g : A -> list B) (l : list A) :
  NoDup l -> (forall x, In x l -> NoDup (g x)) ->
  (forall x y z, In x l -> In y l -> x <> y -> In z (g x) -> In z (g y) -> False) ->
  NoDup (flat_map g l).
Proof.
  induction l as [|a l IH]; cbn; intros Hn Hg Hd; [constructor|].
  inversion Hn as [|? ? Na Hn']; subst. apply NoDup_app_intro.
  - apply Hg. now left.
  - apply IH; [exact Hn'|intros x I; apply Hg; now right|]. intros x y z Ix Iy. apply Hd; now right.
  - intros z Iz I. apply in_flat_map in I as (y & Iy & Izy).
    apply (Hd a y z); [now left|now right|intros ->; contradiction|exact Iz|exact Izy].
Qed.

Lemma top_items_nodup w f ft : CI w -> get_fit w f = Some ft -> NoDup (fit_top_items ft).
Proof.
  intros (_ & M & ND) Gf. rewrite (top_places ft f).
  assert (Em : forall p, In p (places f) -> members w p = cmem ft p).
  { intros p Ip. unfold members. now rewrite (places_pfit f p Ip), Gf. }
  apply NoDup_flat_map_disjoint; [apply places_nodup| |].
  - intros p Ip. rewrite <- (Em p Ip). apply ND.
  - intros p q z Ip Iq Npq Hp Hq. rewrite <- (Em p Ip) in Hp. rewrite <- (Em q Iq) in Hq.
    apply M in Hp. apply M in Hq. congruence.
Qed.
Lemma top_item_place w f ft j : get_fit w f = Some ft -> In j (fit_top_items ft) ->
  exists p, pfit p = Some f /\ In j (members w p).
Proof.
  intros Gf I. rewrite (top_places ft f) in I. apply in_flat_map in I as (p & Ip & Ij).
  exists p. split; [now apply places_pfit|]. unfold members. now rewrite (places_pfit f p Ip), Gf.
Qed.

(* the whole item list: tops and their charges *)
Lemma fit_list_nodup w f : CI w -> KJ w -> NoDup (fit_list w f).
Proof.
  intros C (R & K & _ & (C1 & _ & _) & _). pose proof (proj1 C) as Js. pose proof (CI_LD w C) as Ld.
  unfold fit_list. destruct (get_fit w f) as [ft|] eqn:Gf; [|constructor].
  unfold fit_items.
  assert (Dtop : forall i, In i (fit_top_items ft) -> exists it, get_item w i = Some it /\ direct it).
  { intros i I. destruct (top_item_place w f ft i Gf I) as (p & _ & Im). exact (Ld p i Im). }
  assert (Hch : forall i it c, get_item w i = Some it -> i_charge it = Some c ->
                exists cit, get_item w c = Some cit /\ ~ direct cit /\ i_cont cit = Some (PCharge i)).
  { intros i it c G E. destruct (C1 i it c G E) as (cit & Gc & Ec). exists cit. split; [exact Gc|split; [|exact Ec]].
    destruct Js as (_ & _ & _ & J5). pose proof (J5 i it c G E) as Cc. unfold cls_of in Cc. rewrite Gc in Cc.
    injection Cc as Cc. apply direct_childcls. now right. }
  apply NoDup_flat_map_disjoint; [now apply (top_items_nodup w f ft)| |].
  - intros i I. destruct (Dtop i I) as (it & G & D). rewrite G. unfold child_items. rewrite app_nil_r.
    destruct (i_charge it) as [c|] eqn:Ec; [|constructor; [intros []|constructor]].
    constructor; [|constructor; [intros []|constructor]]. intros [E|[]]. subst c.
    destruct (Hch i it i G Ec) as (cit & Gc & Dc & _). rewrite G in Gc. injection Gc as <-. contradiction.
  - intros i i' z Ii Ii' Nii Hz Hz'.
    destruct (Dtop i Ii) as (it & G & D). destruct (Dtop i' Ii') as (it' & G' & D').
    rewrite G in Hz. rewrite G' in Hz'. unfold child_items in Hz, Hz'. rewrite app_nil_r in Hz, Hz'.
    destruct Hz as [<-|Hz]; destruct Hz' as [<-|Hz'].
    + contradiction.
    + destruct (i_charge it') as [c'|] eqn:Ec'; [|destruct Hz']. destruct Hz' as [<-|[]].
      destruct (Hch i' it' c' G' Ec') as (cit & Gc & Dc & _). rewrite G in Gc. injection Gc as <-. contradiction.
    + destruct (i_charge it) as [c|] eqn:Ec; [|destruct Hz]. destruct Hz as [<-|[]].
      destruct (Hch i it c G Ec) as (cit & Gc & Dc & _). rewrite G' in Gc. injection Gc as <-. contradiction.
    + destruct (i_charge it) as [c|] eqn:Ec; [|destruct Hz]. destruct Hz as [<-|[]].
      destruct (i_charge it') as [c'|] eqn:Ec'; [|destruct Hz']. destruct Hz' as [<-|[]].
      destruct (Hch i it c' G Ec) as (cit & Gc & _ & E1). destruct (Hch i' it' c' G' Ec') as (cit' & Gc' & _ & E2).
      rewrite Gc in Gc'. injection Gc' as <-. congruence.
Qed.

(* every directly held item of a fit whose solar system has no source (or which has no solar system) is unloaded *)
Lemma fit_list_unloaded w f : CI w -> KJ w -> fit_source_id w f = None ->
  forall j, In j (fit_list w f) -> dir_unloaded w j.
Proof.
  intros C (R & K & _ & _ & Ls) Hs j Ij jit G D. pose proof C as (Js & M & _).
  unfold fit_list in Ij. destruct (get_fit w f) as [ft|] eqn:Gf; [|destruct Ij].
  unfold fit_items in Ij. apply in_flat_map in Ij as (i & Ii & Ij).
  destruct Ij as [<-|Ij].
  - (* a top item: its container reference names fit f *)
    destruct (top_item_place w f ft i Gf Ii) as (p & Hp & Im). apply M in Im. unfold fitcont in Im. rewrite G in Im.
    destruct (i_loaded jit) as [src|] eqn:El; [|reflexivity]. exfalso.
    destruct (Ls i jit src G D El) as (f' & Ef & Es).
    assert (f' = f).
    { unfold fitcont_of in Im. unfold fit_of_place in Ef. destruct (i_cont jit) as [[a b|a b|a b|y|y]|]; try discriminate;
        injection Im as <-; cbn in Hp; congruence. }
    subst f'. congruence.
  - (* a charge of a top item is not directly held *)
    exfalso. destruct (get_item w i) as [it|] eqn:Gi; [|destruct Ij]. unfold child_items in Ij. rewrite app_nil_r in Ij.
    destruct (i_charge it) as [c|] eqn:Ec; [|destruct Ij]. destruct Ij as [<-|[]].
    destruct Js as (_ & _ & _ & J5). pose proof (J5 i it c Gi Ec) as Cc. unfold cls_of in Cc. rewrite G in Cc.
    injection Cc as Cc. apply (proj2 (direct_childcls jit)); [right; exact Cc|exact D].
Qed.

Lemma fit_items_same w1 w ft : w_items w1 = w_items w -> fit_items w1 ft true = fit_items w ft true.
Proof. intros H. unfold fit_items, get_item. now rewrite H. Qed.
Lemma fit_list_link w x l f v g :
  fit_list (upd_fit (ss_set_fits w x l) f (fun ft => fit_set_solsys ft v)) g = fit_list w g.
Proof.
  set (w0 := ss_set_fits w x l).
  assert (E0 : w_fits w0 = w_fits w /\ w_items w0 = w_items w).
  { unfold w0, ss_set_fits. destruct (get_ss w x); [split; reflexivity|]. unfold fail. destruct (w_err w); split; reflexivity. }
  destruct E0 as (Ef & Ei).
  assert (G0 : forall k, get_fit w0 k = get_fit w k) by (intros k; unfold get_fit; now rewrite Ef).
  unfold upd_fit. destruct (get_fit w0 f) as [ft|] eqn:Gf.
  - set (w1 := put_fit w0 f (fit_set_solsys ft v)).
    assert (Hi : w_items w1 = w_items w) by exact Ei.
    unfold fit_list. destruct (Nat.eq_dec g f) as [->|N].
    + assert (Hg : get_fit w1 f = Some (fit_set_solsys ft v)) by (unfold w1, get_fit, put_fit; cbn [w_fits set_fits]; apply al_get_set_same).
      rewrite Hg. rewrite <- (G0 f), Gf. rewrite (fit_items_same w1 w _ Hi). reflexivity.
    + assert (Hg : get_fit w1 g = get_fit w g).
      { rewrite <- (G0 g). unfold w1, get_fit, put_fit. cbn [w_fits set_fits]. apply al_get_set_other. congruence. }
      rewrite Hg. destruct (get_fit w g); [|reflexivity]. now apply fit_items_same.
  - assert (Hi : w_items (fail w0 EKeyAbsent) = w_items w) by (unfold fail; destruct (w_err w0); exact Ei).
    unfold fit_list. assert (Hg : get_fit (fail w0 EKeyAbsent) g = get_fit w g).
    { rewrite <- (G0 g). unfold get_fit, fail. destruct (w_err w0); reflexivity. }
    rewrite Hg. destruct (get_fit w g); [|reflexivity]. now apply fit_items_same.
Qed.

Theorem solsys_add_op_KJ s x f :
  KJ (fst s) -> CI (fst s) ->
  w_err (fst (fst (solsys_add_op s x f))) = None -> KJ (fst (fst (solsys_add_op s x f))).
Proof.
  intros R C. unfold solsys_add_op. destruct (fit_solsys (fst s) f) eqn:Efs; [auto|]. cbn [fst].
  assert (Hs0 : fit_source_id (fst s) f = None) by (unfold fit_source_id; now rewrite Efs).
  assert (Hn : NoDup (fit_list (upd_fit (ss_set_fits (fst s) x (set_add neqb (ss_fit_list (fst s) x) f)) f
                                        (fun ft => fit_set_solsys ft (Some x))) f))
    by (rewrite fit_list_link; now apply fit_list_nodup).
  assert (Hu : forall j, In j (fit_list (upd_fit (ss_set_fits (fst s) x (set_add neqb (ss_fit_list (fst s) x) f)) f
                                                 (fun ft => fit_set_solsys ft (Some x))) f) ->
                         dir_unloaded (upd_fit (ss_set_fits (fst s) x (set_add neqb (ss_fit_list (fst s) x) f)) f
                                               (fun ft => fit_set_solsys ft (Some x))) j).
  { intros j Ij jit G D. rewrite fit_list_link in Ij.
    rewrite (same_is_get _ _ j (same_is_solsys_link _ _ _ _ _)) in G.
    exact (fit_list_unloaded (fst s) f C R Hs0 j Ij jit G D). }
  set (s1 := lift s _).
  assert (R1 : KJ (fst s1)).
  { unfold s1, lift. cbn [fst]. eapply KJ_same_is_ls; [apply same_is_solsys_link| |exact R].
    (* the fit had no solar system, so nothing of it was loaded; every other fit sees the source it saw *)
    destruct R as (_ & _ & _ & _ & Ls). intros j jit src G D El.
    rewrite (same_is_get _ _ j (same_is_solsys_link _ _ _ _ _)) in G.
    destruct (Ls j jit src G D El) as (f' & Ef & Es). exists f'. split; [exact Ef|].
    rewrite link_src_other; [exact Es|]. intros ->. unfold fit_source_id in Es. rewrite Efs in Es. discriminate. }
  intros He. now apply (load_fit_items_KJ s1 f R1 Hn Hu He).
Qed.

Lemma solsys_remove_one_KJ s x f :
  KJ (fst s) -> CI (fst s) -> w_err (fst (solsys_remove_one s x f)) = None -> KJ (fst (solsys_remove_one s x f)).
Proof.
  intros R C. unfold solsys_remove_one, lift. cbn [fst]. intros He.
  pose proof (sticky_solsys_link _ _ _ _ _ He) as E1.
  destruct (unload_fit_items_KJ s f R E1) as (R1 & Hu).
  eapply KJ_same_is_ls; [apply same_is_solsys_link| |exact R1].
  (* everything of the fit was unloaded; every other fit sees the source it saw *)
  pose proof R1 as (_ & _ & _ & _ & Ls1). intros j jit src G D El.
  rewrite (same_is_get _ _ j (same_is_solsys_link _ _ _ _ _)) in G.
  destruct (Ls1 j jit src G D El) as (f' & Ef & Es). exists f'. split; [exact Ef|].
  destruct (Nat.eq_dec f' f) as [->|N]; [|now rewrite link_src_other].
  exfalso. pose proof (unload_fit_items_MK s f (proj1 C)) as (Kp & _). destruct Kp as (Fc & _).
  (* j names a container of f now, so it did before, so it was listed and has been unloaded *)
  destruct (fit_of_place_fitcont jit f Ef) as (p & Ep & Hp).
  assert (Fj : fitcont (fst s) j = Some p) by (rewrite <- Fc; unfold fitcont; now rewrite G).
  assert (Ij : In j (fit_list (fst s) f)).
  { apply (members_fit_list (fst s) p f j Hp). destruct C as (_ & M & _). now apply M. }
  pose proof (Hu j (or_introl Ij) jit G D) as Hl. congruence.
Qed.
Theorem solsys_remove_op_KJ s x f :
  KJ (fst s) -> CI (fst s) -> w_err (fst (fst (solsys_remove_op s x f))) = None -> KJ (fst (fst (solsys_remove_op s x f))).
Proof.
  intros R C. unfold solsys_remove_op. destruct (mem neqb _ f); cbn [negb fst]; [|auto].
  now apply solsys_remove_one_KJ.
Qed.
Theorem solsys_clear_op_KJ s x :
  KJ (fst s) -> CI (fst s) -> w_err (fst (fst (solsys_clear_op s x))) = None -> KJ (fst (fst (solsys_clear_op s x))).
Proof.
  intros R C. unfold solsys_clear_op. cbn [fst]. generalize (ss_fit_list (fst s) x). intros l. revert s R C.
  induction l as [|f l IH]; intros s R C He; cbn [fold_left] in *; [exact R|].
  assert (He1 : w_err (fst (solsys_remove_one s x f)) = None).
  { revert He. apply (C_fold sticky sticky_refl sticky_trans). intros; apply solsys_remove_one_sticky. }
  apply IH; [now apply solsys_remove_one_KJ| |exact He].
  apply (CI_MK (fst s)); [exact C|]. apply solsys_remove_one_MK. apply C.
Qed.

(* loading keeps who is whose charge, so the item lists of the fits stay what they are *)
Definition charge_kept (w w' : world) : Prop :=
  (forall j jit, get_item w j = Some jit -> exists jit', get_item w' j = Some jit' /\ i_charge jit' = i_charge jit) /\
  (forall j jit', get_item w j = None -> get_item w' j = Some jit' -> i_charge jit' = None).
Lemma charge_kept_refl w : charge_kept w w.
Proof. split; [intros j jit G; exists jit; auto|intros j x G G'; congruence]. Qed.
Lemma charge_kept_trans a b c : charge_kept a b -> charge_kept b c -> charge_kept a c.
Proof.
  intros (A1 & A2) (B1 & B2). split.
  - intros j jit G. destruct (A1 j jit G) as (x & Gx & Ex). destruct (B1 j x Gx) as (y & Gy & Ey). exists y. split; [exact Gy|congruence].
  - intros j z G Gz. destruct (get_item b j) as [x|] eqn:Gb.
    + destruct (B1 j x Gb) as (y & Gy & Ey). rewrite Gz in Gy. injection Gy as <-. rewrite Ey. now apply (A2 j x).
    + now apply (B2 j z).
Qed.

Lemma fit_list_kept w w' f : w_fits w' = w_fits w -> charge_kept w w' -> fit_list w' f = fit_list w f.
Proof.
  intros Hf (C1 & C2). unfold fit_list, get_fit. rewrite Hf. destruct (al_get neqb (w_fits w) f) as [ft|]; [|reflexivity].
  unfold fit_items. apply flat_map_ext. intros i. f_equal.
  destruct (get_item w i) as [it|] eqn:G.
  - destruct (C1 i it G) as (x & Gx & Ex). rewrite Gx. unfold child_items. now rewrite Ex.
  - destruct (get_item w' i) as [x|] eqn:Gx; [|reflexivity]. unfold child_items. now rewrite (C2 i x G Gx).
Qed.

Lemma load_charge_kept s i :
  KJ (fst s) -> dir_unloaded (fst s) i -> w_err (fst (load F s i)) = None -> charge_kept (fst s) (fst (load F s i)).
Proof.
  intros (R & K & Fl & Cp & Ls) Hu He. pose proof (proj2 R) as Js.
  destruct (load_KJ s i (conj R (conj K (conj Fl (conj Cp Ls)))) Hu He) as ((R' & K' & _) & _).
  rewrite F_eq in *.
  destruct (get_item (fst s) i) as [it|] eqn:Hi.
  - destruct (direct_dec it) as [D|D].
    + pose proof (Hu it Hi D) as Hl.
      destruct (load_dir 9 s i it Js K Cp Hi D Hl (Fl (i_tid it)) He) as (_ & _ & _ & (mi & Gi & _ & _ & _ & Eci & _) & Fr & _).
      assert (New : forall j x, get_item (fst (load 12 s i)) j = Some x -> j <> i -> ~ (j < w_next (fst s))%nat -> i_charge x = None).
      { intros j x Gx Nj Nlt. destruct (direct_dec x) as [Dx|Dx].
        - pose proof (load_dir_frame 9 s i it Js K Hi D Hl (Fl (i_tid it)) He j x Gx Dx Nj) as G0.
          destruct Js as (I0 & _). apply I0 in G0. contradiction.
        - apply (kk_flat _ K' j x Gx Dx). }
      split.
      * intros j jit G. destruct (Nat.eq_dec j i) as [->|Nj].
        -- rewrite Hi in G. injection G as <-. exists mi. now split.
        -- exists jit. split; [|reflexivity]. rewrite Fr; [exact G|exact Nj|]. destruct Js as (I0 & _). now apply (I0 j jit).
      * intros j x G Gx. destruct (Nat.eq_dec j i) as [->|Nj]; [congruence|].
        destruct (lt_dec j (w_next (fst s))) as [Hlt|Hnl].
        -- rewrite (Fr j Nj Hlt) in Gx. congruence.
        -- now apply (New j x Gx Nj Hnl).
    + destruct (load_leaf 11 s i it K Hi D He) as (_ & (_ & Go) & (ci & Gci & Vci & _)).
      split.
      * intros j jit G. destruct (Nat.eq_dec j i) as [->|Nj].
        -- rewrite Hi in G. injection G as <-. exists ci. split; [exact Gci|]. unfold view in Vci. congruence.
        -- exists jit. split; [now rewrite (Go j Nj)|reflexivity].
      * intros j x G Gx. destruct (Nat.eq_dec j i) as [->|Nj]; [congruence|]. rewrite (Go j Nj) in Gx. congruence.
  - exfalso. revert He. cbn [load]. rewrite Hi. unfold lift. cbn [fst]. intros H. exact (err_fail_none _ _ H).
Qed.

Lemma load_list_kept : forall (l : list nat) (s : st),
  KJ (fst s) -> NoDup l -> (forall j, In j l -> dir_unloaded (fst s) j) ->
  w_err (fst (fold_left (fun s i => load F s i) l s)) = None ->
  charge_kept (fst s) (fst (fold_left (fun s i => load F s i) l s)) /\
  w_fits (fst (fold_left (fun s i => load F s i) l s)) = w_fits (fst s).
Proof.
  induction l as [|i l IH]; intros s R Hn Hu He; cbn [fold_left] in *.
  - split; [apply charge_kept_refl|reflexivity].
  - inversion Hn as [|? ? Ni Hn']; subst.
    assert (He1 : w_err (fst (load F s i)) = None).
    { revert He. apply (C_fold sticky sticky_refl sticky_trans). intros; apply sticky_load. }
    destruct (load_KJ s i R (Hu i (or_introl eq_refl)) He1) as (R1 & Fr1).
    pose proof (load_charge_kept s i R (Hu i (or_introl eq_refl)) He1) as C1.
    destruct (IH (load F s i) R1 Hn') as (C2 & F2); [|exact He|].
    + intros j Ij. apply Fr1; [intros ->; contradiction|apply Hu; now right].
    + split; [eapply charge_kept_trans; eauto|]. rewrite F2.
      pose proof (S_load F s i) as Sl. unfold structure in Sl. congruence.
Qed.

Lemma NoDup_app_inv {A} (a b : list A) : NoDup (a ++ b) -> NoDup a /\ NoDup b /\ forall x, In x a -> In x b -> False.
Proof.
  induction a as [|x a IH]; cbn; intros H; [split; [constructor|split; [exact H|intros x []]]|].
  inversion H as [|? ? Nx H']; subst. destruct (IH H') as (Na & Nb & Dj). split; [|split; [exact Nb|]].
  - constructor; [|exact Na]. intros I. apply Nx. apply in_or_app. now left.
  - intros y [<-|Iy] Ib; [apply Nx; apply in_or_app; now right|now apply (Dj y)].
Qed.

Lemma load_fits_KJ : forall (fl : list nat) (s : st),
  KJ (fst s) -> NoDup (flat_map (fit_list (fst s)) fl) ->
  (forall j, In j (flat_map (fit_list (fst s)) fl) -> dir_unloaded (fst s) j) ->
  w_err (fst (fold_left load_fit_items fl s)) = None ->
  KJ (fst (fold_left load_fit_items fl s)).
Proof.
  induction fl as [|f fl IH]; intros s R Hn Hu He; cbn [fold_left flat_map] in *; [exact R|].
  assert (He1 : w_err (fst (load_fit_items s f)) = None).
  { revert He. apply (C_fold sticky sticky_refl sticky_trans). intros; apply load_fit_items_sticky. }
  destruct (NoDup_app_inv _ _ Hn) as (Hn1 & Hn2 & Hdj).
  assert (Hu1 : forall j, In j (fit_list (fst s) f) -> dir_unloaded (fst s) j) by (intros j I; apply Hu; apply in_or_app; now left).
  destruct (load_fit_items_KJ s f R Hn1 Hu1 He1) as (R1 & Fr1).
  (* the item lists of the remaining fits are unchanged *)
  assert (Kept : forall g, fit_list (fst (load_fit_items s f)) g = fit_list (fst s) g).
  { intros g. unfold load_fit_items in *.
    destruct (get_fit (fst s) f) as [ft|] eqn:Gf.
    - assert (El : fit_list (fst s) f = fit_items (fst s) ft true) by (unfold fit_list; now rewrite Gf).
      rewrite El in Hn1, Hu1.
      destruct (load_list_kept (fit_items (fst s) ft true) s R Hn1 Hu1 He1) as (Ck & Fk).
      now apply fit_list_kept.
    - exfalso. unfold lift in He1. cbn [fst] in He1. exact (err_fail_none _ _ He1). }
  apply IH; [exact R1| | |exact He].
  - rewrite (flat_map_ext _ _ Kept). exact Hn2.
  - intros j I. rewrite (flat_map_ext _ _ Kept) in I. apply Fr1.
    + intros I1. apply (Hdj j I1 I).
    + apply Hu. apply in_or_app. now right.
Qed.

(* ------------------------------------------------------------------ *)
(* a source switch: what the first phase leaves behind                  *)

(* after the item lists of the fits in l were unloaded: every directly held item whose container reference names
   a container of one of these fits is unloaded, and whatever was unloaded stays unloaded *)
Lemma unload_fits_cont : forall (l : list nat) (s : st),
  KJ (fst s) -> CI (fst s) -> w_err (fst (fold_left unload_fit_items l s)) = None ->
  let s' := fold_left unload_fit_items l s in
  KJ (fst s') /\ CI (fst s') /\
  (forall j, fitcont (fst s') j = fitcont (fst s) j) /\
  (forall j, dir_unloaded (fst s) j -> dir_unloaded (fst s') j) /\
  (forall f, In f l -> forall j jit, get_item (fst s') j = Some jit -> direct jit ->
             fit_of_place (i_cont jit) = Some f -> i_loaded jit = None).
Proof.
  induction l as [|f0 l IH]; intros s R C He; cbn [fold_left] in *.
  - cbv zeta. split; [exact R|split; [exact C|split; [reflexivity|split; [auto|intros f []]]]].
  - assert (He1 : w_err (fst (unload_fit_items s f0)) = None).
    { revert He. apply (C_fold sticky sticky_refl sticky_trans). intros; apply unload_fit_items_sticky. }
    destruct (unload_fit_items_KJ s f0 R He1) as (R1 & Hu1).
    pose proof (unload_fit_items_MK s f0 (proj1 C)) as MK1.
    pose proof (CI_MK _ _ C MK1) as C1.
    destruct MK1 as ((Fc1 & _) & _).
    destruct (IH (unload_fit_items s f0) R1 C1 He) as (R' & C' & Fc' & Keep' & Un').
    cbv zeta. split; [exact R'|split; [exact C'|split; [|split]]].
    + intros j. now rewrite Fc', Fc1.
    + intros j Hj. apply Keep'. apply Hu1. now right.
    + intros f [<-|If] j jit G D Ef; [|now apply (Un' f If j jit G D Ef)].
      (* j names a container of f0 now, so it did at the start, so it was listed and has been unloaded *)
      destruct (fit_of_place_fitcont jit f0 Ef) as (p & Ep & Hp).
      assert (Fj : fitcont (fst s) j = Some p) by (rewrite <- Fc1, <- Fc'; unfold fitcont; now rewrite G).
      assert (Ij : In j (fit_list (fst s) f0)).
      { apply (members_fit_list (fst s) p f0 j Hp). destruct C as (_ & M & _). now apply M. }
      exact (Keep' j (Hu1 j (or_introl Ij)) jit G D).
Qed.

(* the item lists of two fits share nothing *)
Lemma fit_list_disjoint w f g z : CI w -> KJ w -> f <> g -> In z (fit_list w f) -> In z (fit_list w g) -> False.
Proof.
  intros C (R & K & _ & (C1 & _ & _) & _) Nfg If Ig. pose proof C as (Js & M & _). pose proof (CI_LD w C) as Ld.
  unfold fit_list in If, Ig.
  destruct (get_fit w f) as [ft|] eqn:Gf; [|destruct If]. destruct (get_fit w g) as [gt|] eqn:Gg; [|destruct Ig].
  unfold fit_items in If, Ig. apply in_flat_map in If as (i & Ii & Hz). apply in_flat_map in Ig as (i' & Ii' & Hz').
  destruct (top_item_place w f ft i Gf Ii) as (p & Hp & Im). destruct (top_item_place w g gt i' Gg Ii') as (q & Hq & Im').
  destruct (Ld p i Im) as (it & G & D). destruct (Ld q i' Im') as (it' & G' & D').
  assert (Top : i = i' -> False).
  { intros ->. apply M in Im. apply M in Im'. rewrite Im in Im'. injection Im' as ->. congruence. }
  assert (Hch : forall a ait c, get_item w a = Some ait -> i_charge ait = Some c ->
                exists cit, get_item w c = Some cit /\ ~ direct cit /\ i_cont cit = Some (PCharge a)).
  { intros a ait c Ga E. destruct (C1 a ait c Ga E) as (cit & Gc & Ec). exists cit. split; [exact Gc|split; [|exact Ec]].
    destruct Js as (_ & _ & _ & J5). pose proof (J5 a ait c Ga E) as Cc. unfold cls_of in Cc. rewrite Gc in Cc.
    injection Cc as Cc. apply direct_childcls. now right. }
  rewrite G in Hz. rewrite G' in Hz'. unfold child_items in Hz, Hz'. rewrite app_nil_r in Hz, Hz'.
  destruct Hz as [<-|Hz]; destruct Hz' as [E'|Hz'].
  - now apply Top.
  - destruct (i_charge it') as [c'|] eqn:Ec'; [|destruct Hz']. destruct Hz' as [<-|[]].
    destruct (Hch i' it' c' G' Ec') as (cit & Gc & Dc & _). rewrite G in Gc. injection Gc as <-. contradiction.
  - destruct (i_charge it) as [c|] eqn:Ec; [|destruct Hz]. destruct Hz as [Ez|[]].
    assert (Eci : c = i') by congruence. rewrite Eci in Ec. clear Ez Eci.
    destruct (Hch i it i' G Ec) as (cit & Gc & Dc & _). rewrite G' in Gc. injection Gc as <-. contradiction.
  - destruct (i_charge it) as [c|] eqn:Ec; [|destruct Hz]. destruct Hz as [<-|[]].
    destruct (i_charge it') as [c'|] eqn:Ec'; [|destruct Hz']. destruct Hz' as [<-|[]].
    destruct (Hch i it c' G Ec) as (cit & Gc & _ & E1). destruct (Hch i' it' c' G' Ec') as (cit' & Gc' & _ & E2).
    rewrite Gc in Gc'. injection Gc' as <-. apply Top. congruence.
Qed.

(* the state between unloading and reloading *)
Lemma unload_fit_items_S s f : structure (fst (unload_fit_items s f)) = structure (fst s).
Proof.
  unfold unload_fit_items. destruct (get_fit (fst s) f); [apply S_fold; intros; apply S_unload|].
  unfold lift. cbn [fst]. apply S_fail.
Qed.

Lemma src_mid_facts s x y new :
  KJ (fst s) -> CI (fst s) -> SSI (fst s) -> get_ss (fst s) x = Some y -> onat_eqb (ss_source y) new = false ->
  w_err (fst (src_mid s x y new)) = None ->
  let m := fst (src_mid s x y new) in
  LS m /\
  (NoDup (flat_map (fit_list m) (ss_fit_list m x)) /\
   forall j, In j (flat_map (fit_list m) (ss_fit_list m x)) -> dir_unloaded m j).
Proof.
  intros R C I Gy Hne He. cbv zeta.
  unfold src_mid in *.
  set (s1 := match ss_source y with Some _ => fold_left unload_fit_items (ss_fits y) s | None => s end) in *.
  assert (He1 : w_err (fst s1) = None).
  { unfold lift in He. cbn [fst] in He. destruct (get_ss (fst s1) x); [exact He|destruct (err_fail_none _ _ He)]. }
  (* phase 1 *)
  assert (P1 : KJ (fst s1) /\ CI (fst s1) /\ structure (fst s1) = structure (fst s) /\
               (forall f j jit, In f (ss_fits y) -> get_item (fst s1) j = Some jit -> direct jit ->
                                fit_of_place (i_cont jit) = Some f -> i_loaded jit = None)).
  { unfold s1 in *. destruct (ss_source y) as [old|] eqn:Eo.
    - destruct (unload_fits_cont (ss_fits y) s R C He1) as (R1 & C1 & _ & _ & Un).
      split; [exact R1|split; [exact C1|split]].
      + apply S_fold. intros; apply unload_fit_items_S.
      + intros f j jit If G D Ef. exact (Un f If j jit G D Ef).
    - split; [exact R|split; [exact C|split; [reflexivity|]]].
      (* no source: by LS nothing of these fits is loaded *)
      intros f j jit If G D Ef. destruct (i_loaded jit) as [src|] eqn:El; [|reflexivity]. exfalso.
      destruct R as (_ & _ & _ & _ & Ls). destruct (Ls j jit src G D El) as (f' & Ef' & Es).
      assert (f' = f) by congruence. subst f'.
      assert (Efs : fit_solsys (fst s) f = Some x) by (apply I; unfold ss_fit_list; now rewrite Gy).
      unfold fit_source_id in Es. rewrite Efs, Gy, Eo in Es. discriminate. }
  destruct P1 as (R1 & C1 & St1 & Un1).
  assert (Gy1 : get_ss (fst s1) x = Some y).
  { unfold get_ss. unfold structure in St1. assert (E : w_ss (fst s1) = w_ss (fst s)) by congruence. rewrite E. exact Gy. }
  assert (I1 : SSI (fst s1)) by (apply (SSI_same_link (fst s)); [now apply sl_structure|exact I]).
  unfold lift in *. cbn [fst] in *. rewrite Gy1 in *.
  set (m := put_ss (fst s1) x (mkSolsys new (ss_fits y))).
  assert (Gi : forall j, get_item m j = get_item (fst s1) j) by reflexivity.
  assert (Gf : forall f, get_fit m f = get_fit (fst s1) f) by reflexivity.
  assert (Fl : forall f, fit_list m f = fit_list (fst s1) f) by reflexivity.
  assert (Lx : ss_fit_list m x = ss_fits y).
  { unfold ss_fit_list, get_ss, m, put_ss. cbn [w_ss set_sss]. now rewrite al_get_set_same. }
  assert (Src : forall f, fit_solsys (fst s1) f <> Some x -> fit_source_id m f = fit_source_id (fst s1) f).
  { intros f Nf. unfold fit_source_id. change (fit_solsys m f) with (fit_solsys (fst s1) f).
    destruct (fit_solsys (fst s1) f) as [z|]; [|reflexivity].
    unfold get_ss, m, put_ss. cbn [w_ss set_sss]. rewrite al_get_set_other; [reflexivity|]. intros ->. congruence. }
  (* nothing that sits on a fit of x is loaded *)
  assert (UnX : forall f j jit, fit_solsys (fst s1) f = Some x -> get_item (fst s1) j = Some jit -> direct jit ->
                                fit_of_place (i_cont jit) = Some f -> i_loaded jit = None).
  { intros f j jit Ef G D Ep. apply (Un1 f j jit); try assumption.
    destruct I1 as (I1a & _). apply I1a in Ef. unfold ss_fit_list in Ef. now rewrite Gy1 in Ef. }
  split; [|split].
  - intros j jit src G D El. rewrite Gi in G.
    destruct R1 as (_ & _ & _ & _ & Ls1). destruct (Ls1 j jit src G D El) as (f & Ef & Es).
    exists f. split; [exact Ef|]. rewrite Src; [exact Es|]. intros Efx. pose proof (UnX f j jit Efx G D Ef). congruence.
  - rewrite Lx. apply NoDup_flat_map_disjoint.
    + destruct I as (_ & I2). specialize (I2 x). unfold ss_fit_list in I2. now rewrite Gy in I2.
    + intros f _. rewrite Fl. now apply fit_list_nodup.
    + intros f g z _ _ Nfg. rewrite !Fl. now apply (fit_list_disjoint (fst s1)).
  - rewrite Lx. intros j Ij jit G D. rewrite Gi in G. apply in_flat_map in Ij as (f & If & Ij). rewrite Fl in Ij.
    (* a directly held item in the list of f is a top item of f: its reference names a container of f *)
    pose proof C1 as (Js1 & M1 & _).
    unfold fit_list in Ij. destruct (get_fit (fst s1) f) as [ft|] eqn:Gft; [|destruct Ij].
    unfold fit_items in Ij. apply in_flat_map in Ij as (i & Ii & Hj). destruct Hj as [<-|Hj].
    + destruct (top_item_place (fst s1) f ft i Gft Ii) as (p & Hp & Im). apply M1 in Im. unfold fitcont in Im. rewrite G in Im.
      apply (Un1 f i jit If G D). unfold fitcont_of in Im. unfold fit_of_place.
      destruct (i_cont jit) as [[a b|a b|a b|z|z]|]; try discriminate; injection Im as <-; cbn in Hp; congruence.
    + exfalso. destruct (get_item (fst s1) i) as [it|] eqn:Gi1; [|destruct Hj]. unfold child_items in Hj. rewrite app_nil_r in Hj.
      destruct (i_charge it) as [c|] eqn:Ec; [|destruct Hj]. destruct Hj as [<-|[]].
      destruct Js1 as (_ & _ & _ & J5). pose proof (J5 i it c Gi1 Ec) as Cc. unfold cls_of in Cc. rewrite G in Cc.
      injection Cc as Cc. apply (proj2 (direct_childcls jit)); [right; exact Cc|exact D].
Qed.

Theorem source_set_op_KJ s x new :
  KJ (fst s) -> CI (fst s) -> SSI (fst s) ->
  w_err (fst (fst (source_set_op s x new))) = None -> KJ (fst (fst (source_set_op s x new))).
Proof.
  intros R C I. pose proof (src_mid_facts s x) as Facts.
  unfold source_set_op. destruct (get_ss (fst s) x) as [y|] eqn:Gy;
    [|cbn [fst]; unfold lift; cbn [fst]; intros He; destruct (err_fail_none _ _ He)].
  specialize (Facts y new R C I eq_refl).
  destruct (onat_eqb (ss_source y) new); [auto|]. specialize (Facts eq_refl).
  match goal with |- context[if ?b then (s, RExn XUnknownSource) else _] => destruct b end; [auto|]. cbn [fst].
  change (lift (match ss_source y with Some _ => fold_left unload_fit_items (ss_fits y) s | None => s end)
               (fun w => match get_ss w x with Some y0 => put_ss w x (mkSolsys new (ss_fits y0)) | None => fail w EKeyAbsent end))
    with (src_mid s x y new) in *.
  set (s1 := match ss_source y with Some _ => fold_left unload_fit_items (ss_fits y) s | None => s end).
  assert (H1 : w_err (fst s1) = None -> KJ (fst s1)).
  { subst s1. destruct (ss_source y); [|auto].
    apply KJ_fold_err; [intros; apply unload_fit_items_sticky|intros s0 f0 R0 E0; now apply unload_fit_items_KJ|exact R]. }
  assert (S12 : same_is (fst s1) (fst (src_mid s x y new))).
  { unfold src_mid. fold s1. unfold lift. cbn [fst]. destruct (get_ss (fst s1) x); [repeat split|apply same_is_fail]. }
  assert (K12 : sticky (fst s1) (fst (src_mid s x y new))).
  { unfold src_mid. fold s1. unfold lift. cbn [fst]. destruct (get_ss (fst s1) x); [intros H; exact H|apply sticky_fail]. }
  destruct new as [sid|].
  - intros He.
    assert (E2 : w_err (fst (src_mid s x y (Some sid))) = None).
    { exact (C_fold sticky sticky_refl sticky_trans load_fit_items _ load_fit_items_sticky _ He). }
    destruct (Facts E2) as (HypL & Hn & Hu).
    apply load_fits_KJ; [|exact Hn|exact Hu|exact He].
    eapply KJ_same_is_ls; [exact S12|exact HypL|]. apply H1. now apply K12.
  - intros He. destruct (Facts He) as (HypL & _). eapply KJ_same_is_ls; [exact S12|exact HypL|]. apply H1. now apply K12.
Qed.
