From Coq Require Import QArith Qreals Reals Lra Bool.
From EosV Require Import model.Range gen.T_range.
Local Open Scope R_scope.

Definition n2 (x y z : R) : R := x*x + y*y + z*z.

Lemma n2_nonneg x y z : 0 <= n2 x y z.
Proof.
  unfold n2. pose proof (Rle_0_sqr x). pose proof (Rle_0_sqr y).
  pose proof (Rle_0_sqr z). unfold Rsqr in *. lra.
Qed.

Lemma cauchy_schwarz x y z a b c :
  x*a + y*b + z*c <= sqrt (n2 x y z * n2 a b c).
Proof.
  destruct (Rle_dec (x*a+y*b+z*c) 0) as [H|H].
  - eapply Rle_trans; [exact H|apply sqrt_pos].
  - apply Rnot_le_lt in H.
    assert (E: x*a+y*b+z*c = sqrt ((x*a+y*b+z*c)*(x*a+y*b+z*c)))
      by (symmetry; apply sqrt_square; lra).
    rewrite E at 1. apply sqrt_le_1_alt. unfold n2. clear E H.
    pose proof (Rle_0_sqr (x*b-y*a)) as Q1.
    pose proof (Rle_0_sqr (x*c-z*a)) as Q2.
    pose proof (Rle_0_sqr (y*c-z*b)) as Q3.
    unfold Rsqr in *. lra.
Qed.

Lemma norm_triangle x y z a b c :
  sqrt (n2 (x+a) (y+b) (z+c)) <= sqrt (n2 x y z) + sqrt (n2 a b c).
Proof.
  pose proof (n2_nonneg x y z) as H1. pose proof (n2_nonneg a b c) as H2.
  pose proof (sqrt_pos (n2 x y z)) as S1. pose proof (sqrt_pos (n2 a b c)) as S2.
  rewrite <- (sqrt_square (sqrt (n2 x y z) + sqrt (n2 a b c))) by lra.
  apply sqrt_le_1_alt.
  pose proof (cauchy_schwarz x y z a b c) as C.
  rewrite sqrt_mult in C by assumption.
  pose proof (sqrt_sqrt _ H1) as E1. pose proof (sqrt_sqrt _ H2) as E2.
  set (s1 := sqrt (n2 x y z)) in *. set (s2 := sqrt (n2 a b c)) in *.
  unfold n2 in *. nra.
Qed.

(* Real-valued meaning of the model. *)
Definition X (c : coord) := Q2R (cx c).
Definition Y (c : coord) := Q2R (cy c).
Definition Z (c : coord) := Q2R (cz c).

Definition euclid (a b : coord) : R :=
  sqrt (n2 (X a - X b) (Y a - Y b) (Z a - Z b)).

Definition ctc_R (a b : coord) : R := sqrt (Q2R (sqdist a b)).

Lemma sqdist_R a b : Q2R (sqdist a b) = n2 (X a - X b) (Y a - Y b) (Z a - Z b).
Proof.
  unfold sqdist, n2, X, Y, Z.
  repeat (rewrite Q2R_plus || rewrite Q2R_mult || rewrite Q2R_minus). reflexivity.
Qed.

Lemma ctc_eq_euclid a b : ctc_R a b = euclid a b.
Proof. unfold ctc_R, euclid. now rewrite sqdist_R. Qed.

Lemma ctc_sym a b : ctc_R a b = ctc_R b a.
Proof. rewrite !ctc_eq_euclid. unfold euclid, n2. f_equal. ring. Qed.

Lemma ctc_nonneg a b : 0 <= ctc_R a b.
Proof. apply sqrt_pos. Qed.

Definition same_pos (a b : coord) : Prop :=
  (cx a == cx b)%Q /\ (cy a == cy b)%Q /\ (cz a == cz b)%Q.

Lemma ctc_zero a b : same_pos a b -> ctc_R a b = 0.
Proof.
  intros (Hx & Hy & Hz). rewrite ctc_eq_euclid. unfold euclid, n2, X, Y, Z.
  rewrite (Qeq_eqR _ _ Hx), (Qeq_eqR _ _ Hy), (Qeq_eqR _ _ Hz).
  replace (_ + _ + _) with 0 by ring. apply sqrt_0.
Qed.

Lemma ctc_zero_inv a b : ctc_R a b = 0 -> same_pos a b.
Proof.
  rewrite ctc_eq_euclid. unfold euclid. intros H.
  apply sqrt_eq_0 in H; [|apply n2_nonneg]. unfold n2 in H.
  pose proof (Rle_0_sqr (X a - X b)) as P1. pose proof (Rle_0_sqr (Y a - Y b)) as P2.
  pose proof (Rle_0_sqr (Z a - Z b)) as P3. unfold Rsqr in *.
  assert (E1 : (X a - X b) * (X a - X b) = 0) by lra.
  assert (E2 : (Y a - Y b) * (Y a - Y b) = 0) by lra.
  assert (E3 : (Z a - Z b) * (Z a - Z b) = 0) by lra.
  apply Rsqr_0_uniq in E1. apply Rsqr_0_uniq in E2. apply Rsqr_0_uniq in E3.
  unfold X, Y, Z in *. repeat split; apply eqR_Qeq; lra.
Qed.

Lemma ctc_triangle a b c : ctc_R a c <= ctc_R a b + ctc_R b c.
Proof.
  rewrite !ctc_eq_euclid. unfold euclid.
  replace (X a - X c) with ((X a - X b) + (X b - X c)) by ring.
  replace (Y a - Y c) with ((Y a - Y b) + (Y b - Y c)) by ring.
  replace (Z a - Z c) with ((Z a - Z b) + (Z b - Z c)) by ring.
  apply norm_triangle.
Qed.

(* surface-to-surface *)
Definition sts_R (a b : coord) (rsum : Q) : R := Rmax 0 (ctc_R a b - Q2R rsum).

Lemma sts_nonneg a b r : 0 <= sts_R a b r.
Proof. apply Rmax_l. Qed.

Lemma sts_sym a b r : sts_R a b r = sts_R b a r.
Proof. unfold sts_R. now rewrite ctc_sym. Qed.

Lemma Qle_bool_R x y : Qle_bool x y = true <-> Q2R x <= Q2R y.
Proof.
  rewrite Qle_bool_iff. split; [apply Qle_Rle|apply Rle_Qle].
Qed.

Lemma sts_is_zero_spec a b r :
  sts_is_zero (sqdist a b) r = true <-> sts_R a b r = 0.
Proof.
  unfold sts_is_zero, sts_R, ctc_R. rewrite andb_true_iff, !Qle_bool_R.
  rewrite Q2R_mult. change (Q2R 0) with (IZR 0 * / IZR 1). 
  replace (0 * / 1) with 0 by field.
  set (d := Q2R (sqdist a b)). set (q := Q2R r).
  assert (Hd : 0 <= d) by (unfold d; rewrite sqdist_R; apply n2_nonneg).
  pose proof (sqrt_pos d) as Hs. pose proof (sqrt_sqrt d Hd) as Hss.
  split.
  - intros [Hq Hle]. apply Rmax_left.
    assert (sqrt d <= q); [|lra].
    rewrite <- (sqrt_square q) by assumption. now apply sqrt_le_1_alt.
  - intros H. unfold Rmax in H. destruct (Rle_dec 0 (sqrt d - q)) as [L|L].
    + assert (q = sqrt d) by lra. subst q. split; [lra|]. rewrite H0. lra.
    + apply Rnot_le_lt in L. split; [lra|]. rewrite <- Hss. 
      apply Rmult_le_compat; lra.
Qed.

Lemma sts_pos_spec a b r :
  sts_is_zero (sqdist a b) r = false ->
  0 < sts_R a b r /\
  (sts_R a b r + Q2R r) * (sts_R a b r + Q2R r) = Q2R (sqdist a b) /\
  0 <= sts_R a b r + Q2R r.
Proof.
  intros H.
  assert (N : sts_R a b r <> 0).
  { intros E. apply sts_is_zero_spec in E. congruence. }
  pose proof (sts_nonneg a b r) as P.
  assert (Hd : 0 <= Q2R (sqdist a b)) by (rewrite sqdist_R; apply n2_nonneg).
  unfold sts_R, ctc_R in *. unfold Rmax in *.
  destruct (Rle_dec 0 (sqrt (Q2R (sqdist a b)) - Q2R r)) as [L|L]; [|lra].
  split; [lra|]. split.
  - replace (sqrt (Q2R (sqdist a b)) - Q2R r + Q2R r) with (sqrt (Q2R (sqdist a b))) by ring.
    now apply sqrt_sqrt.
  - replace (sqrt (Q2R (sqdist a b)) - Q2R r + Q2R r) with (sqrt (Q2R (sqdist a b))) by ring.
    apply sqrt_pos.
Qed.

(* mismatch behaviour *)
Lemma ctc_mismatch self i1 i2 :
  ctc_sq self i1 i2 = Mismatch <-> (belongs self i1 = false \/ belongs self i2 = false).
Proof.
  unfold ctc_sq. destruct (belongs self i1), (belongs self i2); simpl; intuition congruence.
Qed.

Lemma ctc_ok self i1 i2 :
  belongs self i1 = true -> belongs self i2 = true ->
  ctc_sq self i1 i2 = Ok (sqdist (pos i1) (pos i2)).
Proof. unfold ctc_sq. intros -> ->. reflexivity. Qed.

Lemma belongs_spec self i :
  belongs self i = true <-> where_ i = Some self.
Proof.
  unfold belongs. destruct (where_ i) as [s|]; [|split; discriminate].
  rewrite Nat.eqb_eq. split; [intros ->; reflexivity|intros [= ->]; reflexivity].
Qed.

Lemma sts_result self i1 i2 :
  sts self i1 i2 =
  match ctc_sq self i1 i2 with
  | Mismatch => Mismatch
  | Ok d => Ok (mkSts (sts_is_zero d (radius i1 + radius i2)) (radius i1 + radius i2) d)
  end.
Proof. reflexivity. Qed.

(* Tie to the source: the expressions the translator read out of
   get_ctc_range / get_sts_range are the model's. *)
Lemma gen_radicand_ok a b :
  (gen_radicand (cx a) (cy a) (cz a) (cx b) (cy b) (cz b) == sqdist a b)%Q.
Proof. unfold gen_radicand, sqdist. ring. Qed.

Lemma gen_sts_ok a b r1 r2 :
  gen_sts (ctc_R a b) (Q2R r1) (Q2R r2) = sts_R a b (r1 + r2).
Proof.
  unfold gen_sts, sts_R. rewrite Q2R_plus. f_equal. ring.
Qed.
