(* Pure list facts behind the rack (ItemList) operations of model/Ops.v. *)
From Coq Require Import ZArith List Bool Lia Permutation.
From EosV Require Import lib.AList model.World model.Ops.
Import ListNotations.

(* ---------- cleanup: trailing holes are trimmed, nothing else changes ---------- *)

Definition no_trailing_hole (l : rack) : Prop :=
  match rev l with None :: _ => False | _ => True end.

Lemma cleanup_rev_spec l : exists k, l = repeat None k ++ cleanup_rev l /\
                                     match cleanup_rev l with None :: _ => False | _ => True end.
Proof.
  induction l as [|x r IH]; simpl.
  - exists 0%nat. split; [reflexivity|exact I].
  - destruct x as [i|].
    + exists 0%nat. split; [reflexivity|exact I].
    + destruct IH as (k & E & H). exists (S k). split; [simpl; now f_equal|exact H].
Qed.

Lemma cleanup_no_trailing_hole l : no_trailing_hole (cleanup l).
Proof.
  unfold no_trailing_hole, cleanup. rewrite rev_involutive.
  destruct (cleanup_rev_spec (rev l)) as (k & _ & H). exact H.
Qed.

Lemma cleanup_decomp l : exists k, l = cleanup l ++ repeat None k.
Proof.
  unfold cleanup. destruct (cleanup_rev_spec (rev l)) as (k & E & _).
  exists k. apply (f_equal (@rev _)) in E. rewrite rev_involutive, rev_app_distr in E.
  rewrite E at 1. f_equal.
  clear. induction k as [|k IH]; simpl; [reflexivity|].
  rewrite IH. clear. induction k; simpl; [reflexivity|now f_equal].
Qed.

Lemma cleanup_fixed l : no_trailing_hole l -> cleanup l = l.
Proof.
  unfold no_trailing_hole, cleanup. intros H.
  destruct (rev l) as [|x r] eqn:E; simpl.
  - apply (f_equal (@rev _)) in E. rewrite rev_involutive in E. now subst.
  - destruct x as [i|]; [|contradiction]. cbn [cleanup_rev]. rewrite <- E. apply rev_involutive.
Qed.

Lemma cleanup_idem l : cleanup (cleanup l) = cleanup l.
Proof. apply cleanup_fixed, cleanup_no_trailing_hole. Qed.

Lemma rack_items_app a b : rack_items (a ++ b) = rack_items a ++ rack_items b.
Proof. unfold rack_items. apply flat_map_app. Qed.

Lemma rack_items_holes k : rack_items (repeat None k) = [].
Proof. induction k; simpl; auto. Qed.

Lemma cleanup_items l : rack_items (cleanup l) = rack_items l.
Proof.
  destruct (cleanup_decomp l) as (k & E). rewrite E at 2.
  now rewrite rack_items_app, rack_items_holes, app_nil_r.
Qed.

Lemma cleanup_nth l n x : nth_error (cleanup l) n = Some x -> nth_error l n = Some x.
Proof.
  destruct (cleanup_decomp l) as (k & E). intros H. rewrite E.
  rewrite nth_error_app1; [exact H|]. apply nth_error_Some. congruence.
Qed.

Lemma cleanup_nth_item l n i : nth_error l n = Some (Some i) -> nth_error (cleanup l) n = Some (Some i).
Proof.
  destruct (cleanup_decomp l) as (k & E). intros H. rewrite E in H.
  destruct (Nat.lt_ge_cases n (length (cleanup l))) as [L|L].
  - now rewrite nth_error_app1 in H.
  - rewrite nth_error_app2 in H by exact L.
    exfalso. revert H. generalize (n - length (cleanup l))%nat. clear.
    intros m. revert m. induction k as [|k IH]; intros [|m]; simpl; try discriminate. apply IH.
Qed.

Lemma allocate_cleanup l idx : no_trailing_hole l -> cleanup (allocate l idx) = l.
Proof.
  intros H. unfold allocate. set (k := Z.to_nat _).
  destruct (cleanup_decomp (l ++ repeat None k)) as (k' & E).
  pose proof (cleanup_no_trailing_hole (l ++ repeat None k)) as N.
  set (c := cleanup (l ++ repeat None k)) in *.
  (* two decompositions of the same list into (no trailing hole) ++ holes *)
  assert (G : forall (a b : rack) ka kb, no_trailing_hole a -> no_trailing_hole b ->
                               a ++ repeat None ka = b ++ repeat None kb -> a = b).
  { clear. intros a b ka kb Ha Hb E.
    apply (f_equal (@rev _)) in E. rewrite !rev_app_distr in E.
    assert (R : forall k, rev (repeat (@None nat) k) = repeat None k).
    { clear. induction k as [|k IH]; simpl; [reflexivity|]. rewrite IH. clear.
      induction k; simpl; [reflexivity|now f_equal]. }
    rewrite !R in E. unfold no_trailing_hole in *.
    assert (rev a = rev b).
    { revert kb E. induction ka as [|ka IH]; intros [|kb] E; simpl in *.
      - exact E.
      - rewrite E in Ha. contradiction.
      - rewrite <- E in Hb. contradiction.
      - injection E as E. eapply IH; eauto. }
    apply (f_equal (@rev _)) in H. now rewrite !rev_involutive in H. }
  symmetry. eapply G; eauto.
Qed.

(* ---------- positional facts: set / delete / insert ---------- *)

Lemma list_set_length {A} (l : list A) n x : length (list_set l n x) = length l.
Proof. revert n; induction l; intros [|n]; simpl; auto. Qed.

Lemma list_set_same {A} (l : list A) n x : (n < length l)%nat -> nth_error (list_set l n x) n = Some x.
Proof. revert n; induction l; intros [|n]; simpl; intros; try lia; auto. apply IHl. lia. Qed.

Lemma list_set_other {A} (l : list A) n m x : n <> m -> nth_error (list_set l n x) m = nth_error l m.
Proof. revert n m; induction l; intros [|n] [|m]; simpl; intros; auto; try congruence. Qed.

Lemma list_del_before {A} (l : list A) n m : (m < n)%nat -> nth_error (list_del l n) m = nth_error l m.
Proof. revert n m; induction l; intros [|n] [|m]; simpl; intros; auto; try lia. apply IHl. lia. Qed.

Lemma list_del_after {A} (l : list A) n m : (n <= m)%nat -> (n < length l)%nat ->
  nth_error (list_del l n) m = nth_error l (S m).
Proof.
  revert n m; induction l; intros [|n] [|m]; simpl; intros; auto; try lia.
  apply IHl; lia.
Qed.

Lemma list_ins_before {A} (l : list A) n m x : (m < n)%nat -> (n <= length l)%nat ->
  nth_error (list_ins l n x) m = nth_error l m.
Proof.
  revert n m; induction l; intros [|n] [|m]; simpl; intros; auto; try lia.
  apply IHl; lia.
Qed.

Lemma list_ins_at {A} (l : list A) n x : (n <= length l)%nat -> nth_error (list_ins l n x) n = Some x.
Proof. revert n; induction l; intros [|n]; simpl; intros; auto; try lia. apply IHl; lia. Qed.

Lemma list_ins_after {A} (l : list A) n m x : (n <= m)%nat -> (n <= length l)%nat ->
  nth_error (list_ins l n x) (S m) = nth_error l m.
Proof.
  revert n m; induction l as [|a r IH]; intros n m H1 H2.
  - simpl in H2. assert (n = 0%nat) by lia. subst. simpl. now destruct m.
  - destruct n as [|n]; [reflexivity|].
    destruct m as [|m]; [lia|]. simpl in H2. simpl. apply IH; lia.
Qed.

Lemma list_del_ins {A} (l : list A) n x : (n <= length l)%nat -> list_del (list_ins l n x) n = l.
Proof. revert n; induction l; intros [|n]; simpl; intros; auto; try lia. f_equal. apply IHl. lia. Qed.

(* items of a rack after filling a hole / emptying a slot / deleting / inserting *)
Lemma items_set_fill (l : rack) n i : nth_error l n = Some None ->
  Permutation (rack_items (list_set l n (Some i))) (i :: rack_items l).
Proof.
  revert n; induction l as [|x r IH]; intros [|n]; simpl; intros H; try discriminate.
  - injection H as ->. reflexivity.
  - destruct x as [j|]; simpl.
    + rewrite (IH n H). apply perm_swap.
    + apply IH, H.
Qed.

Lemma items_set_empty (l : rack) n i : nth_error l n = Some (Some i) ->
  Permutation (i :: rack_items (list_set l n None)) (rack_items l).
Proof.
  revert n; induction l as [|x r IH]; intros [|n]; simpl; intros H; try discriminate.
  - injection H as ->. reflexivity.
  - destruct x as [j|]; simpl.
    + rewrite perm_swap. constructor. apply IH, H.
    + apply IH, H.
Qed.

Lemma items_del (l : rack) n i : nth_error l n = Some (Some i) ->
  Permutation (i :: rack_items (list_del l n)) (rack_items l).
Proof.
  revert n; induction l as [|x r IH]; intros [|n]; simpl; intros H; try discriminate.
  - injection H as ->. reflexivity.
  - destruct x as [j|]; simpl.
    + rewrite perm_swap. constructor. apply IH, H.
    + apply IH, H.
Qed.

Lemma items_ins (l : rack) n i : Permutation (rack_items (list_ins l n (Some i))) (i :: rack_items l).
Proof.
  revert n; induction l as [|x r IH]; intros [|n]; simpl; try reflexivity.
  destruct x as [j|]; simpl.
  - rewrite (IH n). apply perm_swap.
  - apply IH.
Qed.

(* ---------- equip: the first hole is filled, otherwise the end ---------- *)

Lemma find_index_spec {A} (p : A -> bool) l n :
  find_index p l = Some n ->
  (exists x, nth_error l n = Some x /\ p x = true) /\
  (forall m y, (m < n)%nat -> nth_error l m = Some y -> p y = false).
Proof.
  revert n; induction l as [|a r IH]; simpl; intros n H; [discriminate|].
  destruct (p a) eqn:E.
  - injection H as <-. split; [exists a; auto|]. intros m y L; lia.
  - destruct (find_index p r) as [k|] eqn:F; [|discriminate]. injection H as <-.
    destruct (IH k eq_refl) as ((x & Hx & Px) & Hm). split; [exists x; auto|].
    intros [|m] y L Hy; simpl in Hy; [congruence|]. eapply Hm; eauto. lia.
Qed.

Lemma find_index_none {A} (p : A -> bool) l :
  find_index p l = None -> forall x, In x l -> p x = false.
Proof.
  induction l as [|a r IH]; simpl; intros H x Hx; [contradiction|].
  destruct (p a) eqn:E; [discriminate|].
  destruct (find_index p r) eqn:F; [discriminate|].
  destruct Hx as [<-|Hx]; [exact E|]. now apply IH.
Qed.

Lemma equip_first_hole l i n :
  find_index is_hole l = Some n ->
  equip_list l i = (list_set l n (Some i), n) /\ nth_error l n = Some None /\
  (forall m, (m < n)%nat -> exists j, nth_error l m = Some (Some j)).
Proof.
  intros H. unfold equip_list. rewrite H. split; [reflexivity|].
  destruct (find_index_spec _ _ _ H) as ((x & Hx & Px) & Hm).
  destruct x; [discriminate|]. split; [exact Hx|].
  intros m L. destruct (nth_error l m) as [y|] eqn:E.
  - specialize (Hm m y L E). destruct y as [j|]; [eauto|discriminate].
  - apply nth_error_None in E. assert (nth_error l n <> None) by congruence.
    apply nth_error_Some in H0. lia.
Qed.

Lemma equip_no_hole l i :
  find_index is_hole l = None -> equip_list l i = (l ++ [Some i], length l).
Proof. intros H. unfold equip_list. now rewrite H. Qed.

(* ---------- Python index normalisation ---------- *)

Lemma norm_index_bound len idx n : norm_index len idx = Some n -> (n < len)%nat.
Proof.
  unfold norm_index.
  set (i := if (idx <? 0)%Z then (idx + Z.of_nat len)%Z else idx).
  destruct ((0 <=? i)%Z && (i <? Z.of_nat len)%Z) eqn:B; [|discriminate].
  intros [= <-]. apply andb_true_iff in B. destruct B as [B1 B2].
  apply Z.leb_le in B1. apply Z.ltb_lt in B2. apply Nat2Z.inj_lt. rewrite Z2Nat.id; assumption.
Qed.

Lemma insert_pos_bound len idx : (insert_pos len idx <= len)%nat.
Proof.
  unfold insert_pos.
  set (i := if (idx <? 0)%Z then (idx + Z.of_nat len)%Z else idx).
  destruct (i <? 0)%Z eqn:E1; [apply Nat.le_0_l|].
  destruct (Z.of_nat len <? i)%Z eqn:E2; [apply Nat.le_refl|].
  apply Z.ltb_ge in E1, E2. apply Nat2Z.inj_le. rewrite Z2Nat.id; assumption.
Qed.
