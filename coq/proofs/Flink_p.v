(* Fleet fit sets: the two sides of "fit f is in fleet fl" -- the fit's own reference and the fleet's fit list --
   agree in every world reached by public calls without internal error, and no fleet lists a fit twice. The
   development mirrors proofs/Link_p.v (solar systems). *)
From Coq Require Import ZArith QArith List Bool Lia.
From EosV Require Import lib.AList gen.T_eos model.World model.Status model.Calc model.Engine model.Ops
     model.Wf proofs.AList_p proofs.Rack_p proofs.Frame_p proofs.Containers_p proofs.Status_p proofs.Owner_p
     proofs.Cinv_p proofs.Runs_p proofs.Link_p.
Import ListNotations.

Opaque add_item remove_item load unload.

Definition same_fl (w w' : world) : Prop :=
  (forall f, fit_fleet w' f = fit_fleet w f) /\ (forall x, fleet_fits w' x = fleet_fits w x).

Lemma fl_refl w : same_fl w w. Proof. split; reflexivity. Qed.
Lemma fl_trans a b c : same_fl a b -> same_fl b c -> same_fl a c.
Proof. intros (A1 & A2) (B1 & B2). split; intros; [now rewrite B1, A1|now rewrite B2, A2]. Qed.
Lemma fl_structure w w' : structure w' = structure w -> same_fl w w'.
Proof.
  intros H. unfold structure in H. assert (E1 : w_fits w' = w_fits w) by congruence.
  assert (E2 : w_fleets w' = w_fleets w) by congruence.
  split; intros; [unfold fit_fleet, get_fit; now rewrite E1|unfold fleet_fits; now rewrite E2].
Qed.
Lemma flw_fail w e : same_fl w (fail w e).
Proof. apply fl_structure. apply S_fail. Qed.
Lemma flw_put_item w i it : same_fl w (put_item w i it).
Proof. apply fl_structure. apply S_put_item. Qed.
Lemma flw_upd_item w i g : same_fl w (upd_item w i g).
Proof. apply fl_structure. apply S_upd_item. Qed.
Lemma flw_upd_fit w f g : (forall ft, f_fleet (g ft) = f_fleet ft) -> same_fl w (upd_fit w f g).
Proof.
  intros Hg. unfold upd_fit. destruct (get_fit w f) as [ft|] eqn:Gf; [|apply flw_fail]. split.
  - intros f'. unfold fit_fleet, get_fit, put_fit. cbn [w_fits set_fits]. destruct (Nat.eq_dec f' f) as [->|N].
    + rewrite al_get_set_same. unfold get_fit in Gf. rewrite Gf. apply Hg.
    + rewrite al_get_set_other by congruence. reflexivity.
  - intros x. reflexivity.
Qed.
Lemma flw_put_rack w f k l : same_fl w (put_rack w f k l).
Proof. unfold put_rack. apply flw_upd_fit. intros ft. destruct k; reflexivity. Qed.
Lemma flw_put_setc w f k l : same_fl w (put_setc w f k l).
Proof. unfold put_setc. apply flw_upd_fit. intros ft. destruct k; reflexivity. Qed.
Lemma flw_put_skillmap w f m : same_fl w (put_skillmap w f m).
Proof. unfold put_skillmap. apply flw_upd_fit. intros ft. reflexivity. Qed.
Lemma flw_set_slot w f k v : same_fl w (upd_fit w f (fun ft => fit_set_slot ft k v)).
Proof. apply flw_upd_fit. intros ft. destruct k; reflexivity. Qed.
Lemma flw_ss_set_fits w x l : same_fl w (ss_set_fits w x l).
Proof. unfold ss_set_fits. destruct (get_ss w x); [split; reflexivity|apply flw_fail]. Qed.
Lemma flw_solsys_link w x l f v : same_fl w (upd_fit (ss_set_fits w x l) f (fun ft => fit_set_solsys ft v)).
Proof. eapply fl_trans; [apply flw_ss_set_fits|apply flw_upd_fit; intros ft; reflexivity]. Qed.

Lemma fl_lift (s : st) g : (forall w, same_fl w (g w)) -> same_fl (fst s) (fst (lift s g)).
Proof. intros H. unfold lift. cbn [fst]. apply H. Qed.
Lemma fl_set_rack s f k l : same_fl (fst s) (fst (set_rack s f k l)).
Proof. unfold set_rack. apply fl_lift. intros w. apply flw_put_rack. Qed.
Lemma fl_add_item n s i p : same_fl (fst s) (fst (add_item n s i p)).
Proof. apply fl_structure. apply S_add_item. Qed.
Lemma fl_remove_item n s i : same_fl (fst s) (fst (remove_item n s i)).
Proof. apply fl_structure. apply S_remove_item. Qed.
Lemma fl_load n s i : same_fl (fst s) (fst (load n s i)).
Proof. apply fl_structure. apply S_load. Qed.
Lemma fl_unload n s i : same_fl (fst s) (fst (unload n s i)).
Proof. apply fl_structure. apply S_unload. Qed.
Lemma fl_emit s f m : same_fl (fst s) (fst (emit_always s f m)).
Proof. apply fl_refl. Qed.
Lemma fl_fold {A} (f : st -> A -> st) l :
  (forall s x, same_fl (fst s) (fst (f s x))) -> forall s, same_fl (fst s) (fst (fold_left f l s)).
Proof.
  intros H. induction l as [|x r IH]; intros s; cbn [fold_left]; [apply fl_refl|].
  eapply fl_trans; [apply H|apply IH].
Qed.
Lemma fl_with_msgs (s : st) f g : (forall w, structure (fst (g w)) = structure w) ->
  same_fl (fst s) (fst (with_msgs s f g)).
Proof. intros H. apply fl_structure. now apply S_with_msgs. Qed.

(* peel one layer off the state expression *)
Ltac flw :=
  first [ apply flw_put_setc | apply flw_put_skillmap | apply flw_put_rack | apply flw_set_slot
        | apply flw_upd_item | apply flw_put_item | apply flw_fail | apply flw_solsys_link | apply fl_refl ].
Ltac fl1 :=
  cbn [fst snd];
  first [ apply fl_refl
        | eapply fl_trans; [|first [ apply fl_add_item | apply fl_remove_item | apply fl_set_rack | apply fl_emit
                                   | apply fl_load | apply fl_unload
                                   | apply fl_lift; intros; flw ]] ].
Ltac fl := repeat fl1.
Ltac split_ops :=
  repeat match goal with
         | |- context[match ?x with _ => _ end] => destruct x
         | |- context[if ?x then _ else _] => destruct x
         end.

Lemma rack_append_fl s f k i : same_fl (fst s) (fst (fst (rack_append s f k i))).
Proof. unfold rack_append. split_ops; fl. Qed.
Lemma rack_insert_fl s f k idx v : same_fl (fst s) (fst (fst (rack_insert s f k idx v))).
Proof. unfold rack_insert. split_ops; fl. Qed.
Lemma rack_place_fl s f k idx i : same_fl (fst s) (fst (fst (rack_place s f k idx i))).
Proof. unfold rack_place. split_ops; fl. Qed.
Lemma rack_equip_fl s f k i : same_fl (fst s) (fst (fst (rack_equip s f k i))).
Proof. unfold rack_equip. split_ops; fl. Qed.
Lemma rack_remove_fl s f k a : same_fl (fst s) (fst (fst (rack_remove s f k a))).
Proof. unfold rack_remove. split_ops; fl. Qed.
Lemma rack_free_fl s f k a : same_fl (fst s) (fst (fst (rack_free s f k a))).
Proof. unfold rack_free. split_ops; fl. Qed.

Lemma rack_clear_fl s f k : same_fl (fst s) (fst (fst (rack_clear s f k))).
Proof.
  unfold rack_clear. cbn [fst]. eapply fl_trans; [|apply fl_set_rack]. apply fl_fold.
  intros s0 v. destruct v; fl.
Qed.
Lemma itemset_add_fl s f k i : same_fl (fst s) (fst (fst (itemset_add s f k i))).
Proof. unfold itemset_add. split_ops; fl. Qed.
Lemma set_add_op_fl s f k i : same_fl (fst s) (fst (fst (set_add_op s f k i))).
Proof.
  unfold set_add_op. destruct k; try apply itemset_add_fl.
  destruct (get_item (fst s) i) as [it|]; [|fl].
  destruct (negb _); [fl|]. destruct (al_mem _ _ _); [fl|].
  set (s1 := lift s _). pose proof (itemset_add_fl s1 f SeSkills i) as H.
  assert (H1 : same_fl (fst s) (fst s1)) by (unfold s1; apply fl_lift; intros; flw).
  destruct (itemset_add s1 f SeSkills i) as [s2 r]. cbn [fst] in H.
  destruct r; cbn [fst]; try (eapply fl_trans; [exact H1|exact H]).
  eapply fl_trans; [exact H1|]. eapply fl_trans; [exact H|]. apply fl_lift. intros; flw.
Qed.
Lemma set_remove_op_fl s f k i : same_fl (fst s) (fst (fst (set_remove_op s f k i))).
Proof. unfold set_remove_op. split_ops; fl. Qed.
Lemma set_clear_op_fl s f k : same_fl (fst s) (fst (fst (set_clear_op s f k))).
Proof.
  unfold set_clear_op.
  assert (H : same_fl (fst s) (fst (lift (fold_left (fun s0 i => remove_item F s0 i) (get_setc (fst s) f k) s)
                                            (fun w => put_setc w f k [])))).
  { eapply fl_trans; [|apply fl_lift; intros; flw]. apply fl_fold. intros; apply fl_remove_item. }
  destruct k; cbn [fst]; try exact H. eapply fl_trans; [exact H|]. apply fl_lift. intros; flw.
Qed.
Lemma skill_del_op_fl s f tid : same_fl (fst s) (fst (fst (skill_del_op s f tid))).
Proof. unfold skill_del_op. destruct (al_get zeqb _ tid); [apply set_remove_op_fl|fl]. Qed.
Lemma descriptor_set_fl s old new acc p store :
  (forall w v, same_fl w (store w v)) -> same_fl (fst s) (fst (fst (descriptor_set s old new acc p store))).
Proof.
  intros Hst. unfold descriptor_set.
  assert (L : forall s0 v, same_fl (fst s0) (fst (lift s0 (fun w => store w v)))) by (intros; apply fl_lift; intros; apply Hst).
  split_ops; cbn [fst];
    repeat first [ apply fl_refl
                 | eapply fl_trans; [|first [apply fl_add_item | apply fl_remove_item | apply L]] ].
Qed.
Lemma slot_set_op_fl s f k v : same_fl (fst s) (fst (fst (slot_set_op s f k v))).
Proof. unfold slot_set_op. apply descriptor_set_fl. intros; apply flw_set_slot. Qed.
Lemma charge_set_op_fl s m c : same_fl (fst s) (fst (fst (charge_set_op s m c))).
Proof.
  unfold charge_set_op. destruct (get_item (fst s) m); [|fl]. apply descriptor_set_fl. intros; apply flw_upd_item.
Qed.

Lemma load_fit_items_fl s f : same_fl (fst s) (fst (load_fit_items s f)).
Proof. unfold load_fit_items. destruct (get_fit (fst s) f); [apply fl_fold; intros; apply fl_load|apply fl_lift; intros; flw]. Qed.
Lemma unload_fit_items_fl s f : same_fl (fst s) (fst (unload_fit_items s f)).
Proof. unfold unload_fit_items. destruct (get_fit (fst s) f); [apply fl_fold; intros; apply fl_unload|apply fl_lift; intros; flw]. Qed.
Lemma solsys_add_op_fl s x f : same_fl (fst s) (fst (fst (solsys_add_op s x f))).
Proof.
  unfold solsys_add_op. destruct (fit_solsys (fst s) f); [apply fl_refl|]. cbn [fst].
  eapply fl_trans; [|apply load_fit_items_fl]. apply fl_lift. intros; flw.
Qed.
Lemma solsys_remove_one_fl s x f : same_fl (fst s) (fst (solsys_remove_one s x f)).
Proof.
  unfold solsys_remove_one. eapply fl_trans; [apply unload_fit_items_fl|]. apply fl_lift. intros; flw.
Qed.
Lemma solsys_remove_op_fl s x f : same_fl (fst s) (fst (fst (solsys_remove_op s x f))).
Proof. unfold solsys_remove_op. destruct (negb _); cbn [fst]; [apply fl_refl|apply solsys_remove_one_fl]. Qed.
Lemma solsys_clear_op_fl s x : same_fl (fst s) (fst (fst (solsys_clear_op s x))).
Proof. unfold solsys_clear_op. cbn [fst]. apply fl_fold. intros; apply solsys_remove_one_fl. Qed.
Lemma source_set_op_fl s x new : same_fl (fst s) (fst (fst (source_set_op s x new))).
Proof.
  unfold source_set_op. destruct (get_ss (fst s) x) as [y|] eqn:Gy; [|cbn [fst]; apply fl_lift; intros; flw].
  destruct (onat_eqb (ss_source y) new); [apply fl_refl|].
  match goal with |- context[if ?b then (s, RExn XUnknownSource) else _] => destruct b end; [apply fl_refl|]. cbn [fst].
  set (s1 := match ss_source y with Some _ => fold_left unload_fit_items (ss_fits y) s | None => s end).
  assert (H1 : same_fl (fst s) (fst s1)).
  { unfold s1. destruct (ss_source y); [|apply fl_refl]. apply fl_fold. intros; apply unload_fit_items_fl. }
  set (s2 := lift s1 _).
  assert (H2 : same_fl (fst s1) (fst s2)).
  { unfold s2, lift. cbn [fst]. destruct (get_ss (fst s1) x); [split; reflexivity|apply flw_fail]. }
  destruct new; [|eapply fl_trans; eauto].
  eapply fl_trans; [exact H1|]. eapply fl_trans; [exact H2|]. apply fl_fold. intros; apply load_fit_items_fl.
Qed.

(* ------------------------------------------------------------------ *)
(* the invariant                                                        *)

Definition FSI (w : world) : Prop :=
  (forall f fl, fit_fleet w f = Some fl <-> In f (fleet_fits w fl)) /\ (forall fl, NoDup (fleet_fits w fl)).
Lemma FSI_same_fl w w' : same_fl w w' -> FSI w -> FSI w'.
Proof. intros (L1 & L2) (H1 & H2). split; [intros f x; rewrite L1, L2; apply H1|intros x; rewrite L2; apply H2]. Qed.
Lemma FSI_empty : FSI empty_world.
Proof. split; [intros f x; cbn; split; [discriminate|intros []]|intros x; constructor]. Qed.

Lemma fleet_link_sides w fl l f v :
  get_fit w f <> None ->
  let w' := upd_fit (set_fleets w (al_set neqb (w_fleets w) fl l)) f (fun ft => fit_set_fleet ft v) in
  (forall g, fit_fleet w' g = if Nat.eq_dec g f then v else fit_fleet w g) /\
  (forall y, fleet_fits w' y = if Nat.eq_dec y fl then l else fleet_fits w y).
Proof.
  intros Hf. cbv zeta. set (w0 := set_fleets w (al_set neqb (w_fleets w) fl l)).
  assert (G0 : forall k, get_fit w0 k = get_fit w k) by reflexivity.
  unfold upd_fit. rewrite G0. destruct (get_fit w f) as [ft|] eqn:Gf; [|congruence]. split.
  - intros g. unfold fit_fleet, get_fit, put_fit. cbn [w_fits set_fits]. destruct (Nat.eq_dec g f) as [->|N].
    + rewrite al_get_set_same. reflexivity.
    + rewrite al_get_set_other by congruence. reflexivity.
  - intros y. unfold fleet_fits, put_fit, w0. cbn [w_fleets set_fits set_fleets].
    destruct (Nat.eq_dec y fl) as [->|N].
    + rewrite al_get_set_same. reflexivity.
    + rewrite al_get_set_other by congruence. reflexivity.
Qed.
Lemma fleet_link_no_err w fl l f g :
  w_err (upd_fit (set_fleets w (al_set neqb (w_fleets w) fl l)) f g) = None -> get_fit w f <> None.
Proof.
  intros He Hf. unfold upd_fit in He.
  change (get_fit (set_fleets w (al_set neqb (w_fleets w) fl l)) f) with (get_fit w f) in He. rewrite Hf in He.
  exact (err_fail_none _ _ He).
Qed.

Theorem fleet_add_op_FSI s fl f :
  FSI (fst s) -> w_err (fst (fst (fleet_add_op s fl f))) = None -> FSI (fst (fst (fleet_add_op s fl f))).
Proof.
  intros I. unfold fleet_add_op. destruct (fit_fleet (fst s) f) eqn:Eff; [auto|]. cbn [fst]. unfold emit_always, lift. cbn [fst].
  intros He. pose proof (fleet_link_no_err _ _ _ _ _ He) as Hf.
  destruct (fleet_link_sides (fst s) fl (set_add neqb (fleet_fits (fst s) fl) f) f (Some fl) Hf) as (L1 & L2).
  destruct I as (I1 & I2). split.
  - intros g y. rewrite L1, L2. destruct (Nat.eq_dec g f) as [->|Ng]; destruct (Nat.eq_dec y fl) as [->|Ny].
    + rewrite nset_add_in. split; auto.
    + split; [intros [= E]; congruence|]. intros H. apply I1 in H. congruence.
    + rewrite nset_add_in, I1. split; [auto|intros [E|H]; [congruence|exact H]].
    + apply I1.
  - intros y. rewrite L2. destruct (Nat.eq_dec y fl); [apply nset_add_nodup|]; apply I2.
Qed.
Lemma fleet_remove_one_FSI s fl f :
  FSI (fst s) -> In f (fleet_fits (fst s) fl) ->
  w_err (fst (fleet_remove_one s fl f)) = None -> FSI (fst (fleet_remove_one s fl f)).
Proof.
  intros I Hin. unfold fleet_remove_one, emit_always, lift. cbn [fst]. intros He.
  pose proof (fleet_link_no_err _ _ _ _ _ He) as Hf.
  destruct (fleet_link_sides (fst s) fl (set_rm neqb (fleet_fits (fst s) fl) f) f None Hf) as (L1 & L2).
  destruct I as (J1 & J2).
  assert (Efx : fit_fleet (fst s) f = Some fl) by (now apply J1).
  split.
  - intros g y. rewrite L1, L2. destruct (Nat.eq_dec g f) as [->|Ng]; destruct (Nat.eq_dec y fl) as [->|Ny].
    + rewrite (nset_rm_in _ f f (J2 fl)). split; [discriminate|tauto].
    + split; [discriminate|]. intros H. apply J1 in H. congruence.
    + rewrite (nset_rm_in _ f g (J2 fl)), J1. tauto.
    + apply J1.
  - intros y. rewrite L2. destruct (Nat.eq_dec y fl); [apply nset_rm_nodup|]; apply J2.
Qed.
Theorem fleet_remove_op_FSI s fl f :
  FSI (fst s) -> w_err (fst (fst (fleet_remove_op s fl f))) = None -> FSI (fst (fst (fleet_remove_op s fl f))).
Proof.
  intros I. unfold fleet_remove_op. destruct (mem neqb _ f) eqn:E; cbn [negb fst]; [|auto].
  apply fleet_remove_one_FSI; [exact I|now apply nmem_in].
Qed.
Lemma fleet_remove_one_sticky s fl f : sticky (fst s) (fst (fleet_remove_one s fl f)).
Proof. unfold fleet_remove_one, emit_always, lift. cbn [fst]. eapply sticky_trans; [|apply sticky_upd_fit]. intros H. exact H. Qed.
Theorem fleet_clear_op_FSI s fl :
  FSI (fst s) -> w_err (fst (fst (fleet_clear_op s fl))) = None -> FSI (fst (fst (fleet_clear_op s fl))).
Proof.
  intros I. unfold fleet_clear_op. cbn [fst].
  assert (G : forall l s0, FSI (fst s0) -> NoDup l -> (forall f, In f l -> In f (fleet_fits (fst s0) fl)) ->
              w_err (fst (fold_left (fun s1 f => fleet_remove_one s1 fl f) l s0)) = None ->
              FSI (fst (fold_left (fun s1 f => fleet_remove_one s1 fl f) l s0))).
  { induction l as [|f l IH]; intros s0 I0 Hn Hl He; cbn [fold_left] in *; [exact I0|].
    inversion Hn as [|? ? Nf Hn']; subst.
    assert (He1 : w_err (fst (fleet_remove_one s0 fl f)) = None).
    { revert He. apply (C_fold sticky sticky_refl sticky_trans). intros; apply fleet_remove_one_sticky. }
    assert (I1 : FSI (fst (fleet_remove_one s0 fl f))) by (apply fleet_remove_one_FSI; [exact I0|apply Hl; now left|exact He1]).
    apply IH; [exact I1|exact Hn'| |exact He].
    intros g Ig. unfold fleet_remove_one, emit_always, lift in He1 |- *. cbn [fst] in He1 |- *.
    pose proof (fleet_link_no_err _ _ _ _ _ He1) as Hf.
    destruct (fleet_link_sides (fst s0) fl (set_rm neqb (fleet_fits (fst s0) fl) f) f None Hf) as (_ & L2).
    rewrite L2. destruct (Nat.eq_dec fl fl) as [_|N]; [|congruence].
    apply nset_rm_in; [apply I0|]. split; [apply Hl; now right|]. intros ->. contradiction. }
  apply G; [exact I|apply I|auto].
Qed.

Lemma flw_new_fit w f : get_fit w f = None -> same_fl w (put_fit w f empty_fit).
Proof.
  intros Hf. split; [|reflexivity]. intros g. unfold fit_fleet, get_fit, put_fit. cbn [w_fits set_fits].
  destruct (Nat.eq_dec g f) as [->|N].
  - rewrite al_get_set_same. unfold get_fit in Hf. now rewrite Hf.
  - rewrite al_get_set_other by congruence. reflexivity.
Qed.

Theorem md_op_FSI w o :
  FSI w -> match o with ONewFit f _ => get_fit w f = None | _ => True end ->
  w_err (fst (fst (md_op w o))) = None -> FSI (fst (fst (md_op w o))).
Proof.
  intros I Hok.
  assert (SL : forall w', same_fl w w' -> FSI w') by (intros w' H; now apply (FSI_same_fl w)).
  destruct o; cbn [md_op fst]; intros He;
    try (apply SL;
         first [ apply (slot_set_op_fl (w, [])) | apply (set_add_op_fl (w, [])) | apply (set_remove_op_fl (w, []))
               | apply (set_clear_op_fl (w, [])) | apply (skill_del_op_fl (w, [])) | apply (rack_append_fl (w, []))
               | apply (rack_insert_fl (w, [])) | apply (rack_place_fl (w, [])) | apply (rack_equip_fl (w, []))
               | apply (rack_remove_fl (w, [])) | apply (rack_free_fl (w, [])) | apply (rack_clear_fl (w, []))
               | apply (charge_set_op_fl (w, [])) | apply (solsys_add_op_fl (w, [])) | apply (solsys_remove_op_fl (w, []))
               | apply (solsys_clear_op_fl (w, [])) | apply (source_set_op_fl (w, []))
               | apply fl_structure; first [ apply (state_set_op_S (w, [])) | apply (target_set_op_S (w, []))
                                           | apply (mode_set_op_S (w, [])) | apply (level_set_op_S (w, [])) ]
               | apply fl_refl ]; fail).
  - apply SL. unfold lift. cbn [fst]. split; reflexivity.
  - apply SL. unfold lift. cbn [fst]. apply flw_put_item.
  - apply SL. eapply fl_trans; [|apply slot_set_op_fl]. unfold lift. cbn [fst].
    eapply fl_trans; [apply (flw_new_fit w f Hok)|apply flw_put_item].
  - apply SL. unfold lift. cbn [fst]. split; reflexivity.
  - now apply (fleet_add_op_FSI (w, [])).
  - now apply (fleet_remove_op_FSI (w, [])).
  - now apply (fleet_clear_op_FSI (w, [])).
Qed.
