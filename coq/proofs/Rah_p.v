(* Proofs about the reactive armor hardener model (model/Rah.v): the
   donor/recipient shift (conservation, bounds, donor order), the simulation
   loop (invariants of every tick state, totality under the quantifier's
   ranges, the loop/history averages), the wrapper, single-type saturation, and
   the obligations on the tables translated from the source (gen/T_rah.v). *)
From Coq Require Import QArith ZArith Bool List Lia Lqa Permutation Sorted Qpower Qabs.
From EosV Require Import model.Rah gen.T_rah.
Import ListNotations.
Local Open Scope Q_scope.

Local Open Scope Q_scope.

(* ------------------------------------------------------------------------- *)
(* outcomes, mapM                                                             *)
(* ------------------------------------------------------------------------- *)

Lemma bind_ok {A B} (o : outcome A) (f : A -> outcome B) b :
  bind o f = Ok b -> exists a, o = Ok a /\ f a = Ok b.
Proof. destruct o; simpl; intros H; [eauto|discriminate]. Qed.

Ltac inv_bind H :=
  let a := fresh "v" in let E := fresh "E" in
  apply bind_ok in H; destruct H as [a [E H]].

Lemma mapM_Forall2 {A B} (f : A -> outcome B) l r :
  mapM f l = Ok r -> Forall2 (fun a b => f a = Ok b) l r.
Proof.
  revert r; induction l as [|a l IH]; simpl; intros r H.
  - inversion H; constructor.
  - inv_bind H. inv_bind H. inversion H; subst. constructor; auto.
Qed.

Lemma mapM_total {A B} (f : A -> outcome B) l :
  Forall (fun a => exists b, f a = Ok b) l -> exists r, mapM f l = Ok r.
Proof.
  induction 1 as [|a l [b Hb] _ [r Hr]]; simpl; [eauto|].
  rewrite Hb; simpl. rewrite Hr; simpl. eauto.
Qed.

Lemma Forall2_length' {A B} (P : A -> B -> Prop) l1 l2 :
  Forall2 P l1 l2 -> length l1 = length l2.
Proof. induction 1; simpl; congruence. Qed.

(* ------------------------------------------------------------------------- *)
(* R4                                                                          *)
(* ------------------------------------------------------------------------- *)

Lemma get4_build4 f a : get4 (build4 f) a = f a.
Proof. destruct a; reflexivity. Qed.

Lemma build4M_ok f r : build4M f = Ok r -> forall a, f a = Ok (get4 r a).
Proof.
  unfold build4M; intros H. inv_bind H. inv_bind H. inv_bind H. inv_bind H.
  inversion H; subst. intros []; assumption.
Qed.

Lemma build4M_total f : (forall a, exists v, f a = Ok v) -> exists r, build4M f = Ok r.
Proof.
  intros H. unfold build4M.
  destruct (H Em) as [a Ea], (H Expl) as [b Eb], (H Kin) as [c Ec], (H Therm) as [d Ed].
  rewrite Ea, Eb, Ec, Ed; simpl; eauto.
Qed.

Lemma sum4_get r : sum4 r = get4 r Em + get4 r Expl + get4 r Kin + get4 r Therm.
Proof. reflexivity. Qed.

Lemma rattr_eqb_eq a b : rattr_eqb a b = true <-> a = b.
Proof. destruct a, b; simpl; split; congruence. Qed.

Lemma rattr_all a : In a res_order.
Proof. destruct a; simpl; auto. Qed.

Lemma res_order_nodup : NoDup res_order.
Proof. repeat constructor; simpl; intuition discriminate. Qed.

(* ------------------------------------------------------------------------- *)
(* sums                                                                        *)
(* ------------------------------------------------------------------------- *)

Definition qsumr (l : list Q) : Q := fold_right Qplus 0 l.

Lemma fold_left_Qplus l a : fold_left Qplus l a == a + qsumr l.
Proof.
  revert a; induction l as [|x l IH]; simpl; intros a; [ring|].
  rewrite IH. ring.
Qed.

Lemma qsum_qsumr l : qsum l == qsumr l.
Proof. unfold qsum. rewrite fold_left_Qplus. ring. Qed.

Lemma qsumr_app l1 l2 : qsumr (l1 ++ l2) == qsumr l1 + qsumr l2.
Proof. induction l1; simpl; [ring|]. rewrite IHl1. ring. Qed.

Lemma qsumr_perm l1 l2 : Permutation l1 l2 -> qsumr l1 == qsumr l2.
Proof.
  induction 1; simpl; try reflexivity.
  - rewrite IHPermutation; reflexivity.
  - ring.
  - etransitivity; eauto.
Qed.

Lemma qsumr_map_ext {A} (f g : A -> Q) l :
  (forall a, In a l -> f a == g a) -> qsumr (map f l) == qsumr (map g l).
Proof.
  induction l; simpl; intros H; [reflexivity|].
  rewrite H by auto. rewrite IHl by auto. reflexivity.
Qed.

Lemma qsumr_map_plus {A} (f g : A -> Q) l :
  qsumr (map (fun a => f a + g a) l) == qsumr (map f l) + qsumr (map g l).
Proof. induction l; simpl; [ring|]. rewrite IHl. ring. Qed.

Lemma qsumr_map_const {A} (c : Q) (l : list A) :
  qsumr (map (fun _ => c) l) == inject_Z (Z.of_nat (length l)) * c.
Proof.
  induction l; simpl qsumr; simpl length; [ring|].
  rewrite IHl, Nat2Z.inj_succ, <- Z.add_1_r, inject_Z_plus. ring.
Qed.

Lemma qsumr_nonneg l : Forall (fun x => 0 <= x) l -> 0 <= qsumr l.
Proof. induction 1; simpl; [lra|lra]. Qed.

Lemma sum4_as_qsumr r : sum4 r == qsumr (map (get4 r) res_order).
Proof. unfold sum4; simpl. ring. Qed.

(* ------------------------------------------------------------------------- *)
(* qmin                                                                        *)
(* ------------------------------------------------------------------------- *)

Lemma qmin_le_l a b : qmin a b <= a.
Proof.
  unfold qmin. destruct (Qle_bool a b) eqn:E; [lra|].
  assert (~ a <= b) by (rewrite <- Qle_bool_iff; congruence). lra.
Qed.

Lemma qmin_le_r a b : qmin a b <= b.
Proof.
  unfold qmin. destruct (Qle_bool a b) eqn:E; [|lra].
  apply Qle_bool_iff in E; lra.
Qed.

Lemma qmin_glb a b c : c <= a -> c <= b -> c <= qmin a b.
Proof. unfold qmin; destruct (Qle_bool a b); auto. Qed.

Lemma qmin_cases a b : (qmin a b = a /\ a <= b) \/ (qmin a b = b /\ b < a).
Proof.
  unfold qmin. destruct (Qle_bool a b) eqn:E.
  - left; split; auto. now apply Qle_bool_iff.
  - right; split; auto.
    assert (~ a <= b) by (rewrite <- Qle_bool_iff; congruence). lra.
Qed.

(* ------------------------------------------------------------------------- *)
(* the stable sort                                                             *)
(* ------------------------------------------------------------------------- *)

Lemma insert_perm key x l : Permutation (insert_by key x l) (x :: l).
Proof.
  induction l as [|y l IH]; simpl; [reflexivity|].
  destruct (Qle_bool (key x) (key y)); [reflexivity|].
  rewrite IH. apply perm_swap.
Qed.

Lemma sort_perm key l : Permutation (sort_by key l) l.
Proof.
  induction l as [|x l IH]; simpl; [reflexivity|].
  rewrite insert_perm. now constructor.
Qed.

Definition ridx (a : rattr) : nat :=
  match a with Em => 0 | Expl => 1 | Kin => 2 | Therm => 3 end%nat.

(* order of the result: by key, ties by position in the input *)
Definition lex_le (key : rattr -> Q) (a b : rattr) : Prop :=
  key a < key b \/ (key a == key b /\ (ridx a <= ridx b)%nat).
Definition lex_lt (key : rattr -> Q) (a b : rattr) : Prop :=
  key a < key b \/ (key a == key b /\ (ridx a < ridx b)%nat).

Lemma lex_lt_not_le key a b : lex_lt key a b -> ~ lex_le key b a.
Proof. unfold lex_lt, lex_le; intros [H|[H1 H2]] [G|[G1 G2]]; try lra; lia. Qed.

Lemma insert_sorted key x l :
  Forall (fun y => (ridx x < ridx y)%nat) l ->
  StronglySorted (lex_le key) l ->
  StronglySorted (lex_le key) (insert_by key x l).
Proof.
  induction l as [|y l IH]; simpl; intros Hx Hs.
  - repeat constructor.
  - inversion Hx as [|? ? Hxy Hxl]; subst. inversion Hs as [|? ? Hs' Hy]; subst.
    destruct (Qle_bool (key x) (key y)) eqn:E.
    + apply Qle_bool_iff in E. constructor; [assumption|].
      constructor.
      * unfold lex_le. destruct (Qlt_le_dec (key x) (key y)); [auto|right; split; [lra|lia]].
      * rewrite Forall_forall in *. intros z Hz.
        specialize (Hy z Hz). specialize (Hxl z Hz). unfold lex_le in *.
        destruct Hy as [Hy|[Hy _]];
          (destruct (Qlt_le_dec (key x) (key z)); [auto|right; split; [lra|lia]]).
    + assert (key y < key x).
      { assert (~ key x <= key y) by (rewrite <- Qle_bool_iff; congruence). lra. }
      constructor; [auto|].
      assert (P : Permutation (insert_by key x l) (x :: l)) by apply insert_perm.
      rewrite Forall_forall in *. intros z Hz.
      apply (Permutation_in _ P) in Hz. destruct Hz as [<-|Hz]; [left; assumption|auto].
Qed.

Lemma sort_sorted_gen key l :
  StronglySorted (fun a b => (ridx a < ridx b)%nat) l ->
  StronglySorted (lex_le key) (sort_by key l).
Proof.
  induction 1 as [|x l Hs IH Hx]; simpl; [constructor|].
  apply insert_sorted; [|assumption].
  rewrite Forall_forall in *. intros y Hy. apply Hx.
  eapply Permutation_in; [apply sort_perm|exact Hy].
Qed.

Lemma sort_sorted key : StronglySorted (lex_le key) (sort_by key res_order).
Proof.
  apply sort_sorted_gen. unfold res_order.
  repeat constructor; simpl; lia.
Qed.

Lemma sorted_app_order {A} (R : A -> A -> Prop) l1 l2 x y :
  StronglySorted R (l1 ++ l2) -> In x l1 -> In y l2 -> R x y.
Proof.
  induction l1 as [|a l1 IH]; simpl; intros Hs Hx Hy; [contradiction|].
  inversion Hs as [|? ? Hs' Ha]; subst.
  destruct Hx as [<-|Hx]; [|eauto].
  rewrite Forall_forall in Ha. apply Ha. apply in_or_app; auto.
Qed.

Lemma sort_nodup key : NoDup (sort_by key res_order).
Proof.
  eapply Permutation_NoDup; [symmetry; apply sort_perm|apply res_order_nodup].
Qed.

Lemma sort_length key : length (sort_by key res_order) = 4%nat.
Proof. rewrite (Permutation_length (sort_perm key res_order)). reflexivity. Qed.

Lemma in_sorted key a : In a (sort_by key res_order).
Proof. eapply Permutation_in; [symmetry; apply sort_perm|apply rattr_all]. Qed.

(* ------------------------------------------------------------------------- *)
(* __get_next_resos                                                            *)
(* ------------------------------------------------------------------------- *)

Lemma donor_count_range dmg : (2 <= donor_count dmg <= 4)%nat.
Proof.
  unfold donor_count, res_order; cbn [filter].
  destruct (Qeq_bool (get4 dmg Em) 0), (Qeq_bool (get4 dmg Expl) 0),
    (Qeq_bool (get4 dmg Kin) 0), (Qeq_bool (get4 dmg Therm) 0); cbn [length]; lia.
Qed.

Lemma donor_count_4 dmg : donor_count dmg = 4%nat -> forall a, get4 dmg a == 0.
Proof.
  unfold donor_count, res_order; cbn [filter]. intros H a.
  destruct (Qeq_bool (get4 dmg Em) 0) eqn:E1, (Qeq_bool (get4 dmg Expl) 0) eqn:E2,
    (Qeq_bool (get4 dmg Kin) 0) eqn:E3, (Qeq_bool (get4 dmg Therm) 0) eqn:E4;
    cbn [length] in H; try lia.
  destruct a; now apply Qeq_bool_iff.
Qed.

Definition give (cur : R4) (shift : Q) (a : rattr) : Q := qmin (1 - get4 cur a) shift.
Definition donors (dmg : R4) : list rattr :=
  firstn (donor_count dmg) (sort_by (get4 dmg) res_order).
Definition recips (dmg : R4) : list rattr :=
  skipn (donor_count dmg) (sort_by (get4 dmg) res_order).
Definition donated (cur dmg : R4) (shift : Q) : Q := qsumr (map (give cur shift) (donors dmg)).

Lemma donors_recips dmg : donors dmg ++ recips dmg = sort_by (get4 dmg) res_order.
Proof. apply firstn_skipn. Qed.

Lemma recips_length dmg : length (recips dmg) = (4 - donor_count dmg)%nat.
Proof. unfold recips. rewrite skipn_length, sort_length. reflexivity. Qed.

Lemma donor_or_recip dmg a : In a (donors dmg) \/ In a (recips dmg).
Proof. apply in_app_or. rewrite donors_recips. apply in_sorted. Qed.

Lemma donor_not_recip dmg a : In a (donors dmg) -> In a (recips dmg) -> False.
Proof.
  intros H1 H2. pose proof (sort_nodup (get4 dmg)) as N.
  rewrite <- donors_recips in N.
  revert N H1 H2. generalize (donors dmg) (recips dmg).
  induction l as [|x l IH]; simpl; intros l2 N H1 H2; [contradiction|].
  inversion N; subst. destruct H1 as [<-|H1]; [|eauto].
  apply H3. apply in_or_app; auto.
Qed.

Lemma nodup_app_r {A} (l1 l2 : list A) : NoDup (l1 ++ l2) -> NoDup l2.
Proof. induction l1; simpl; [auto|]. intros H; inversion H; auto. Qed.

Lemma lookup_app_l {B} a (l1 l2 : list (rattr * B)) v :
  lookup a l1 = Some v -> lookup a (l1 ++ l2) = Some v.
Proof.
  induction l1 as [|[k w] l1 IH]; simpl; [discriminate|].
  destruct (rattr_eqb a k); auto.
Qed.

Lemma lookup_app_r {B} a (l1 l2 : list (rattr * B)) :
  lookup a l1 = None -> lookup a (l1 ++ l2) = lookup a l2.
Proof.
  induction l1 as [|[k w] l1 IH]; simpl; [reflexivity|].
  destruct (rattr_eqb a k); [discriminate|auto].
Qed.

Lemma lookup_map_in {B} (f : rattr -> B) a l :
  In a l -> lookup a (map (fun x => (x, f x)) l) = Some (f a).
Proof.
  induction l as [|x l IH]; simpl; [contradiction|].
  destruct (rattr_eqb a x) eqn:E.
  - apply rattr_eqb_eq in E; subst; reflexivity.
  - intros [->|H]; [|auto]. assert (rattr_eqb a a = true) by now apply rattr_eqb_eq. congruence.
Qed.

Lemma lookup_map_notin {B} (f : rattr -> B) a l :
  ~ In a l -> lookup a (map (fun x => (x, f x)) l) = None.
Proof.
  induction l as [|x l IH]; simpl; [reflexivity|]. intros H.
  destruct (rattr_eqb a x) eqn:E.
  - apply rattr_eqb_eq in E; subst. exfalso; auto.
  - auto.
Qed.

(* closed form of the result *)
Lemma next_resos_char cur dmg shift nxt :
  next_resos cur dmg shift = Ok nxt ->
  (forall a, In a (donors dmg) -> get4 nxt a == get4 cur a + give cur shift a) /\
  (forall a, In a (recips dmg) ->
     (donor_count dmg < 4)%nat /\
     get4 nxt a == get4 cur a -
                   donated cur dmg shift / inject_Z (Z.of_nat (4 - donor_count dmg))).
Proof.
  unfold next_resos, next_resos_al. intros H. inv_bind H. inv_bind E.
  inversion E; subst v; clear E. inversion H; subst nxt; clear H.
  fold (donors dmg) in *. fold (recips dmg) in *.
  set (sh := qsum (map (fun a => qmin (1 - get4 cur a) shift) (donors dmg))) in *.
  assert (Hsh : sh == donated cur dmg shift).
  { unfold sh. rewrite qsum_qsumr. reflexivity. }
  apply mapM_Forall2 in E0.
  (* the recipient entries *)
  assert (R : forall a, In a (recips dmg) ->
            Qeq_bool (inject_Z (Z.of_nat (4 - donor_count dmg))) 0 = false /\
            lookup a v0 = Some (Qred (get4 cur a - sh / inject_Z (Z.of_nat (4 - donor_count dmg))))).
  { pose proof (fun a H1 H2 => donor_not_recip dmg a H2 H1) as _.
    assert (N : NoDup (recips dmg)).
    { pose proof (sort_nodup (get4 dmg)) as N. rewrite <- donors_recips in N.
      eapply nodup_app_r; eauto. }
    revert N E0. generalize (recips dmg) v0.
    induction l as [|x l IH]; intros v1 N F a Ha; [contradiction|].
    inversion F as [|? y ? ? Hx Ft]; subst. inversion N; subst.
    unfold qdiv_checked in Hx.
    destruct (Qeq_bool (inject_Z (Z.of_nat (4 - donor_count dmg))) 0) eqn:Ez;
      simpl in Hx; [discriminate|]. inversion Hx; subst y. simpl.
    destruct Ha as [->|Ha].
    - assert (rattr_eqb a a = true) by now apply rattr_eqb_eq.
      rewrite H. auto.
    - destruct (rattr_eqb a x) eqn:Eax.
      + apply rattr_eqb_eq in Eax; subst. contradiction.
      + apply (IH _ H2 Ft a Ha). }
  split.
  - intros a Ha. unfold update4. rewrite get4_build4.
    erewrite lookup_app_l; [|apply (lookup_map_in (fun a => Qred (get4 cur a + qmin (1 - get4 cur a) shift))); exact Ha].
    rewrite Qred_correct. reflexivity.
  - intros a Ha. destruct (R a Ha) as [Ez L]. split.
    + destruct (donor_count_range dmg) as [_ Hle].
      destruct (Nat.eq_dec (donor_count dmg) 4) as [E4|]; [|lia].
      rewrite E4 in Ez. discriminate.
    + unfold update4. rewrite get4_build4.
      rewrite lookup_app_r.
      * rewrite L, Qred_correct, Hsh. reflexivity.
      * apply (lookup_map_notin (fun a => Qred (get4 cur a + qmin (1 - get4 cur a) shift))).
        intros Hd. exact (donor_not_recip dmg a Hd Ha).
Qed.

Lemma next_resos_total cur dmg shift : exists nxt, next_resos cur dmg shift = Ok nxt.
Proof.
  unfold next_resos, next_resos_al.
  fold (donors dmg). fold (recips dmg).
  destruct (Nat.eq_dec (donor_count dmg) 4) as [E4|N4].
  - assert (recips dmg = []) as ->.
    { apply length_zero_iff_nil. rewrite recips_length. lia. }
    simpl. eauto.
  - match goal with |- context[mapM ?f ?l] => destruct (mapM_total f l) as [r Hr] end.
    + apply Forall_forall. intros a _. unfold qdiv_checked.
      destruct (Qeq_bool (inject_Z (Z.of_nat (4 - donor_count dmg))) 0) eqn:Ez.
      * apply Qeq_bool_iff in Ez. exfalso.
        destruct (donor_count_range dmg).
        assert (Z.of_nat (4 - donor_count dmg) = 0%Z).
        { unfold Qeq in Ez; cbn [inject_Z Qnum Qden] in Ez. lia. }
        lia.
      * simpl. eauto.
    + rewrite Hr. simpl. eauto.
Qed.

Lemma give_nonneg cur shift a : get4 cur a <= 1 -> 0 <= shift -> 0 <= give cur shift a.
Proof. intros. unfold give. apply qmin_glb; lra. Qed.

Lemma donated_nonneg cur dmg shift :
  (forall a, get4 cur a <= 1) -> 0 <= shift -> 0 <= donated cur dmg shift.
Proof.
  intros H1 H2. unfold donated. apply qsumr_nonneg.
  apply Forall_forall. intros x Hx. apply in_map_iff in Hx. destruct Hx as [a [<- _]].
  now apply give_nonneg.
Qed.

Lemma rc_pos dmg : (donor_count dmg < 4)%nat -> 0 < inject_Z (Z.of_nat (4 - donor_count dmg)).
Proof.
  intros H. replace 0 with (inject_Z 0) by reflexivity. rewrite <- Zlt_Qlt. lia.
Qed.

Definition not_all_zero (dmg : R4) : Prop := exists a, ~ get4 dmg a == 0.

(* next_conserves *)
Lemma next_conserves_l cur dmg shift nxt :
  not_all_zero dmg -> next_resos cur dmg shift = Ok nxt -> sum4 nxt == sum4 cur.
Proof.
  intros [a0 Ha0] H. destruct (next_resos_char _ _ _ _ H) as [HD HR].
  assert (D4 : (donor_count dmg < 4)%nat).
  { destruct (donor_count_range dmg). destruct (Nat.eq_dec (donor_count dmg) 4) as [E|]; [|lia].
    exfalso. apply Ha0. now apply donor_count_4. }
  pose proof (rc_pos dmg D4) as Hrc.
  set (rc := inject_Z (Z.of_nat (4 - donor_count dmg))) in *.
  rewrite !sum4_as_qsumr.
  rewrite (qsumr_perm _ _ (Permutation_map (get4 nxt) (Permutation_sym (sort_perm (get4 dmg) res_order)))).
  rewrite (qsumr_perm _ _ (Permutation_map (get4 cur) (Permutation_sym (sort_perm (get4 dmg) res_order)))).
  rewrite <- donors_recips, !map_app, !qsumr_app.
  rewrite (qsumr_map_ext (get4 nxt) (fun a => get4 cur a + give cur shift a) (donors dmg))
    by (intros; now apply HD).
  rewrite (qsumr_map_ext (get4 nxt) (fun a => get4 cur a + - (donated cur dmg shift / rc)) (recips dmg)).
  2:{ intros a Ha. destruct (HR a Ha) as [_ E]. rewrite E. unfold rc. ring. }
  rewrite !qsumr_map_plus, qsumr_map_const, recips_length.
  fold rc. fold (donated cur dmg shift). field. lra.
Qed.

(* next_le_one *)
Lemma next_le_one_l cur dmg shift nxt :
  (forall a, get4 cur a <= 1) -> 0 <= shift ->
  next_resos cur dmg shift = Ok nxt -> forall a, get4 nxt a <= 1.
Proof.
  intros Hc Hs H a. destruct (next_resos_char _ _ _ _ H) as [HD HR].
  destruct (donor_or_recip dmg a) as [Ha|Ha].
  - rewrite (HD a Ha). unfold give. pose proof (qmin_le_l (1 - get4 cur a) shift). lra.
  - destruct (HR a Ha) as [D4 E]. rewrite E.
    pose proof (rc_pos dmg D4) as Hrc. pose proof (donated_nonneg cur dmg shift Hc Hs) as Hd.
    set (rc := inject_Z (Z.of_nat (4 - donor_count dmg))) in *.
    assert (0 <= donated cur dmg shift / rc).
    { apply Qle_shift_div_l; [assumption|lra]. }
    specialize (Hc a). lra.
Qed.

Lemma pos_from_sum r :
  3 < sum4 r -> (forall a, get4 r a <= 1) -> forall a, 0 < get4 r a.
Proof.
  intros S H a. rewrite sum4_get in S.
  pose proof (H Em); pose proof (H Expl); pose proof (H Kin); pose proof (H Therm).
  destruct a; lra.
Qed.

(* next_pos *)
Lemma next_pos_l cur dmg shift nxt :
  3 < sum4 cur -> (forall a, get4 cur a <= 1) -> 0 <= shift -> not_all_zero dmg ->
  next_resos cur dmg shift = Ok nxt -> forall a, 0 < get4 nxt a.
Proof.
  intros S Hc Hs Hz H. apply pos_from_sum.
  - rewrite (next_conserves_l _ _ _ _ Hz H). assumption.
  - eapply next_le_one_l; eauto.
Qed.

(* donor_order: the donors are the least damaged types, ties by attribute order *)
Lemma donor_order_l dmg a b :
  lex_lt (get4 dmg) a b -> In b (donors dmg) -> In a (donors dmg).
Proof.
  intros L Hb. destruct (donor_or_recip dmg a) as [Ha|Ha]; [assumption|].
  exfalso. pose proof (sort_sorted (get4 dmg)) as S. rewrite <- donors_recips in S.
  pose proof (sorted_app_order _ _ _ _ _ S Hb Ha) as Hle.
  exact (lex_lt_not_le _ _ _ L Hle).
Qed.

Local Open Scope Q_scope.

(* ------------------------------------------------------------------------- *)
(* sig_round: defined away from 0, depends on the value only                   *)
(* ------------------------------------------------------------------------- *)

Lemma sig_round_total x sd : ~ x == 0 -> exists v, sig_round x sd = Ok v.
Proof.
  intros H. unfold sig_round. destruct (Qeq_bool (Qred x) 0) eqn:E; [|eauto].
  apply Qeq_bool_iff in E. rewrite Qred_correct in E. contradiction.
Qed.

Lemma sig_round_ext x y sd : x == y -> sig_round x sd = sig_round y sd.
Proof. intros H. unfold sig_round. rewrite (Qred_complete _ _ H). reflexivity. Qed.

Lemma sig_round_zero x sd : x == 0 -> sig_round x sd = Err ELogZero.
Proof.
  intros H. unfold sig_round.
  assert (E : Qeq_bool (Qred x) 0 = true) by (apply Qeq_bool_iff; now rewrite Qred_correct).
  now rewrite E.
Qed.

Lemma mapM_pure {A B} (f : A -> outcome B) (g : A -> B) l :
  (forall a, In a l -> f a = Ok (g a)) -> mapM f l = Ok (map g l).
Proof.
  induction l as [|a l IH]; simpl; intros H; [reflexivity|].
  rewrite H by auto. simpl. rewrite IH by auto. reflexivity.
Qed.

Lemma mapM_combine {A B C} (P : A -> B -> Prop) (R : A -> C -> Prop)
      (f : A * B -> outcome C) l1 l2 :
  Forall2 P l1 l2 ->
  (forall a b, P a b -> exists c, f (a, b) = Ok c /\ R a c) ->
  exists r, mapM f (combine l1 l2) = Ok r /\ Forall2 R l1 r.
Proof.
  intros F H. induction F as [|a b l1 l2 Hab F [r [Hr FR]]]; simpl.
  - exists []; split; [reflexivity|constructor].
  - destruct (H a b Hab) as [c [Hc Rc]]. rewrite Hc; simpl. rewrite Hr; simpl.
    exists (c :: r); split; [reflexivity|constructor; assumption].
Qed.

Lemma Forall2_map_l {A B C} (P : B -> C -> Prop) (f : A -> B) l l' :
  Forall2 P (map f l) l' <-> Forall2 (fun a c => P (f a) c) l l'.
Proof.
  split.
  - revert l'; induction l; simpl; intros l' H; inversion H; subst; constructor; auto.
  - induction 1; simpl; constructor; auto.
Qed.

Lemma Forall2_map_r {A B C} (P : A -> C -> Prop) (f : B -> C) l l' :
  Forall2 P l (map f l') <-> Forall2 (fun a b => P a (f b)) l l'.
Proof.
  split.
  - revert l; induction l'; simpl; intros l H; inversion H; subst; constructor; auto.
  - induction 1; simpl; constructor; auto.
Qed.

Lemma Forall2_impl {A B} (P Q : A -> B -> Prop) l l' :
  (forall a b, P a b -> Q a b) -> Forall2 P l l' -> Forall2 Q l l'.
Proof. intros H; induction 1; constructor; auto. Qed.

Lemma Forall2_Forall_r {A B} (P : A -> B -> Prop) (Q : B -> Prop) l l' :
  (forall a b, P a b -> Q b) -> Forall2 P l l' -> Forall Q l'.
Proof. intros H; induction 1; constructor; eauto. Qed.

Lemma Forall_skipn {A} (P : A -> Prop) n l : Forall P l -> Forall P (skipn n l).
Proof.
  revert l; induction n; simpl; intros l H; [assumption|].
  destruct l; [constructor|]. inversion H; auto.
Qed.

(* ------------------------------------------------------------------------- *)
(* ranges of the quantifier                                                    *)
(* ------------------------------------------------------------------------- *)

Definition prof_ok (p : profile) : Prop :=
  (forall f, 0 <= pget p f) /\ exists f, 0 < pget p f.

Definition hardener_ok (h : hardener) : Prop :=
  (forall a, 0 < get4 (h_resos h) a <= 1) /\ 3 < sum4 (h_resos h) /\
  (exists sh, h_shift h = Some sh /\ 0 < sh) /\
  (exists d, h_dur h = Some d /\ 0 < d).

(* a hardener's current resonances: same sum as unsimulated, none above 1 *)
Definition resos_ok (h : hardener) (r : R4) : Prop :=
  sum4 r == sum4 (h_resos h) /\ forall a, get4 r a <= 1.

Definition hs_ok (s : hstate) : Prop :=
  hardener_ok (s_h s) /\ resos_ok (s_h s) (s_resos s) /\
  (forall a, 0 <= get4 (s_acc s) a) /\
  exists d, h_dur (s_h s) = Some d /\ 0 <= s_cyc s /\ s_cyc s < d.

Definition rs_ok (h : hardener) (rs : rah_state) : Prop := resos_ok h (t_resos rs).
Definition hist_ok (hs : list hardener) (hist : list tick_state) : Prop :=
  Forall (fun ts => Forall2 rs_ok hs ts) hist.

Lemma resos_ok_pos h r : hardener_ok h -> resos_ok h r -> forall a, 0 < get4 r a.
Proof.
  intros [_ [S _]] [E L]. apply pos_from_sum; [|assumption]. now rewrite E.
Qed.

(* which profile field an attribute reads *)
Definition pf (a : rattr) : pfield :=
  match a with Em => PEm | Therm => PThermal | Kin => PKinetic | Expl => PExplosive end.

Lemma lookup_apm a : lookup a attr_profile_map = Some (pf a).
Proof. destruct a; reflexivity. Qed.

Lemma pf_surj f : exists a, pf a = f.
Proof. destruct f; [exists Em|exists Therm|exists Kin|exists Expl]; reflexivity. Qed.

(* resonances in (0,1] *)
Definition in_unit (r : R4) : Prop := forall a, 0 < get4 r a <= 1.

(* what the theorems assume of the ship: under hardener resonances in (0,1] its
   armor resonances are available and positive *)
Definition ship_positive (ship_fn : list R4 -> rattr -> option Q) : Prop :=
  forall cur a, Forall in_unit cur -> exists v, ship_fn cur a = Some v /\ 0 < v.

Section SimProofs.
  Variable ship_fn : list R4 -> rattr -> option Q.
  Variable sig_digits : Z.
  Hypothesis ship_pos : ship_positive ship_fn.

  Lemma add_dmg_eq prof shipv tp acc :
    add_dmg prof shipv tp acc =
    Ok (build4 (fun a => Qred (get4 acc a + pget prof (pf a) * get4 shipv a * tp))).
  Proof. reflexivity. Qed.

  Lemma ship_values_ok cur :
    Forall in_unit cur ->
    exists v, ship_values ship_fn cur = Ok v /\ forall a, 0 < get4 v a.
  Proof.
    intros Hcur. pose proof (fun c a => ship_pos c a) as ship_pos'.
    assert (ship_pos0 : forall a, exists v, ship_fn cur a = Some v /\ 0 < v)
      by (intros a; apply ship_pos; exact Hcur).
    destruct (build4M_total (fun a => match ship_fn cur a with
                                      | Some s => Ok s | None => Err EKeyShip end)) as [v Hv].
    - intros a. destruct (ship_pos0 a) as [x [E _]]. rewrite E. eauto.
    - exists v. split; [exact Hv|]. intros a.
      pose proof (build4M_ok _ _ Hv a) as Ha. cbv beta in Ha.
      destruct (ship_pos0 a) as [x [E P]]. rewrite E in Ha. inversion Ha; subst. exact P.
  Qed.

  Lemma round4_total r : (forall a, 0 < get4 r a) -> exists rr, round4 sig_digits r = Ok rr.
  Proof.
    intros H. apply build4M_total. intros a. apply sig_round_total.
    specialize (H a). lra.
  Qed.

  (* what advance/the first tick hand to the loop body for one hardener *)
  Definition flag_ok (tp : Q) (s : hstate) (f : bool * Q) : Prop :=
    exists d, h_dur (s_h s) = Some d /\
              ((fst f = true /\ snd f = 0 /\ 0 < tp) \/
               (fst f = false /\ 0 <= snd f /\ snd f < d)).

  Definition item_post (s : hstate) (c : hstate * rah_state) : Prop :=
    hs_ok (fst c) /\ s_h (fst c) = s_h s /\ rs_ok (s_h s) (snd c).

  Lemma tick_item_ok prof shipv tp s f :
    prof_ok prof -> (forall a, 0 < get4 shipv a) -> 0 <= tp ->
    hs_ok s -> flag_ok tp s f ->
    exists c, tick_item sig_digits prof shipv tp (s, f) = Ok c /\ item_post s c.
  Proof.
    intros [Pn [f0 Pp]] Hv Htp [Hh [[Hsum Hle] [Hacc [d [Hd [Hc0 Hc1]]]]]] [d' [Hd' Hf]].
    rewrite Hd in Hd'; inversion Hd'; subst d'; clear Hd'.
    destruct f as [cycled cyc']. simpl fst in Hf; simpl snd in Hf.
    unfold tick_item. rewrite add_dmg_eq. cbn [bind].
    set (acc := build4 _).
    assert (Hacc' : forall a, 0 <= get4 acc a).
    { intros a. unfold acc. rewrite get4_build4, Qred_correct.
      specialize (Hacc a). specialize (Pn (pf a)). specialize (Hv a).
      assert (0 <= pget prof (pf a) * get4 shipv a * tp).
      { apply Qmult_le_0_compat; [apply Qmult_le_0_compat|]; lra. }
      lra. }
    destruct Hh as [Hr [HS [[sh [Hsh Hshp]] Hdur]]].
    destruct Hf as [[-> [-> Htp']]|[-> [Hy0 Hy1]]].
    - (* finished a cycle *)
      unfold shift_of. rewrite Hsh. cbn [bind].
      destruct (next_resos_total (s_resos s) acc (sh / 100)) as [nr Hnr]. rewrite Hnr. cbn [bind].
      assert (Hnz : not_all_zero acc).
      { destruct (pf_surj f0) as [a0 Ha0]. exists a0. unfold acc.
        rewrite get4_build4, Qred_correct, Ha0.
        specialize (Hacc a0). specialize (Hv a0).
        assert (0 < pget prof f0 * get4 shipv a0 * tp).
        { apply Qmult_lt_0_compat; [apply Qmult_lt_0_compat|]; lra. }
        lra. }
      assert (Hs100 : 0 <= sh / 100).
      { apply Qle_shift_div_l; lra. }
      assert (Rn : resos_ok (s_h s) nr).
      { split.
        - rewrite (next_conserves_l _ _ _ _ Hnz Hnr). exact Hsum.
        - eapply next_le_one_l; eauto. }
      assert (Hok : hardener_ok (s_h s)) by (repeat split; eauto; apply Hr).
      destruct (round4_total nr (resos_ok_pos _ _ Hok Rn)) as [rr Hrr].
      cbn [s_resos]. rewrite Hrr. cbn [bind].
      eexists; split; [reflexivity|].
      split; [|split; [reflexivity|exact Rn]].
      split; [exact Hok|]. split; [exact Rn|]. split.
      + intros a; destruct a; cbn; lra.
      + exists d. cbn. repeat split; [exact Hd|lra|lra].
    - cbn [bind s_resos].
      assert (Rn : resos_ok (s_h s) (s_resos s)) by (split; assumption).
      assert (Hok : hardener_ok (s_h s)) by (repeat split; eauto; apply Hr).
      destruct (round4_total _ (resos_ok_pos _ _ Hok Rn)) as [rr Hrr].
      rewrite Hrr. cbn [bind].
      eexists; split; [reflexivity|].
      split; [|split; [reflexivity|exact Rn]].
      split; [exact Hok|]. split; [exact Rn|]. split.
      + exact Hacc'.
      + exists d. cbn. repeat split; [exact Hd|lra|lra].
  Qed.

  Lemma tick_body_ok prof tp fl st :
    prof_ok prof -> 0 <= tp -> Forall hs_ok st -> Forall2 (flag_ok tp) st fl ->
    exists st' ts, tick_body ship_fn sig_digits prof tp fl st = Ok (st', ts) /\
                   Forall hs_ok st' /\ map s_h st' = map s_h st /\
                   Forall2 rs_ok (map s_h st) ts /\
                   Forall2 (fun s rs => t_resos rs = s_resos s /\ t_cyc rs = s_cyc s) st' ts.
  Proof.
    intros Hp Htp Hst Hfl. unfold tick_body.
    destruct st as [|s0 st0].
    { inversion Hfl; subst. simpl. exists [], []. repeat split; constructor. }
    destruct (ship_values_ok (map s_resos (s0 :: st0))) as [shipv [Es Hv]].
    { apply Forall_forall. intros r Hr. apply in_map_iff in Hr. destruct Hr as [s [<- Hs]].
      rewrite Forall_forall in Hst. destruct (Hst s Hs) as [Hh [Hr _]].
      intros a. split; [eapply resos_ok_pos; eauto|apply Hr]. }
    rewrite Es. cbn [bind].
    destruct (mapM_combine (fun s f => hs_ok s /\ flag_ok tp s f)
                (fun s c => item_post s c /\
                            t_resos (snd c) = s_resos (fst c) /\ t_cyc (snd c) = s_cyc (fst c))
                (tick_item sig_digits prof shipv tp) (s0 :: st0) fl) as [r [Hr FR]].
    - clear Es. induction Hfl; constructor; inversion Hst; subst; auto.
    - intros s f [H1 H2]. destruct (tick_item_ok prof shipv tp s f Hp Hv Htp H1 H2) as [c [Hc Pc]].
      exists c. split; [exact Hc|]. split; [exact Pc|].
      (* the recorded state is the new state *)
      unfold tick_item in Hc. destruct f as [cy cy']. rewrite add_dmg_eq in Hc. cbn [bind] in Hc.
      inv_bind Hc. inv_bind Hc. inversion Hc; subst c; cbn.
      destruct cy.
      + inv_bind E. inv_bind E. inversion E; subst; cbn. auto.
      + inversion E; subst; cbn. auto.
    - rewrite Hr. cbn [bind]. exists (map fst r), (map snd r).
      split; [reflexivity|].
      repeat split.
      + apply Forall_forall. intros x Hx. apply in_map_iff in Hx. destruct Hx as [c [<- Hc]].
        revert Hc. clear -FR. induction FR; simpl; [intros []|intros [->|H']]; auto. apply H.
      + clear -FR. induction FR; simpl; [reflexivity|]. f_equal; auto. apply H.
      + apply Forall2_map_l, Forall2_map_r. eapply Forall2_impl; [|exact FR].
        intros a b [[_ [_ H]] _]. exact H.
      + apply Forall2_map_l, Forall2_map_r. clear -FR.
        induction FR; constructor; auto. apply H.
  Qed.

  (* --------------------------------------------------------------------- *)
  (* the tick iterator                                                       *)
  (* --------------------------------------------------------------------- *)

  Lemma qmin_list_spec l :
    l <> [] -> exists m, qmin_list l = Ok m /\ In m l /\ forall x, In x l -> m <= x.
  Proof.
    induction l as [|a l IH]; [congruence|]. intros _.
    destruct l as [|b t].
    - exists a. simpl. repeat split; auto. intros x [<-|[]]. lra.
    - destruct IH as [m [Hm [Hin Hle]]]; [congruence|].
      change (qmin_list (a :: b :: t)) with (m0 <- qmin_list (b :: t) ;; Ok (qmin a m0)).
      rewrite Hm. cbn [bind]. exists (qmin a m). split; [reflexivity|]. split.
      + destruct (qmin_cases a m) as [[-> _]|[-> _]]; [left; reflexivity|right; exact Hin].
      + intros x [<-|Hx]; [apply qmin_le_l|].
        pose proof (qmin_le_r a m). specialize (Hle x Hx). lra.
  Qed.

  Lemma mapM_spec {A B} (R : A -> B -> Prop) (f : A -> outcome B) l :
    (forall a, In a l -> exists b, f a = Ok b /\ R a b) ->
    exists r, mapM f l = Ok r /\ Forall2 R l r.
  Proof.
    induction l as [|a l IH]; simpl; intros H.
    - exists []; split; [reflexivity|constructor].
    - destruct (H a (or_introl eq_refl)) as [b [Hb Rb]].
      destruct IH as [r [Hr FR]]; [auto|].
      rewrite Hb; cbn [bind]. rewrite Hr; cbn [bind].
      exists (b :: r); split; [reflexivity|constructor; assumption].
  Qed.

  Definition durq (h : hardener) : Q := match h_dur h with Some d => d | None => 0 end.

  Lemma advance_ok st :
    Forall hs_ok st -> st <> [] ->
    exists tp fl, advance sig_digits st = Ok (tp, fl) /\ 0 < tp /\ Forall2 (flag_ok tp) st fl.
  Proof.
    intros Hst Hne. unfold advance. rewrite Forall_forall in Hst.
    rewrite (mapM_pure _ (fun s => durq (s_h s) - s_cyc s)).
    2:{ intros s Hs. destruct (Hst s Hs) as [_ [_ [_ [d [Hd _]]]]].
        unfold dur_of, durq. rewrite Hd. reflexivity. }
    cbn [bind].
    destruct (qmin_list_spec (map (fun s => durq (s_h s) - s_cyc s) st)) as [tp [Htp [Hin Hle]]].
    { destruct st; [congruence|discriminate]. }
    rewrite Htp. cbn [bind].
    assert (Hpos : 0 < tp).
    { apply in_map_iff in Hin. destruct Hin as [s0 [<- Hs0]].
      destruct (Hst s0 Hs0) as [_ [_ [_ [d [Hd [_ Hlt]]]]]]. unfold durq. rewrite Hd. lra. }
    destruct (mapM_spec (flag_ok tp)
                (fun s => d <- dur_of (s_h s) ;;
                          x <- sig_round (s_cyc s + tp) sig_digits ;;
                          y <- sig_round d sig_digits ;;
                          Ok (if Qeq_bool x y then (true, 0) else (false, Qred (s_cyc s + tp)))) st)
      as [fl [Hfl FR]].
    - intros s Hs. destruct (Hst s Hs) as [_ [_ [_ [d [Hd [Hc0 Hc1]]]]]].
      unfold dur_of. rewrite Hd. cbn [bind].
      destruct (sig_round_total (s_cyc s + tp) sig_digits) as [x Hx]; [lra|].
      destruct (sig_round_total d sig_digits) as [y Hy]; [lra|].
      rewrite Hx, Hy. cbn [bind].
      eexists; split; [reflexivity|]. exists d. split; [exact Hd|].
      destruct (Qeq_bool x y) eqn:Exy; cbn [fst snd].
      + left. auto.
      + right. split; [reflexivity|]. rewrite Qred_correct. split; [lra|].
        assert (Hrem : tp <= durq (s_h s) - s_cyc s).
        { apply Hle. apply in_map_iff. exists s; auto. }
        unfold durq in Hrem. rewrite Hd in Hrem.
        destruct (Qeq_dec (s_cyc s + tp) d) as [Heq|Hneq]; [|lra].
        exfalso. rewrite (sig_round_ext _ _ sig_digits Heq) in Hx. rewrite Hx in Hy.
        inversion Hy; subst y.
        assert (Qeq_bool x x = true) by (apply Qeq_bool_iff; reflexivity). congruence.
    - rewrite Hfl. cbn [bind]. exists tp, fl. auto.
  Qed.

  (* --------------------------------------------------------------------- *)
  (* averaging                                                               *)
  (* --------------------------------------------------------------------- *)

  Lemma get4_add4 u v a : get4 (add4 u v) a == get4 u a + get4 v a.
  Proof. unfold add4. rewrite get4_build4, Qred_correct. reflexivity. Qed.

  Lemma sum4_add4 u v : sum4 (add4 u v) == sum4 u + sum4 v.
  Proof. rewrite !sum4_get, !get4_add4. ring. Qed.

  Definition avg_inv (h : hardener) (sn : R4 * nat) : Prop :=
    sum4 (fst sn) == inject_Z (Z.of_nat (snd sn)) * sum4 (h_resos h) /\
    forall a, get4 (fst sn) a <= inject_Z (Z.of_nat (snd sn)).

  Lemma inject_S n : inject_Z (Z.of_nat (S n)) == inject_Z (Z.of_nat n) + 1.
  Proof. rewrite Nat2Z.inj_succ, <- Z.add_1_r, inject_Z_plus. reflexivity. Qed.

  Lemma avg_accum_ok hs a ts :
    Forall2 avg_inv hs a -> Forall2 rs_ok hs ts -> Forall2 avg_inv hs (avg_accum a ts).
  Proof.
    intros Fa. revert ts. induction Fa as [|h sn hs a Hsn Fa IH]; intros ts Ft.
    - inversion Ft; subst. constructor.
    - inversion Ft as [|? rs ? ts' Hrs Ft']; subst. unfold avg_accum; cbn [combine map].
      constructor; [|apply IH; assumption].
      destruct (Qeq_bool (t_cyc rs) 0); [|exact Hsn].
      destruct Hsn as [S1 L1]. destruct Hrs as [S2 L2]. split; cbn [fst snd].
      + rewrite sum4_add4, S1, S2, inject_S. ring.
      + intros x. rewrite get4_add4, inject_S. specialize (L1 x). specialize (L2 x). lra.
  Qed.

  Lemma avg_resos_ok hs states :
    hist_ok hs states -> Forall2 avg_inv hs (avg_resos (length hs) states).
  Proof.
    intros H. unfold avg_resos.
    assert (I : Forall2 avg_inv hs (repeat (zero4, O) (length hs))).
    { clear H. induction hs; simpl; constructor; auto.
      split; cbn [fst snd].
      - change (inject_Z (Z.of_nat 0)) with 0. change (sum4 zero4) with (0 + 0 + 0 + 0). ring.
      - intros x. change (inject_Z (Z.of_nat 0)) with 0.
        assert (get4 zero4 x = 0) as -> by (destruct x; reflexivity). lra. }
    revert I. generalize (repeat (zero4, O) (length hs)).
    induction H as [|ts states Hts _ IH]; simpl; intros acc I; [assumption|].
    apply IH. now apply avg_accum_ok.
  Qed.

  Lemma apply_avg_ok avg st :
    Forall2 avg_inv (map s_h st) avg -> Forall hs_ok st ->
    Forall2 resos_ok (map s_h st) (apply_avg avg st).
  Proof.
    revert avg. induction st as [|s st IH]; intros avg Fa Hst.
    - inversion Fa; subst. constructor.
    - inversion Fa as [|? sn ? avg' Hsn Fa']; subst. inversion Hst; subst.
      unfold apply_avg; cbn [combine map]. constructor; [|apply IH; assumption].
      destruct sn as [sm n]. cbn [snd fst]. destruct n as [|k].
      + apply H1.
      + destruct Hsn as [S1 L1]. cbn [fst snd] in S1, L1.
        set (N := inject_Z (Z.of_nat (S k))) in *.
        assert (HN : 0 < N).
        { unfold N. replace 0 with (inject_Z 0) by reflexivity. rewrite <- Zlt_Qlt. lia. }
        split.
        * rewrite sum4_get, !get4_build4, !Qred_correct.
          rewrite sum4_get in S1.
          assert (E : get4 sm Em / N + get4 sm Expl / N + get4 sm Kin / N + get4 sm Therm / N
                      == (get4 sm Em + get4 sm Expl + get4 sm Kin + get4 sm Therm) / N)
            by (field; lra).
          rewrite E, S1. field. lra.
        * intros a. rewrite get4_build4, Qred_correct.
          apply Qle_shift_div_r; [assumption|]. specialize (L1 a). lra.
  Qed.

  (* --------------------------------------------------------------------- *)
  (* the branch taken when the tick limit is reached                         *)
  (* --------------------------------------------------------------------- *)

  Lemma exhaustion_total h : hardener_ok h -> exists e, exhaustion_cycles h = Ok e.
  Proof.
    intros [_ [_ [[sh [Hsh Hp]] _]]]. unfold exhaustion_cycles, shift_of. rewrite Hsh. cbn [bind].
    assert (D : forall x, qdiv_checked x (sh / 100) = Ok (x / (sh / 100))).
    { intros x. unfold qdiv_checked.
      destruct (Qeq_bool (sh / 100) 0) eqn:E; [|reflexivity].
      apply Qeq_bool_iff in E. exfalso.
      assert (0 < sh / 100) by (apply Qlt_shift_div_l; lra). lra. }
    unfold res_order. cbn [mapM]. rewrite !D. cbn [bind]. eauto.
  Qed.

  Lemma estimate_total st hist :
    Forall hs_ok st -> st <> [] -> exists n, estimate_adaptation st hist = Ok n.
  Proof.
    intros Hst Hne. unfold estimate_adaptation.
    destruct (mapM_total (fun s => e <- exhaustion_cycles (s_h s) ;;
                                   d <- dur_of (s_h s) ;; Ok (inject_Z e * d, e)) st) as [k Hk].
    - eapply Forall_impl; [|exact Hst]. intros s [Hh [_ [_ [d [Hd _]]]]].
      destruct (exhaustion_total _ Hh) as [e He]. rewrite He. cbn [bind].
      unfold dur_of. rewrite Hd. cbn [bind]. eauto.
    - rewrite Hk. cbn [bind].
      assert (length st = length k) by (apply mapM_Forall2 in Hk; eapply Forall2_length'; eauto).
      destruct k as [|x t]; [destruct st; [congruence|discriminate]|].
      destruct (argmax_first t 1%nat (0%nat, x)) as [j ke].
      destruct (qceil (inject_Z (snd ke) * (3 # 2)) =? 0)%Z; eauto.
  Qed.

  Lemma finish_history_ok st hist :
    Forall hs_ok st -> st <> [] -> hist_ok (map s_h st) hist ->
    exists out, finish_history st hist = Ok out /\
                Forall2 resos_ok (map s_h st) (so_resos out) /\ so_hist out = hist.
  Proof.
    intros Hst Hne Hh. unfold finish_history.
    destruct (estimate_total st hist Hst Hne) as [n Hn]. rewrite Hn. cbn [bind].
    eexists; split; [reflexivity|]. cbn [so_resos so_hist]. split; [|reflexivity].
    apply apply_avg_ok; [|assumption].
    rewrite <- (map_length s_h st). apply avg_resos_ok. now apply Forall_skipn.
  Qed.

  (* --------------------------------------------------------------------- *)
  (* the simulation loop                                                     *)
  (* --------------------------------------------------------------------- *)

  Lemma sim_loop_ok prof fuel :
    prof_ok prof ->
    forall first st hist,
      Forall hs_ok st -> st <> [] -> hist_ok (map s_h st) hist ->
      exists out, sim_loop ship_fn sig_digits fuel first prof st hist = Ok out /\
                  Forall2 resos_ok (map s_h st) (so_resos out) /\
                  hist_ok (map s_h st) (so_hist out) /\
                  (length (so_hist out) <= length hist + fuel)%nat.
  Proof.
    intros Hp. induction fuel as [|f IH]; intros first st hist Hst Hne Hh.
    - destruct (finish_history_ok st hist Hst Hne Hh) as [out [Ho [Hr Hhist]]].
      exists out. cbn [sim_loop]. rewrite Hhist. repeat split; auto. lia.
    - cbn [sim_loop].
      assert (exists tp fl, (if first then Ok (0, map (fun _ : hstate => (false, 0)) st)
                             else advance sig_digits st) = Ok (tp, fl) /\
                            0 <= tp /\ Forall2 (flag_ok tp) st fl) as [tp [fl [Ea [Htp Hfl]]]].
      { destruct first.
        - exists 0, (map (fun _ : hstate => (false, 0)) st). split; [reflexivity|]. split; [lra|].
          apply Forall2_map_r. clear -Hst. induction Hst as [|s st Hs _ IHs]; constructor; auto.
          destruct Hs as [_ [_ [_ [d [Hd [H0 H1]]]]]]. exists d. split; [exact Hd|].
          right. cbn. repeat split; lra.
        - destruct (advance_ok st Hst Hne) as [tp [fl [E [P F]]]].
          exists tp, fl. repeat split; auto. lra. }
      rewrite Ea. cbn [bind fst snd].
      destruct (tick_body_ok prof tp fl st Hp Htp Hst Hfl)
        as [st' [ts [Eb [Hst' [Hmap [Hts _]]]]]].
      rewrite Eb. cbn [bind].
      assert (Hne' : st' <> []).
      { intros ->. destruct st; [congruence|discriminate]. }
      destruct (find_index ts hist) as [i|].
      + eexists; split; [reflexivity|]. cbn [so_resos so_hist]. repeat split.
        * rewrite <- Hmap. apply apply_avg_ok; [|assumption].
          rewrite <- (map_length s_h st'). apply avg_resos_ok.
          rewrite Hmap. now apply Forall_skipn.
        * assumption.
        * lia.
      + destruct (IH false st' (hist ++ [ts]) Hst' Hne') as [out [Ho [Hr [Hho Hlen]]]].
        * rewrite Hmap. apply Forall_app; split; [assumption|]. constructor; [assumption|constructor].
        * exists out. rewrite Hmap in Hr, Hho. repeat split; auto.
          rewrite app_length in Hlen. simpl in Hlen. lia.
  Qed.
End SimProofs.

Local Open Scope Q_scope.

Section Top.
  Variable ship_fn : list R4 -> rattr -> option Q.
  Variable sig_digits : Z.
  Hypothesis ship_pos : ship_positive ship_fn.

  (* the quantifier of the property *)
  Definition ranges (prof : profile) (hs : list hardener) : Prop :=
    prof_ok prof /\ Forall hardener_ok hs /\ hs <> [].

  Lemma init_ok hs :
    Forall hardener_ok hs -> Forall hs_ok (init_state hs) /\ map s_h (init_state hs) = hs.
  Proof.
    intros H. unfold init_state. split.
    - apply Forall_forall. intros s Hs. apply in_map_iff in Hs. destruct Hs as [h [<- Hh]].
      rewrite Forall_forall in H. specialize (H h Hh).
      pose proof H as [Hr [HS [Hsh [d [Hd Hdp]]]]].
      split; [exact H|]. split; [|split].
      + split; [reflexivity|]. intros a. apply Hr.
      + intros a. cbn. destruct a; cbn; lra.
      + exists d. cbn. repeat split; auto; lra.
    - rewrite map_map. cbn. apply map_id.
  Qed.

  Definition out_ok (hs : list hardener) (out : sim_out) : Prop :=
    Forall2 resos_ok hs (so_resos out) /\ hist_ok hs (so_hist out).

  Lemma run_sim_ok max loaded prof hs :
    ranges prof hs ->
    exists out, run_sim ship_fn sig_digits max loaded prof hs = Ok out /\
                out_ok hs out /\ (length (so_hist out) <= max)%nat.
  Proof.
    intros [Hp [Hh Hne]]. unfold run_sim. destruct loaded.
    - destruct (init_ok hs Hh) as [Hi Hm].
      destruct (sim_loop_ok ship_fn sig_digits ship_pos prof max Hp true (init_state hs) [])
        as [out [Ho [Hr [Hho Hlen]]]].
      + exact Hi.
      + unfold init_state. destruct hs; [congruence|discriminate].
      + constructor.
      + rewrite Hm in *. exists out. repeat split; auto.
    - eexists; split; [reflexivity|]. cbn. repeat split; [|constructor|lia].
      apply Forall2_map_r. clear Hne. induction Hh as [|h hs Hh' _ IH]; constructor; auto.
      split; [reflexivity|]. intros a. apply Hh'.
  Qed.

  (* sim_terminates: at most max_ticks ticks, no error outcome, no warning *)
  Lemma sim_terminates_l max prof hs :
    ranges prof hs ->
    exists out, run_sim ship_fn sig_digits max true prof hs = Ok out /\
                (length (so_hist out) <= max)%nat /\
                rah_results ship_fn sig_digits max true prof hs = (so_resos out, false).
  Proof.
    intros H. destruct (run_sim_ok max true prof hs H) as [out [Ho [_ Hl]]].
    exists out. repeat split; auto. unfold rah_results. now rewrite Ho.
  Qed.

  Lemma sim_conserves_l max loaded prof hs out :
    ranges prof hs -> run_sim ship_fn sig_digits max loaded prof hs = Ok out ->
    Forall2 (fun h r => sum4 r == sum4 (h_resos h)) hs (so_resos out) /\
    Forall (fun ts => Forall2 (fun h rs => sum4 (t_resos rs) == sum4 (h_resos h)) hs ts)
           (so_hist out).
  Proof.
    intros H E. destruct (run_sim_ok max loaded prof hs H) as [out' [Ho [[Hr Hh] _]]].
    rewrite E in Ho. inversion Ho; subst out'. split.
    - eapply Forall2_impl; [|exact Hr]. intros h r [S _]. exact S.
    - eapply Forall_impl; [|exact Hh]. intros ts F.
      eapply Forall2_impl; [|exact F]. intros h rs [S _]. exact S.
  Qed.

  Lemma resos_ok_bounds hs :
    Forall hardener_ok hs ->
    forall l : list R4, Forall2 resos_ok hs l ->
                        Forall (fun r => forall a, 0 < get4 r a <= 1) l.
  Proof.
    intros Hok l F. induction F as [|h r hs' l' Hrr F IH]; constructor.
    - inversion Hok; subst. intros a. split; [eapply resos_ok_pos; eauto|apply Hrr].
    - inversion Hok; subst. auto.
  Qed.

  Lemma sim_bounds_l max loaded prof hs out :
    ranges prof hs -> run_sim ship_fn sig_digits max loaded prof hs = Ok out ->
    Forall (fun r => forall a, 0 < get4 r a <= 1) (so_resos out) /\
    Forall (fun ts => Forall (fun rs => forall a, 0 < get4 (t_resos rs) a <= 1) ts) (so_hist out).
  Proof.
    intros H E. destruct (run_sim_ok max loaded prof hs H) as [out' [Ho [[Hr Hh] _]]].
    rewrite E in Ho. inversion Ho; subst out'. destruct H as [_ [Hok _]].
    pose proof (resos_ok_bounds hs Hok) as G.
    split; [apply G; assumption|].
    eapply Forall_impl; [|exact Hh]. intros ts F.
    assert (F' : Forall2 resos_ok hs (map t_resos ts)) by (apply Forall2_map_r; exact F).
    apply G in F'. rewrite Forall_map in F'. exact F'.
  Qed.

  (* ----------------------------------------------------------------------- *)
  (* the wrapper: plain values without a loaded ship / for a hardener that is *)
  (* not running / when the simulation fails                                  *)
  (* ----------------------------------------------------------------------- *)

  Lemma expose_not_running all res i h :
    nth_error all i = Some (false, h) -> nth_error (expose all res) i = Some (h_resos h).
  Proof.
    revert res i. induction all as [|[b h'] all IH]; intros res i H.
    - destruct i; discriminate.
    - destruct i as [|i]; simpl in H.
      + inversion H; subst. reflexivity.
      + destruct b; simpl; [destruct res|]; simpl; apply IH; exact H.
  Qed.

  Lemma expose_plain all : expose all (map h_resos (map snd (filter fst all))) =
                           map (fun x => h_resos (snd x)) all.
  Proof.
    induction all as [|[b h] all IH]; simpl; [reflexivity|].
    destruct b; simpl; rewrite IH; reflexivity.
  Qed.

  Lemma expose_nil all : expose all [] = map (fun x => h_resos (snd x)) all.
  Proof.
    induction all as [|[b h] all IH]; simpl; [reflexivity|].
    destruct b; simpl; rewrite IH; reflexivity.
  Qed.

  (* unsimulated_when *)
  Lemma unsimulated_no_ship max prof all :
    rah_read ship_fn sig_digits max false prof all =
    (map (fun x => h_resos (snd x)) all, false).
  Proof.
    unfold rah_read. destruct (map snd (filter fst all)) as [|h0 t] eqn:E.
    - now rewrite expose_nil.
    - unfold rah_results, run_sim. cbn [so_resos]. rewrite <- E. now rewrite expose_plain.
  Qed.

  Lemma unsimulated_not_running max loaded prof all i h :
    nth_error all i = Some (false, h) ->
    nth_error (fst (rah_read ship_fn sig_digits max loaded prof all)) i = Some (h_resos h).
  Proof.
    intros H. unfold rah_read. destruct (map snd (filter fst all)).
    - cbn [fst]. now apply expose_not_running.
    - destruct (rah_results _ _ _ _ _ _). cbn [fst]. now apply expose_not_running.
  Qed.

  (* fallback_on_error *)
  Lemma fallback_on_error_l max loaded prof hs e :
    run_sim ship_fn sig_digits max loaded prof hs = Err e ->
    rah_results ship_fn sig_digits max loaded prof hs = (map h_resos hs, true).
  Proof. intros H. unfold rah_results. now rewrite H. Qed.

  Lemma fallback_read max loaded prof all e :
    map snd (filter fst all) <> [] ->
    run_sim ship_fn sig_digits max loaded prof (map snd (filter fst all)) = Err e ->
    rah_read ship_fn sig_digits max loaded prof all =
    (map (fun x => h_resos (snd x)) all, true).
  Proof.
    intros Hne H. unfold rah_read.
    destruct (map snd (filter fst all)) as [|h0 t] eqn:E; [congruence|].
    rewrite (fallback_on_error_l _ _ _ _ _ H). rewrite <- E. now rewrite expose_plain.
  Qed.
End Top.


Local Open Scope Q_scope.

(* ------------------------------------------------------------------------- *)
(* the instantiation used for execution satisfies the hypothesis on the ship  *)
(* ------------------------------------------------------------------------- *)

Lemma qinsert_Forall (P : Q -> Prop) le x l :
  P x -> Forall P l -> Forall P (qinsert le x l).
Proof.
  intros Hx. induction 1 as [|y l Hy Hl IH]; simpl; [repeat constructor; auto|].
  destruct (le x y); repeat constructor; auto.
Qed.

Lemma qsort_Forall (P : Q -> Prop) le l : Forall P l -> Forall P (qsort le l).
Proof.
  induction 1; simpl; [constructor|]. now apply qinsert_Forall.
Qed.

Lemma filter_Forall {A} (P : A -> Prop) f l : Forall P l -> Forall P (filter f l).
Proof.
  induction 1; simpl; [constructor|]. destruct (f x); [constructor|]; auto.
Qed.

Lemma factor_pos m p : -1 < m -> 0 <= p <= 1 -> 0 < 1 + m * p.
Proof.
  intros Hm [Hp0 Hp1]. destruct (Qlt_le_dec m 0) as [Hneg|Hpos].
  - assert (m <= m * p).
    { assert (0 <= (- m) * (1 - p)) by (apply Qmult_le_0_compat; lra).
      assert (E : (- m) * (1 - p) == m * p - m) by ring. lra. }
    lra.
  - assert (0 <= m * p) by (apply Qmult_le_0_compat; lra). lra.
Qed.

Lemma chain_value_pos pens chain :
  Forall (fun p => 0 <= p <= 1) pens -> Forall (fun m => -1 < m) chain ->
  0 < chain_value pens chain.
Proof.
  intros Hp Hc. unfold chain_value.
  assert (G : forall l acc, Forall (fun mp : Q * Q => -1 < fst mp /\ 0 <= snd mp <= 1) l ->
                            0 < acc ->
                            0 < fold_left (fun acc mp => acc * (1 + fst mp * snd mp)) l acc).
  { induction l as [|[m p] l IH]; simpl; intros acc F Ha; [assumption|].
    inversion F as [|? ? [Hm Hpp] F']; subst. apply IH; [assumption|].
    apply Qmult_lt_0_compat; [assumption|]. now apply factor_pos. }
  apply G; [|lra].
  clear G. revert pens Hp. induction Hc as [|m chain Hm Hc IH]; intros pens Hp; simpl; [constructor|].
  destruct pens as [|p pens]; [constructor|]. inversion Hp; subst.
  constructor; [split; assumption|]. now apply IH.
Qed.

Lemma calc_ship_positive pens base :
  Forall (fun p => 0 <= p <= 1) pens ->
  (forall a, exists b, base a = Some b /\ 0 < b) ->
  ship_positive (calc_ship pens base).
Proof.
  intros Hp Hb cur a Hcur. unfold calc_ship. destruct (Hb a) as [b [Eb Pb]]. rewrite Eb.
  destruct cur as [|r0 cur']; [eauto|].
  eexists; split; [reflexivity|]. rewrite Qred_correct.
  set (mods := map (fun r => get4 r a - 1) (r0 :: cur')).
  assert (Hm : Forall (fun m => -1 < m) mods).
  { unfold mods. apply Forall_forall. intros m Hm. apply in_map_iff in Hm.
    destruct Hm as [r [<- Hr]]. rewrite Forall_forall in Hcur. specialize (Hcur r Hr a). lra. }
  unfold penalize.
  pose proof (chain_value_pos pens _ Hp
                (qsort_Forall _ (fun a b => Qle_bool b a) _
                   (filter_Forall _ (fun m => Qle_bool 0 m) _ Hm))) as P1.
  pose proof (chain_value_pos pens _ Hp
                (qsort_Forall _ Qle_bool _
                   (filter_Forall _ (fun m => negb (Qle_bool 0 m)) _ Hm))) as P2.
  fold mods.
  set (cp := chain_value pens (qsort (fun a b => Qle_bool b a) _)) in *.
  set (cn := chain_value pens (qsort Qle_bool _)) in *.
  assert (E : b * (1 + (1 * cp * cn - 1)) == b * (cp * cn)) by ring.
  rewrite E. apply Qmult_lt_0_compat; [assumption|]. now apply Qmult_lt_0_compat.
Qed.

Local Open Scope Q_scope.

(* ------------------------------------------------------------------------- *)
(* single-type damage profile, one hardener: saturation                       *)
(* ------------------------------------------------------------------------- *)

Lemma qmin_ext a a' b : a == a' -> qmin a b == qmin a' b.
Proof.
  intros E. unfold qmin.
  destruct (Qle_bool a b) eqn:E1, (Qle_bool a' b) eqn:E2; try assumption; try reflexivity.
  - apply Qle_bool_iff in E1. assert (~ a' <= b) by (rewrite <- Qle_bool_iff; congruence). lra.
  - apply Qle_bool_iff in E2. assert (~ a <= b) by (rewrite <- Qle_bool_iff; congruence). lra.
Qed.

Definition eqv4 (u v : R4) : Prop := forall a, get4 u a == get4 v a.

Lemma give_ext u v s a : eqv4 u v -> give u s a == give v s a.
Proof. intros E. unfold give. apply qmin_ext. rewrite (E a). reflexivity. Qed.

Section Saturation.
  Variable ship_fn : list R4 -> rattr -> option Q.
  Variable sig_digits : Z.
  Hypothesis ship_pos : ship_positive ship_fn.

  Variable k : rattr.                (* the only damage type of the profile *)
  Variable sh : Q.                   (* resist_shift_amount, percent *)
  Hypothesis sh_nonneg : 0 <= sh.
  Let s : Q := sh / 100.             (* what __get_next_resos receives *)

  Lemma s_nonneg : 0 <= s.
  Proof. unfold s. apply Qle_shift_div_l; lra. Qed.

  Definition gsum (cur : R4) : Q :=
    give cur s Em + give cur s Expl + give cur s Kin + give cur s Therm.

  (* one adaptation cycle under damage of type k only: every other type gives
     up to the shift amount, k takes all of it *)
  Definition sat_step (cur : R4) : R4 :=
    build4 (fun a => if rattr_eqb a k then get4 cur k - (gsum cur - give cur s k)
                     else get4 cur a + give cur s a).

  Fixpoint sat_iter (n : nat) (r0 : R4) : R4 :=
    match n with O => r0 | S m => sat_step (sat_iter m r0) end.

  Lemma sat_step_ext u v : eqv4 u v -> eqv4 (sat_step u) (sat_step v).
  Proof.
    intros E a. unfold sat_step, gsum. rewrite !get4_build4.
    destruct (rattr_eqb a k).
    - rewrite (E k), !(give_ext u v s _ E). reflexivity.
    - rewrite (E a), (give_ext u v s a E). reflexivity.
  Qed.

  Lemma sat_step_sum cur : sum4 (sat_step cur) == sum4 cur.
  Proof.
    rewrite !sum4_get. unfold sat_step, gsum. rewrite !get4_build4.
    destruct k; cbn [rattr_eqb]; ring.
  Qed.

  Lemma sat_iter_sum n r0 : sum4 (sat_iter n r0) == sum4 r0.
  Proof. induction n; simpl; [reflexivity|]. now rewrite sat_step_sum. Qed.

  Definition saturated (cur : R4) : Prop := forall a, a <> k -> get4 cur a == 1.

  Lemma sat_step_fix cur : saturated cur -> eqv4 (sat_step cur) cur.
  Proof.
    intros H.
    assert (G : forall a, a <> k -> give cur s a == 0).
    { intros a Ha. unfold give. rewrite (qmin_ext _ 0) by (rewrite (H a Ha); ring).
      unfold qmin. destruct (Qle_bool 0 s) eqn:E; [reflexivity|].
      assert (~ 0 <= s) by (rewrite <- Qle_bool_iff; congruence). pose proof s_nonneg. contradiction. }
    intros a. unfold sat_step, gsum. rewrite get4_build4.
    destruct (rattr_eqb a k) eqn:E.
    - apply rattr_eqb_eq in E; subst a.
      destruct k.
      + rewrite (G Expl), (G Kin), (G Therm) by discriminate; ring.
      + rewrite (G Em), (G Kin), (G Therm) by discriminate; ring.
      + rewrite (G Em), (G Expl), (G Therm) by discriminate; ring.
      + rewrite (G Em), (G Expl), (G Kin) by discriminate; ring.
    - assert (a <> k) by (intros ->; assert (rattr_eqb k k = true) by (now apply rattr_eqb_eq); congruence).
      rewrite G by assumption. ring.
  Qed.

  (* the shift under single-type damage is sat_step *)
  Lemma next_single cur dmg nxt :
    0 < get4 dmg k -> (forall a, a <> k -> get4 dmg a == 0) ->
    next_resos cur dmg s = Ok nxt -> eqv4 nxt (sat_step cur).
  Proof.
    intros Hk Hz H.
    assert (Bz : forall a, a <> k -> Qeq_bool (get4 dmg a) 0 = true)
      by (intros; apply Qeq_bool_iff; auto).
    assert (Bk : Qeq_bool (get4 dmg k) 0 = false).
    { destruct (Qeq_bool (get4 dmg k) 0) eqn:E; [|reflexivity].
      apply Qeq_bool_iff in E. lra. }
    assert (D3 : donor_count dmg = 3%nat).
    { unfold donor_count, res_order. cbn [filter].
      destruct k; rewrite ?Bk, ?Bz by discriminate; reflexivity. }
    assert (Hlt : forall a, a <> k -> lex_lt (get4 dmg) a k).
    { intros a Ha. left. rewrite (Hz a Ha). exact Hk. }
    assert (Knd : ~ In k (donors dmg)).
    { intros Hin.
      assert (I : incl res_order (donors dmg)).
      { intros a _. destruct (rattr_eqb a k) eqn:E.
        - apply rattr_eqb_eq in E; subst; assumption.
        - eapply donor_order_l; [apply Hlt|exact Hin].
          intros ->. assert (rattr_eqb k k = true) by (now apply rattr_eqb_eq). congruence. }
      pose proof (NoDup_incl_length res_order_nodup I) as L.
      unfold donors in L. rewrite firstn_length, D3 in L. change (length res_order) with 4%nat in L. lia. }
    assert (Kr : In k (recips dmg)) by (destruct (donor_or_recip dmg k); [contradiction|assumption]).
    assert (Rk : recips dmg = [k]).
    { pose proof (recips_length dmg) as L. rewrite D3 in L.
      destruct (recips dmg) as [|x [|y t]]; simpl in L; try lia.
      destruct Kr as [->|[]]. reflexivity. }
    assert (Ad : forall a, a <> k -> In a (donors dmg)).
    { intros a Ha. destruct (donor_or_recip dmg a) as [|Hr]; [assumption|].
      rewrite Rk in Hr. destruct Hr as [->|[]]. congruence. }
    destruct (next_resos_char _ _ _ _ H) as [HD HR].
    assert (Hdon : donated cur dmg s + give cur s k == gsum cur).
    { unfold donated, gsum.
      assert (P : Permutation (donors dmg ++ [k]) res_order).
      { rewrite <- Rk, donors_recips. apply sort_perm. }
      pose proof (qsumr_perm _ _ (Permutation_map (give cur s) P)) as E.
      rewrite map_app, qsumr_app in E. unfold qsumr in *.
      cbn [map fold_right res_order] in E. lra. }
    intros a. unfold sat_step. rewrite get4_build4.
    destruct (rattr_eqb a k) eqn:E.
    - apply rattr_eqb_eq in E; subst a. destruct (HR k Kr) as [_ Ek]. rewrite Ek, D3.
      change (inject_Z (Z.of_nat (4 - 3))) with 1. rewrite <- Hdon. field.
    - apply HD, Ad. intros ->.
      assert (rattr_eqb k k = true) by (now apply rattr_eqb_eq). congruence.
  Qed.

  (* -- the simulation of one hardener under such a profile ---------------- *)

  Variable h : hardener.
  Variable prof : profile.
  Hypothesis Hh : hardener_ok h.
  Hypothesis Hs : h_shift h = Some sh.
  Hypothesis Pk : 0 < pget prof (pf k).
  Hypothesis Pz : forall a, a <> k -> pget prof (pf a) == 0.

  Definition r0 : R4 := h_resos h.

  Lemma round4_ext u v : eqv4 u v -> round4 sig_digits u = round4 sig_digits v.
  Proof.
    intros E. unfold round4, build4M.
    rewrite (sig_round_ext _ _ sig_digits (E Em)), (sig_round_ext _ _ sig_digits (E Expl)),
      (sig_round_ext _ _ sig_digits (E Kin)), (sig_round_ext _ _ sig_digits (E Therm)).
    reflexivity.
  Qed.

  (* do two resonance vectors round to the same state? *)
  Definition req (x y : R4) : bool :=
    match round4 sig_digits x, round4 sig_digits y with
    | Ok a, Ok b => eq4b a b
    | _, _ => false
    end.

  Lemma eq4b_refl u : eq4b u u = true.
  Proof.
    unfold eq4b, res_order. cbn [forallb].
    rewrite !(proj2 (Qeq_bool_iff _ _) (Qeq_refl _)). reflexivity.
  Qed.

  Lemma req_ext_r x y y' : eqv4 y y' -> req x y = req x y'.
  Proof. intros E. unfold req. now rewrite (round4_ext _ _ E). Qed.

  Lemma sat_step_ok x : resos_ok h x -> resos_ok h (sat_step x).
  Proof.
    intros [Sx Lx]. split; [now rewrite sat_step_sum|]. intros a.
    unfold sat_step. rewrite get4_build4. destruct (rattr_eqb a k) eqn:E.
    - apply rattr_eqb_eq in E; subst a.
      assert (0 <= gsum x - give x s k).
      { unfold gsum.
        pose proof (give_nonneg x s Em (Lx Em) s_nonneg).
        pose proof (give_nonneg x s Expl (Lx Expl) s_nonneg).
        pose proof (give_nonneg x s Kin (Lx Kin) s_nonneg).
        pose proof (give_nonneg x s Therm (Lx Therm) s_nonneg).
        destruct k; lra. }
      specialize (Lx k). lra.
    - unfold give. pose proof (qmin_le_l (1 - get4 x a) s). lra.
  Qed.

  Lemma sat_iter_ok n : resos_ok h (sat_iter n r0).
  Proof.
    induction n; simpl; [|now apply sat_step_ok].
    destruct Hh as [Hr _]. split; [reflexivity|]. intros a. apply Hr.
  Qed.

  (* state of the only hardener after some ticks *)
  Definition srel (x : R4) (st : hstate) : Prop :=
    s_h st = h /\ s_cyc st == 0 /\ eqv4 (s_resos st) x /\ forall a, get4 (s_acc st) a == 0.

  (* the recorded history: one state per tick, resonances x_0, x_1, ... *)
  Definition hrel (xs : list R4) (hist : list tick_state) : Prop :=
    Forall2 (fun x ts => exists rs, ts = [rs] /\ t_cyc rs == 0 /\ eqv4 (t_resos rs) x /\
                                    round4 sig_digits x = Ok (t_rounded rs)) xs hist.

  Lemma find_index_none xs hist rs y :
    hrel xs hist -> t_cyc rs == 0 -> round4 sig_digits y = Ok (t_rounded rs) ->
    (forall x, In x xs -> req x y = false) -> find_index [rs] hist = None.
  Proof.
    intros H C R. induction H as [|x ts xs hist [rs' [-> [C' [_ R']]]] _ IH]; intros F; [reflexivity|].
    cbn [find_index tick_state_eqb]. unfold rah_state_eqb.
    assert (E : eq4b (t_rounded rs') (t_rounded rs) = false).
    { specialize (F x (or_introl eq_refl)). unfold req in F. now rewrite R', R in F. }
    rewrite E, andb_false_r. cbn [andb]. rewrite IH; [reflexivity|].
    intros x' Hx'. apply F. now right.
  Qed.

  Lemma find_index_some xs1 x xs2 hist rs y :
    hrel (xs1 ++ x :: xs2) hist -> t_cyc rs == 0 -> round4 sig_digits y = Ok (t_rounded rs) ->
    (forall x', In x' xs1 -> req x' y = false) -> req x y = true ->
    find_index [rs] hist = Some (length xs1).
  Proof.
    intros H C R. revert hist H. induction xs1 as [|x1 xs1 IH]; intros hist H F T.
    - inversion H as [|? ts ? hist' [rs' [-> [C' [_ R']]]] _]; subst.
      cbn [find_index tick_state_eqb]. unfold rah_state_eqb.
      unfold req in T. rewrite R', R in T. rewrite T.
      assert (Qeq_bool (t_cyc rs') (t_cyc rs) = true) as -> by (apply Qeq_bool_iff; rewrite C, C'; reflexivity).
      reflexivity.
    - inversion H as [|? ts ? hist' [rs' [-> [C' [_ R']]]] H']; subst.
      cbn [find_index tick_state_eqb]. unfold rah_state_eqb.
      assert (E : eq4b (t_rounded rs') (t_rounded rs) = false).
      { specialize (F x1 (or_introl eq_refl)). unfold req in F. now rewrite R', R in F. }
      rewrite E, andb_false_r. cbn [andb].
      rewrite (IH hist' H'); [reflexivity| |assumption].
      intros x' Hx'. apply F. now right.
  Qed.

  (* one tick after the first *)
  Lemma single_tick x st :
    srel x st -> resos_ok h x ->
    exists tp nr rr acc,
      advance sig_digits [st] = Ok (tp, [(true, 0)]) /\
      tick_body ship_fn sig_digits prof tp [(true, 0)] [st] =
      Ok ([mkHS h 0 nr zero4], [mkRS 0 nr rr acc true]) /\
      eqv4 nr (sat_step x) /\ round4 sig_digits nr = Ok rr.
  Proof.
    intros [Eh [Ec [Er Ea]]] Rx.
    pose proof Hh as Hok. pose proof Hh as [Hr [HS [_ [d [Hd Hdp]]]]]. pose proof Hs as Hsh.
    set (tp := d - s_cyc st).
    assert (Htp : 0 < tp) by (unfold tp; lra).
    exists tp.
    (* the pieces *)
    assert (Hu : Forall in_unit [s_resos st]).
    { constructor; [|constructor]. intros a. rewrite (Er a).
      split; [eapply resos_ok_pos; eauto|apply Rx]. }
    destruct (ship_values_ok ship_fn ship_pos [s_resos st] Hu) as [shipv [Esv Hv]].
    set (acc := build4 (fun a => Qred (get4 (s_acc st) a + pget prof (pf a) * get4 shipv a * tp))).
    destruct (next_resos_total (s_resos st) acc s) as [nr Hnr].
    assert (Hk : 0 < get4 acc k).
    { unfold acc. rewrite get4_build4, Qred_correct, (Ea k).
      assert (0 < pget prof (pf k) * get4 shipv k * tp).
      { apply Qmult_lt_0_compat; [apply Qmult_lt_0_compat|]; auto. }
      lra. }
    assert (Hz : forall a, a <> k -> get4 acc a == 0).
    { intros a Ha. unfold acc. rewrite get4_build4, Qred_correct, (Ea a), (Pz a Ha). ring. }
    assert (E1 : eqv4 nr (sat_step x)).
    { intros a. rewrite (next_single _ _ _ Hk Hz Hnr a). apply sat_step_ext. exact Er. }
    destruct (round4_total sig_digits nr) as [rr Hrr].
    { intros a. rewrite (E1 a). eapply resos_ok_pos; [exact Hok|]. now apply sat_step_ok. }
    exists nr, rr, acc. split; [|split; [|split; assumption]].
    - (* advance *)
      unfold advance. cbn [mapM]. unfold dur_of. rewrite Eh, Hd. cbn [bind qmin_list].
      fold tp.
      assert (Hrem : s_cyc st + tp == d) by (unfold tp; ring).
      rewrite (sig_round_ext _ _ sig_digits Hrem).
      destruct (sig_round_total d sig_digits) as [y Hy]; [lra|]. rewrite Hy. cbn [bind].
      assert (Qeq_bool y y = true) as -> by (apply Qeq_bool_iff; reflexivity).
      reflexivity.
    - (* the loop body *)
      unfold tick_body. cbn [map]. rewrite Esv. cbn [bind combine mapM].
      unfold tick_item. cbv beta iota. rewrite add_dmg_eq. cbn [bind]. fold acc.
      unfold shift_of. rewrite Eh, Hsh. cbn [bind]. fold s. rewrite Hnr. cbn [bind s_resos].
      rewrite Hrr. cbn [bind map fst snd]. reflexivity.
  Qed.

  (* -- saturation reached after N cycles, no earlier state rounds alike ---- *)

  Variable N : nat.
  Hypothesis Hsat : saturated (sat_iter N r0).
  Hypothesis Hdist :
    forall i j, (i < j <= N)%nat -> req (sat_iter i r0) (sat_iter j r0) = false.

  Definition iters (n : nat) : list R4 := map (fun i => sat_iter i r0) (seq 0 n).

  Lemma iters_S n : iters (S n) = iters n ++ [sat_iter n r0].
  Proof. unfold iters. rewrite seq_S, map_app. reflexivity. Qed.

  Lemma in_iters n x : In x (iters n) -> exists i, (i < n)%nat /\ x = sat_iter i r0.
  Proof.
    unfold iters. intros H. apply in_map_iff in H. destruct H as [i [<- Hi]].
    apply in_seq in Hi. exists i. split; [lia|reflexivity].
  Qed.

  Lemma req_refl x : resos_ok h x -> req x x = true.
  Proof.
    intros Rx. unfold req.
    destruct (round4_total sig_digits x) as [a Ha].
    { eapply resos_ok_pos; eauto. }
    rewrite Ha. apply eq4b_refl.
  Qed.

  Lemma loop_from fuel :
    forall t st hist,
      (t <= N)%nat -> (N - t + 1 <= fuel)%nat ->
      srel (sat_iter t r0) st -> hrel (iters (S t)) hist ->
      exists out r, sim_loop ship_fn sig_digits fuel false prof [st] hist = Ok out /\
                    so_how out = LoopAt N /\ so_resos out = [r] /\ eqv4 r (sat_iter N r0).
  Proof.
    induction fuel as [|f IH]; intros t st hist Ht Hf Hst Hh'; [lia|].
    destruct (single_tick _ _ Hst (sat_iter_ok t)) as [tp [nr [rr [acc [Ea [Eb [En Er]]]]]]].
    cbn [sim_loop]. rewrite Ea. cbn [bind fst snd]. rewrite Eb. cbn [bind].
    change (sat_step (sat_iter t r0)) with (sat_iter (S t) r0) in En.
    set (rs := mkRS 0 nr rr acc true).
    assert (Rr : round4 sig_digits (sat_iter (S t) r0) = Ok (t_rounded rs)).
    { unfold rs. cbn [t_rounded]. rewrite <- (round4_ext _ _ En). exact Er. }
    destruct (Nat.eq_dec t N) as [->|Hne].
    - (* the saturated state repeats: loop found at index N *)
      assert (Efix : eqv4 (sat_iter (S N) r0) (sat_iter N r0)) by (apply sat_step_fix; exact Hsat).
      rewrite iters_S in Hh'.
      rewrite (find_index_some (iters N) (sat_iter N r0) [] hist rs (sat_iter (S N) r0)
                 Hh' (Qeq_refl _) Rr).
      + assert (LN : length (iters N) = N) by (unfold iters; now rewrite map_length, seq_length).
        rewrite LN.
        apply Forall2_app_inv_l in Hh'.
        destruct Hh' as [h1 [h2 [F1 [F2 ->]]]].
        inversion F2 as [|? ts ? ? [rsN [-> [Cn [Rn _]]]] F3]; subst. inversion F3; subst.
        assert (L1 : length h1 = N).
        { apply Forall2_length' in F1. now rewrite LN in F1. }
        eexists. eexists. split; [reflexivity|]. cbn [so_how so_resos]. split; [reflexivity|].
        rewrite skipn_app, <- L1, skipn_all, Nat.sub_diag. cbn [app skipn length].
        unfold avg_resos. cbn [repeat fold_left]. unfold avg_accum. cbn [combine map].
        assert (Qeq_bool (t_cyc rsN) 0 = true) as -> by (now apply Qeq_bool_iff).
        unfold apply_avg. cbn [combine map fst snd]. split; [reflexivity|].
        intros a. rewrite get4_build4, Qred_correct, get4_add4.
        change (inject_Z (Z.of_nat 1)) with 1.
        assert (get4 zero4 a = 0) as -> by (destruct a; reflexivity).
        rewrite (Rn a). rewrite L1. field.
      + intros x' Hx'. apply in_iters in Hx'. destruct Hx' as [i [Hi ->]].
        rewrite (req_ext_r _ _ _ Efix). apply Hdist. lia.
      + rewrite (req_ext_r _ _ _ Efix). apply req_refl. apply sat_iter_ok.
    - (* not yet saturated: a new state *)
      rewrite (find_index_none (iters (S t)) hist rs (sat_iter (S t) r0) Hh' (Qeq_refl _) Rr).
      + apply (IH (S t)); [lia|lia| |].
        * split; [reflexivity|]. split; [reflexivity|]. split; [exact En|].
          intros a. destruct a; reflexivity.
        * rewrite iters_S. apply Forall2_app; [exact Hh'|].
          constructor; [|constructor]. exists rs.
          split; [reflexivity|]. split; [reflexivity|]. split; [exact En|exact Rr].
      + intros x' Hx'. apply in_iters in Hx'. destruct Hx' as [i [Hi ->]]. apply Hdist. lia.
  Qed.

  Lemma single_type_saturates_l max :
    (N + 2 <= max)%nat ->
    exists out r, run_sim ship_fn sig_digits max true prof [h] = Ok out /\
                  so_how out = LoopAt N /\ so_resos out = [r] /\
                  get4 r k == sum4 (h_resos h) - 3 /\
                  forall a, a <> k -> get4 r a == 1.
  Proof.
    intros Hmax. destruct max as [|f]; [lia|].
    unfold run_sim, init_state. cbn [map sim_loop bind fst snd].
    pose proof Hh as [Hr [HS [_ [d [Hd Hdp]]]]].
    assert (Hu : Forall in_unit [h_resos h]) by (constructor; [exact Hr|constructor]).
    unfold tick_body. cbn [map s_resos].
    destruct (ship_values_ok ship_fn ship_pos [h_resos h] Hu) as [shipv [Esv Hv]].
    rewrite Esv. cbn [bind combine mapM].
    unfold tick_item. cbv beta iota. rewrite add_dmg_eq. cbn [bind s_resos s_h s_acc].
    set (acc := build4 _).
    destruct (round4_total sig_digits (h_resos h)) as [rr Hrr]; [intros a; apply Hr|].
    rewrite Hrr. cbn [bind map fst snd find_index app].
    destruct (loop_from f 0%nat (mkHS h 0 (h_resos h) acc)
                [[mkRS 0 (h_resos h) rr acc false]]) as [out [r [Eo [Ehow [Eres Er]]]]].
    - lia.
    - lia.
    - repeat split; cbn; try reflexivity.
      intros a. unfold acc. rewrite get4_build4, Qred_correct.
      assert (get4 zero4 a = 0) as -> by (destruct a; reflexivity). ring.
    - unfold iters. cbn [seq map]. constructor; [|constructor].
      eexists. repeat split; cbn; try reflexivity. exact Hrr.
    - exists out, r. repeat split; auto.
      + rewrite (Er k). pose proof (sat_iter_sum N r0) as Ssum. rewrite sum4_get in Ssum.
        fold r0.
        assert (Hne : forall a, a <> k -> get4 (sat_iter N r0) a == 1) by exact Hsat.
        clear - Ssum Hne. set (S0 := sum4 r0) in *. clearbody S0.
        destruct k.
        * pose proof (Hne Expl ltac:(discriminate)). pose proof (Hne Kin ltac:(discriminate)).
          pose proof (Hne Therm ltac:(discriminate)). lra.
        * pose proof (Hne Em ltac:(discriminate)). pose proof (Hne Kin ltac:(discriminate)).
          pose proof (Hne Therm ltac:(discriminate)). lra.
        * pose proof (Hne Em ltac:(discriminate)). pose proof (Hne Expl ltac:(discriminate)).
          pose proof (Hne Therm ltac:(discriminate)). lra.
        * pose proof (Hne Em ltac:(discriminate)). pose proof (Hne Expl ltac:(discriminate)).
          pose proof (Hne Kin ltac:(discriminate)). lra.
      + intros a Ha. rewrite (Er a). now apply Hsat.
  Qed.
End Saturation.

Local Open Scope Z_scope.

(* ------------------------------------------------------------------------- *)
(* floor(log10 |x|) : the fuel of the search always suffices, and the result  *)
(* is the decimal magnitude                                                    *)
(* ------------------------------------------------------------------------- *)

Lemma pos_lt_pow2_size p : Zpos p < 2 ^ Z.of_nat (Pos.size_nat p).
Proof.
  induction p as [p IH|p IH|]; cbn [Pos.size_nat].
  - rewrite Nat2Z.inj_succ, Z.pow_succ_r by lia. lia.
  - rewrite Nat2Z.inj_succ, Z.pow_succ_r by lia. lia.
  - reflexivity.
Qed.

Lemma ilog_up_spec fuel : forall n d p e,
  0 < d -> 0 < p -> p * d <= n -> n < 2 ^ Z.of_nat fuel * (p * d) ->
  exists k, 0 <= k /\ ilog_up fuel n d p e = e + k /\
            p * 10 ^ k * d <= n < p * 10 ^ (k + 1) * d.
Proof.
  induction fuel as [|f IH]; intros n d p e Hd Hp Hle Hlt.
  - exfalso. change (2 ^ Z.of_nat 0) with 1 in Hlt. lia.
  - cbn [ilog_up]. destruct (10 * p * d <=? n) eqn:E.
    + apply Z.leb_le in E.
      destruct (IH n d (10 * p) (e + 1)) as [k [Hk [Ek Hb]]]; try lia.
      { rewrite Nat2Z.inj_succ, Z.pow_succ_r in Hlt by lia.
        assert (0 < 2 ^ Z.of_nat f) by (apply Z.pow_pos_nonneg; lia). nia. }
      exists (k + 1). split; [lia|]. split; [lia|].
      rewrite !Z.pow_add_r by lia. change (10 ^ 1) with 10.
      rewrite Z.pow_add_r in Hb by lia. change (10 ^ 1) with 10 in Hb. nia.
    + apply Z.leb_gt in E. exists 0. split; [lia|]. split; [lia|].
      change (10 ^ 0) with 1. change (10 ^ (0 + 1)) with 10. lia.
Qed.

Lemma ilog_down_spec fuel : forall n d p k,
  0 < n -> 0 < p -> n * p < 10 * d -> d <= 2 ^ Z.of_nat fuel * (n * p) ->
  exists j, 0 <= j /\ ilog_down fuel n d p k = k + j /\
            n * (p * 10 ^ j) < 10 * d /\ d <= n * (p * 10 ^ j).
Proof.
  induction fuel as [|f IH]; intros n d p k Hn Hp Hlo Hhi.
  - cbn [ilog_down]. change (2 ^ Z.of_nat 0) with 1 in Hhi. exists 0.
    change (10 ^ 0) with 1. repeat split; lia.
  - cbn [ilog_down]. destruct (d <=? n * p) eqn:E.
    + apply Z.leb_le in E. exists 0. change (10 ^ 0) with 1. repeat split; lia.
    + apply Z.leb_gt in E.
      destruct (IH n d (10 * p) (k + 1)) as [j [Hj [Ej Hb]]]; try lia.
      { rewrite Nat2Z.inj_succ, Z.pow_succ_r in Hhi by lia.
        assert (0 < 2 ^ Z.of_nat f) by (apply Z.pow_pos_nonneg; lia). nia. }
      exists (j + 1). split; [lia|]. split; [lia|].
      rewrite Z.pow_add_r by lia. change (10 ^ 1) with 10.
      destruct Hb as [B1 B2]. split; nia.
Qed.

Local Open Scope Q_scope.

(* 10^e <= |x| < 10^(e+1) for e = floor_log10 x *)
Theorem floor_log10_spec x :
  ~ x == 0 ->
  let e := floor_log10 x in
  Qpower 10 e <= Qabs x /\ Qabs x < Qpower 10 (e + 1).
Proof.
  intros Hx. destruct x as [n d]. unfold floor_log10. cbn [Qnum Qden].
  assert (Hn : (0 < Z.abs n)%Z).
  { destruct (Z.eq_dec n 0) as [->|]; [exfalso; apply Hx; reflexivity|lia]. }
  assert (Habs : Qabs (n # d) = (Z.abs n # d)) by reflexivity.
  rewrite Habs. set (m := Z.abs n) in *. clearbody m. clear Habs Hx n.
  assert (P10 : forall k, (0 <= k)%Z -> Qpower 10 k == inject_Z (10 ^ k)).
  { intros k Hk. rewrite Zpower_Qpower by assumption. reflexivity. }
  destruct (Z.pos d <=? m)%Z eqn:E.
  - apply Z.leb_le in E.
    destruct (ilog_up_spec (zsize m) m (Z.pos d) 1 0) as [k [Hk [Ek [B1 B2]]]]; try lia.
    { destruct m as [|p|p]; try lia. cbn [zsize].
      pose proof (pos_lt_pow2_size p).
      assert (0 < 2 ^ Z.of_nat (Pos.size_nat p))%Z by (apply Z.pow_pos_nonneg; lia). nia. }
    rewrite Ek. cbn [Z.add]. rewrite (P10 k Hk), (P10 (k + 1)%Z) by lia.
    unfold Qle, Qlt, inject_Z. cbn [Qnum Qden]. split; lia.
  - apply Z.leb_gt in E.
    destruct (ilog_down_spec (zsize (Z.pos d)) m (Z.pos d) 10 1) as [j [Hj [Ej [B1 B2]]]]; try lia.
    { cbn [zsize]. pose proof (pos_lt_pow2_size d).
      assert (0 < 2 ^ Z.of_nat (Pos.size_nat d))%Z by (apply Z.pow_pos_nonneg; lia). nia. }
    rewrite Ej.
    (* e = -(1 + j): 10^-(1+j) <= m/d < 10^-j *)
    assert (E1 : Qpower 10 (- (1 + j)) == / inject_Z (10 * 10 ^ j)).
    { rewrite Qpower_opp, (P10 (1 + j)%Z) by lia.
      rewrite Z.pow_add_r by lia. reflexivity. }
    assert (E2 : Qpower 10 (- (1 + j) + 1) == / inject_Z (10 ^ j)).
    { replace (- (1 + j) + 1)%Z with (- j)%Z by lia. rewrite Qpower_opp, (P10 j) by lia.
      reflexivity. }
    rewrite E1, E2.
    assert (Pj : (0 < 10 ^ j)%Z) by (apply Z.pow_pos_nonneg; lia).
    split.
    + apply Qle_shift_inv_r.
      * replace 0 with (inject_Z 0) by reflexivity. rewrite <- Zlt_Qlt. lia.
      * unfold Qle, Qmult, inject_Z. cbn [Qnum Qden]. lia.
    + apply Qlt_shift_inv_l.
      * replace 0 with (inject_Z 0) by reflexivity. rewrite <- Zlt_Qlt. lia.
      * unfold Qlt, Qmult, inject_Z. cbn [Qnum Qden]. nia.
Qed.

(* round half to even: nearest integer, ties to the even one *)
Theorem round_half_even_spec n d :
  let r := round_half_even (n # d) in
  (Z.abs (2 * (r * Z.pos d - n)) <= Z.pos d)%Z /\
  ((Z.abs (2 * (r * Z.pos d - n)) = Z.pos d)%Z -> Z.even r = true).
Proof.
  unfold round_half_even. cbn [Qnum Qden].
  pose proof (Z.div_mod n (Z.pos d) ltac:(lia)) as DM.
  pose proof (Z.mod_pos_bound n (Z.pos d) ltac:(lia)) as MB.
  set (f := (n / Z.pos d)%Z) in *. set (m := (n mod Z.pos d)%Z) in *.
  destruct (2 * m ?= Z.pos d)%Z eqn:C.
  - apply Z.compare_eq in C. destruct (Z.even f) eqn:Ev.
    + split; [lia|]. intros _. exact Ev.
    + split; [lia|]. intros _. rewrite Z.even_add, Ev. reflexivity.
  - rewrite Z.compare_lt_iff in C. split; lia.
  - rewrite Z.compare_gt_iff in C. split; lia.
Qed.

Local Open Scope Q_scope.

(* ------------------------------------------------------------------------- *)
(* obligations on the tables translated from the source                       *)
(* ------------------------------------------------------------------------- *)

From Coq Require Import String.
Local Open Scope string_scope.

Definition pfield_name (f : pfield) : string :=
  match f with PEm => "em" | PThermal => "thermal" | PKinetic => "kinetic"
          | PExplosive => "explosive" end.

Lemma gen_order_ok : gen_res_attr_ids = map rattr_id res_order.
Proof. vm_compute. reflexivity. Qed.

(* the dict literal may be written in any order *)
Lemma gen_profile_map_ok :
  forallb (fun p => existsb (fun q => Z.eqb (fst q) (rattr_id (fst p)) &&
                                      String.eqb (snd q) (pfield_name (snd p)))
                            gen_attr_profile_map) attr_profile_map = true /\
  List.length gen_attr_profile_map = 4%nat.
Proof. split; vm_compute; reflexivity. Qed.

(* every kind of input change reaches a handler that clears the results *)
Definition required_clearing_kinds : list string :=
  ["EffectsStarted"; "EffectsStopped"; "AttrsValueChanged"; "AttrsValueChangedMasked";
   "RahIncomingDmgChanged"; "ItemLoaded"; "ItemUnloaded"].

Lemma gen_handlers_ok :
  forallb (fun k => existsb (fun h => String.eqb (fst (fst h)) k && snd h) gen_handlers)
          required_clearing_kinds = true.
Proof. vm_compute. reflexivity. Qed.

(* what calc_ship assumes of the hardener effect's modifiers *)
Definition expected_rah_modifier : list string :=
  ["ModOperator.pre_mul"; "ModDomain.ship"; "ModAffecteeFilter.item"; "ModAggregateMode.stack"].

Lemma gen_modifier_ok :
  gen_rah_modifier = expected_rah_modifier /\
  forallb (fun a => existsb (Z.eqb (rattr_id a)) gen_rah_modifier_attrs) res_order = true /\
  List.length gen_rah_modifier_attrs = 4%nat.
Proof. repeat split; vm_compute; reflexivity. Qed.

Lemma gen_constants_ok : (1 <= gen_MAX_SIMULATION_TICKS)%nat /\ (1 <= gen_SIG_DIGITS)%Z.
Proof. split; vm_compute; [lia|discriminate]. Qed.
