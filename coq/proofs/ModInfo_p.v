(* C19 — proofs about model/ModInfo.v against model/ModInfoSpec.v.
   Part 1: obligations on the tables generated from the source (closed by
           computation; they fail to compile when a map in the source changes
           its meaning).
   Part 2: Python dict / int() lemmas.
   Part 3: one entry: convert_one + valid  <->  wellformed.
   Part 4: whole lists: convert is total, build refines the specification. *)
From Coq Require Import ZArith QArith Bool String List Lia.
From EosV Require Import model.ModInfoTypes gen.T_modinfo model.ModInfo model.ModInfoSpec.
Import ListNotations.
Local Open Scope Z_scope.

(* ======================================================================= *)
(* Part 1: table obligations                                                 *)
(* ======================================================================= *)

Lemma tbl_handlers : handler_map = spec_handlers.
Proof. vm_compute; reflexivity. Qed.

Lemma tbl_domains : domain_map = spec_domains.
Proof. vm_compute; reflexivity. Qed.

Lemma tbl_operators : operator_map = spec_operators.
Proof. vm_compute; reflexivity. Qed.

(* validator domain lists per filter *)
Lemma tbl_validators :
  map (fun p => (fst p, snd (snd p))) validators = spec_supported.
Proof. vm_compute; reflexivity. Qed.

Lemma tbl_keys :
  func_key = "func"%string /\ domain_key = "domain"%string /\
  operation_key = "operation"%string.
Proof. vm_compute; repeat split; reflexivity. Qed.

(* ids are read by the strict helper (no silent truncation of 1.9 to 1) *)
Lemma tbl_int_strict : int_strict = true.
Proof. vm_compute; reflexivity. Qed.

(* what the three `try` blocks of convert() swallow *)
Lemma tbl_catch_func :
  caught catch_func KeyError = true /\ caught catch_func TypeError = true.
Proof. vm_compute; split; reflexivity. Qed.

Lemma tbl_catch_lookup :
  caught catch_lookup KeyError = true /\ caught catch_lookup TypeError = true.
Proof. vm_compute; split; reflexivity. Qed.

Lemma tbl_catch_handler : forall x, caught catch_handler x = true.
Proof. intros x; destruct x; vm_compute; reflexivity. Qed.

(* exits of ModBuilder.build *)
Lemma tbl_status :
  status_no_info = spec_success /\ status_all_ok = spec_success /\
  status_some_valid = spec_success_partial /\ status_none_valid = spec_error.
Proof. vm_compute; repeat split; reflexivity. Qed.

Lemma tbl_returns : returns_mods_all_ok = true /\ returns_mods_some_valid = true.
Proof. vm_compute; split; reflexivity. Qed.

Lemma tbl_conds : forall f vf n,
  cond_all_ok f vf n = (Nat.eqb f 0 && Nat.eqb vf 0)%bool /\
  cond_some_valid f vf n = negb (Nat.eqb n 0).
Proof.
  intros f vf n. unfold cond_all_ok, cond_some_valid, truthy.
  destruct f, vf, n; split; reflexivity.
Qed.

(* enum values the specification talks about *)
Lemma tbl_enums :
  ModAffecteeFilter_members =
    [("item", 1); ("domain", 2); ("domain_group", 3); ("domain_skillrq", 4);
     ("owner_skillrq", 5)]%string /\
  ModDomain_members =
    [("self", 1); ("character", 2); ("ship", 3); ("target", 4); ("other", 5)]%string /\
  ModOperator_members =
    [("pre_assign", 1); ("pre_mul", 2); ("pre_div", 3); ("mod_add", 4);
     ("mod_sub", 5); ("post_mul", 6); ("post_mul_immune", 7); ("post_div", 8);
     ("post_percent", 9); ("post_assign", 10)]%string /\
  ModAggregateMode_stack = 1 /\
  EffectBuildStatus_error = spec_error /\
  EffectBuildStatus_success_partial = spec_success_partial /\
  EffectBuildStatus_success = spec_success.
Proof. vm_compute; repeat split; reflexivity. Qed.

(* every handler's filter has a validator whose extra-argument requirement
   matches what the handler passes; filters and aggregate mode are members *)
Definition handler_consistent (t : Z * option string * string * string * Z) : bool :=
  let '(filt, ek, _, _, ag) := t in
  match assocZ filt validators with
  | Some (integral, _) => Bool.eqb integral (is_some ek)
  | None => false
  end
  && memZ filt (enum_values ModAffecteeFilter_members)
  && Z.eqb ag ModAggregateMode_stack
  && memZ ag (enum_values ModAggregateMode_members).

Lemma tbl_consistent : forallb (fun p => handler_consistent (snd p)) handler_map = true.
Proof. vm_compute; reflexivity. Qed.

Lemma tbl_domain_range :
  forallb (fun p => memZ (snd p) (enum_values ModDomain_members)) domain_map = true.
Proof. vm_compute; reflexivity. Qed.

Lemma tbl_operator_range :
  forallb (fun p => memZ (snd p) (enum_values ModOperator_members)) operator_map = true.
Proof. vm_compute; reflexivity. Qed.

(* no dict literal has two keys that could match the same value *)
Definition pykey_eqb (a b : pykey) : bool :=
  match a, b with
  | KNone, KNone => true
  | KStr x, KStr y => String.eqb x y
  | KInt x, KInt y => Z.eqb x y
  | _, _ => false
  end.

Fixpoint nodupb (l : list pykey) : bool :=
  match l with
  | [] => true
  | a :: r => negb (existsb (pykey_eqb a) r) && nodupb r
  end.

Lemma tbl_nodup_handlers : nodupb (map fst handler_dict) = true.
Proof. vm_compute; reflexivity. Qed.

Lemma tbl_nodup_domains : nodupb (map fst domain_dict) = true.
Proof. vm_compute; reflexivity. Qed.

Lemma tbl_nodup_operators : nodupb (map fst operator_dict) = true.
Proof. vm_compute; reflexivity. Qed.

Lemma tbl_nodup_validators : nodupb (map (fun p => KInt (fst p)) validators) = true.
Proof. vm_compute; reflexivity. Qed.

(* ======================================================================= *)
(* Part 2: dict and int() lemmas                                             *)
(* ======================================================================= *)

Lemma pykey_eqb_eq : forall a b, pykey_eqb a b = true <-> a = b.
Proof.
  intros a b; destruct a, b; simpl; split; intros H; try discriminate;
    try reflexivity.
  - apply String.eqb_eq in H; subst; reflexivity.
  - inversion H; apply String.eqb_refl.
  - apply Z.eqb_eq in H; subst; reflexivity.
  - inversion H; apply Z.eqb_refl.
Qed.

Lemma nodupb_sound : forall l, nodupb l = true -> NoDup l.
Proof.
  induction l as [|a r IH]; simpl; intros H; [constructor|].
  apply andb_true_iff in H; destruct H as [H1 H2].
  constructor; [|auto].
  intros Hin. apply negb_true_iff in H1.
  assert (E : existsb (pykey_eqb a) r = true).
  { apply existsb_exists. exists a; split; [assumption|]. apply pykey_eqb_eq; reflexivity. }
  congruence.
Qed.

Lemma bind_ok : forall {A B} (r : res A) (f : A -> res B) b,
  bind r f = Ok b <-> exists a, r = Ok a /\ f a = Ok b.
Proof.
  intros A B r f b; destruct r as [a|x]; simpl; split.
  - intros H; exists a; auto.
  - intros [a' [E H]]; inversion E; subst; assumption.
  - discriminate.
  - intros [a' [E _]]; discriminate.
Qed.

Lemma getitem_ok : forall e k v, getitem e k = Ok v <-> field e k = Some v.
Proof.
  intros e k v; destruct e as [kvs|]; simpl.
  - destruct (assoc k kvs); split; intros H; inversion H; reflexivity.
  - split; discriminate.
Qed.

Lemma getitem_raise : forall e k x,
  getitem e k = Raise x -> x = KeyError \/ x = TypeError.
Proof.
  intros e k x; destruct e as [kvs|]; simpl.
  - destruct (assoc k kvs); intros H; inversion H; auto.
  - intros H; inversion H; auto.
Qed.

(* two keys matching the same value are the same key *)
Lemma key_matches_fun : forall k k' v,
  key_matches k v = true -> key_matches k' v = true -> k = k'.
Proof.
  intros k k' v H1 H2.
  destruct k, k', v; simpl in *; try discriminate; try reflexivity.
  - apply String.eqb_eq in H1, H2; congruence.
  - apply Z.eqb_eq in H1, H2; congruence.
  - apply Z.eqb_eq in H1, H2; congruence.
  - apply Qeq_bool_iff in H1, H2.
    assert (E : (inject_Z z == inject_Z z0)%Q) by (rewrite <- H1; assumption).
    unfold Qeq in E; simpl in E. rewrite !Z.mul_1_r in E. congruence.
Qed.

Lemma dict_find_sound : forall {A} (m : list (pykey * A)) v a,
  dict_find m v = Some a -> exists k, In (k, a) m /\ key_matches k v = true.
Proof.
  induction m as [|[k0 a0] r IH]; simpl; intros v a H; [discriminate|].
  destruct (key_matches k0 v) eqn:E.
  - inversion H; subst. exists k0; auto.
  - destruct (IH _ _ H) as [k [Hin Hm]]. exists k; auto.
Qed.

Lemma dict_find_complete : forall {A} (m : list (pykey * A)) v k a,
  NoDup (map fst m) -> In (k, a) m -> key_matches k v = true ->
  dict_find m v = Some a.
Proof.
  induction m as [|[k0 a0] r IH]; simpl; intros v k a ND Hin Hm; [contradiction|].
  inversion ND as [|? ? Hnot ND']; subst.
  destruct Hin as [E|Hin].
  - inversion E; subst. rewrite Hm. reflexivity.
  - destruct (key_matches k0 v) eqn:E0.
    + exfalso. assert (k0 = k) by (eapply key_matches_fun; eassumption). subst.
      apply Hnot. change k with (fst (k, a)). apply in_map; assumption.
    + eapply IH; eassumption.
Qed.

Lemma dict_find_unhashable : forall {A} (m : list (pykey * A)),
  dict_find m VUnhashable = None.
Proof.
  induction m as [|[k a] r IH]; simpl; [reflexivity|].
  destruct k; simpl; assumption.
Qed.

Lemma dict_get_ok : forall {A} (m : list (pykey * A)) v a,
  dict_get m v = Ok a <-> dict_find m v = Some a.
Proof.
  intros A m v a; split.
  - destruct v; simpl; try discriminate;
      (destruct (dict_find m _); intros H; inversion H; reflexivity).
  - intros H. destruct v; simpl; try (rewrite H; reflexivity).
    rewrite dict_find_unhashable in H; discriminate.
Qed.

Lemma dict_get_raise : forall {A} (m : list (pykey * A)) v x,
  dict_get m v = Raise x -> x = KeyError \/ x = TypeError.
Proof.
  intros A m v x; destruct v; simpl;
    try (destruct (dict_find m _); intros H; inversion H; auto).
  intros H; inversion H; auto.
Qed.

Lemma assocZ_sound : forall {A} (l : list (Z * A)) k a,
  assocZ k l = Some a -> In (k, a) l.
Proof.
  induction l as [|[k0 a0] r IH]; simpl; intros k a H; [discriminate|].
  destruct (Z.eqb_spec k k0).
  - inversion H; subst; auto.
  - right; auto.
Qed.

Lemma assocZ_complete : forall {A} (l : list (Z * A)) k a,
  NoDup (map (fun p => KInt (fst p)) l) -> In (k, a) l -> assocZ k l = Some a.
Proof.
  induction l as [|[k0 a0] r IH]; simpl; intros k a ND Hin; [contradiction|].
  inversion ND as [|? ? Hnot ND']; subst.
  destruct Hin as [E|Hin].
  - inversion E; subst. rewrite Z.eqb_refl; reflexivity.
  - destruct (Z.eqb_spec k k0).
    + subst. exfalso. apply Hnot.
      change (KInt k0) with ((fun p : Z * A => KInt (fst p)) (k0, a)).
      apply in_map; assumption.
    + auto.
Qed.

Lemma memZ_In : forall z l, memZ z l = true <-> In z l.
Proof.
  intros z l; unfold memZ; rewrite existsb_exists; split.
  - intros [y [Hin E]]. apply Z.eqb_eq in E; subst; assumption.
  - intros Hin; exists z; split; [assumption|apply Z.eqb_refl].
Qed.

(* float q with q == z truncates to z *)
Lemma quot_of_integral : forall q z,
  (q == inject_Z z)%Q -> Z.quot (Qnum q) (Zpos (Qden q)) = z.
Proof.
  intros q z H. unfold Qeq in H; simpl in H. rewrite Z.mul_1_r in H.
  rewrite H. apply Z.quot_mul. discriminate.
Qed.

Lemma get_int_iff : forall e k z, get_int e k = Ok z <-> id_at e k z.
Proof.
  intros e k z; unfold get_int, id_at. rewrite bind_ok. rewrite tbl_int_strict.
  split.
  - intros [v [Hg H]]. apply getitem_ok in Hg. exists v; split; [assumption|].
    apply bind_ok in H. destruct H as [r [Hr H]].
    destruct v; simpl in *; try discriminate.
    + inversion Hr; subst. rewrite Z.eqb_refl in H; simpl in H. inversion H; constructor.
    + inversion Hr; subst. rewrite Z.eqb_refl in H; simpl in H. inversion H; constructor.
    + inversion Hr; subst.
      destruct (Qeq_bool q (inject_Z (Qnum q ÷ Z.pos (Qden q)))) eqn:E; simpl in H;
        [|discriminate].
      inversion H; subst. constructor. apply Qeq_bool_iff; assumption.
    + destruct (int_of_str s) eqn:E; [|discriminate].
      inversion Hr; subst. inversion H; subst. constructor; assumption.
  - intros [v [Hf Hd]]. exists v; split; [apply getitem_ok; assumption|].
    inversion Hd; subst; simpl.
    + rewrite Z.eqb_refl; reflexivity.
    + rewrite Z.eqb_refl; reflexivity.
    + rewrite (quot_of_integral _ _ H).
      assert (E : Qeq_bool q (inject_Z z) = true) by (apply Qeq_bool_iff; assumption).
      rewrite E; reflexivity.
    + rewrite H; reflexivity.
Qed.

Lemma key_int_iff : forall c v, key_matches (KInt c) v = true <-> denotes_code v c.
Proof.
  intros c v; split.
  - destruct v; simpl; try discriminate; intros H.
    + apply Z.eqb_eq in H; subst; constructor.
    + apply Z.eqb_eq in H; subst; constructor.
    + apply Qeq_bool_iff in H; constructor; assumption.
  - intros H; inversion H; subst; simpl.
    + apply Z.eqb_refl.
    + apply Z.eqb_refl.
    + apply Qeq_bool_iff; assumption.
Qed.

Definition domkey (dk : option string) : pykey :=
  match dk with None => KNone | Some s => KStr s end.

Lemma key_dom_iff : forall dk v, key_matches (domkey dk) v = true <-> denotes_domain v dk.
Proof.
  intros dk v; split.
  - destruct dk as [s|], v; simpl; try discriminate; intros H.
    + apply String.eqb_eq in H; subst; constructor.
    + constructor.
  - intros H; inversion H; subst; simpl; [reflexivity|apply String.eqb_refl].
Qed.

(* ======================================================================= *)
(* Part 3: one entry                                                         *)
(* ======================================================================= *)

Lemma get_domain_iff : forall e d,
  get_domain e = Ok d <->
  exists v dk, field e "domain" = Some v /\ denotes_domain v dk /\ In (dk, d) spec_domains.
Proof.
  intros e d. unfold get_domain. destruct tbl_keys as [_ [Kd _]]. rewrite Kd.
  rewrite bind_ok. rewrite <- tbl_domains. split.
  - intros [v [Hg H]]. apply getitem_ok in Hg. apply dict_get_ok in H.
    apply dict_find_sound in H. destruct H as [k [Hin Hm]].
    unfold domain_dict in Hin. apply in_map_iff in Hin.
    destruct Hin as [[dk d0] [E Hin]]. simpl in E. inversion E; subst.
    exists v, dk. repeat split; try assumption. apply key_dom_iff; assumption.
  - intros [v [dk [Hf [Hd Hin]]]]. exists v; split; [apply getitem_ok; assumption|].
    apply dict_get_ok. eapply dict_find_complete.
    + apply nodupb_sound, tbl_nodup_domains.
    + unfold domain_dict. apply in_map_iff. exists (dk, d); split; [reflexivity|assumption].
    + apply key_dom_iff; assumption.
Qed.

Lemma get_operator_iff : forall e o,
  get_operator e = Ok o <->
  exists v c, field e "operation" = Some v /\ denotes_code v c /\ In (c, o) spec_operators.
Proof.
  intros e o. unfold get_operator. destruct tbl_keys as [_ [_ Ko]]. rewrite Ko.
  rewrite bind_ok. rewrite <- tbl_operators. split.
  - intros [v [Hg H]]. apply getitem_ok in Hg. apply dict_get_ok in H.
    apply dict_find_sound in H. destruct H as [k [Hin Hm]].
    unfold operator_dict in Hin. apply in_map_iff in Hin.
    destruct Hin as [[c o0] [E Hin]]. simpl in E. inversion E; subst.
    exists v, c. repeat split; try assumption. apply key_int_iff; assumption.
  - intros [v [c [Hf [Hd Hin]]]]. exists v; split; [apply getitem_ok; assumption|].
    apply dict_get_ok. eapply dict_find_complete.
    + apply nodupb_sound, tbl_nodup_operators.
    + unfold operator_dict. apply in_map_iff. exists (c, o); split; [reflexivity|assumption].
    + apply key_int_iff; assumption.
Qed.

Lemma handler_iff : forall fv h,
  dict_get handler_dict fv = Ok h <->
  exists f t, fv = VStr f /\ In (f, t) spec_handlers /\ h = mk_hdesc t.
Proof.
  intros fv h. rewrite dict_get_ok. rewrite <- tbl_handlers. split.
  - intros H. apply dict_find_sound in H. destruct H as [k [Hin Hm]].
    unfold handler_dict in Hin. apply in_map_iff in Hin.
    destruct Hin as [[f t] [E Hin]]. simpl in E. inversion E; subst.
    destruct fv; simpl in Hm; try discriminate. apply String.eqb_eq in Hm; subst.
    exists s, t; auto.
  - intros [f [t [Ef [Hin Eh]]]]. subst. eapply dict_find_complete.
    + apply nodupb_sound, tbl_nodup_handlers.
    + unfold handler_dict. apply in_map_iff. exists (f, t); split; [reflexivity|assumption].
    + simpl. apply String.eqb_refl.
Qed.

Definition extra_rel (e : entry) (ek : option string) (x : option Z) : Prop :=
  match ek with
  | None => x = None
  | Some k => exists z, id_at e k z /\ x = Some z
  end.

Lemma run_handler_iff : forall h e m,
  run_handler h e = Ok m <->
  exists d x a o s,
    get_domain e = Ok d /\ extra_rel e (h_extra h) x /\
    id_at e (h_attr h) a /\ get_operator e = Ok o /\ id_at e (h_affector h) s /\
    m = mkMod (h_filter h) x d a o (h_aggr h) None s.
Proof.
  intros h e m. unfold run_handler, extra_rel. split.
  - intros H.
    apply bind_ok in H; destruct H as [d [Hd H]].
    apply bind_ok in H; destruct H as [x [Hx H]].
    apply bind_ok in H; destruct H as [a [Ha H]].
    apply bind_ok in H; destruct H as [o [Ho H]].
    apply bind_ok in H; destruct H as [s [Hs H]].
    inversion H; subst. exists d, x, a, o, s.
    repeat split; try assumption; try (apply get_int_iff; assumption).
    destruct (h_extra h) as [k|].
    + apply bind_ok in Hx; destruct Hx as [z [Hz E]]. inversion E; subst.
      exists z; split; [apply get_int_iff; assumption|reflexivity].
    + inversion Hx; reflexivity.
  - intros [d [x [a [o [s [Hd [Hx [Ha [Ho [Hs E]]]]]]]]]]. subst.
    rewrite Hd; simpl.
    assert (Ex : match h_extra h with
                 | Some k => bind (get_int e k) (fun z => Ok (Some z))
                 | None => Ok None end = Ok x).
    { destruct (h_extra h) as [k|].
      - destruct Hx as [z [Hz E]]; subst. apply get_int_iff in Hz. rewrite Hz; reflexivity.
      - subst; reflexivity. }
    rewrite Ex; simpl.
    apply get_int_iff in Ha; rewrite Ha; simpl.
    rewrite Ho; simpl.
    apply get_int_iff in Hs; rewrite Hs; simpl. reflexivity.
Qed.

(* validity of a modifier built by a consistent handler = its domain is in
   the validator's list *)
Lemma valid_char : forall filt x d a o ag s integral doms,
  assocZ filt validators = Some (integral, doms) ->
  memZ filt (enum_values ModAffecteeFilter_members) = true ->
  memZ d (enum_values ModDomain_members) = true ->
  memZ o (enum_values ModOperator_members) = true ->
  Z.eqb ag ModAggregateMode_stack = true ->
  memZ ag (enum_values ModAggregateMode_members) = true ->
  integral = is_some x ->
  valid (mkMod filt x d a o ag None s) = memZ d doms.
Proof.
  intros filt x d a o ag s integral doms Hv Hf Hd Ho Hag Hagm Hx.
  unfold valid, validate_base, validate_common;
    cbn [m_filter m_extra m_domain m_attr m_operator m_aggr_mode m_aggr_key m_affector].
  rewrite Hv, Hf, Hd, Ho, Hag, Hagm. subst integral.
  destruct (is_some x); simpl; rewrite ?andb_true_r; reflexivity.
Qed.

Lemma handler_facts : forall f filt ek ak sk ag,
  In (f, (filt, ek, ak, sk, ag)) spec_handlers ->
  exists integral doms,
    assocZ filt validators = Some (integral, doms) /\
    integral = is_some ek /\
    memZ filt (enum_values ModAffecteeFilter_members) = true /\
    Z.eqb ag ModAggregateMode_stack = true /\
    memZ ag (enum_values ModAggregateMode_members) = true.
Proof.
  intros f filt ek ak sk ag Hin. rewrite <- tbl_handlers in Hin.
  pose proof tbl_consistent as C. rewrite forallb_forall in C.
  specialize (C _ Hin). cbn [snd] in C. unfold handler_consistent in C.
  destruct (assocZ filt validators) as [[integral doms]|] eqn:E;
    [|rewrite !andb_false_l in C; discriminate].
  apply andb_true_iff in C; destruct C as [C C4].
  apply andb_true_iff in C; destruct C as [C C3].
  apply andb_true_iff in C; destruct C as [C1 C2].
  exists integral, doms. repeat split; try assumption.
  apply Bool.eqb_prop; assumption.
Qed.

Lemma domain_in_range : forall dk d,
  In (dk, d) spec_domains -> memZ d (enum_values ModDomain_members) = true.
Proof.
  intros dk d Hin. rewrite <- tbl_domains in Hin.
  pose proof tbl_domain_range as C. rewrite forallb_forall in C.
  exact (C _ Hin).
Qed.

Lemma operator_in_range : forall c o,
  In (c, o) spec_operators -> memZ o (enum_values ModOperator_members) = true.
Proof.
  intros c o Hin. rewrite <- tbl_operators in Hin.
  pose proof tbl_operator_range as C. rewrite forallb_forall in C.
  exact (C _ Hin).
Qed.

Lemma extra_some : forall e ek x, extra_rel e ek x -> is_some ek = is_some x.
Proof.
  intros e ek x H; destruct ek; simpl in *.
  - destruct H as [z [_ E]]; subst; reflexivity.
  - subst; reflexivity.
Qed.

Lemma supported_of_validators : forall filt integral doms,
  In (filt, (integral, doms)) validators -> In (filt, doms) spec_supported.
Proof.
  intros filt integral doms H. rewrite <- tbl_validators.
  apply in_map_iff. exists (filt, (integral, doms)); auto.
Qed.

Lemma validators_of_supported : forall filt doms,
  In (filt, doms) spec_supported -> exists integral, In (filt, (integral, doms)) validators.
Proof.
  intros filt doms H. rewrite <- tbl_validators in H. apply in_map_iff in H.
  destruct H as [[f [i d]] [E Hin]]. simpl in E. inversion E; subst.
  exists i; assumption.
Qed.

(* THE per-entry statement: the converter appends m for e and m passes
   validation  <->  e is well-formed and m is its modifier *)
Theorem entry_iff : forall e m,
  (convert_one e = SMod m /\ valid m = true) <-> wellformed e m.
Proof.
  intros e m. destruct tbl_keys as [Kf _]. split.
  - intros [Hc Hv]. unfold convert_one in Hc. rewrite Kf in Hc.
    destruct (getitem e "func") as [fv|x] eqn:Hg;
      [|destruct (caught catch_func x); discriminate].
    destruct (dict_get handler_dict fv) as [h|x] eqn:Hh;
      [|destruct (caught catch_lookup x); discriminate].
    destruct (run_handler h e) as [m0|x] eqn:Hr;
      [|destruct (caught catch_handler x); discriminate].
    inversion Hc; subst m0. clear Hc.
    apply getitem_ok in Hg. apply handler_iff in Hh.
    destruct Hh as [f [t [Ef [Hin Eh]]]]. subst fv.
    destruct t as [[[[filt ek] ak] sk] ag]. subst h. simpl in Hr.
    apply run_handler_iff in Hr. simpl in Hr.
    destruct Hr as [d [x [a [o [s [Hd [Hx [Ha [Ho [Hs E]]]]]]]]]]. subst m.
    apply get_domain_iff in Hd. apply get_operator_iff in Ho.
    destruct (handler_facts _ _ _ _ _ _ Hin) as [integral [doms [Hav [Hi [Hfm [Hag Hagm]]]]]].
    destruct Hd as [dv [dk [Hdf [Hdd Hdin]]]].
    destruct Ho as [ov [c [Hof [Hod Hoin]]]].
    rewrite (valid_char _ _ _ _ _ _ _ _ _ Hav Hfm (domain_in_range _ _ Hdin)
               (operator_in_range _ _ Hoin) Hag Hagm) in Hv
      by (rewrite Hi; eapply extra_some; eassumption).
    constructor; simpl.
    + exists f, ek, ak, sk. repeat split; assumption.
    + exists dv, dk; auto.
    + exists ov, c; auto.
    + reflexivity.
    + exists doms; split; [|apply memZ_In; assumption].
      eapply supported_of_validators. apply assocZ_sound. eassumption.
  - intros [Hf Hd Ho Hk Hs]. destruct m as [filt x d a o ag key s]. simpl in *.
    subst key.
    destruct Hf as [f [ek [ak [sk [Hff [Hin [Hx [Ha Hsr]]]]]]]].
    assert (Hr : run_handler (mk_hdesc (filt, ek, ak, sk, ag)) e =
                 Ok (mkMod filt x d a o ag None s)).
    { apply run_handler_iff. simpl. exists d, x, a, o, s.
      repeat split; try assumption.
      - apply get_domain_iff; assumption.
      - apply get_operator_iff; assumption. }
    split.
    + unfold convert_one. rewrite Kf.
      apply getitem_ok in Hff. rewrite Hff.
      assert (Hh : dict_get handler_dict (VStr f) = Ok (mk_hdesc (filt, ek, ak, sk, ag))).
      { apply handler_iff. exists f, (filt, ek, ak, sk, ag); auto. }
      rewrite Hh, Hr. reflexivity.
    + destruct (handler_facts _ _ _ _ _ _ Hin) as [integral [doms [Hav [Hi [Hfm [Hag Hagm]]]]]].
      destruct Hd as [dv [dk [Hdf [Hdd Hdin]]]].
      destruct Ho as [ov [c [Hof [Hod Hoin]]]].
      rewrite (valid_char _ _ _ _ _ _ _ _ _ Hav Hfm (domain_in_range _ _ Hdin)
                 (operator_in_range _ _ Hoin) Hag Hagm)
        by (rewrite Hi; eapply extra_some; exact Hx).
      destruct Hs as [doms' [Hs1 Hs2]].
      destruct (validators_of_supported _ _ Hs1) as [i' Hin'].
      assert (E : assocZ filt validators = Some (i', doms')).
      { apply assocZ_complete; [apply nodupb_sound, tbl_nodup_validators|assumption]. }
      rewrite Hav in E. inversion E; subst. apply memZ_In; assumption.
Qed.

Corollary wellformed_functional : forall e m m',
  wellformed e m -> wellformed e m' -> m = m'.
Proof.
  intros e m m' H H'. apply entry_iff in H, H'.
  destruct H as [H _], H' as [H' _]. congruence.
Qed.

(* no exception leaves convert() from one entry *)
Lemma no_escape : forall e x, convert_one e <> SEscape x.
Proof.
  intros e x. unfold convert_one.
  destruct tbl_catch_func as [F1 F2]. destruct tbl_catch_lookup as [L1 L2].
  destruct (getitem e func_key) as [fv|y] eqn:Hg.
  - destruct (dict_get handler_dict fv) as [h|y] eqn:Hh.
    + destruct (run_handler h e) as [m|y]; [discriminate|].
      rewrite tbl_catch_handler. discriminate.
    + apply dict_get_raise in Hh. destruct Hh; subst y; rewrite ?L1, ?L2; discriminate.
  - apply getitem_raise in Hg. destruct Hg; subst y; rewrite ?F1, ?F2; discriminate.
Qed.

(* every entry is either well-formed (with its modifier) or malformed *)
Lemma entry_dec : forall e, (exists m, wellformed e m) \/ malformed e.
Proof.
  intros e. destruct (convert_one e) as [m| |x] eqn:Hc.
  - destruct (valid m) eqn:Hv.
    + left; exists m; apply entry_iff; auto.
    + right; intros m' H. apply entry_iff in H. destruct H as [H1 H2].
      rewrite Hc in H1; inversion H1; subst. congruence.
  - right; intros m' H. apply entry_iff in H. destruct H as [H1 _]. congruence.
  - exfalso; eapply no_escape; eassumption.
Qed.

(* ======================================================================= *)
(* Part 4: lists                                                             *)
(* ======================================================================= *)

Theorem convert_total : forall infos,
  exists mods fails, convert infos = Done (mods, fails) /\
                     (length mods + fails = length infos)%nat.
Proof.
  induction infos as [|e r IH]; simpl.
  - exists [], O; auto.
  - destruct IH as [mods [fails [Hc Hl]]]. rewrite Hc.
    destruct (convert_one e) as [m| |x] eqn:H1.
    + exists (m :: mods), fails; simpl; split; [reflexivity|lia].
    + exists mods, (S fails); split; [reflexivity|lia].
    + exfalso; eapply no_escape; eassumption.
Qed.

Lemma get_valid_mods_char : forall mods,
  get_valid_mods mods =
  (filter valid mods, length (filter (fun m => negb (valid m)) mods)).
Proof.
  induction mods as [|m r IH]; simpl; [reflexivity|].
  rewrite IH. destruct (valid m); reflexivity.
Qed.

Lemma convert_spec : forall infos mods fails vm vf,
  convert infos = Done (mods, fails) -> get_valid_mods mods = (vm, vf) ->
  spec_convert infos vm (fails + vf).
Proof.
  induction infos as [|e r IH]; simpl; intros mods fails vm vf Hc Hg.
  - inversion Hc; subst. simpl in Hg. inversion Hg; subst. constructor.
  - destruct (convert_total r) as [mods0 [fails0 [Hc0 _]]]. rewrite Hc0 in Hc.
    destruct (get_valid_mods mods0) as [vm0 vf0] eqn:Hg0.
    specialize (IH _ _ _ _ Hc0 Hg0).
    destruct (convert_one e) as [m| |x] eqn:H1.
    + inversion Hc; subst. simpl in Hg. rewrite Hg0 in Hg.
      destruct (valid m) eqn:Hv; inversion Hg; subst.
      * apply SC_good; [apply entry_iff; auto|assumption].
      * rewrite Nat.add_succ_r. apply SC_bad; [|assumption].
        intros m' H. apply entry_iff in H. destruct H as [H2 H3].
        rewrite H1 in H2. inversion H2; subst. congruence.
    + inversion Hc; subst. rewrite Hg0 in Hg. inversion Hg; subst.
      simpl. apply SC_bad; [|assumption].
      intros m' H. apply entry_iff in H. destruct H as [H2 _]. congruence.
    + exfalso; eapply no_escape; eassumption.
Qed.

Lemma spec_convert_length : forall infos ms bad,
  spec_convert infos ms bad -> (length ms + bad = length infos)%nat.
Proof. induction 1; simpl; lia. Qed.

Lemma spec_convert_deterministic : forall infos ms bad ms' bad',
  spec_convert infos ms bad -> spec_convert infos ms' bad' -> ms = ms' /\ bad = bad'.
Proof.
  intros infos ms bad ms' bad' H. revert ms' bad'.
  induction H as [|e m r ms bad Hw H IH|e r ms bad Hm H IH]; intros ms' bad' H'.
  - inversion H'; auto.
  - inversion H' as [|e' m' r' ms'' bad'' Hw' Hr'|e' r' ms'' bad'' Hm' Hr']; subst.
    + destruct (IH _ _ Hr') as [E1 E2]. subst.
      rewrite (wellformed_functional _ _ _ Hw Hw'). auto.
    + exfalso. eapply Hm'; eassumption.
  - inversion H' as [|e' m' r' ms'' bad'' Hw' Hr'|e' r' ms'' bad'' Hm' Hr']; subst.
    + exfalso. eapply Hm; eassumption.
    + destruct (IH _ _ Hr') as [E1 E2]. subst. auto.
Qed.

Lemma spec_convert_total : forall infos, exists ms bad, spec_convert infos ms bad.
Proof.
  induction infos as [|e r [ms [bad IH]]].
  - exists [], O; constructor.
  - destruct (entry_dec e) as [[m Hw]|Hm].
    + exists (m :: ms), bad; constructor; assumption.
    + exists ms, (S bad); constructor; assumption.
Qed.

Lemma spec_convert_sources : forall infos ms bad,
  spec_convert infos ms bad ->
  Forall (fun m => exists e, In e infos /\ wellformed e m) ms.
Proof.
  induction 1 as [|e m r ms bad Hw H IH|e r ms bad Hm H IH].
  - constructor.
  - constructor.
    + exists e; split; [left; reflexivity|assumption].
    + eapply Forall_impl; [|exact IH]. intros m' [e' [Hin Hw']].
      exists e'; split; [right; assumption|assumption].
  - eapply Forall_impl; [|exact IH]. intros m' [e' [Hin Hw']].
    exists e'; split; [right; assumption|assumption].
Qed.

(* THE list statement: ModBuilder.build returns exactly the modifiers of the
   well-formed entries, in order, and the status the counts dictate *)
Theorem build_refines_spec : forall infos,
  exists ms bad, spec_convert infos ms bad /\
                 build infos = Built ms (spec_status (length ms) bad).
Proof.
  intros infos.
  destruct tbl_status as [S0 [S1 [S2 S3]]]. destruct tbl_returns as [R1 R2].
  destruct infos as [|e r].
  - exists [], O; split; [constructor|]. simpl. rewrite S0. reflexivity.
  - unfold build.
    destruct (convert_total (e :: r)) as [mods [fails [Hc _]]]. rewrite Hc.
    destruct (get_valid_mods mods) as [vm vf] eqn:Hg.
    pose proof (convert_spec _ _ _ _ _ Hc Hg) as Hs.
    exists vm, (fails + vf)%nat. split; [assumption|].
    destruct (tbl_conds fails vf (length vm)) as [C1 C2]. rewrite C1, C2.
    rewrite R1, R2, S1, S2, S3.
    destruct fails as [|f]; simpl.
    + destruct vf as [|v]; simpl; [reflexivity|].
      destruct vm as [|m vm']; simpl; [|reflexivity].
      destruct returns_mods_none_valid; reflexivity.
    + destruct vm as [|m vm']; simpl; [|reflexivity].
      destruct returns_mods_none_valid; reflexivity.
Qed.

Lemma build_inv : forall infos ms st,
  build infos = Built ms st ->
  exists bad, spec_convert infos ms bad /\ st = spec_status (length ms) bad.
Proof.
  intros infos ms st H. destruct (build_refines_spec infos) as [ms' [bad [Hs Hb]]].
  rewrite Hb in H. inversion H; subst. exists bad; auto.
Qed.

Theorem build_never_aborts : forall infos, exists ms st, build infos = Built ms st.
Proof.
  intros infos. destruct (build_refines_spec infos) as [ms [bad [_ Hb]]].
  eauto.
Qed.

Theorem status_law : forall infos ms st,
  build infos = Built ms st ->
  exists bad,
    spec_convert infos ms bad /\ (length ms + bad = length infos)%nat /\
    (st = spec_success <-> bad = O) /\
    (st = spec_success_partial <-> (bad <> O /\ ms <> [])) /\
    (st = spec_error <-> (bad <> O /\ ms = [])).
Proof.
  intros infos ms st H. destruct (build_inv _ _ _ H) as [bad [Hs E]].
  exists bad. split; [assumption|]. split; [eapply spec_convert_length; eassumption|].
  subst st. unfold spec_status, spec_success, spec_success_partial, spec_error.
  destruct bad as [|b]; destruct ms as [|m ms']; simpl;
    repeat split; intros; try discriminate; try reflexivity; try congruence;
    try (destruct H0; congruence); try (split; congruence).
Qed.

Theorem only_valid_emitted : forall infos ms st,
  build infos = Built ms st ->
  Forall (fun m => valid m = true /\ exists e, In e infos /\ wellformed e m) ms.
Proof.
  intros infos ms st H. destruct (build_inv _ _ _ H) as [bad [Hs _]].
  eapply Forall_impl; [|eapply spec_convert_sources; eassumption].
  intros m [e [Hin Hw]]. split; [|eauto].
  apply entry_iff in Hw. tauto.
Qed.

Theorem wellformed_iff_one : forall e m,
  wellformed e m <-> build [e] = Built [m] spec_success.
Proof.
  intros e m; split.
  - intros Hw. destruct (build_refines_spec [e]) as [ms [bad [Hs Hb]]].
    assert (Hs' : spec_convert [e] [m] O) by (constructor; [assumption|constructor]).
    destruct (spec_convert_deterministic _ _ _ _ _ Hs Hs'); subst. exact Hb.
  - intros H. destruct (build_inv _ _ _ H) as [bad [Hs _]].
    inversion Hs as [|? ? ? ? ? Hw Hr|? ? ? ? Hm Hr]; subst;
      [assumption|inversion Hr].
Qed.

Theorem malformed_iff_error : forall e,
  malformed e <-> build [e] = Built [] spec_error.
Proof.
  intros e; split.
  - intros Hm. destruct (build_refines_spec [e]) as [ms [bad [Hs Hb]]].
    assert (Hs' : spec_convert [e] [] 1%nat) by (constructor; [assumption|constructor]).
    destruct (spec_convert_deterministic _ _ _ _ _ Hs Hs'); subst. exact Hb.
  - intros H. destruct (build_inv _ _ _ H) as [bad [Hs _]].
    inversion Hs; subst; assumption.
Qed.
