(* Proofs about model/CacheCodec.v instantiated with the tables generated from
   the repository (gen/T_cache.v): codec round trips (C15), memory-update
   specification, loader atomicity (C16). *)
From Coq Require Import ZArith QArith List String Ascii Bool Lia.
From EosV Require Import model.CacheCodec gen.T_cache.
Import ListNotations.
Local Open Scope string_scope.
Local Open Scope list_scope.

(* ------------------------------------------------------------------ *)


Notation gt := gen_tables.
Notation gc := gen_ctors.

(* ------------------------------------------------------------------ *)
(* Table obligations (closed by computation on the generated tables)   *)

Definition cname (c : cexpr) : string :=
  match c with CAttr n | CItems n | CKeys n | CSubId n | CSub n => n end.
Definition didx (d : dexpr) : nat :=
  match d with DIdx i | DDictComp i | DEffects i | DDefault i | DAbil i | DSub i => i end.
Definition kinds_match (c : cexpr) (d : dexpr) : bool :=
  match c, d with
  | CAttr _, DIdx _ | CItems _, DDictComp _ | CItems _, DAbil _
  | CKeys _, DEffects _ | CSubId _, DDefault _ | CSub _, DSub _ => true
  | _, _ => false
  end.
Fixpoint param_attr (init : list (string * string * iconv)) (kw : string) : option string :=
  match init with
  | [] => None
  | (a, p, _) :: r => if String.eqb p kw then Some a else param_attr r kw
  end.

(* compress order and decompress index->keyword map are inverse to each other:
   same length; the indices read are exactly 0..n-1, each once; the keyword
   that reads index i initialises the attribute that compress writes at i
   (with the matching wrapper); every attribute of the class is written *)
Definition inverse_ok (comp : list cexpr) (decomp : list (string * dexpr)) (c : ctor) : bool :=
  Nat.eqb (List.length comp) (List.length decomp) &&
  forallb (fun i => Nat.eqb (count_occ Nat.eq_dec (map (fun kd => didx (snd kd)) decomp) i) 1)
          (seq 0 (List.length comp)) &&
  forallb (fun kd : string * dexpr =>
             match nth_error comp (didx (snd kd)), param_attr (c_init c) (fst kd) with
             | Some ce, Some a => String.eqb (cname ce) a && kinds_match ce (snd kd)
             | _, _ => false
             end) decomp &&
  forallb (fun a : string * string * iconv =>
             existsb (fun ce => String.eqb (cname ce) (fst (fst a))) comp) (c_init c).

Lemma codec_tables_inverse :
  inverse_ok (tb_type_c gt) (tb_type_d gt) (ct_type gc) = true /\
  inverse_ok (tb_attr_c gt) (tb_attr_d gt) (ct_attr gc) = true /\
  inverse_ok (tb_eff_c gt) (tb_eff_d gt) (ct_eff gc) = true /\
  inverse_ok (tb_mod_c gt) (tb_mod_d gt) (ct_mod gc) = true /\
  inverse_ok (tb_buff_c gt) (tb_buff_d gt) (ct_buff gc) = true.
Proof. vm_compute. repeat split. Qed.

Definition storage_eqb (a b : storage) : bool :=
  match a, b with
  | SType, SType | SAttr, SAttr | SEffect, SEffect | SBuff, SBuff => true
  | _, _ => false
  end.
Definition all_storages := [SType; SAttr; SEffect; SBuff].
Definition is_reset (s : step) : bool :=
  match s with Clear _ | ResetFp => true | _ => false end.
Fixpoint take_resets (l : list step) : list step * list step :=
  match l with
  | s :: r => if is_reset s then let (a, b) := take_resets r in (s :: a, b) else ([], l)
  | [] => ([], [])
  end.
Definition clears (x : storage) (l : list step) : bool :=
  existsb (fun s => match s with Clear y => storage_eqb x y | _ => false end) l.

(* ALL FOUR storages are cleared before anything is filled *)
Definition all_cleared_before_fill (l : list step) : bool :=
  forallb (fun x => clears x (fst (take_resets l))) all_storages.

(* after the clears: the four fills, each storage once, from its own key,
   effects before types (types look effects up); the fingerprint assignment
   is the LAST statement and the only one that sets a fingerprint from data *)
Definition fills_then_fingerprint (l : list step) : bool :=
  match snd (take_resets l) with
  | [Fill a ka; Fill b kb; Fill c kc; Fill d kd; SetFp kf] =>
    forallb (fun x => Nat.eqb (List.length (filter (storage_eqb x) [a; b; c; d])) 1) all_storages &&
    forallb (fun sk : storage * string =>
               String.eqb (snd sk)
                 (match fst sk with SType => "types" | SAttr => "attrs"
                               | SEffect => "effects" | SBuff => "buff_templates" end))
            [(a, ka); (b, kb); (c, kc); (d, kd)] &&
    String.eqb kf "fingerprint" &&
    (let pos x := List.length (fst (take_resets
                    (map (fun y => if storage_eqb x y then SetFp "" else ResetFp) [a; b; c; d]))) in
     Nat.ltb (pos SEffect) (pos SType))
  | _ => false
  end.

Lemma memory_update_steps_ok :
  all_cleared_before_fill (tb_steps gt) = true /\
  fills_then_fingerprint (tb_steps gt) = true.
Proof. vm_compute. split; reflexivity. Qed.

(* loader: the memory update is inside the guarded block, everything is
   caught, and the handler resets all four storages and the fingerprint *)
Definition load_ok (ld : load_shape) : bool :=
  match ls_where ld with InTry => true | InElse => false end &&
  ls_catch_all ld &&
  forallb is_reset (ls_handler ld) &&
  forallb (fun x => clears x (ls_handler ld)) all_storages &&
  existsb (fun s => match s with ResetFp => true | _ => false end) (ls_handler ld).

Lemma loader_shape_ok : load_ok gen_load = true.
Proof. vm_compute. reflexivity. Qed.

Lemma cache_keys_ok :
  tb_keys gt = [("types", KObjs SType 0); ("attrs", KObjs SAttr 1);
                ("effects", KObjs SEffect 2); ("buff_templates", KObjs SBuff 3);
                ("fingerprint", KFingerprint)] /\
  update_order = [UPersist; UMemory] /\ objs_arity = 4%nat /\
  load_reraise = ["KeyboardInterrupt"].
Proof. vm_compute. repeat split. Qed.



(* ---------- generic helpers ---------- *)
Lemma mapM_map_ok : forall {A B C} (f : A -> B) (g : B -> res C) (h : A -> C) l,
  (forall x, In x l -> g (f x) = Ok (h x)) -> mapM g (map f l) = Ok (map h l).
Proof.
  induction l as [|x r IH]; intros H; cbn; [reflexivity|].
  rewrite H by (left; reflexivity). cbn. rewrite IH; [reflexivity|].
  intros y Hy; apply H; right; exact Hy.
Qed.

Lemma mapM_ok : forall {A B} (g : A -> res B) (h : A -> B) l,
  (forall x, In x l -> g x = Ok (h x)) -> mapM g l = Ok (map h l).
Proof.
  intros A B g h l H. rewrite <- (map_id l) at 1. apply mapM_map_ok. exact H.
Qed.

Definition enc {A} (c : A -> res J) (x : A) : J :=
  match c x with Ok j => j | Raise _ => JNull end.

Definition mod_enc := enc (mod_compress gt).
Definition attr_enc := enc (attr_compress gt).
Definition buff_enc := enc (buff_compress gt).

Lemma mod_compress_ok : forall m, mod_compress gt m = Ok (mod_enc m).
Proof. intros []; reflexivity. Qed.
Lemma mod_rt : forall m, mod_decompress gt gc (mod_enc m) = Ok m.
Proof. intros []; vm_compute; reflexivity. Qed.
Lemma attr_compress_ok : forall a, attr_compress gt a = Ok (attr_enc a).
Proof. intros []; reflexivity. Qed.
Lemma attr_rt : forall a, attr_decompress gt gc (attr_enc a) = Ok a.
Proof. intros [? ? ? [] []]; vm_compute; reflexivity. Qed.
Lemma buff_compress_ok : forall b, buff_compress gt b = Ok (buff_enc b).
Proof. intros []; reflexivity. Qed.
Lemma buff_rt : forall b, buff_decompress gt gc (buff_enc b) = Ok b.
Proof. intros []; vm_compute; reflexivity. Qed.

Definition effect_enc := enc (effect_compress gt).
Lemma effect_compress_ok : forall e, effect_compress gt e = Ok (effect_enc e).
Proof.
  intros []. unfold effect_enc, enc, effect_compress, compress. cbn.
  rewrite (mapM_ok _ mod_enc) by (intros; apply mod_compress_ok). reflexivity.
Qed.

Lemma effect_rt : forall cust_e e, hashable (e_id e) = true ->
  effect_decompress cust_e gt gc (effect_enc e) = Ok (cust_e e).
Proof.
  intros cust_e [] H. cbn in H. unfold effect_enc, enc, effect_compress, compress. cbn.
  rewrite (mapM_ok _ mod_enc) by (intros; apply mod_compress_ok). cbn.
  unfold effect_decompress. cbn.
  rewrite (mapM_map_ok mod_enc _ (fun m => m)) by (intros; apply mod_rt).
  rewrite map_id. cbn. rewrite H. cbn.
  destruct e_off, e_assist; reflexivity.
Qed.

(* ------------------------------------------------------------------ *)


Fixpoint distinctb (l : list J) : bool :=
  match l with
  | [] => true
  | k :: r => forallb (fun k' => negb (pyeq k k')) r && distinctb r
  end.

Lemma distinctb_app_inv : forall a b, distinctb (a ++ b) = true ->
  distinctb a = true /\ distinctb b = true /\
  (forall x y, In x a -> In y b -> pyeq x y = false).
Proof.
  induction a as [|k a IH]; cbn; intros b H.
  - repeat split; auto. intros x y [].
  - apply andb_true_iff in H as [H1 H2]. rewrite forallb_app in H1.
    apply andb_true_iff in H1 as [H1a H1b].
    destruct (IH _ H2) as (Ha & Hb & Hab). rewrite H1a, Ha. repeat split; auto.
    intros x y [<-|Hx] Hy.
    + rewrite forallb_forall in H1b. apply negb_true_iff. apply H1b; exact Hy.
    + apply Hab; assumption.
Qed.

Lemma dict_get_none : forall {V} (d : list (J * V)) k,
  (forall k', In k' (map fst d) -> pyeq k' k = false) -> dict_get d k = None.
Proof.
  induction d as [|[k' v] d IH]; cbn; intros k H; [reflexivity|].
  rewrite (H k') by (left; reflexivity). apply IH. intros; apply H; right; assumption.
Qed.

Lemma dict_put_fresh : forall {V} (d : list (J * V)) k v,
  dict_get d k = None -> dict_put d k v = d ++ [(k, v)].
Proof.
  induction d as [|[k' v'] d IH]; cbn; intros k v H; [reflexivity|].
  destruct (pyeq k' k); [discriminate|]. rewrite IH by exact H. reflexivity.
Qed.

Lemma fresh_of_distinct : forall {V} (d : list (J * V)) k r,
  distinctb (map fst d ++ k :: r) = true -> dict_get d k = None.
Proof.
  intros V d k r H. apply dict_get_none. intros k' Hk'.
  destruct (distinctb_app_inv _ _ H) as (_ & _ & Hab). apply Hab; [exact Hk'|left; reflexivity].
Qed.

Lemma dict_set_fresh : forall {V} (d : list (J * V)) k v r,
  hashable k = true -> distinctb (map fst d ++ k :: r) = true ->
  dict_set d k v = Ok (d ++ [(k, v)]).
Proof.
  intros. unfold dict_set. rewrite H. rewrite dict_put_fresh; [reflexivity|].
  eapply fresh_of_distinct; eassumption.
Qed.

Lemma distinct_shift : forall {V} (d : list (J * V)) k (v : V) r,
  distinctb (map fst d ++ k :: r) = true -> distinctb (map fst (d ++ [(k, v)]) ++ r) = true.
Proof. intros. rewrite map_app. cbn. rewrite <- app_assoc. cbn. exact H. Qed.

(* folding dict_set over fresh, pairwise distinct, hashable keys appends *)
Lemma foldM_put_map : forall {X Y V} (g : X -> Y)
    (stp : list (J * V) -> Y -> res (list (J * V))) (kv : X -> J * V) l d,
  (forall d x, In x l -> stp d (g x) = dict_set d (fst (kv x)) (snd (kv x))) ->
  forallb (fun x => hashable (fst (kv x))) l = true ->
  distinctb (map fst d ++ map (fun x => fst (kv x)) l) = true ->
  foldM stp d (map g l) = Ok (d ++ map kv l).
Proof.
  induction l as [|x l IH]; cbn; intros d Hs Hh Hd.
  - rewrite app_nil_r; reflexivity.
  - apply andb_true_iff in Hh as [Hh1 Hh2].
    rewrite Hs by (left; reflexivity).
    rewrite (dict_set_fresh d _ _ _ Hh1 Hd). cbn.
    rewrite IH; auto.
    + rewrite <- app_assoc. cbn. destruct (kv x); reflexivity.
    + apply distinct_shift; exact Hd.
Qed.

Definition wf_keys {V} (l : list (J * V)) : bool :=
  forallb (fun kv => hashable (fst kv)) l && distinctb (map fst l).

Lemma decode_pairs_rt : forall l, wf_keys l = true ->
  decode_pairs (JList (map pair_J l)) = Ok l.
Proof.
  intros l H. apply andb_true_iff in H as [H1 H2]. unfold decode_pairs. cbn.
  rewrite (foldM_put_map pair_J _ (fun kv => kv)); cbn.
  - rewrite map_id; reflexivity.
  - intros d [k v] _. reflexivity.
  - exact H1.
  - exact H2.
Qed.

Lemma decode_abils_rt : forall l, wf_keys l = true ->
  decode_abils (JList (map abil_J l)) = Ok l.
Proof.
  intros l H. apply andb_true_iff in H as [H1 H2]. unfold decode_abils. cbn.
  rewrite (foldM_put_map abil_J _ (fun kv => kv)); cbn.
  - rewrite map_id; reflexivity.
  - intros d [k [a b]] _. reflexivity.
  - exact H1.
  - exact H2.
Qed.

Definition is_int (j : J) : bool := match j with JInt _ => true | _ => false end.

Lemma pyeq_int_refl : forall z, pyeq (JInt z) (JInt z) = true.
Proof. intros; cbn. apply Qeq_bool_iff. reflexivity. Qed.

Lemma dict_get_found : forall {A V} (key : A -> J) (f : A -> V) l x,
  In x l -> is_int (key x) = true -> distinctb (map key l) = true ->
  dict_get (map (fun y => (key y, f y)) l) (key x) = Some (f x).
Proof.
  induction l as [|y l IH]; cbn; intros x Hin Hi Hd; [contradiction|].
  apply andb_true_iff in Hd as [Hd1 Hd2].
  destruct Hin as [->|Hin].
  - destruct (key x); try discriminate. rewrite pyeq_int_refl. reflexivity.
  - rewrite forallb_forall in Hd1.
    assert (E : pyeq (key y) (key x) = false).
    { apply negb_true_iff. apply Hd1. apply in_map. exact Hin. }
    rewrite E. apply IH; assumption.
Qed.

Lemma get_effect_found : forall (f : effect -> effect) effs e,
  In e effs -> Forall (fun e => is_int (e_id e) = true) effs ->
  distinctb (map e_id effs) = true ->
  get_effect (map (fun y => (e_id y, f y)) effs) (e_id e) = Ok (f e).
Proof.
  intros f effs e Hin Hint Hd.
  assert (Hi : is_int (e_id e) = true) by (rewrite Forall_forall in Hint; apply Hint; exact Hin).
  unfold get_effect. pose proof (dict_get_found e_id f effs e Hin Hi Hd) as G.
  destruct (e_id e); try discriminate. cbn. rewrite G. reflexivity.
Qed.

(* ------------------------------------------------------------------ *)


Arguments decode_pairs : simpl never.
Arguments decode_abils : simpl never.
Arguments get_effect : simpl never.
Arguments by_id : simpl never.

Section Norm.
  Variable cust_e : effect -> effect.
  Variable cust_t : typ -> typ.
  Hypothesis cust_e_id : forall e, e_id (cust_e e) = e_id e.
  Hypothesis cust_t_id : forall t, t_id (cust_t t) = t_id t.

  Definition retarget (t : typ) : typ :=
    mkType (t_id t) (t_group t) (t_cat t) (t_attrs t)
           (map (fun ke => (fst ke, cust_e (snd ke))) (t_effects t))
           (option_map cust_e (t_default t)) (t_abil t) (t_skills t).

  Record wf_type (effs : list effect) (t : typ) : Prop := {
    wt_id : hashable (t_id t) = true;
    wt_attrs : wf_keys (t_attrs t) = true;
    wt_skills : wf_keys (t_skills t) = true;
    wt_abil : wf_keys (t_abil t) = true;
    wt_effs : Forall (fun ke => fst ke = e_id (snd ke) /\ In (snd ke) effs) (t_effects t);
    wt_effs_distinct : distinctb (map fst (t_effects t)) = true;
    wt_default : match t_default t with None => True | Some e => In e effs end }.

  Definition type_enc := enc (type_compress gt).
  Lemma type_compress_ok : forall t, type_compress gt t = Ok (type_enc t).
  Proof. intros [? ? ? ? ? [d|] ? ?]; reflexivity. Qed.

  Definition estore (effs : list effect) := map (fun e => (e_id e, cust_e e)) effs.

  Lemma by_id_rt : forall (l : list (J * effect)),
    Forall (fun ke => fst ke = e_id (snd ke)) l ->
    forallb (fun ke => hashable (fst ke)) l = true ->
    distinctb (map fst l) = true ->
    by_id (map (fun ke => cust_e (snd ke)) l) = Ok (map (fun ke => (fst ke, cust_e (snd ke))) l).
  Proof.
    intros l Hk Hh Hd. unfold by_id.
    rewrite (foldM_put_map (V:=effect) (fun ke : J * effect => cust_e (snd ke)) _
              (fun ke => (fst ke, cust_e (snd ke)))); cbn.
    - reflexivity.
    - intros d x Hx. rewrite Forall_forall in Hk. rewrite cust_e_id, <- (Hk x Hx). reflexivity.
    - exact Hh.
    - exact Hd.
  Qed.

  Lemma is_int_hashable : forall j, is_int j = true -> hashable j = true.
  Proof. intros []; cbn; congruence. Qed.

  Lemma type_rt : forall effs t,
    Forall (fun e => is_int (e_id e) = true) effs ->
    distinctb (map e_id effs) = true ->
    wf_type effs t ->
    type_decompress cust_t gt gc (estore effs) (type_enc t) = Ok (cust_t (retarget t)).
  Proof.
    intros effs t Hint Hdis [Hid Ha Hs Hab He Hed Hdef].
    assert (Hget : forall e, In e effs -> get_effect (estore effs) (e_id e) = Ok (cust_e e))
      by (intros; apply get_effect_found; assumption).
    assert (Heffs : mapM (get_effect (estore effs)) (map fst (t_effects t))
                    = Ok (map (fun ke => cust_e (snd ke)) (t_effects t))).
    { apply mapM_map_ok. intros [k e] Hin. rewrite Forall_forall in He.
      destruct (He _ Hin) as [Hk Hi]. cbn in *. subst k. apply Hget; exact Hi. }
    assert (Hbid : by_id (map (fun ke => cust_e (snd ke)) (t_effects t))
                   = Ok (map (fun ke => (fst ke, cust_e (snd ke))) (t_effects t))).
    { apply by_id_rt; [| |exact Hed].
      - eapply Forall_impl; [|exact He]. intros a [H _]; exact H.
      - apply forallb_forall. intros [k e] Hin. rewrite Forall_forall in He.
        destruct (He _ Hin) as [Hk Hi]. cbn in *. subst k. apply is_int_hashable.
        rewrite Forall_forall in Hint. apply Hint; exact Hi. }
    destruct t as [tid tg tc ta te td tab ts]. cbn in *.
    unfold type_enc, enc, type_decompress.
    destruct td as [d|]; cbn.
    - assert (Hd : is_int (e_id d) = true) by (rewrite Forall_forall in Hint; apply Hint; exact Hdef).
      pose proof (Hget d Hdef) as Gd.
      destruct (e_id d) eqn:Ed; try discriminate.
      rewrite (decode_pairs_rt ta Ha). cbn. rewrite Heffs. cbn. rewrite Gd. cbn.
      rewrite (decode_abils_rt tab Hab). cbn. rewrite (decode_pairs_rt ts Hs). cbn.
      rewrite Hbid. cbn. reflexivity.
    - rewrite (decode_pairs_rt ta Ha). cbn. rewrite Heffs. cbn.
      rewrite (decode_abils_rt tab Hab). cbn. rewrite (decode_pairs_rt ts Hs). cbn.
      rewrite Hbid. cbn. reflexivity.
  Qed.
End Norm.

(* ------------------------------------------------------------------ *)


Section State.
  Variable cust_e : effect -> effect.
  Variable cust_t : typ -> typ.

  Notation fill_one' := (fill_one cust_e cust_t gt gc).
  Notation fill_loop' := (fill_loop cust_e cust_t gt gc).
  Notation decode' := (decode cust_e cust_t gt gc).
  Notation update_memory' := (update_memory cust_e cust_t gt gc).
  Notation construct' := (construct cust_e cust_t gt gc gen_load).

  Lemma fill_loop_foldM : forall s l st,
    match foldM (fill_one' s) st l with
    | Ok st' => fill_loop' s st l = (st', None)
    | Raise e => exists st', fill_loop' s st l = (st', Some e)
    end.
  Proof.
    induction l as [|x l IH]; intros st; cbn; [reflexivity|].
    destruct (fill_one' s st x) as [st1|e]; cbn; [apply IH|eauto].
  Qed.

  Lemma run_handler_empty : forall st, run_handler cust_e cust_t gt gc gen_load st = empty_state.
  Proof. intros []; reflexivity. Qed.

  (* the memory update, from ANY previous state, either completes with exactly
     [decode data] or raises (and then [decode data] raises too) *)
  Lemma update_memory_spec : forall st0 data,
    match decode' data with
    | Ok st => update_memory' st0 data = (st, None)
    | Raise _ => exists st e, update_memory' st0 data = (st, Some e)
    end.
  Proof.
    intros st0 data. unfold decode, update_memory, spec_fill. cbn -[py_key py_iter fill_loop foldM].
    destruct st0 as [t0 a0 e0 b0 f0]. cbn -[py_key py_iter fill_loop foldM].
    change (set_fp (mkState [] [] [] [] f0) JNull) with empty_state.
    destruct (py_key data "effects") as [v1|x]; cbn -[py_key py_iter fill_loop foldM]; [|eauto].
    destruct (py_iter v1) as [l1|x]; cbn -[py_key py_iter fill_loop foldM]; [|eauto].
    pose proof (fill_loop_foldM SEffect l1 empty_state) as F1.
    destruct (foldM (fill_one' SEffect) empty_state l1) as [s1|x]; cbn -[py_key py_iter fill_loop foldM];
      [rewrite F1|destruct F1 as [s' F1]; rewrite F1; eauto].
    destruct (py_key data "types") as [v2|x]; cbn -[py_key py_iter fill_loop foldM]; [|eauto].
    destruct (py_iter v2) as [l2|x]; cbn -[py_key py_iter fill_loop foldM]; [|eauto].
    pose proof (fill_loop_foldM SType l2 s1) as F2.
    destruct (foldM (fill_one' SType) s1 l2) as [s2|x]; cbn -[py_key py_iter fill_loop foldM];
      [rewrite F2|destruct F2 as [s' F2]; rewrite F2; eauto].
    destruct (py_key data "attrs") as [v3|x]; cbn -[py_key py_iter fill_loop foldM]; [|eauto].
    destruct (py_iter v3) as [l3|x]; cbn -[py_key py_iter fill_loop foldM]; [|eauto].
    pose proof (fill_loop_foldM SAttr l3 s2) as F3.
    destruct (foldM (fill_one' SAttr) s2 l3) as [s3|x]; cbn -[py_key py_iter fill_loop foldM];
      [rewrite F3|destruct F3 as [s' F3]; rewrite F3; eauto].
    destruct (py_key data "buff_templates") as [v4|x]; cbn -[py_key py_iter fill_loop foldM]; [|eauto].
    destruct (py_iter v4) as [l4|x]; cbn -[py_key py_iter fill_loop foldM]; [|eauto].
    pose proof (fill_loop_foldM SBuff l4 s3) as F4.
    destruct (foldM (fill_one' SBuff) s3 l4) as [s4|x]; cbn -[py_key py_iter fill_loop foldM];
      [rewrite F4|destruct F4 as [s' F4]; rewrite F4; eauto].
    destruct (py_key data "fingerprint") as [v5|x]; cbn -[py_key py_iter fill_loop foldM]; [|eauto].
    reflexivity.
  Qed.
End State.

(* ------------------------------------------------------------------ *)


Arguments attr_decompress : simpl never.
Arguments buff_decompress : simpl never.
Arguments effect_decompress : simpl never.
Arguments type_decompress : simpl never.
Arguments attr_enc : simpl never.
Arguments buff_enc : simpl never.
Arguments effect_enc : simpl never.
Arguments type_enc : simpl never.

Section Objs.
  Variable cust_e : effect -> effect.
  Variable cust_t : typ -> typ.
  Hypothesis cust_e_id : forall e, e_id (cust_e e) = e_id e.
  Hypothesis cust_t_id : forall t, t_id (cust_t t) = t_id t.

  Notation fill_one' := (fill_one cust_e cust_t gt gc).
  Notation decode' := (decode cust_e cust_t gt gc).
  Notation retarget' := (retarget cust_e).
  Notation estore' := (estore cust_e).

  Definition add_buff (d : list (J * list buff)) (b : buff) : list (J * list buff) :=
    dict_put d (b_id b)
      ((match dict_get d (b_id b) with Some l => l | None => [] end) ++ [b]).
  Definition group_buffs (l : list buff) : list (J * list buff) := fold_left add_buff l [].

  Definition tstore (l : list typ) := map (fun t => (t_id t, cust_t (retarget' t))) l.
  Definition astore (l : list attribute) := map (fun a => (a_id a, a)) l.

  Record wf_objs (o : objs) : Prop := {
    wo_eff_int : Forall (fun e => is_int (e_id e) = true) (o_effects o);
    wo_eff_distinct : distinctb (map e_id (o_effects o)) = true;
    wo_types : Forall (wf_type (o_effects o)) (o_types o);
    wo_types_distinct : distinctb (map t_id (o_types o)) = true;
    wo_attrs_hash : forallb (fun a => hashable (a_id a)) (o_attrs o) = true;
    wo_attrs_distinct : distinctb (map a_id (o_attrs o)) = true;
    wo_buffs : forallb (fun b => hashable (b_id b)) (o_buffs o) = true }.

  (* what a handler serves after a complete load of the objects [o] *)
  Definition norm (o : objs) (fp : J) : state :=
    mkState (tstore (o_types o)) (astore (o_attrs o)) (estore' (o_effects o))
            (group_buffs (o_buffs o)) fp.

  Lemma fill_effects_rt : forall l st,
    Forall (fun e => is_int (e_id e) = true) l ->
    distinctb (map fst (st_effects st) ++ map e_id l) = true ->
    foldM (fill_one' SEffect) st (map effect_enc l) =
    Ok (mkState (st_types st) (st_attrs st) (st_effects st ++ estore' l) (st_buffs st) (st_fp st)).
  Proof.
    induction l as [|e l IH]; intros st Hi Hd; cbn.
    - rewrite app_nil_r. destruct st; reflexivity.
    - inversion Hi as [|? ? Hi1 Hi2]; subst.
      pose proof (is_int_hashable _ Hi1) as Hh.
      rewrite (effect_rt cust_e e Hh). cbn. rewrite cust_e_id.
      rewrite (dict_set_fresh (st_effects st) _ _ _ Hh Hd). cbn.
      rewrite IH; cbn; auto.
      + rewrite <- app_assoc. reflexivity.
      + apply distinct_shift. exact Hd.
  Qed.

  Lemma fill_types_rt : forall effs l st,
    Forall (fun e => is_int (e_id e) = true) effs ->
    distinctb (map e_id effs) = true ->
    st_effects st = estore' effs ->
    Forall (wf_type effs) l ->
    distinctb (map fst (st_types st) ++ map t_id l) = true ->
    foldM (fill_one' SType) st (map type_enc l) =
    Ok (mkState (st_types st ++ tstore l) (st_attrs st) (st_effects st) (st_buffs st) (st_fp st)).
  Proof.
    induction l as [|t l IH]; intros st Hi Hde Hes Hw Hd; cbn.
    - rewrite app_nil_r. destruct st; reflexivity.
    - inversion Hw as [|? ? Hw1 Hw2]; subst.
      rewrite Hes. rewrite (type_rt cust_e cust_t cust_e_id effs t Hi Hde Hw1). cbn.
      rewrite cust_t_id. cbn.
      rewrite (dict_set_fresh (st_types st) _ _ _ (wt_id _ _ Hw1) Hd). cbn.
      rewrite <- Hes. rewrite IH; cbn; auto.
      + rewrite <- app_assoc. reflexivity.
      + apply distinct_shift. exact Hd.
  Qed.

  Lemma fill_attrs_rt : forall l st,
    forallb (fun a => hashable (a_id a)) l = true ->
    distinctb (map fst (st_attrs st) ++ map a_id l) = true ->
    foldM (fill_one' SAttr) st (map attr_enc l) =
    Ok (mkState (st_types st) (st_attrs st ++ astore l) (st_effects st) (st_buffs st) (st_fp st)).
  Proof.
    induction l as [|a l IH]; intros st Hh Hd; cbn.
    - rewrite app_nil_r. destruct st; reflexivity.
    - cbn in Hh. apply andb_true_iff in Hh as [Hh1 Hh2].
      rewrite (attr_rt a). cbn.
      rewrite (dict_set_fresh (st_attrs st) _ _ _ Hh1 Hd). cbn.
      rewrite IH; cbn; auto.
      + rewrite <- app_assoc. reflexivity.
      + apply distinct_shift. exact Hd.
  Qed.

  Lemma fill_buffs_rt : forall l st,
    forallb (fun b => hashable (b_id b)) l = true ->
    foldM (fill_one' SBuff) st (map buff_enc l) =
    Ok (mkState (st_types st) (st_attrs st) (st_effects st)
                (fold_left add_buff l (st_buffs st)) (st_fp st)).
  Proof.
    induction l as [|b l IH]; intros st Hh; cbn.
    - destruct st; reflexivity.
    - cbn in Hh. apply andb_true_iff in Hh as [Hh1 Hh2].
      rewrite (buff_rt b). cbn. unfold dict_set. rewrite Hh1. cbn.
      rewrite IH; cbn; auto.
  Qed.

  Definition enc_all (o : objs) (fp : J) : J :=
    match encode gt o fp with Ok j => j | Raise _ => JNull end.

  Lemma encode_ok : forall o fp, encode gt o fp = Ok (enc_all o fp).
  Proof.
    intros [ts ats es bs] fp. unfold enc_all, encode. cbn.
    rewrite (mapM_ok _ type_enc) by (intros; apply type_compress_ok).
    rewrite (mapM_ok _ attr_enc) by (intros; apply attr_compress_ok).
    rewrite (mapM_ok _ effect_enc) by (intros; apply effect_compress_ok).
    rewrite (mapM_ok _ buff_enc) by (intros; apply buff_compress_ok).
    reflexivity.
  Qed.

  Theorem decode_encode_p : forall o fp, wf_objs o ->
    decode' (enc_all o fp) = Ok (norm o fp).
  Proof.
    intros [ts ats es bs] fp [W1 W2 W3 W4 W5 W6 W7]. cbn in *.
    unfold enc_all, encode. cbn.
    rewrite (mapM_ok _ type_enc) by (intros; apply type_compress_ok).
    rewrite (mapM_ok _ attr_enc) by (intros; apply attr_compress_ok).
    rewrite (mapM_ok _ effect_enc) by (intros; apply effect_compress_ok).
    rewrite (mapM_ok _ buff_enc) by (intros; apply buff_compress_ok).
    cbn. unfold decode, spec_fill. cbn.
    rewrite fill_effects_rt by (cbn; assumption). cbn.
    rewrite (fill_types_rt es) by (cbn; auto). cbn.
    rewrite fill_attrs_rt by (cbn; assumption). cbn.
    rewrite fill_buffs_rt by assumption. cbn.
    reflexivity.
  Qed.
End Objs.

(* ------------------------------------------------------------------ *)
(* Handler-level theorems                                               *)

Section Handler.
  Variable cust_e : effect -> effect.
  Variable cust_t : typ -> typ.

  Notation decode' := (decode cust_e cust_t gt gc).
  Notation update_memory' := (update_memory cust_e cust_t gt gc).
  Notation update_cache' := (update_cache cust_e cust_t gt gc).
  Notation construct' := (construct cust_e cust_t gt gc gen_load).

  Lemma fill_one_fp : forall s st x st',
    fill_one cust_e cust_t gt gc s st x = Ok st' -> st_fp st' = st_fp st.
  Proof.
    intros s st x st'. destruct s; cbn -[type_decompress effect_decompress attr_decompress buff_decompress].
    - destruct (type_decompress _ _ _ _ _) as [t|]; cbn; [|discriminate].
      destruct (dict_set _ _ _) as [d|]; cbn; [|discriminate]. intros H; inversion H; reflexivity.
    - destruct (attr_decompress _ _ _) as [t|]; cbn; [|discriminate].
      destruct (dict_set _ _ _) as [d|]; cbn; [|discriminate]. intros H; inversion H; reflexivity.
    - destruct (effect_decompress _ _ _ _) as [t|]; cbn; [|discriminate].
      destruct (dict_set _ _ _) as [d|]; cbn; [|discriminate]. intros H; inversion H; reflexivity.
    - destruct (buff_decompress _ _ _) as [t|]; cbn; [|discriminate].
      destruct (dict_set _ _ _) as [d|]; cbn; [|discriminate]. intros H; inversion H; reflexivity.
  Qed.

  Lemma fill_loop_fp : forall s l st,
    st_fp (fst (fill_loop cust_e cust_t gt gc s st l)) = st_fp st.
  Proof.
    induction l as [|x l IH]; intros st; cbn; [reflexivity|].
    destruct (fill_one cust_e cust_t gt gc s st x) as [st1|e] eqn:F; [|reflexivity].
    rewrite IH. eapply fill_one_fp; exact F.
  Qed.

  (* a memory update that raises leaves NO fingerprint (reset first, set last) *)
  Lemma failed_update_no_fingerprint : forall st0 data st e,
    update_memory' st0 data = (st, Some e) -> st_fp st = JNull.
  Proof.
    intros st0 data st e. unfold update_memory. cbn -[py_key py_iter fill_loop].
    destruct st0 as [t0 a0 e0 b0 f0]. cbn -[py_key py_iter fill_loop].
    change (set_fp (mkState [] [] [] [] f0) JNull) with empty_state.
    assert (E0 : st_fp empty_state = JNull) by reflexivity.
    destruct (v <- py_key data "effects" ;; py_iter v) as [l1|x]; cbn -[py_key py_iter fill_loop];
      [|intros X; inversion X; subst; exact E0].
    pose proof (fill_loop_fp SEffect l1 empty_state) as H1.
    destruct (fill_loop cust_e cust_t gt gc SEffect empty_state l1) as [s1 [x|]];
      cbn [fst] in H1; [intros X; inversion X; subst; congruence|].
    destruct (v <- py_key data "types" ;; py_iter v) as [l2|x]; cbn -[py_key py_iter fill_loop];
      [|intros X; inversion X; subst; congruence].
    pose proof (fill_loop_fp SType l2 s1) as H2.
    destruct (fill_loop cust_e cust_t gt gc SType s1 l2) as [s2 [x|]];
      cbn [fst] in H2; [intros X; inversion X; subst; congruence|].
    destruct (v <- py_key data "attrs" ;; py_iter v) as [l3|x]; cbn -[py_key py_iter fill_loop];
      [|intros X; inversion X; subst; congruence].
    pose proof (fill_loop_fp SAttr l3 s2) as H3.
    destruct (fill_loop cust_e cust_t gt gc SAttr s2 l3) as [s3 [x|]];
      cbn [fst] in H3; [intros X; inversion X; subst; congruence|].
    destruct (v <- py_key data "buff_templates" ;; py_iter v) as [l4|x];
      cbn -[py_key py_iter fill_loop]; [|intros X; inversion X; subst; congruence].
    pose proof (fill_loop_fp SBuff l4 s3) as H4.
    destruct (fill_loop cust_e cust_t gt gc SBuff s3 l4) as [s4 [x|]];
      cbn [fst] in H4; [intros X; inversion X; subst; congruence|].
    destruct (py_key data "fingerprint") as [v|x]; cbn; intros X; inversion X; subst.
    congruence.
  Qed.

  Lemma update_memory_ok_inv : forall st0 data st,
    update_memory' st0 data = (st, None) -> decode' data = Ok st.
  Proof.
    intros st0 data st H. pose proof (update_memory_spec cust_e cust_t st0 data) as S.
    destruct (decode' data) as [st1|e].
    - rewrite S in H. congruence.
    - destruct S as (s & x & S). rewrite S in H. discriminate.
  Qed.

  Lemma decode_fp : forall data st, decode' data = Ok st ->
    py_key data "fingerprint" = Ok (st_fp st).
  Proof.
    intros data st. unfold decode.
    destruct (spec_fill _ _ _ _ SEffect _ _ _) as [s1|]; cbn; [|discriminate].
    destruct (spec_fill _ _ _ _ SType _ _ _) as [s2|]; cbn; [|discriminate].
    destruct (spec_fill _ _ _ _ SAttr _ _ _) as [s3|]; cbn; [|discriminate].
    destruct (spec_fill _ _ _ _ SBuff _ _ _) as [s4|]; cbn; [|discriminate].
    destruct (py_key data "fingerprint") as [v|]; cbn; [|discriminate].
    intros H; inversion H; subst. destruct s4; reflexivity.
  Qed.

  (* loader, complete description *)
  Lemma construct_cases : forall p,
    construct' p =
    match p with
    | None => (empty_state, None)
    | Some data => match decode' data with
                   | Ok st => (st, None)
                   | Raise _ => (empty_state, None)
                   end
    end.
  Proof.
    intros [data|]; [|reflexivity].
    unfold construct. cbn [ls_where gen_load load_where ls_catch_all load_catch_all].
    pose proof (update_memory_spec cust_e cust_t (empty_state) data) as S.
    destruct (decode' data) as [st|e].
    - rewrite S. reflexivity.
    - destruct S as (s & x & S). rewrite S. rewrite run_handler_empty. reflexivity.
  Qed.

  Theorem load_total_and_atomic_p : forall p : option J,
    exists st, construct' p = (st, None) /\
      (st = empty_state /\ st_fp st = JNull \/
       exists data, p = Some data /\ decode' data = Ok st /\
                    py_key data "fingerprint" = Ok (st_fp st)).
  Proof.
    intros p. pose proof (construct_cases p) as C. destruct p as [data|].
    - destruct (decode' data) as [st|e] eqn:D.
      + exists st. split; [exact C|]. right. exists data. repeat split; auto.
        apply decode_fp; exact D.
      + exists empty_state. split; [exact C|]. left; split; reflexivity.
    - exists empty_state. split; [exact C|]. left; split; reflexivity.
  Qed.

  Theorem writer_eq_reader_p : forall h o fp h',
    update_cache' h o fp = (h', None) ->
    construct' (h_file h') = (h_mem h', None).
  Proof.
    intros h o fp h' H. unfold update_cache in H. rewrite encode_ok in H.
    destruct (update_memory' (h_mem h) (enc_all o fp)) as [st r] eqn:U.
    inversion H; subst; clear H. cbn [h_file h_mem].
    apply update_memory_ok_inv in U. rewrite construct_cases, U. reflexivity.
  Qed.

  (* one successful update determines the memory state, whatever was there *)
  Lemma update_cache_independent : forall h1 h2 o fp h1',
    update_cache' h1 o fp = (h1', None) ->
    exists h2', update_cache' h2 o fp = (h2', None) /\ h_mem h2' = h_mem h1' /\
                h_file h2' = h_file h1'.
  Proof.
    intros h1 h2 o fp h1' H. unfold update_cache in *. rewrite encode_ok in *.
    destruct (update_memory' (h_mem h1) (enc_all o fp)) as [st r] eqn:U.
    inversion H; subst; clear H. apply update_memory_ok_inv in U.
    pose proof (update_memory_spec cust_e cust_t (h_mem h2) (enc_all o fp)) as S.
    rewrite U in S. rewrite S. eexists; repeat split.
  Qed.

  Fixpoint updates (h : handler) (xs : list (objs * J)) : handler * option exn :=
    match xs with
    | [] => (h, None)
    | (o, fp) :: r => match update_cache' h o fp with
                      | (h', None) => updates h' r
                      | (h', Some e) => (h', Some e)
                      end
    end.

  Definition fresh_handler : handler := mkHandler (empty_state) None.

  Lemma updates_app : forall xs ys h,
    updates h (xs ++ ys) =
    match updates h xs with (h', None) => updates h' ys | r => r end.
  Proof.
    induction xs as [|[o fp] xs IH]; intros ys h; cbn; [reflexivity|].
    destruct (update_cache' h o fp) as [h' [e|]]; [reflexivity|apply IH].
  Qed.

  Theorem no_leftovers_p : forall h0 xs o fp h1,
    updates h0 (xs ++ [(o, fp)]) = (h1, None) ->
    exists h2, updates fresh_handler [(o, fp)] = (h2, None) /\
               h_mem h2 = h_mem h1 /\ h_file h2 = h_file h1.
  Proof.
    intros h0 xs o fp h1 H. rewrite updates_app in H.
    destruct (updates h0 xs) as [h' [e|]]; [discriminate|]. cbn in H.
    destruct (update_cache' h' o fp) as [h'' [e|]] eqn:U; [discriminate|].
    inversion H; subst; clear H.
    destruct (update_cache_independent h' fresh_handler o fp h1 U) as (h2 & U2 & M & F).
    exists h2. cbn. rewrite U2. auto.
  Qed.

  Hypothesis cust_e_id : forall e, e_id (cust_e e) = e_id e.
  Hypothesis cust_t_id : forall t, t_id (cust_t t) = t_id t.

  (* a well-formed object set is always accepted, and served normalised *)
  Theorem update_cache_wf : forall h o fp, wf_objs o ->
    update_cache' h o fp =
    (mkHandler (norm cust_e cust_t o fp) (Some (enc_all o fp)), None).
  Proof.
    intros h o fp W. unfold update_cache. rewrite encode_ok.
    pose proof (update_memory_spec cust_e cust_t (h_mem h) (enc_all o fp)) as S.
    rewrite (decode_encode_p cust_e cust_t cust_e_id cust_t_id o fp W) in S.
    rewrite S. reflexivity.
  Qed.
End Handler.
