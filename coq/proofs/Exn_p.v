(* C10: the exceptions each public operation of the model can answer with, as one table over all operation
   kinds, and the theorem that no operation answers with anything else. (Internal errors are a separate channel:
   w_err / d_err, reported by [step] as XInternal -- C10_md_failure_reported.) *)
From Coq Require Import ZArith QArith List Bool Lia.
From EosV Require Import lib.AList gen.T_eos model.World model.Status model.Calc model.Engine model.Ops
     proofs.AList_p proofs.Misc_p.
Import ListNotations.

Opaque add_item remove_item load unload publish read_attr.

Definition documented (o : op) : list exn :=
  match o with
  | ODefSource _ _ | ONewItem _ _ _ _ _ | ONewSolsys _ => []
  | ONewFit _ _ => [XType; XValue]
  | OSlot _ _ _ => [XType; XValue]
  | OSetAdd _ _ _ => [XType; XValue]
  | OSetRemove _ _ _ => [XKey]
  | OSetClear _ _ => []
  | OSkillDel _ _ => [XKey]
  | ORackAppend _ _ _ => [XType; XValue]
  | ORackInsert _ _ _ _ => [XType; XValue]
  | ORackPlace _ _ _ _ => [XType; XValue; XSlotTaken; XIndex]
  | ORackEquip _ _ _ => [XType; XValue]
  | ORackRemove _ _ _ | ORackFree _ _ _ => [XValue; XIndex]
  | ORackClear _ _ => []
  | OCharge _ _ => [XType; XValue]
  | OState _ _ | OTarget _ _ | OMode _ _ _ | OLevel _ _ => []
  | OFleetAdd _ _ => [XValue]
  | OFleetRemove _ _ => [XKey]
  | OFleetClear _ => []
  | OSolsysAdd _ _ => [XValue]
  | OSolsysRemove _ _ => [XKey]
  | OSolsysClear _ => []
  | OSource _ _ => [XUnknownSource]
  | ORead _ _ | OGet _ _ | OKeys _ | OEffects _ => []
  end.

Lemma descriptor_set_exn s old new acc p store : exn_in [XType; XValue] (snd (descriptor_set s old new acc p store)).
Proof. unfold descriptor_set. split_all; cbn [snd exn_in In]; auto. Qed.
Lemma slot_set_exn s f k v : exn_in [XType; XValue] (snd (slot_set_op s f k v)).
Proof. unfold slot_set_op. apply descriptor_set_exn. Qed.
Lemma charge_set_exn s m c : exn_in [XType; XValue] (snd (charge_set_op s m c)).
Proof. unfold charge_set_op. destruct (get_item (fst s) m); [apply descriptor_set_exn|cbn; auto]. Qed.
Lemma set_add_op_exn s f k i : exn_in [XType; XValue] (snd (set_add_op s f k i)).
Proof.
  unfold set_add_op. destruct k; try apply itemset_add_exn.
  destruct (get_item (fst s) i) as [it|]; [|cbn; auto].
  destruct (negb (set_accepts SeSkills (i_cls it))); [cbn; auto|].
  destruct (al_mem zeqb _ _); [cbn; auto|].
  pose proof (itemset_add_exn (lift s (fun w => put_skillmap w f (al_set zeqb (get_skillmap w f) (i_tid it) i))) f SeSkills i) as H.
  destruct (itemset_add _ f SeSkills i) as [s2 r]. cbn [snd] in *. destruct r; cbn [snd]; exact H.
Qed.
Lemma set_clear_exn s f k : exn_in [] (snd (set_clear_op s f k)).
Proof. unfold set_clear_op. destruct k; cbn [snd exn_in]; exact I. Qed.
Lemma skill_del_exn s f tid : exn_in [XKey] (snd (skill_del_op s f tid)).
Proof. unfold skill_del_op. destruct (al_get zeqb _ tid); [apply set_remove_exn|cbn; auto]. Qed.
Lemma source_set_exn s x new : exn_in [XUnknownSource] (snd (source_set_op s x new)).
Proof. unfold source_set_op. split_all; cbn [snd exn_in In]; auto. Qed.
Lemma state_set_exn s i v : exn_in [] (snd (state_set_op s i v)).
Proof. unfold state_set_op. split_all; cbn [snd exn_in]; auto. Qed.
Lemma target_set_exn s i v : exn_in [] (snd (target_set_op s i v)).
Proof. unfold target_set_op. split_all; cbn [snd exn_in]; auto. Qed.
Lemma mode_set_exn s i e m : exn_in [] (snd (mode_set_op s i e m)).
Proof. unfold mode_set_op. split_all; cbn [snd exn_in]; auto. Qed.
Lemma level_set_exn s i l : exn_in [] (snd (level_set_op s i l)).
Proof. unfold level_set_op. split_all; cbn [snd exn_in]; auto. Qed.

(* the base-world layer answers every operation with nothing but the exceptions of its row *)
Theorem md_op_exn w o : exn_in (documented o) (snd (md_op w o)).
Proof.
  destruct o; cbn [md_op documented snd]; try exact I;
    first [ apply slot_set_exn | apply set_add_op_exn | apply set_remove_exn | apply skill_del_exn
          | apply rack_append_exn | apply rack_insert_exn | apply rack_place_exn | apply rack_equip_exn
          | apply rack_remove_exn | apply rack_free_exn | apply charge_set_exn | apply state_set_exn
          | apply target_set_exn | apply mode_set_exn | apply level_set_exn | apply fleet_add_exn
          | apply fleet_remove_exn | apply solsys_add_exn | apply solsys_remove_exn | apply source_set_exn
          | apply set_clear_exn ].
Qed.

(* reading attrs[a] of an attribute the item does not have is a documented KeyError *)
Definition documented_call (o : op) : list exn :=
  match o with ORead _ _ => [XKey] | _ => documented o end.

Definition is_internal (r : res) : bool := match r with RExn (XInternal _) => true | _ => false end.

(* every public call of the whole system (base world + services) answers with a value, with an exception of
   its row, or with an internal error; an internal error is reported exactly when one of the two layers failed *)
Theorem step_exn x o : is_internal (snd (step x o)) = true \/ exn_in (documented_call o) (snd (step x o)).
Proof.
  unfold step, step_ev. destruct (is_read o) eqn:Hr.
  - destruct (read_op (clear_err (s_w x)) (d_clear (s_d x)) o) as [d' r] eqn:Er. cbn [fst snd].
    destruct (w_err (clear_err (s_w x))); [now left|]. destruct (d_err d'); [now left|]. right.
    destruct o; try discriminate Hr; cbn [read_op] in Er.
    + destruct (read_attr PF _ _ i a) as [d0 v]. injection Er as _ <-. destruct v; cbn; auto.
    + destruct (read_attr PF _ _ i a) as [d0 v]. injection Er as _ <-. destruct v; cbn; auto.
    + injection Er as _ <-. exact I.
    + destruct (get_item _ i); injection Er as _ <-; exact I.
  - pose proof (md_op_exn (clear_err (s_w x)) o) as H.
    destruct (md_op (clear_err (s_w x)) o) as [[w' evs] r]. cbn [fst snd] in *.
    destruct (w_err w'); [now left|]. destruct (d_err _); [now left|]. right.
    destruct o; try discriminate Hr; exact H.
Qed.
