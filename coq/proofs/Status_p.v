(* C05: the effect-status decision and its use by the message helper. *)
From Coq Require Import ZArith QArith List Bool Lia.
From EosV Require Import lib.AList gen.T_eos model.World model.Status model.Engine model.Ops model.Switches
     proofs.AList_p proofs.Frame_p.
Import ListNotations.
Open Scope Z_scope.

(* ---------------- the documented decision, written independently ---------------- *)

Inductive mode_k := MFull | MState | MRun | MStop | MUnknown.
Definition mode_of (m : Z) : mode_k :=
  if m =? 1 then MFull else if m =? 2 then MState else if m =? 3 then MRun
  else if m =? 4 then MStop else MUnknown.

(* state required by an effect category: passive/system offline(1), online 2,
   active/target 3, overload 4; other categories have none *)
Definition cat_state (cat : Z) : option Z :=
  if (cat =? 0) || (cat =? 7) then Some 1
  else if cat =? 4 then Some 2
  else if (cat =? 1) || (cat =? 2) then Some 3
  else if cat =? 5 then Some 4 else None.

Definition spec_status (item_state mode cat : Z) (is_online_effect is_default has_chance online_running : bool)
  : option bool :=
  match mode_of mode with
  | MRun => Some true
  | MStop => Some false
  | MUnknown => Some false
  | MState => match cat_state cat with Some es => Some (es <=? item_state) | None => None end
  | MFull =>
    match cat_state cat with
    | None => None
    | Some es =>
      if item_state <? es then Some false
      else if es =? 1 then Some (negb has_chance)
      else if es =? 2 then Some (if is_online_effect then true else online_running)
      else if es =? 3 then Some is_default
      else Some true
    end
  end.

Definition sres_opt (r : sres) : option bool := match r with SOk b => Some b | SFail => None end.

Definition mk_effect (cat : Z) (has_chance : bool) : effect :=
  mkEffect cat (if has_chance then Some 1000 else None) None [] false None.

Definition bools := [true; false].
Definition all_rows : list (Z * Z * Z * bool * bool * bool * bool) :=
  flat_map (fun st => flat_map (fun m => flat_map (fun cat => flat_map (fun on => flat_map (fun df =>
  flat_map (fun ch => map (fun orun => (st, m, cat, on, df, ch, orun)) bools) bools) bools) bools)
  [0; 1; 2; 3; 4; 5; 6; 7; 8]) [1; 2; 3; 4; 5; 0]) [1; 2; 3; 4].

Definition row_ok (r : Z * Z * Z * bool * bool * bool * bool) : bool :=
  let '(st, m, cat, on, df, ch, orun) := r in
  let eid := if on then EffectId_online else 2000 in
  match sres_opt (resolve_one st m eid (mk_effect cat ch) df orun),
        spec_status st m cat on df ch orun with
  | Some a, Some b => Bool.eqb a b
  | None, None => true
  | _, _ => false
  end.

(* the whole finite decision table, by computation: 4 states x 6 modes (incl. an
   unknown one) x 9 categories (incl. unmapped) x online-effect? x default? x
   chance attribute? x online running? = 3456 rows *)
Lemma table_complete : forallb row_ok all_rows = true.
Proof. vm_compute. reflexivity. Qed.

Lemma table_complete_forall r : In r all_rows -> row_ok r = true.
Proof. apply forallb_forall. exact table_complete. Qed.

(* resolve_one depends on the effect only through category and chance attribute *)
Lemma resolve_one_ext st m eid e e' df orun :
  e_cat e = e_cat e' ->
  (match e_chance_attr e with Some _ => true | None => false end
   = match e_chance_attr e' with Some _ => true | None => false end) ->
  resolve_one st m eid e df orun = resolve_one st m eid e' df orun.
Proof.
  intros Hc Hch. unfold resolve_one, resolve_full, resolve_state_compliance, effect_state.
  rewrite Hc. destruct (e_chance_attr e), (e_chance_attr e'); try discriminate; reflexivity.
Qed.

(* force_run / force_stop ignore everything else *)
Lemma force_run_runs st eid e df orun : resolve_one st EffectMode_force_run eid e df orun = SOk true.
Proof. reflexivity. Qed.
Lemma force_stop_stops st eid e df orun : resolve_one st EffectMode_force_stop eid e df orun = SOk false.
Proof. reflexivity. Qed.

(* side effects (Booster) and abilities (FighterSquad) are switches built on
   the modes: an offline-category effect with a chance attribute reports
   exactly the status it was set to *)
Lemma side_effect_set_get status eid e df orun :
  effect_state e = Some State_offline -> e_chance_attr e <> None ->
  resolve_one State_offline (side_effect_mode status) eid e df orun = SOk status.
Proof.
  intros Hs Hc. destruct status.
  - change (resolve_one State_offline (side_effect_mode true) eid e df orun)
      with (resolve_state_compliance State_offline e).
    unfold resolve_state_compliance. rewrite Hs. reflexivity.
  - change (resolve_one State_offline (side_effect_mode false) eid e df orun)
      with (resolve_full State_offline eid e df orun).
    unfold resolve_full. rewrite Hs.
    change (State_offline <? State_offline) with false. change (State_offline =? State_offline) with true.
    cbv iota. destruct (e_chance_attr e); [reflexivity|congruence].
Qed.

(* a fighter ability: non-default effects use state_compliance / full_compliance,
   the default effect uses full_compliance / force_stop (state override = active) *)
Lemma ability_set_get is_default status eid e orun :
  effect_state e = Some State_active ->
  resolve_one State_active (ability_mode is_default status) eid e is_default orun = SOk status.
Proof.
  intros Hs. destruct is_default, status.
  - change (resolve_one State_active (ability_mode true true) eid e true orun)
      with (resolve_full State_active eid e true orun).
    unfold resolve_full. rewrite Hs. reflexivity.
  - reflexivity.
  - change (resolve_one State_active (ability_mode false true) eid e false orun)
      with (resolve_state_compliance State_active e).
    unfold resolve_state_compliance. rewrite Hs. reflexivity.
  - change (resolve_one State_active (ability_mode false false) eid e false orun)
      with (resolve_full State_active eid e false orun).
    unfold resolve_full. rewrite Hs. reflexivity.
Qed.

(* ---------------- effects_update establishes the table ---------------- *)

Definition set_equiv (a b : list Z) : Prop := forall x, mem zeqb a x = mem zeqb b x.

Lemma zmem_app a b x : mem zeqb (a ++ b) x = mem zeqb a x || mem zeqb b x.
Proof. induction a; simpl; [reflexivity|]. rewrite IHa. now rewrite orb_assoc. Qed.

Lemma zmem_diff a b x : mem zeqb (set_diff zeqb a b) x = mem zeqb a x && negb (mem zeqb b x).
Proof.
  unfold set_diff. induction a as [|y r IH]; simpl; [reflexivity|].
  change (zeqb x y) with (Z.eqb x y).
  destruct (mem zeqb b y) eqn:E; simpl; change (zeqb x y) with (Z.eqb x y).
  - rewrite IH. destruct (Z.eqb x y) eqn:Exy; simpl; [|reflexivity].
    apply Z.eqb_eq in Exy. subst. rewrite E. simpl. now rewrite andb_false_r.
  - rewrite IH. destruct (Z.eqb x y) eqn:Exy; simpl; [|reflexivity].
    apply Z.eqb_eq in Exy. subst. now rewrite E.
Qed.

(* running' = (running ++ (new \ running)) \ (running \ new)  is  new, as a set *)
Lemma diff_update_equiv running new :
  set_equiv (set_diff zeqb (running ++ set_diff zeqb new running) (set_diff zeqb running new)) new.
Proof.
  intros x. rewrite zmem_diff, zmem_app, !zmem_diff.
  destruct (mem zeqb running x), (mem zeqb new x); reflexivity.
Qed.

Lemma set_diff_nil_r (l : list Z) : set_diff zeqb l [] = l.
Proof. unfold set_diff. induction l; simpl; [reflexivity|now f_equal]. Qed.

Lemma get_put_item_same w i it : get_item (put_item w i it) i = Some it.
Proof. unfold get_item, put_item. simpl. apply al_get_set_same. Qed.

Lemma err_fail w e : w_err (fail w e) <> None.
Proof. unfold fail. destruct (w_err w) eqn:E; simpl; congruence. Qed.

(* the running set after effects_update is exactly the set of effects the
   resolver says should run (when no internal failure occurred) *)
Theorem effects_update_sets_table w i it st statuses w' msgs :
  get_item w i = Some it -> item_state w i = Some st ->
  resolve_effects st it (item_effects w it)
                  (match item_type w it with Some t => t_default t | None => None end) None = Some statuses ->
  effects_update w i = (w', msgs) -> w_err w' = None ->
  exists it', get_item w' i = Some it' /\
              set_equiv (i_running it') (map fst (filter (fun p => snd p) statuses)).
Proof.
  intros Hi Hs Hr. unfold effects_update. rewrite Hi, Hs, Hr.
  set (new := map fst (filter (fun p : Z * bool => snd p) statuses)).
  pose proof (diff_update_equiv (i_running it) new) as D.
  destruct (set_diff zeqb new (i_running it)) as [|a start] eqn:Estart.
  - destruct (set_diff zeqb (i_running it) new) as [|b stop] eqn:Estop.
    + intros [= <- <-] _. exists it. split; [exact Hi|].
      rewrite app_nil_r, set_diff_nil_r in D. exact D.
    + rewrite Hi. destruct (effects_tgts w it (b :: stop)) as [tg|].
      * intros [= <- <-] _. eexists. split; [apply get_put_item_same|].
        simpl. rewrite app_nil_r in D. exact D.
      * intros [= <- <-] He. exfalso. exact (err_fail _ _ He).
  - set (it1 := it_set_running it (i_running it ++ a :: start)).
    destruct (effects_tgts (put_item w i it1) it1 (a :: start)) as [tg|].
    + destruct (set_diff zeqb (i_running it) new) as [|b stop] eqn:Estop.
      * intros [= <- <-] _. exists it1. split; [apply get_put_item_same|].
        rewrite set_diff_nil_r in D. exact D.
      * rewrite get_put_item_same.
        destruct (effects_tgts (put_item w i it1) it1 (b :: stop)) as [tg2|].
        -- intros [= <- <-] _. eexists. split; [apply get_put_item_same|]. exact D.
        -- intros [= <- <-] He. exfalso. exact (err_fail _ _ He).
    + destruct (set_diff zeqb (i_running it) new) as [|b stop] eqn:Estop.
      * intros [= <- <-] He. exfalso. exact (err_fail _ _ He).
      * destruct (get_item (fail (put_item w i it1) EKeyAbsent) i) as [it2|].
        -- destruct (effects_tgts _ it2 (b :: stop)).
           ++ intros [= <- <-] He. exfalso. simpl in He. exact (err_fail _ _ He).
           ++ intros [= <- <-] He. exfalso. exact (err_fail _ _ He).
        -- intros [= <- <-] He. exfalso. exact (err_fail _ _ He).
Qed.

(* unloading stops everything *)
Theorem unloaded_msgs_clear_running w i it w' msgs :
  get_item w i = Some it -> item_unloaded_msgs w i = (w', msgs) -> w_err w' = None ->
  exists it', get_item w' i = Some it' /\ i_running it' = [].
Proof.
  intros Hi. unfold item_unloaded_msgs. rewrite Hi.
  destruct (i_running it) as [|r rs] eqn:Er.
  - destruct (item_state w i); intros [= <- <-] He.
    + exists it. split; [exact Hi|exact Er].
    + exfalso. exact (err_fail _ _ He).
  - destruct (effects_tgts w it (r :: rs)).
    + match goal with |- context[item_state ?W i] => destruct (item_state W i) end; intros [= <- <-] He.
      * eexists. split; [apply get_put_item_same|reflexivity].
      * exfalso. exact (err_fail _ _ He).
    + match goal with |- context[item_state ?W i] => destruct (item_state W i) end; intros [= <- <-] He;
        exfalso.
      * exact (err_fail _ _ He).
      * exact (err_fail _ _ He).
Qed.

(* charges follow their container's state *)
Theorem charge_follows_container w c m itc :
  get_item w c = Some itc -> cr_state (class_row_of (i_cls itc)) = StContainer ->
  i_cont itc = Some (PCharge m) \/ i_cont itc = Some (PAuto m) ->
  item_state w c = item_state_n 3 w m.
Proof.
  intros Hc Hk Hp. unfold item_state. cbn [item_state_n]. rewrite Hc, Hk.
  destruct Hp as [-> | ->]; reflexivity.
Qed.
