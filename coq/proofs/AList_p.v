(* Basic facts about association lists and list-sets keyed by nat / Z. *)
From Coq Require Import ZArith List Bool Lia.
From EosV Require Import lib.AList.
Import ListNotations.

Section NatKeys.
  Context {V : Type}.
  Notation get := (@al_get nat V Nat.eqb).
  Notation set := (@al_set nat V Nat.eqb).

  Lemma al_get_set_same (l : list (nat * V)) k v : get (set l k v) k = Some v.
  Proof.
    induction l as [|[k' v'] r IH]; simpl.
    - now rewrite Nat.eqb_refl.
    - destruct (Nat.eqb k k') eqn:E; simpl; rewrite E; auto.
  Qed.

  Lemma al_get_set_other (l : list (nat * V)) k k' v : k <> k' -> get (set l k v) k' = get l k'.
  Proof.
    intros N. induction l as [|[k0 v0] r IH]; simpl.
    - destruct (Nat.eqb k' k) eqn:E; [apply Nat.eqb_eq in E; congruence|reflexivity].
    - destruct (Nat.eqb k k0) eqn:E; simpl.
      + apply Nat.eqb_eq in E. subst.
        destruct (Nat.eqb k' k0) eqn:E'; [apply Nat.eqb_eq in E'; congruence|reflexivity].
      + destruct (Nat.eqb k' k0); auto.
  Qed.

  Lemma al_set_get_id (l : list (nat * V)) k v : get l k = Some v -> set l k v = l.
  Proof.
    induction l as [|[k0 v0] r IH]; simpl; [discriminate|].
    destruct (Nat.eqb k k0) eqn:E; intros H.
    - injection H as ->. reflexivity.
    - f_equal. auto.
  Qed.

  Lemma al_set_set (l : list (nat * V)) k v v' : set (set l k v) k v' = set l k v'.
  Proof.
    induction l as [|[k0 v0] r IH]; simpl.
    - now rewrite Nat.eqb_refl.
    - destruct (Nat.eqb k k0) eqn:E; simpl; rewrite E; [reflexivity|now f_equal].
  Qed.
End NatKeys.

Section NatSets.
  Notation mem := (@mem nat Nat.eqb).
  Notation add := (@set_add nat Nat.eqb).
  Notation rm := (@set_rm nat Nat.eqb).

  Lemma mem_In l x : mem l x = true <-> In x l.
  Proof.
    induction l as [|y r IH]; simpl; [split; [discriminate|tauto]|].
    rewrite orb_true_iff, IH, Nat.eqb_eq. split; intros [H|H]; auto.
  Qed.

  Lemma set_add_present l x : mem l x = true -> add l x = l.
  Proof. unfold set_add. now intros ->. Qed.

  Lemma set_rm_add_absent l x : mem l x = false -> rm (add l x) x = l.
  Proof.
    unfold set_add. intros H. rewrite H.
    induction l as [|y r IH]; simpl.
    - now rewrite Nat.eqb_refl.
    - simpl in H. apply orb_false_iff in H. destruct H as [H1 H2]. rewrite H1. f_equal. auto.
  Qed.
End NatSets.

Section ZKeys.
  Context {V : Type}.
  Notation get := (@al_get Z V Z.eqb).
  Notation set := (@al_set Z V Z.eqb).
  Notation del := (@al_del Z V Z.eqb).

  Lemma zal_del_set_absent (l : list (Z * V)) k v : al_mem Z.eqb l k = false -> del (set l k v) k = l.
  Proof.
    unfold al_mem. induction l as [|[k0 v0] r IH]; simpl.
    - now rewrite Z.eqb_refl.
    - destruct (Z.eqb k k0) eqn:E; [discriminate|]. intros H. simpl. rewrite E. f_equal. auto.
  Qed.
End ZKeys.

Lemma list_set_id {A} (l : list A) n x : nth_error l n = Some x -> list_set l n x = l.
Proof. revert n; induction l; intros [|n]; simpl; intros H; try discriminate; [congruence|f_equal; auto]. Qed.

Lemma list_set_set {A} (l : list A) n x y : list_set (list_set l n x) n y = list_set l n y.
Proof. revert n; induction l; intros [|n]; simpl; auto. f_equal. auto. Qed.

Lemma list_set_app_end {A} (l : list A) x y : list_set (l ++ [x]) (length l) y = l ++ [y].
Proof. induction l; simpl; [reflexivity|f_equal; auto]. Qed.
