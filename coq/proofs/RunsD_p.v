(* C05 for charges and autocharges, every history: proofs/RunsC_p.v carried
   through every operation of the model and every clean history from the empty
   system. The extra caller obligations (flat worlds, charges only into directly
   held items, the item lists of (re)loaded fits duplicate-free and unloaded)
   are [op_ok3]; the extracted driver evaluates their boolean version on every
   generated history and counts the histories outside them. *)
From Coq Require Import ZArith QArith List Bool Lia.
From EosV Require Import lib.AList gen.T_eos model.World model.Status model.Calc model.Engine model.Ops
     model.Wf proofs.AList_p proofs.Rack_p proofs.Frame_p proofs.Containers_p proofs.Status_p proofs.Owner_p
     proofs.Cinv_p proofs.Runs_p proofs.Link_p proofs.Flink_p proofs.RunsC_p proofs.RunsK_p.
Import ListNotations.

Opaque add_item remove_item load unload.

(* a new directly held item with a fresh id *)
Lemma KK_new_direct w a tid st lvl c :
  KK w -> get_item w a = None -> direct (new_item c tid st lvl) ->
  KK (put_item w a (new_item c tid st lvl)).
Proof.
  intros K Ha Dn. pose proof K as [R F N P A L].
  set (new := new_item c tid st lvl) in *. set (w' := put_item w a new).
  assert (Ho : forall j, j <> a -> get_item w' j = get_item w j) by (intros; now apply get_put_item_other).
  assert (Ga : get_item w' a = Some new) by apply get_put_item_same'.
  assert (Un : forall x xit, get_item w x = Some xit -> i_cont xit <> Some (PCharge a) /\ i_cont xit <> Some (PAuto a)).
  { intros x xit Gx. destruct (P x xit a Gx) as (P1 & P2). split; intros H.
    - destruct (P1 H) as (y & Gy & _). congruence.
    - destruct (P2 H) as (y & Gy & _). congruence. }
  assert (Hst : forall j, j <> a -> item_state w' j = item_state w j).
  { unfold item_state. generalize 4%nat. induction n as [|n IH]; intros j Nj; cbn [item_state_n]; [reflexivity|].
    rewrite (Ho j Nj). destruct (get_item w j) as [it|] eqn:G; [|reflexivity].
    destruct (cr_state (class_row_of (i_cls it))); try reflexivity.
    destruct (Un j it G) as (U1 & U2).
    destruct (i_cont it) as [[| | |p|p]|]; try reflexivity; apply IH; intros ->; congruence. }
  assert (Hft : forall j, j <> a -> item_fit w' j = item_fit w j).
  { unfold item_fit. generalize 4%nat. induction n as [|n IH]; intros j Nj; cbn [item_fit_n]; [reflexivity|].
    rewrite (Ho j Nj). destruct (get_item w j) as [it|] eqn:G; [|reflexivity].
    destruct (Un j it G) as (U1 & U2).
    destruct (i_cont it) as [[| | |p|p]|]; try reflexivity; apply IH; intros ->; congruence. }
  constructor.
  - intros j it _ G D. destruct (Nat.eq_dec j a) as [->|Nj].
    + rewrite Ga in G. injection G as <-. contradiction.
    + rewrite (Ho j Nj) in G. apply (goodA_ext w w' j it it eq_refl eq_refl (Hst j Nj)). now apply R.
  - intros j it G D. destruct (Nat.eq_dec j a) as [->|Nj].
    + rewrite Ga in G. injection G as <-. contradiction.
    + rewrite (Ho j Nj) in G. now apply (F j it).
  - intros j it G D. apply (NAtid_srcs w w' _ eq_refl). destruct (Nat.eq_dec j a) as [->|Nj].
    + rewrite Ga in G. injection G as <-. contradiction.
    + rewrite (Ho j Nj) in G. now apply (N j it).
  - intros j it x G. destruct (Nat.eq_dec j a) as [->|Nj].
    + rewrite Ga in G. injection G as <-. split; discriminate.
    + rewrite (Ho j Nj) in G. destruct (P j it x G) as (P1 & P2).
      assert (Nx : forall y, get_item w x = Some y -> get_item w' x = Some y).
      { intros y Gy. rewrite Ho; [exact Gy|]. intros ->. congruence. }
      split; intros H.
      * destruct (P1 H) as (y & Gy & Hy). exists y. split; [now apply Nx|exact Hy].
      * destruct (P2 H) as (y & Gy & Hy). exists y. split; [now apply Nx|exact Hy].
  - intros j it G Hl. destruct (Nat.eq_dec j a) as [->|Nj].
    + rewrite Ga in G. injection G as <-. reflexivity.
    + rewrite (Ho j Nj) in G. now apply (A j it).
  - intros j it G D Hl. destruct (Nat.eq_dec j a) as [->|Nj].
    + rewrite Ga in G. injection G as <-. contradiction.
    + rewrite (Ho j Nj) in G. rewrite (Hft j Nj). now apply (L j it).
Qed.

Lemma KK_new_item w a tid st lvl c :
  J w -> KK w -> get_item w a = None -> (childcls c -> NAtid w tid) -> KK (put_item w a (new_item c tid st lvl)).
Proof.
  intros Js K Ha Hna. destruct (direct_dec (new_item c tid st lvl)) as [D|D].
  - now apply KK_new_direct.
  - pose proof (proj1 (direct_childcls _) D) as Hc. cbn in Hc.
    apply KK_new_child; [exact K|exact Ha|exact Hc|now apply Hna|].
    intros x xit Gx. split.
    + intros H. destruct Js as (I & _ & _ & J5). pose proof (J5 x xit a Gx H) as C. unfold cls_of in C.
      rewrite Ha in C. discriminate.
    + intros H. apply in_map_iff in H as ([e0 a0] & Ea & H). cbn in Ea. subst a0.
      destruct Js as (I & _ & J4 & _). pose proof (J4 x xit e0 a Gx H) as C. unfold cls_of in C.
      rewrite Ha in C. discriminate.
Qed.

(* a new source under an unused id *)
Lemma KK_def_source w src u :
  KK w -> get_src w src = None ->
  (forall c cit, get_item w c = Some cit -> ~ direct cit -> NAtid (set_srcs w (al_set neqb (w_srcs w) src u)) (i_tid cit)) ->
  KK (set_srcs w (al_set neqb (w_srcs w) src u)).
Proof.
  intros [R Fl N P A L] Hs Hna. set (w' := set_srcs w (al_set neqb (w_srcs w) src u)) in *.
  constructor.
  - intros j it _ G D. change (get_item w j = Some it) in G.
    destruct (R j it (fun x => x) G D) as (C1 & C2 & C3).
    assert (Same : forall s0, i_loaded it = Some s0 -> get_src w' s0 = get_src w s0).
    { intros s0 Hl. apply get_src_set_other. intros ->. apply (C2 src Hl). exact Hs. }
    assert (Ety : item_type w' it = item_type w it).
    { unfold item_type. destruct (i_loaded it) as [s0|] eqn:El; [|reflexivity]. now rewrite Same. }
    assert (Eef : item_effects w' it = item_effects w it).
    { unfold item_effects, item_universe. rewrite Ety. destruct (i_loaded it) as [s0|] eqn:El; [|reflexivity].
      now rewrite Same. }
    split; [exact C1|split].
    + intros s0 Hl. rewrite (Same s0 Hl). now apply C2.
    + intros Hl st r Hst. unfold expected_st. rewrite Ety, Eef. apply (C3 Hl st r). exact Hst.
  - exact Fl.
  - exact Hna.
  - exact P.
  - exact A.
  - exact L.
Qed.

(* the setters change no link *)
Lemma FC_with_msgs (s : st) f g : (forall w, FC w (fst (g w))) -> FC (fst s) (fst (with_msgs s f g)).
Proof. intros H. unfold with_msgs. specialize (H (fst s)). destruct (g (fst s)) as [w m]. exact H. Qed.
Lemma FC_lift_fail (s : st) e : FC (fst s) (fst (lift s (fun w => fail w e))).
Proof. unfold lift. cbn [fst]. apply FC_fail. Qed.

Lemma state_set_op_FC s i new : FC (fst s) (fst (fst (state_set_op s i new))).
Proof.
  unfold state_set_op. destruct (get_item (fst s) i) as [it|] eqn:Hi; [|apply FC_lift_fail].
  destruct (i_state it =? new)%Z; [apply FC_refl|].
  set (s1 := lift s _).
  assert (K1 : FC (fst s) (fst s1)) by (unfold s1, lift; cbn [fst]; eapply FC_put; eauto).
  destruct (item_fit (fst s1) i) as [f|]; cbn [fst]; [|exact K1].
  eapply FC_trans; [exact K1|]. apply FC_with_msgs.
  intros w. pose proof (FC_state_update_msgs w i (i_state it) new) as F1.
  destruct (state_update_msgs w i (i_state it) new) as [w1 m1]. cbn [fst] in F1.
  destruct (FC_state_fold (i_state it) new (state_desc (length (child_items it false) + S (length (w_items w1))) w1 (child_items it false)) w1 m1) as (F2 & _).
  eapply FC_trans; eauto.
Qed.
Lemma target_set_op_FC s i new : FC (fst s) (fst (fst (target_set_op s i new))).
Proof.
  unfold target_set_op. destruct (get_item (fst s) i) as [it|] eqn:Hi; [|apply FC_lift_fail].
  destruct (onat_eqb (i_target it) new); [apply FC_refl|].
  destruct (item_fit (fst s) i) as [f|]; cbn [fst].
  - match goal with |- context[match ?X with Some _ => _ | None => _ end] =>
      match X with fold_right _ _ _ => destruct X as [pe|] end end; [|apply FC_lift_fail].
    cbn [fst].
    set (s1 := match i_target it with Some o => emit_always s f _ | None => s end).
    assert (E1 : fst s1 = fst s) by (subst s1; destruct (i_target it); reflexivity).
    set (s2 := lift s1 (fun w => upd_item w i (fun it0 => it_set_target it0 new))).
    assert (K2 : FC (fst s) (fst s2)).
    { unfold s2, lift. cbn [fst]. rewrite E1. apply FC_upd. reflexivity. }
    destruct new; exact K2.
  - eapply FC_put; eauto.
Qed.
Lemma mode_set_op_FC s i e m : FC (fst s) (fst (fst (mode_set_op s i e m))).
Proof.
  unfold mode_set_op. destruct (get_item (fst s) i) as [it|] eqn:Hi; [|apply FC_lift_fail].
  set (s1 := lift s _).
  assert (K1 : FC (fst s) (fst s1)) by (unfold s1, lift; cbn [fst]; eapply FC_put; eauto).
  destruct (item_fit (fst s1) i) as [f|]; cbn [fst]; [|exact K1].
  eapply FC_trans; [exact K1|]. apply FC_with_msgs. intros w. apply FC_effects_update.
Qed.
Lemma level_set_op_FC s i l : FC (fst s) (fst (fst (level_set_op s i l))).
Proof.
  unfold level_set_op. destruct (get_item (fst s) i) as [it|] eqn:Hi; [|apply FC_lift_fail].
  destruct (i_level it =? l)%Z; [apply FC_refl|].
  set (s1 := lift s _).
  assert (K1 : FC (fst s) (fst s1)) by (unfold s1, lift; cbn [fst]; eapply FC_put; eauto).
  destruct (item_fit (fst s1) i); exact K1.
Qed.

(* ... nor any container reference, class or loaded flag *)
Definition lcv (it : item) := (i_cls it, i_cont it, i_loaded it).
Definition LC (w w' : world) : Prop := forall j, option_map lcv (get_item w' j) = option_map lcv (get_item w j).
Lemma LC_refl w : LC w w. Proof. intros j; reflexivity. Qed.
Lemma LC_trans a b c : LC a b -> LC b c -> LC a c.
Proof. intros H1 H2 j. now rewrite H2, H1. Qed.
Lemma LC_fail w e : LC w (fail w e).
Proof. intros j. now rewrite get_fail. Qed.
Lemma LC_put w i old new : get_item w i = Some old -> lcv new = lcv old -> LC w (put_item w i new).
Proof.
  intros Hi Hk j. destruct (Nat.eq_dec j i) as [->|N].
  - rewrite get_put_item_same', Hi. cbn. now rewrite Hk.
  - now rewrite get_put_item_other.
Qed.
Lemma LC_upd w i g : (forall it, lcv (g it) = lcv it) -> LC w (upd_item w i g).
Proof. intros H. unfold upd_item. destruct (get_item w i) as [it|] eqn:E; [|apply LC_fail]. eapply LC_put; eauto. Qed.
Lemma LC_run_only w w' i : run_only w w' i -> LC w w'.
Proof.
  intros ((_ & G) & R & N) j. destruct (Nat.eq_dec j i) as [->|Nj]; [|now rewrite (G j Nj)].
  destruct (get_item w i) as [it|] eqn:E.
  - destruct (R it eq_refl) as (r & G'). rewrite G'. reflexivity.
  - now rewrite (N eq_refl).
Qed.
Lemma LC_with_msgs (s : st) f g : (forall w, LC w (fst (g w))) -> LC (fst s) (fst (with_msgs s f g)).
Proof. intros H. unfold with_msgs. specialize (H (fst s)). destruct (g (fst s)) as [w m]. exact H. Qed.
Lemma LC_lift_fail (s : st) e : LC (fst s) (fst (lift s (fun w => fail w e))).
Proof. unfold lift. cbn [fst]. apply LC_fail. Qed.
Lemma LC_state_update_msgs w i a b : LC w (fst (state_update_msgs w i a b)).
Proof.
  unfold state_update_msgs. destruct (is_loaded w i); [|apply LC_refl].
  pose proof (eu_run_only w i) as H. destruct (effects_update w i). cbn [fst] in *. now apply (LC_run_only _ _ i).
Qed.
Lemma LC_state_fold old new l : forall w ms,
  LC w (fst (fold_left (fun (acc : world * list msg) ch =>
                          let (w, ms) := acc in
                          if is_container_state w ch
                          then let (w, m2) := state_update_msgs w ch old new in (w, ms ++ m2)
                          else (w, ms)) l (w, ms))).
Proof.
  induction l as [|ch r IH]; intros w ms; cbn [fold_left]; [apply LC_refl|].
  destruct (is_container_state w ch); [|apply IH].
  pose proof (LC_state_update_msgs w ch old new) as H1. destruct (state_update_msgs w ch old new) as [w1 m2]. cbn [fst] in H1.
  eapply LC_trans; [exact H1|apply IH].
Qed.

Lemma state_set_op_LC s i new : LC (fst s) (fst (fst (state_set_op s i new))).
Proof.
  unfold state_set_op. destruct (get_item (fst s) i) as [it|] eqn:Hi; [|apply LC_lift_fail].
  destruct (i_state it =? new)%Z; [apply LC_refl|].
  set (s1 := lift s _).
  assert (K1 : LC (fst s) (fst s1)) by (unfold s1, lift; cbn [fst]; eapply LC_put; eauto).
  destruct (item_fit (fst s1) i) as [f|]; cbn [fst]; [|exact K1].
  eapply LC_trans; [exact K1|]. apply LC_with_msgs.
  intros w. pose proof (LC_state_update_msgs w i (i_state it) new) as F1.
  destruct (state_update_msgs w i (i_state it) new) as [w1 m1]. cbn [fst] in F1.
  eapply LC_trans; [exact F1|apply LC_state_fold].
Qed.
Lemma target_set_op_LC s i new : LC (fst s) (fst (fst (target_set_op s i new))).
Proof.
  unfold target_set_op. destruct (get_item (fst s) i) as [it|] eqn:Hi; [|apply LC_lift_fail].
  destruct (onat_eqb (i_target it) new); [apply LC_refl|].
  destruct (item_fit (fst s) i) as [f|]; cbn [fst].
  - match goal with |- context[match ?X with Some _ => _ | None => _ end] =>
      match X with fold_right _ _ _ => destruct X as [pe|] end end; [|apply LC_lift_fail].
    cbn [fst].
    set (s1 := match i_target it with Some o => emit_always s f _ | None => s end).
    assert (E1 : fst s1 = fst s) by (subst s1; destruct (i_target it); reflexivity).
    set (s2 := lift s1 (fun w => upd_item w i (fun it0 => it_set_target it0 new))).
    assert (K2 : LC (fst s) (fst s2)).
    { unfold s2, lift. cbn [fst]. rewrite E1. apply LC_upd. reflexivity. }
    destruct new; exact K2.
  - eapply LC_put; eauto.
Qed.
Lemma mode_set_op_LC s i e m : LC (fst s) (fst (fst (mode_set_op s i e m))).
Proof.
  unfold mode_set_op. destruct (get_item (fst s) i) as [it|] eqn:Hi; [|apply LC_lift_fail].
  set (s1 := lift s _).
  assert (K1 : LC (fst s) (fst s1)) by (unfold s1, lift; cbn [fst]; eapply LC_put; eauto).
  destruct (item_fit (fst s1) i) as [f|]; cbn [fst]; [|exact K1].
  eapply LC_trans; [exact K1|]. apply LC_with_msgs. intros w. apply (LC_run_only _ _ i). apply eu_run_only.
Qed.
Lemma level_set_op_LC s i l : LC (fst s) (fst (fst (level_set_op s i l))).
Proof.
  unfold level_set_op. destruct (get_item (fst s) i) as [it|] eqn:Hi; [|apply LC_lift_fail].
  destruct (i_level it =? l)%Z; [apply LC_refl|].
  set (s1 := lift s _).
  assert (K1 : LC (fst s) (fst s1)) by (unfold s1, lift; cbn [fst]; eapply LC_put; eauto).
  destruct (item_fit (fst s1) i); exact K1.
Qed.
Lemma LS_LC w w' : LC w w' -> same_src w w' -> LS w -> LS w'.
Proof.
  intros H Ss L. apply (LS_frame w w' L Ss). intros j jit' Gj Dj. right.
  specialize (H j). rewrite Gj in H. destruct (get_item w j) as [jit|]; cbn [option_map] in H; [|discriminate].
  assert (E : lcv jit' = lcv jit) by congruence. unfold lcv in E. exists jit. split; [reflexivity|].
  split; [unfold direct in *; assert (Ec : i_cls jit = i_cls jit') by congruence; now rewrite Ec|split; congruence].
Qed.

(* a new item lists nothing and is listed by nobody *)
Lemma CP_new_item w a c tid st lvl :
  J w -> CP w -> get_item w a = None -> CP (put_item w a (new_item c tid st lvl)).
Proof.
  intros Js (C1 & C2 & C3) Ha. set (w' := put_item w a (new_item c tid st lvl)).
  assert (Ho : forall j, j <> a -> get_item w' j = get_item w j) by (intros; now apply get_put_item_other).
  assert (Ga : get_item w' a = Some (new_item c tid st lvl)) by apply get_put_item_same'.
  assert (Keep : forall j it, get_item w j = Some it -> get_item w' j = Some it).
  { intros j it G. rewrite Ho; [exact G|]. intros ->. congruence. }
  split; [|split].
  - intros x xit y G Hc. destruct (Nat.eq_dec x a) as [->|N]; [rewrite Ga in G; injection G as <-; discriminate|].
    rewrite (Ho x N) in G. destruct (C1 x xit y G Hc) as (z & Gz & Ez). exists z. split; [now apply Keep|exact Ez].
  - intros x xit y G Hc. destruct (Nat.eq_dec x a) as [->|N]; [rewrite Ga in G; injection G as <-; destruct Hc|].
    rewrite (Ho x N) in G. destruct (C2 x xit y G Hc) as (z & Gz & Ez). exists z. split; [now apply Keep|exact Ez].
  - intros x xit G. destruct (Nat.eq_dec x a) as [->|N]; [rewrite Ga in G; injection G as <-; constructor|].
    rewrite (Ho x N) in G. now apply (C3 x xit).
Qed.

Lemma LS_new_item w a c tid st lvl : LS w -> get_item w a = None -> LS (put_item w a (new_item c tid st lvl)).
Proof.
  intros L Ha. apply (LS_frame w _ L); [apply same_src_structure; apply S_put_item|].
  intros j jit' Gj Dj. destruct (Nat.eq_dec j a) as [->|N].
  - left. rewrite get_put_item_same' in Gj. injection Gj as <-. reflexivity.
  - right. rewrite get_put_item_other in Gj by exact N. exists jit'. auto.
Qed.
(* a fit or a solar system under a new id: nobody refers to it *)
Lemma same_src_new_fit w f : get_fit w f = None -> same_src w (put_fit w f empty_fit).
Proof.
  intros Hf f'. unfold fit_source_id, fit_solsys, get_fit, put_fit. cbn [w_fits set_fits w_ss].
  destruct (Nat.eq_dec f' f) as [->|N].
  - rewrite al_get_set_same. unfold get_fit in Hf. rewrite Hf. reflexivity.
  - rewrite al_get_set_other by congruence. reflexivity.
Qed.
Lemma same_src_new_ss w x : get_ss w x = None -> same_src w (put_ss w x (mkSolsys None [])).
Proof.
  intros Hx f. unfold fit_source_id, fit_solsys, get_fit, get_ss, put_ss. cbn [w_fits set_sss w_ss].
  destruct (match al_get neqb (w_fits w) f with Some ft => f_solsys ft | None => None end) as [z|]; [|reflexivity].
  destruct (Nat.eq_dec z x) as [->|N].
  - rewrite al_get_set_same. unfold get_ss in Hx. now rewrite Hx.
  - rewrite al_get_set_other by congruence. reflexivity.
Qed.

(* ------------------------------------------------------------------ *)
(* every operation                                                      *)

Definition op_ok3 (w : world) (o : op) : Prop :=
  match o with
  | ODefSource src u =>
    let w' := set_srcs w (al_set neqb (w_srcs w) src u) in
    FLATs w' /\ forall c cit, get_item w c = Some cit -> ~ direct cit -> NAtid w' (i_tid cit)
  | ONewItem _ c tid _ _ => childcls c -> NAtid w tid
  | ONewSolsys x => get_ss w x = None
  | OCharge m _ => forall mit, get_item w m = Some mit -> direct mit
  | _ => True
  end.

Definition KINV (w : world) : Prop := CI w /\ RT [] w /\ KK w /\ FLATs w /\ CP w /\ LS w /\ SSI w /\ FSI w.
Lemma KINV_INV w : KINV w -> INV w. Proof. intros (C & R & _). now split. Qed.
Lemma KINV_KJ w : KINV w -> KJ w. Proof. intros (C & R & K & Fl & Cp & Ls & _). split; [split; [exact R|apply C]|split; [exact K|split; [exact Fl|now split]]]. Qed.

Theorem md_op_KK w o :
  KINV w -> op_ok2 w o -> op_ok3 w o -> w_err (fst (fst (md_op w o))) = None ->
  KK (fst (fst (md_op w o))) /\ FLATs (fst (fst (md_op w o))) /\ CP (fst (fst (md_op w o))) /\ LS (fst (fst (md_op w o))).
Proof.
  intros I (Hok & Hsrc) H3. pose proof (KINV_KJ w I) as KJw. pose proof KJw as (Rw & Kw & Flw & Cpw & Lsw).
  destruct I as (C & RTw & _ & _ & _ & _ & Iw & _). pose proof (CI_LD w C) as Ldw.
  assert (KJ2 : forall w', KJ w' -> KK w' /\ FLATs w' /\ CP w' /\ LS w') by (intros w' (_ & H); exact H).
  assert (KS : forall w', KK w' /\ w_srcs w' = w_srcs w -> FC w w' -> LC w w' -> structure w' = structure w ->
                          KK w' /\ FLATs w' /\ CP w' /\ LS w').
  { intros w' (H1 & H2) Hf Hl Hs. split; [exact H1|split; [now apply (FLATs_srcs w w')|split]].
    - apply (CP_same_l w w'); [now apply FC_same_l|exact Cpw].
    - apply (LS_LC w w' Hl); [now apply same_src_structure|exact Lsw]. }
  destruct o; cbn [md_op op_ok op_ok3] in *; cbn [fst].
  - (* ODefSource *) intros _. unfold lift. cbn [fst]. destruct H3 as (F3 & N3). split; [now apply KK_def_source|split; [exact F3|split]].
    + apply (CP_same_l w); [now apply same_l_items|exact Cpw].
    + apply (LS_frame w _ Lsw); [intros f0; reflexivity|]. intros j jit' Gj Dj. right. exists jit'. auto.
  - (* ONewItem *) intros _. unfold lift. cbn [fst]. destruct Hok as (Hi & _). split; [|split; [|split]].
    + apply KK_new_item; [apply C|exact Kw|exact Hi|exact H3].
    + now apply (FLATs_srcs w).
    + apply CP_new_item; [apply C|exact Cpw|exact Hi].
    + apply LS_new_item; [exact Lsw|exact Hi].
  - (* ONewFit *)
    destruct Hok as (Hf & Hc & Hlt). intros He.
    set (w1 := put_item (put_fit w f empty_fit) chr (new_item CCharacter TypeId_character_static State_offline 0)).
    assert (C1 : CI w1) by (apply CI_new_item; [now apply CI_new_fit|exact Hc|exact Hlt]).
    assert (R1 : RJ w1).
    { split; [|apply C1]. apply RT_new_item. eapply RT_same_is; [|exact RTw]. repeat split. }
    assert (K0 : KK (put_fit w f empty_fit)) by (eapply KK_same_is; [|exact Kw]; repeat split).
    assert (K1 : KK w1).
    { apply KK_new_direct; [exact K0|exact Hc|]. unfold direct. cbn. discriminate. }
    apply KJ2. apply (slot_set_op_KJ (w1, []) f SlCharacter (Some chr)); [|..|exact He].
    + split; [exact R1|split; [exact K1|split; [now apply (FLATs_srcs w)|split]]].
      * apply CP_new_item; [apply (CI_new_fit w f C Hf)|apply (CP_same_l w); [now apply same_l_items|exact Cpw]|exact Hc].
      * apply LS_new_item; [|exact Hc]. apply (LS_frame w _ Lsw); [now apply same_src_new_fit|].
        intros j jit' Gj Dj. right. exists jit'. auto.
    + intros o Ho. exact (slot_occupant_direct w1 f SlCharacter o C1 Ho).
  - (* ONewSolsys *) intros _. unfold lift. cbn [fst]. apply KJ2. eapply KJ_same_is; [|exact KJw].
    split; [repeat split|now apply same_src_new_ss].
  - intros He. apply KJ2. apply (slot_set_op_KJ (w, []) f k v KJw); [|exact He].
    intros o Ho. exact (slot_occupant_direct w f k o C Ho).
  - intros He. apply KJ2. now apply (set_add_op_KJ (w, [])).
  - intros He. apply KJ2. now apply (set_remove_op_KJ (w, [])).
  - intros He. apply KJ2. now apply (set_clear_op_KJ (w, [])).
  - intros He. apply KJ2. now apply (skill_del_op_KJ (w, [])).
  - intros He. apply KJ2. now apply (rack_append_KJ (w, [])).
  - intros He. apply KJ2. now apply (rack_insert_KJ (w, [])).
  - intros He. apply KJ2. now apply (rack_place_KJ (w, [])).
  - intros He. apply KJ2. now apply (rack_equip_KJ (w, [])).
  - intros He. apply KJ2. now apply (rack_remove_KJ (w, [])).
  - intros He. apply KJ2. now apply (rack_free_KJ (w, [])).
  - intros He. apply KJ2. now apply (rack_clear_KJ (w, [])).
  - intros He. apply KJ2. now apply (charge_set_op_KJ (w, [])).
  - intros He. apply KS; [apply (state_set_op_KK (w, [])); [apply C|exact Kw|exact He]|apply (state_set_op_FC (w, []))
                         |apply (state_set_op_LC (w, []))|apply (state_set_op_S (w, []))].
  - intros _. apply KS; [now apply (target_set_op_KK (w, []))|apply (target_set_op_FC (w, []))
                        |apply (target_set_op_LC (w, []))|apply (target_set_op_S (w, []))].
  - intros He. apply KS; [now apply (mode_set_op_KK (w, []))|apply (mode_set_op_FC (w, []))
                         |apply (mode_set_op_LC (w, []))|apply (mode_set_op_S (w, []))].
  - intros _. apply KS; [now apply (level_set_op_KK (w, []))|apply (level_set_op_FC (w, []))
                        |apply (level_set_op_LC (w, []))|apply (level_set_op_S (w, []))].
  - intros _. apply KJ2. now apply (fleet_add_op_KJ (w, [])).
  - intros _. apply KJ2. now apply (fleet_remove_op_KJ (w, [])).
  - intros _. apply KJ2. now apply (fleet_clear_op_KJ (w, [])).
  - intros He. apply KJ2. now apply (solsys_add_op_KJ (w, [])).
  - intros He. apply KJ2. now apply (solsys_remove_op_KJ (w, [])).
  - intros He. apply KJ2. now apply (solsys_clear_op_KJ (w, [])).
  - intros He. apply KJ2. now apply (source_set_op_KJ (w, [])).
  - intros _. split; [exact Kw|split; [exact Flw|split; [exact Cpw|exact Lsw]]].
  - intros _. split; [exact Kw|split; [exact Flw|split; [exact Cpw|exact Lsw]]].
  - intros _. split; [exact Kw|split; [exact Flw|split; [exact Cpw|exact Lsw]]].
  - intros _. split; [exact Kw|split; [exact Flw|split; [exact Cpw|exact Lsw]]].
Qed.

Lemma KINV_clear_err w : KINV w -> KINV (clear_err w).
Proof.
  intros (C & R & K & Fl & Cp & Ls & Ss & Fs). split; [now apply CI_clear_err|split; [|split; [|split; [|split; [|split; [|split]]]]]].
  - eapply RT_same_is; [|exact R]. repeat split.
  - eapply KK_same_is; [|exact K]. repeat split.
  - now apply (FLATs_srcs w).
  - apply (CP_same_l w); [now apply same_l_items|exact Cp].
  - apply (LS_same_isf w); [|exact Ls]. split; [repeat split|intros f; reflexivity].
  - apply (SSI_same_link w); [split; reflexivity|exact Ss].
  - apply (FSI_same_fl w); [split; reflexivity|exact Fs].
Qed.

(* a history is clean when every call respects the caller obligations (those of proofs/Runs_p.v and
   [op_ok3]) and no call ends in an internal error *)
Fixpoint ops_clean3 (x : sys) (ops : list op) : Prop :=
  match ops with
  | [] => True
  | o :: r => op_ok2 (clear_err (s_w x)) o /\ op_ok3 (clear_err (s_w x)) o /\
              w_err (s_w (fst (step x o))) = None /\ ops_clean3 (fst (step x o)) r
  end.

Theorem step_KINV x o :
  KINV (s_w x) -> op_ok2 (clear_err (s_w x)) o -> op_ok3 (clear_err (s_w x)) o ->
  w_err (s_w (fst (step x o))) = None -> KINV (s_w (fst (step x o))).
Proof.
  intros I Hok H3. apply KINV_clear_err in I. revert Hok H3. unfold step, step_ev.
  destruct (is_read o).
  - destruct (read_op _ _ o) as [d' r]. intros _ _ _. exact I.
  - intros Hok H3. pose proof (md_op_CI _ o (proj1 I) (proj1 Hok)) as C'.
    pose proof (md_op_RT _ o (KINV_INV _ I) Hok) as R'.
    pose proof (md_op_KK _ o I Hok H3) as K'.
    assert (S' : w_err (fst (fst (md_op (clear_err (s_w x)) o))) = None -> SSI (fst (fst (md_op (clear_err (s_w x)) o)))).
    { apply md_op_SSI; [apply I|]. destruct o; try exact Logic.I; [apply Hok|exact H3]. }
    assert (F' : w_err (fst (fst (md_op (clear_err (s_w x)) o))) = None -> FSI (fst (fst (md_op (clear_err (s_w x)) o)))).
    { apply md_op_FSI; [apply I|]. destruct o; try exact Logic.I. apply Hok. }
    destruct (md_op (clear_err (s_w x)) o) as [[w' evs] r]. cbn [fst s_w] in *. intros He.
    destruct (K' He) as (K1 & K2 & K3 & K4). split; [exact C'|split; [now apply R'|split; [exact K1|split; [exact K2|split; [exact K3|split; [exact K4|split; [now apply S'|now apply F']]]]]]].
Qed.

Theorem run_KINV ops : forall x, KINV (s_w x) -> ops_clean3 x ops -> KINV (s_w (run x ops)).
Proof.
  induction ops as [|o r IH]; intros x I Hc; [exact I|].
  destruct Hc as (H1 & H2 & H3 & H4). unfold run. simpl. apply IH; [now apply step_KINV|exact H4].
Qed.

Lemma KINV_empty : KINV empty_world.
Proof.
  split; [apply CI_empty|split; [|split; [|split; [|split; [|split; [|split]]]]]].
  - intros j it _ H. discriminate.
  - constructor; intros. all: match goal with H : get_item empty_world _ = Some _ |- _ => discriminate H | _ => idtac end.
    intros j it _ H. discriminate.
  - intros tid s u t H. discriminate.
  - split; [|split]; intros; match goal with H : get_item empty_world _ = Some _ |- _ => discriminate H end.
  - intros j jit src H. discriminate H.
  - apply SSI_empty.
  - apply FSI_empty.
Qed.

(* from the empty system, after any clean history: a charge or an autocharge runs
   the table's set for the state of the item that holds it; unloaded it runs nothing *)
Theorem charges_run_the_table_P pen ops :
  ops_clean3 (init_sys pen) ops ->
  let w := s_w (run (init_sys pen) ops) in
  forall c cit, get_item w c = Some cit -> ~ direct cit ->
    (i_loaded cit = None -> i_running cit = []) /\
    (i_loaded cit <> None -> forall st r, item_state w c = Some st -> expected_st w st cit = Some r ->
                             set_equiv (i_running cit) r).
Proof.
  intros H w c cit Hc D.
  pose proof (run_KINV ops (init_sys pen) KINV_empty H) as (_ & _ & K & _).
  destruct (kk_ra _ K c cit (fun x => x) Hc D) as (C1 & _ & C3). split; assumption.
Qed.

(* and holds nothing itself, is on a fit when loaded, and is listed by the item it names *)
Theorem charges_are_leaves_P pen ops :
  ops_clean3 (init_sys pen) ops ->
  let w := s_w (run (init_sys pen) ops) in
  forall c cit, get_item w c = Some cit -> ~ direct cit ->
    i_charge cit = None /\ i_autos cit = [] /\ (i_loaded cit <> None -> item_fit w c <> None).
Proof.
  intros H w c cit Hc D.
  pose proof (run_KINV ops (init_sys pen) KINV_empty H) as (_ & _ & K & _).
  destruct (kk_flat _ K c cit Hc D) as (F1 & F2). split; [exact F1|split; [exact F2|]]. now apply (kk_nl _ K c cit).
Qed.

(* ------------------------------------------------------------------ *)
(* boolean versions, evaluated by the extracted driver                  *)

Lemma al_get_some_in {K V} (eqb : K -> K -> bool) (l : list (K * V)) k v :
  al_get eqb l k = Some v -> exists k', In (k', v) l.
Proof.
  induction l as [|[k0 v0] r IH]; cbn; [discriminate|].
  destruct (eqb k k0).
  - intros H. injection H as <-. exists k0. now left.
  - intros H. destruct (IH H) as (k' & I). exists k'. now right.
Qed.

Lemma nodupb_ok {A} (eqb : A -> A -> bool) (Heq : forall x y, eqb x y = true <-> x = y) l :
  nodupb eqb l = true -> NoDup l.
Proof.
  induction l as [|x r IH]; cbn; intros H; [constructor|].
  apply andb_true_iff in H as (H1 & H2). constructor; [|now apply IH].
  intros I. apply negb_true_iff in H1. assert (M : mem eqb r x = true).
  { clear -I Heq. induction r as [|y r IH]; [destruct I|]. cbn. apply orb_true_iff.
    destruct I as [->|I]; [left; now apply Heq|right; now apply IH]. }
  congruence.
Qed.

Lemma directb_ok it : directb it = true <-> direct it.
Proof. unfold directb, direct. destruct (cr_state (class_row_of (i_cls it))); split; intros H; try discriminate; auto; try (exfalso; now apply H). Qed.

Lemma no_auto_typeb_ok u t : no_auto_typeb u t = true -> no_auto_type u t.
Proof.
  unfold no_auto_typeb, no_auto_type. intros H e ef aa I Ge Ha.
  rewrite forallb_forall in H. specialize (H e I). rewrite Ge, Ha in H.
  destruct (al_get zeqb (t_attrs t) aa); [discriminate|reflexivity].
Qed.

Lemma NAtidb_ok w tid : NAtidb w tid = true -> NAtid w tid.
Proof.
  unfold NAtidb, NAtid. intros H s u t Gu Gt. rewrite forallb_forall in H.
  destruct (al_get_some_in _ _ _ _ Gu) as (s' & I). specialize (H (s', u) I). cbn in H. rewrite Gt in H.
  now apply no_auto_typeb_ok.
Qed.

Lemma FLATsb_ok w : FLATsb w = true -> FLATs w.
Proof.
  unfold FLATsb, FLATs, auto_ok. intros H tid s u t Gu Gt. rewrite forallb_forall in H.
  destruct (al_get_some_in _ _ _ _ Gu) as (s' & I). specialize (H (s', u) I). cbn in H.
  rewrite forallb_forall in H. destruct (al_get_some_in _ _ _ _ Gt) as (tid' & It). specialize (H (tid', t) It).
  cbn in H. unfold auto_okb in H. apply andb_true_iff in H as (H1 & H2). split.
  - apply (nodupb_ok Z.eqb); [apply Z.eqb_eq|exact H1].
  - intros e ef aa q Ie Ge Ha Hq. rewrite forallb_forall in H2. specialize (H2 e Ie). rewrite Ge, Ha, Hq in H2.
    now apply NAtidb_ok.
Qed.

Lemma dir_unloadedb_ok w j : dir_unloadedb w j = true -> dir_unloaded w j.
Proof.
  unfold dir_unloadedb, dir_unloaded. intros H jit G D. rewrite G in H. apply directb_ok in D. rewrite D in H.
  destruct (i_loaded jit); [discriminate|reflexivity].
Qed.

Lemma list_okb_ok w l :
  nodupb Nat.eqb l && forallb (dir_unloadedb w) l = true -> NoDup l /\ forall j, In j l -> dir_unloaded w j.
Proof.
  intros H. apply andb_true_iff in H as (H1 & H2). split.
  - apply (nodupb_ok Nat.eqb); [apply Nat.eqb_eq|exact H1].
  - intros j I. rewrite forallb_forall in H2. now apply dir_unloadedb_ok, H2.
Qed.

Lemma onat_eqb_eq a b : onat_eqb a b = true -> a = b.
Proof. destruct a, b; cbn; try discriminate; [intros H; apply Nat.eqb_eq in H; now subst|reflexivity]. Qed.
Lemma LSb_ok w : LSb w = true -> LS w.
Proof.
  unfold LSb, LS. intros H j jit src G D El. rewrite forallb_forall in H. unfold get_item in G.
  destruct (al_get_some_in _ _ _ _ G) as (j' & I). specialize (H (j', jit) I). cbn [snd] in H.
  apply directb_ok in D. rewrite D, El in H. destruct (fit_of_place (i_cont jit)) as [f|]; [|discriminate].
  exists f. split; [reflexivity|now apply onat_eqb_eq].
Qed.

Lemma op_okb3_ok w o : op_okb3 w o = true -> op_ok3 w o.
Proof.
  destruct o; cbn [op_okb3 op_ok3]; auto.
  - intros H. apply andb_true_iff in H as (H1 & H2). split; [now apply FLATsb_ok|].
    intros c cit G D. rewrite forallb_forall in H2. unfold get_item in G.
    destruct (al_get_some_in _ _ _ _ G) as (c' & I). specialize (H2 (c', cit) I). cbn in H2.
    destruct (directb cit) eqn:E; [apply directb_ok in E; contradiction|]. now apply NAtidb_ok.
  - intros H [->| ->]; now apply NAtidb_ok.
  - intros H. destruct (get_ss w s); [discriminate|reflexivity].
  - intros H mit G. rewrite G in H. now apply directb_ok.
Qed.

Fixpoint ops_clean3b (x : sys) (ops : list op) : bool :=
  match ops with
  | [] => true
  | o :: r => op_okb2 (clear_err (s_w x)) o && op_okb3 (clear_err (s_w x)) o &&
              negb (is_some (w_err (s_w (fst (step x o))))) && ops_clean3b (fst (step x o)) r
  end.
Lemma ops_clean3b_ok ops : forall x, ops_clean3b x ops = true -> ops_clean3 x ops.
Proof.
  induction ops as [|o r IH]; intros x H; simpl in *; [exact I|].
  apply andb_true_iff in H as (H123 & H4). apply andb_true_iff in H123 as (H12 & H3).
  apply andb_true_iff in H12 as (H1 & H2).
  split; [now apply op_okb2_ok|split; [now apply op_okb3_ok|split; [|now apply IH]]].
  destruct (w_err (s_w (fst (step x o)))); [discriminate|reflexivity].
Qed.

Theorem charges_run_the_table pen ops :
  ops_clean3b (init_sys pen) ops = true ->
  let w := s_w (run (init_sys pen) ops) in
  forall c cit, get_item w c = Some cit -> ~ direct cit ->
    (i_loaded cit = None -> i_running cit = []) /\
    (i_loaded cit <> None -> forall st r, item_state w c = Some st -> expected_st w st cit = Some r ->
                             set_equiv (i_running cit) r).
Proof. intros H. apply charges_run_the_table_P. now apply ops_clean3b_ok. Qed.

Theorem charges_are_leaves pen ops :
  ops_clean3b (init_sys pen) ops = true ->
  let w := s_w (run (init_sys pen) ops) in
  forall c cit, get_item w c = Some cit -> ~ direct cit ->
    i_charge cit = None /\ i_autos cit = [] /\ (i_loaded cit <> None -> item_fit w c <> None).
Proof. intros H. apply charges_are_leaves_P. now apply ops_clean3b_ok. Qed.

(* the item containers (a module's charge slot, an item's autocharge dictionary): an item names one exactly when
   it is listed by it, no autocharge is listed twice, and an unloaded item has no autocharges *)
Theorem item_containers_consistent pen ops :
  ops_clean3b (init_sys pen) ops = true ->
  let w := s_w (run (init_sys pen) ops) in
  (forall c m, (exists cit, get_item w c = Some cit /\ i_cont cit = Some (PCharge m)) <->
               (exists mit, get_item w m = Some mit /\ i_charge mit = Some c)) /\
  (forall a m, (exists ait, get_item w a = Some ait /\ i_cont ait = Some (PAuto m)) <->
               (exists mit, get_item w m = Some mit /\ In a (map snd (i_autos mit)))) /\
  (forall m mit, get_item w m = Some mit -> NoDup (map snd (i_autos mit))) /\
  (forall i it, get_item w i = Some it -> i_loaded it = None -> i_autos it = []).
Proof.
  intros H w.
  pose proof (run_KINV ops (init_sys pen) KINV_empty (ops_clean3b_ok ops _ H)) as (_ & _ & K & _ & (C1 & C2 & C3) & _).
  split; [|split; [|split; [exact C3|exact (kk_au _ K)]]].
  - intros c m. split.
    + intros (cit & G & E). exact (proj1 (kk_pc _ K c cit m G) E).
    + intros (mit & G & E). exact (C1 m mit c G E).
  - intros a m. split.
    + intros (ait & G & E). exact (proj2 (kk_pc _ K a ait m G) E).
    + intros (mit & G & E). exact (C2 m mit a G E).
Qed.

(* C14, base layer: after every clean history a directly held item that is loaded is in a container of a fit
   and is loaded from the source the solar system of that fit has NOW -- nothing stays loaded from a source that
   was switched away, from a solar system the fit has left, or after the item left its fit. (At a source switch
   the hypothesis op_okb3 includes this statement for the moment between unloading and reloading; everywhere
   else it is proved outright.) *)
Theorem loaded_from_current_source pen ops :
  ops_clean3b (init_sys pen) ops = true ->
  let w := s_w (run (init_sys pen) ops) in
  forall j jit src, get_item w j = Some jit -> direct jit -> i_loaded jit = Some src ->
    exists f, fit_of_place (i_cont jit) = Some f /\ fit_source_id w f = Some src.
Proof.
  intros H w. pose proof (run_KINV ops (init_sys pen) KINV_empty (ops_clean3b_ok ops _ H)) as (_ & _ & _ & _ & _ & L & _).
  exact L.
Qed.

(* the two sides of "fit f is in solar system x" agree, and no solar system lists a fit twice -- after every
   history without internal error in which new fits and new solar systems get unused ids *)
Theorem solar_system_links_consistent pen ops :
  ops_clean3b (init_sys pen) ops = true ->
  let w := s_w (run (init_sys pen) ops) in
  (forall f x, fit_solsys w f = Some x <-> In f (ss_fit_list w x)) /\ (forall x, NoDup (ss_fit_list w x)).
Proof.
  intros H w. pose proof (run_KINV ops (init_sys pen) KINV_empty (ops_clean3b_ok ops _ H)) as (_ & _ & _ & _ & _ & _ & S & _).
  exact S.
Qed.

(* ... and the same for fleets *)
Theorem fleet_links_consistent pen ops :
  ops_clean3b (init_sys pen) ops = true ->
  let w := s_w (run (init_sys pen) ops) in
  (forall f fl, fit_fleet w f = Some fl <-> In f (fleet_fits w fl)) /\ (forall fl, NoDup (fleet_fits w fl)).
Proof.
  intros H w. pose proof (run_KINV ops (init_sys pen) KINV_empty (ops_clean3b_ok ops _ H)) as (_ & _ & _ & _ & _ & _ & _ & S).
  exact S.
Qed.

(* C05 for every item of the model in one statement: an unloaded item runs nothing; a loaded item runs exactly
   the decision table's set for its effective state -- its own state when it is held directly, the state of the
   item that holds it when it is a charge or an autocharge -- its run modes and its type *)
Theorem every_item_runs_the_table pen ops :
  ops_clean3b (init_sys pen) ops = true ->
  let w := s_w (run (init_sys pen) ops) in
  forall i it, get_item w i = Some it ->
    (i_loaded it = None -> i_running it = []) /\
    (i_loaded it <> None -> forall st r, item_state w i = Some st -> expected_st w st it = Some r ->
                            set_equiv (i_running it) r).
Proof.
  intros H w i it Hi.
  pose proof (run_KINV ops (init_sys pen) KINV_empty (ops_clean3b_ok ops _ H)) as (_ & R & K & _).
  destruct (direct_dec it) as [D|D].
  - destruct (R i it (fun x => x) Hi D) as (C1 & _ & _ & _ & C5). split; [exact C1|].
    intros Hl st r Hst Hr. rewrite (item_state_direct w i it Hi D) in Hst. injection Hst as <-.
    apply (C5 Hl r). exact Hr.
  - destruct (kk_ra _ K i it (fun x => x) Hi D) as (C1 & _ & C3). split; assumption.
Qed.
