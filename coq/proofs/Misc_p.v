(* Smaller engine facts used by C08, C09, C10, C11. *)
From Coq Require Import ZArith QArith List Bool Lia Permutation.
From EosV Require Import lib.AList gen.T_eos model.World model.Status model.Calc model.Engine model.Ops
     proofs.AList_p.
Import ListNotations.

Opaque add_item remove_item load unload publish read_attr.

(* ------------------------------------------------------------------ *)
(* C09: reads work on the derived state only                            *)

Lemma read_step_keeps_world x o :
  is_read o = true -> s_w (fst (step x o)) = clear_err (s_w x).
Proof.
  intros H. unfold step, step_ev. rewrite H.
  destruct (read_op _ _ o). reflexivity.
Qed.

Lemma read_step_publishes_nothing x o :
  is_read o = true -> snd (step_ev x o) = [].
Proof.
  intros H. unfold step_ev. rewrite H. destruct (read_op _ _ o). reflexivity.
Qed.

(* ------------------------------------------------------------------ *)
(* C10: which exceptions each container call can produce                *)

Definition exn_in (l : list exn) (r : res) : Prop :=
  match r with RExn x => In x l | _ => True end.

Lemma rack_append_exn s f k i : exn_in [XType; XValue] (snd (rack_append s f k i)).
Proof.
  unfold rack_append. destruct (cls_of _ i); [|simpl; auto].
  destruct (rack_accepts k i0); cbn [negb]; [|simpl; auto].
  destruct (has_container _ i); simpl; auto.
Qed.

Lemma rack_insert_exn s f k idx v : exn_in [XType; XValue] (snd (rack_insert s f k idx v)).
Proof.
  unfold rack_insert. match goal with |- context[negb ?b] => destruct b end; cbn [negb]; [|simpl; auto].
  destruct v as [i|]; [|simpl; auto]. destruct (has_container _ i); simpl; auto.
Qed.

Ltac split_all :=
  repeat match goal with
         | |- context[match ?x with _ => _ end] => destruct x
         | |- context[if ?x then _ else _] => destruct x
         end.

Lemma rack_place_exn s f k idx i : exn_in [XType; XValue; XSlotTaken; XIndex] (snd (rack_place s f k idx i)).
Proof. unfold rack_place. split_all; cbn [snd exn_in In]; auto 6. Qed.

Lemma rack_equip_exn s f k i : exn_in [XType; XValue] (snd (rack_equip s f k i)).
Proof.
  unfold rack_equip. destruct (cls_of _ i); [|simpl; auto].
  destruct (rack_accepts k i0); cbn [negb]; [|simpl; auto].
  destruct (equip_list _ i). destruct (has_container _ i); simpl; auto.
Qed.

Lemma rack_locate_exn l a x : rack_locate l a = inr x -> In x [XValue; XIndex].
Proof.
  unfold rack_locate. destruct a as [v|idx].
  - destruct (find_index _ l); intros [= <-]. simpl; auto.
  - destruct (norm_index _ idx) as [n|]; [destruct (nth_error l n)|]; intros [= <-]; simpl; auto.
Qed.

Lemma rack_remove_exn s f k a : exn_in [XValue; XIndex] (snd (rack_remove s f k a)).
Proof.
  unfold rack_remove. destruct (rack_locate _ a) as [[n v]|x] eqn:E; [simpl; exact I|].
  simpl. eapply rack_locate_exn; eauto.
Qed.

Lemma rack_free_exn s f k a : exn_in [XValue; XIndex] (snd (rack_free s f k a)).
Proof.
  unfold rack_free. destruct (rack_locate _ a) as [[n [i|]]|x] eqn:E; try (simpl; exact I).
  simpl. eapply rack_locate_exn; eauto.
Qed.

Lemma itemset_add_exn s f k i : exn_in [XType; XValue] (snd (itemset_add s f k i)).
Proof.
  unfold itemset_add. destruct (cls_of _ i); [|simpl; auto].
  destruct (set_accepts k i0); cbn [negb]; [|simpl; auto].
  destruct (has_container _ i); simpl; auto.
Qed.

Lemma set_remove_exn s f k i : exn_in [XKey] (snd (set_remove_op s f k i)).
Proof.
  unfold set_remove_op. destruct (mem neqb _ i); cbn [negb]; [|simpl; auto].
  destruct k; try (simpl; exact I).
  match goal with |- context[get_item ?w i] => destruct (get_item w i) end; simpl; exact I.
Qed.

Lemma fleet_add_exn s fl f : exn_in [XValue] (snd (fleet_add_op s fl f)).
Proof. unfold fleet_add_op. destruct (fit_fleet _ f); simpl; auto. Qed.
Lemma fleet_remove_exn s fl f : exn_in [XKey] (snd (fleet_remove_op s fl f)).
Proof. unfold fleet_remove_op. destruct (mem neqb _ f); simpl; auto. Qed.
Lemma solsys_add_exn s x f : exn_in [XValue] (snd (solsys_add_op s x f)).
Proof. unfold solsys_add_op. destruct (fit_solsys _ f); simpl; auto. Qed.
Lemma solsys_remove_exn s x f : exn_in [XKey] (snd (solsys_remove_op s x f)).
Proof. unfold solsys_remove_op. destruct (mem neqb _ f); simpl; auto. Qed.

(* a failed partial operation of either layer is always reported as Internal *)
Lemma step_reports_md_failure x o e :
  w_err (s_w (fst (step x o))) = Some e -> snd (step x o) = RExn (XInternal e).
Proof.
  unfold step, step_ev. destruct (is_read o).
  - destruct (read_op (clear_err (s_w x)) (d_clear (s_d x)) o) as [d' r]. simpl. intros H. discriminate H.
  - destruct (md_op (clear_err (s_w x)) o) as [[w' evs] r]. simpl. intros H. now rewrite H.
Qed.

Lemma step_reports_service_failure x o e :
  w_err (s_w (fst (step x o))) = None -> d_err (s_d (fst (step x o))) = Some e ->
  snd (step x o) = RExn (XInternal e).
Proof.
  unfold step, step_ev. destruct (is_read o).
  - destruct (read_op (clear_err (s_w x)) (d_clear (s_d x)) o) as [d' r]. simpl. intros _ H2.
    now rewrite H2.
  - destruct (md_op (clear_err (s_w x)) o) as [[w' evs] r]. simpl. intros H1 H2.
    now rewrite H1, H2.
Qed.

(* ------------------------------------------------------------------ *)
(* C11: symmetric register / unregister restores a keyed storage exactly *)

Section KSnat.
  Context {V : Type} (veqb : V -> V -> bool).
  Hypothesis veqb_spec : forall a b, veqb a b = true <-> a = b.

  Lemma vmem_In l x : mem veqb l x = true <-> In x l.
  Proof.
    induction l as [|y r IH]; simpl; [split; [discriminate|tauto]|].
    rewrite orb_true_iff, IH, veqb_spec. split; intros [H|H]; auto.
  Qed.

  Lemma vset_rm_add_absent l x : mem veqb l x = false -> set_rm veqb (set_add veqb l x) x = l.
  Proof.
    unfold set_add. intros H. rewrite H.
    induction l as [|y r IH]; simpl.
    - assert (veqb x x = true) by (apply veqb_spec; reflexivity). now rewrite H0.
    - simpl in H. apply orb_false_iff in H. destruct H as [H1 H2]. rewrite H1. f_equal. auto.
  Qed.

  (* a fresh entry registered and then unregistered leaves the storage as it was,
     including the disappearance of a key created for it *)
  Theorem ks_unregister_register (s : list (nat * list V)) k v :
    (forall l, al_get neqb s k = Some l -> l <> [] /\ mem veqb l v = false) ->
    ks_rm_entry neqb veqb (ks_add_entry neqb veqb s k v) k v = s.
  Proof.
    intros H. unfold ks_add_entry, ks_rm_entry.
    destruct (al_get neqb s k) as [l|] eqn:E.
    - destruct (H l eq_refl) as [Hne Hm].
      unfold neqb in *. rewrite al_get_set_same. rewrite vset_rm_add_absent by exact Hm.
      destruct l as [|a r]; [congruence|]. rewrite al_set_set. now apply al_set_get_id.
    - unfold neqb in *. rewrite al_get_set_same. simpl.
      assert (veqb v v = true) by (apply veqb_spec; reflexivity). rewrite H0.
      clear H. induction s as [|[k0 v0] r IH]; simpl in *.
      + now rewrite Nat.eqb_refl.
      + destruct (Nat.eqb k k0) eqn:Ek; [discriminate|]. simpl. rewrite Ek. f_equal. auto.
  Qed.
End KSnat.

(* ------------------------------------------------------------------ *)
(* C08: subscribers that keep separate state and never publish can be
   notified in any order                                                *)

Section Subscribers.
  Context {M A B : Type} (f : A -> M -> A) (g : B -> M -> B).

  (* deliver every message first to f then to g, or first to g then to f *)
  Definition deliver_fg (s : A * B) (m : M) : A * B := (f (fst s) m, g (snd s) m).
  Definition deliver_gf (s : A * B) (m : M) : A * B :=
    let b := g (snd s) m in let a := f (fst s) m in (a, b).

  Lemma order_irrelevant_per_message s m : deliver_fg s m = deliver_gf s m.
  Proof. reflexivity. Qed.

  (* any per-message choice of order gives the component-wise folds *)
  Theorem independent_subscribers (choice : M -> bool) msgs s :
    fold_left (fun s m => if choice m then deliver_fg s m else deliver_gf s m) msgs s
    = (fold_left f msgs (fst s), fold_left g msgs (snd s)).
  Proof.
    revert s. induction msgs as [|m r IH]; intros [a b]; simpl; [reflexivity|].
    destruct (choice m); rewrite IH; reflexivity.
  Qed.
End Subscribers.

(* ------------------------------------------------------------------ *)
(* the base world evolves independently of everything the services derive:
   caches, registers, and therefore of which values were read on the way  *)

Lemma world_independent_of_derived x x' o :
  s_w x = s_w x' -> is_read o = false ->
  s_w (fst (step x o)) = s_w (fst (step x' o)) /\ snd (step_ev x o) = snd (step_ev x' o).
Proof.
  intros E H. unfold step, step_ev. rewrite H, E.
  destruct (md_op (clear_err (s_w x')) o) as [[w' evs] r]. split; reflexivity.
Qed.

(* ------------------------------------------------------------------ *)
(* C14 / C13 small facts on the base layer                              *)

Lemma get_upd_item_same w i g it : get_item (upd_item w i g) i = Some it ->
  exists it0, get_item w i = Some it0 /\ it = g it0.
Proof.
  unfold upd_item. destruct (get_item w i) as [it0|] eqn:E.
  - unfold get_item, put_item. simpl. unfold neqb. rewrite al_get_set_same. intros [= <-]. eauto.
  - unfold fail. destruct (w_err w); simpl; unfold get_item in *; simpl; congruence.
Qed.

Lemma source_same_noop s x new y :
  get_ss (fst s) x = Some y -> onat_eqb (ss_source y) new = true -> source_set_op s x new = (s, ROk).
Proof. intros H E. unfold source_set_op. now rewrite H, E. Qed.

Lemma target_same_noop s i new it :
  get_item (fst s) i = Some it -> onat_eqb (i_target it) new = true -> target_set_op s i new = (s, ROk).
Proof. intros H E. unfold target_set_op. now rewrite H, E. Qed.

Lemma state_same_noop s i st it :
  get_item (fst s) i = Some it -> i_state it = st -> state_set_op s i st = (s, ROk).
Proof. intros H E. unfold state_set_op. rewrite H, E, Z.eqb_refl. reflexivity. Qed.

(* re-targeting unapplies from the old target before applying to the new one,
   and publishes nothing else *)
Lemma retarget_events w i it f old new pe :
  get_item w i = Some it -> i_target it = Some old -> old <> new -> item_fit w i = Some f ->
  fold_right (fun e acc =>
                match acc, item_effect w it e with
                | Some l, Some ef => if Z.eqb (e_cat ef) EffectCategoryId_target then Some (e :: l) else Some l
                | _, _ => None
                end) (Some []) (i_running it) = Some pe ->
  exists w1 w2,
    snd (fst (target_set_op (w, []) i (Some new))) =
    [EvPublish w1 f (map (fun e => MEffectUnapplied i e [Some old] false) pe);
     EvPublish w2 f (map (fun e => MEffectApplied i e [Some new]) pe)].
Proof.
  intros Hi Ht Hne Hf Hp. unfold target_set_op. cbn [fst]. rewrite Hi, Ht.
  assert (E : onat_eqb (Some old) (Some new) = false).
  { simpl. apply Nat.eqb_neq. exact Hne. }
  rewrite E, Hf, Hp. unfold emit_always, lift. cbn [fst snd app]. eauto.
Qed.

