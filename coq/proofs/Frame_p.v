(* Frame lemmas of the message-discipline layer: composing messages, loading
   and unloading never touch the containers of fits, solar-system membership,
   fleets or sources. (That handlers cannot touch them is typed: publication
   works on [derived] only.) *)
From Coq Require Import ZArith QArith List Bool Lia.
From EosV Require Import lib.AList gen.T_eos model.World model.Status model.Calc model.Engine model.Ops.
Import ListNotations.

Definition structure (w : world) := (w_fits w, w_ss w, w_fleets w, w_srcs w).

Lemma S_put_item w i it : structure (put_item w i it) = structure w.
Proof. reflexivity. Qed.
Lemma S_fail w e : structure (fail w e) = structure w.
Proof. unfold fail. destruct (w_err w); reflexivity. Qed.
Lemma S_upd_item w i g : structure (upd_item w i g) = structure w.
Proof. unfold upd_item. destruct (get_item w i); [apply S_put_item|apply S_fail]. Qed.
Lemma S_set_next w n : structure (set_next w n) = structure w.
Proof. reflexivity. Qed.
Lemma S_clear_err w : structure (clear_err w) = structure w.
Proof. reflexivity. Qed.

Ltac crush_S :=
  repeat (rewrite ?S_put_item, ?S_fail, ?S_upd_item, ?S_set_next; simpl fst);
  try reflexivity.

Ltac destruct_matches :=
  repeat match goal with
         | |- context[match ?x with _ => _ end] => destruct x eqn:?
         | |- context[if ?x then _ else _] => destruct x eqn:?
         | |- context[let (_, _) := ?x in _] => destruct x eqn:?
         end.

Lemma S_effects_update w i : structure (fst (effects_update w i)) = structure w.
Proof.
  unfold effects_update.
  destruct (get_item w i) as [it|]; [|apply S_fail].
  destruct (item_state w i) as [st|]; [|apply S_fail].
  destruct (resolve_effects _ _ _ _ _) as [statuses|]; [|apply S_fail].
  match goal with |- context[let (_, _) := ?X in _] => set (X0 := X) end.
  assert (HX : structure (fst X0) = structure w).
  { subst X0. destruct (set_diff zeqb _ (i_running it)); [reflexivity|].
    destruct (effects_tgts _ _ _); simpl fst; crush_S. }
  destruct X0 as [w0 m1]. simpl in HX.
  destruct (set_diff zeqb (i_running it) _); [exact HX|].
  destruct (get_item w0 i); [|simpl fst; now rewrite S_fail].
  destruct (effects_tgts _ _ _); simpl fst; rewrite ?S_put_item, ?S_fail; exact HX.
Qed.

Lemma S_item_added_msgs w i : structure (fst (item_added_msgs w i)) = structure w.
Proof. unfold item_added_msgs. destruct_matches; simpl fst; crush_S. Qed.
Lemma S_item_removed_msgs w i : structure (fst (item_removed_msgs w i)) = structure w.
Proof. unfold item_removed_msgs. destruct_matches; simpl fst; crush_S. Qed.
Lemma S_item_loaded_msgs w i : structure (fst (item_loaded_msgs w i)) = structure w.
Proof.
  unfold item_loaded_msgs. destruct (item_state w i); [|simpl; apply S_fail].
  pose proof (S_effects_update w i) as H. destruct (effects_update w i). exact H.
Qed.
Lemma S_item_unloaded_msgs w i : structure (fst (item_unloaded_msgs w i)) = structure w.
Proof.
  unfold item_unloaded_msgs.
  destruct (get_item w i) as [it|]; [|apply S_fail].
  match goal with |- context[let (_, _) := ?X in _] => set (X0 := X) end.
  assert (HX : structure (fst X0) = structure w).
  { subst X0. destruct (i_running it); [reflexivity|].
    destruct (effects_tgts _ _ _); simpl fst; crush_S. }
  destruct X0 as [w0 m1]. simpl in HX.
  destruct (item_state w0 i); simpl fst; rewrite ?S_fail; exact HX.
Qed.
Lemma S_state_update_msgs w i a b : structure (fst (state_update_msgs w i a b)) = structure w.
Proof.
  unfold state_update_msgs. destruct (is_loaded w i); [|reflexivity].
  pose proof (S_effects_update w i) as H. destruct (effects_update w i). exact H.
Qed.

Lemma S_lift (s : st) g : (forall w, structure (g w) = structure w) ->
  structure (fst (lift s g)) = structure (fst s).
Proof. intros H. unfold lift. simpl. apply H. Qed.

Lemma S_with_msgs (s : st) f g : (forall w, structure (fst (g w)) = structure w) ->
  structure (fst (with_msgs s f g)) = structure (fst s).
Proof.
  intros H. unfold with_msgs. specialize (H (fst s)). destruct (g (fst s)). simpl in *. exact H.
Qed.

Lemma S_fold {A} (f : st -> A -> st) l :
  (forall s x, structure (fst (f s x)) = structure (fst s)) ->
  forall s, structure (fst (fold_left f l s)) = structure (fst s).
Proof.
  intros H. induction l as [|x r IH]; intros s; simpl; [reflexivity|].
  rewrite IH. apply H.
Qed.

Lemma S_load_add n :
  (forall s i, structure (fst (load n s i)) = structure (fst s)) /\
  (forall s i p, structure (fst (add_item n s i p)) = structure (fst s)).
Proof.
  induction n as [|n [IHl IHa]]; split; intros.
  - simpl. apply S_fail.
  - simpl. apply S_fail.
  - cbn [load].
    destruct (get_item (fst s) i) as [it|]; [|apply S_lift; intros; apply S_fail].
    destruct (item_fit (fst s) i) as [f|]; [|reflexivity].
    destruct (fit_source_id (fst s) f) as [src|]; [|reflexivity].
    destruct (match get_src (fst s) src with Some u => get_type u (i_tid it) | None => None end) as [t|];
      [|reflexivity].
    set (s1 := lift s _). set (s2 := with_msgs s1 f _).
    assert (E2 : structure (fst s2) = structure (fst s)).
    { subst s2. rewrite S_with_msgs by (intros; apply S_item_loaded_msgs).
      subst s1. apply S_lift. intros; apply S_put_item. }
    destruct (get_item (fst s2) i) as [it2|]; [|rewrite S_lift by (intros; apply S_fail); exact E2].
    rewrite S_fold; [exact E2|].
    intros s' ee. destruct (e_autocharge_attr (snd ee)); [|reflexivity].
    destruct (al_get zeqb (t_attrs t) z); [|reflexivity].
    rewrite IHa. apply S_lift. intros w.
    now rewrite S_upd_item, S_put_item, S_set_next.
  - cbn [add_item].
    set (s1 := lift s _).
    assert (E1 : structure (fst s1) = structure (fst s)) by (apply S_lift; intros; apply S_upd_item).
    destruct (item_fit (fst s1) i) as [f|]; [|exact E1].
    set (one := fun s0 sub => load n (with_msgs s0 f (fun w => item_added_msgs w sub)) sub).
    assert (Hone : forall s0 sub, structure (fst (one s0 sub)) = structure (fst s0)).
    { intros. unfold one. rewrite IHl. apply S_with_msgs. intros; apply S_item_added_msgs. }
    change (load n (with_msgs s1 f (fun w : world => item_added_msgs w i)) i) with (one s1 i).
    destruct (get_item (fst (one s1 i)) i).
    + rewrite S_fold by exact Hone. now rewrite Hone.
    + rewrite S_lift by (intros; apply S_fail). now rewrite Hone.
Qed.

Lemma S_unload_remove n :
  (forall s i, structure (fst (unload n s i)) = structure (fst s)) /\
  (forall s i, structure (fst (remove_item n s i)) = structure (fst s)).
Proof.
  induction n as [|n [IHu IHr]]; split; intros.
  - simpl. apply S_fail.
  - simpl. apply S_fail.
  - cbn [unload].
    destruct (get_item (fst s) i) as [it|]; [|apply S_lift; intros; apply S_fail].
    set (s1 := match item_fit (fst s) i, i_loaded it with
               | Some f, Some _ => with_msgs s f (fun w => item_unloaded_msgs w i)
               | _, _ => s end).
    assert (E1 : structure (fst s1) = structure (fst s)).
    { subst s1. destruct (item_fit (fst s) i), (i_loaded it); try reflexivity.
      apply S_with_msgs. intros; apply S_item_unloaded_msgs. }
    rewrite S_lift by (intros; apply S_upd_item).
    cbn [fst].
    destruct (get_item (fst s1) i) as [it1|].
    + rewrite S_lift by (intros; apply S_upd_item).
      rewrite S_fold by (intros; apply IHr). exact E1.
    + rewrite S_lift by (intros; apply S_fail). exact E1.
  - cbn [remove_item].
    set (one := fun s0 sub =>
                  match item_fit (fst s) i with
                  | Some f => with_msgs (unload n s0 sub) f (fun w => item_removed_msgs w sub)
                  | None => unload n s0 sub end).
    assert (Hone : forall s0 sub, structure (fst (one s0 sub)) = structure (fst s0)).
    { intros. unfold one. destruct (item_fit (fst s) i).
      - rewrite S_with_msgs by (intros; apply S_item_removed_msgs). apply IHu.
      - apply IHu. }
    rewrite S_lift by (intros; apply S_upd_item).
    change (match item_fit (fst s) i with
            | Some f => with_msgs (unload n s i) f (fun w : world => item_removed_msgs w i)
            | None => unload n s i end) with (one s i).
    destruct (get_item (fst (one s i)) i).
    + rewrite S_fold by exact Hone. apply Hone.
    + rewrite S_lift by (intros; apply S_fail). apply Hone.
Qed.

Lemma S_add_item n s i p : structure (fst (add_item n s i p)) = structure (fst s).
Proof. apply S_load_add. Qed.
Lemma S_load n s i : structure (fst (load n s i)) = structure (fst s).
Proof. apply S_load_add. Qed.
Lemma S_remove_item n s i : structure (fst (remove_item n s i)) = structure (fst s).
Proof. apply S_unload_remove. Qed.
Lemma S_unload n s i : structure (fst (unload n s i)) = structure (fst s).
Proof. apply S_unload_remove. Qed.

(* consequence used everywhere: racks, sets and slots of every fit are untouched *)
Lemma fits_add_item n s i p : w_fits (fst (add_item n s i p)) = w_fits (fst s).
Proof. pose proof (S_add_item n s i p) as H. unfold structure in H. congruence. Qed.
Lemma fits_remove_item n s i : w_fits (fst (remove_item n s i)) = w_fits (fst s).
Proof. pose proof (S_remove_item n s i) as H. unfold structure in H. congruence. Qed.
