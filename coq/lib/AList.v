(* Association lists, list-sets and keyed storages (Python dict / set /
   eos.util.keyed_storage.KeyedStorage) with explicit equality tests.
   Insertion order is kept, as in a Python dict. *)
From Coq Require Import List Bool.
Import ListNotations.

Section AL.
  Context {K V : Type} (eqb : K -> K -> bool).

  Fixpoint al_get (l : list (K * V)) (k : K) : option V :=
    match l with
    | [] => None
    | (k', v) :: r => if eqb k k' then Some v else al_get r k
    end.

  Definition al_mem (l : list (K * V)) (k : K) : bool :=
    match al_get l k with Some _ => true | None => false end.

  Fixpoint al_set (l : list (K * V)) (k : K) (v : V) : list (K * V) :=
    match l with
    | [] => [(k, v)]
    | (k', v') :: r => if eqb k k' then (k', v) :: r else (k', v') :: al_set r k v
    end.

  Fixpoint al_del (l : list (K * V)) (k : K) : list (K * V) :=
    match l with
    | [] => []
    | (k', v') :: r => if eqb k k' then r else (k', v') :: al_del r k
    end.

  Definition al_keys (l : list (K * V)) : list K := map fst l.
End AL.

Section SET.
  Context {A : Type} (eqb : A -> A -> bool).

  Fixpoint mem (l : list A) (x : A) : bool :=
    match l with [] => false | y :: r => eqb x y || mem r x end.

  Definition set_add (l : list A) (x : A) : list A :=
    if mem l x then l else l ++ [x].

  Fixpoint set_rm (l : list A) (x : A) : list A :=
    match l with [] => [] | y :: r => if eqb x y then r else y :: set_rm r x end.

  Definition set_union (l m : list A) : list A := fold_left set_add m l.

  Definition set_diff (l m : list A) : list A :=
    filter (fun x => negb (mem m x)) l.

  Definition set_inter (l m : list A) : list A :=
    filter (fun x => mem m x) l.

  Fixpoint dedup (l : list A) : list A :=
    match l with [] => [] | x :: r => if mem r x then dedup r else x :: dedup r end.
End SET.

Section KS.
  Context {K V : Type} (keqb : K -> K -> bool) (veqb : V -> V -> bool).
  Definition ks := list (K * list V).

  Definition ks_get (s : ks) (k : K) : list V :=
    match al_get keqb s k with Some l => l | None => [] end.

  Definition ks_has (s : ks) (k : K) : bool := al_mem keqb s k.

  Definition ks_add_entry (s : ks) (k : K) (v : V) : ks :=
    match al_get keqb s k with
    | Some l => al_set keqb s k (set_add veqb l v)
    | None => al_set keqb s k [v]
    end.

  Definition ks_rm_entry (s : ks) (k : K) (v : V) : ks :=
    match al_get keqb s k with
    | None => s
    | Some l => match set_rm veqb l v with
                | [] => al_del keqb s k
                | l' => al_set keqb s k l'
                end
    end.

  (* add_data_set creates the key even for an empty set (set(data_set)) *)
  Definition ks_add_set (s : ks) (k : K) (vs : list V) : ks :=
    match al_get keqb s k with
    | Some l => al_set keqb s k (set_union veqb l vs)
    | None => al_set keqb s k (dedup veqb vs)
    end.

  Definition ks_rm_set (s : ks) (k : K) (vs : list V) : ks :=
    match al_get keqb s k with
    | None => s
    | Some l => match set_diff veqb l vs with
                | [] => al_del keqb s k
                | l' => al_set keqb s k l'
                end
    end.

  Definition ks_del (s : ks) (k : K) : ks := al_del keqb s k.
End KS.

Fixpoint find_index {A} (p : A -> bool) (l : list A) : option nat :=
  match l with
  | [] => None
  | x :: r => if p x then Some 0 else option_map S (find_index p r)
  end.

Fixpoint list_set {A} (l : list A) (n : nat) (x : A) : list A :=
  match l, n with
  | [], _ => []
  | _ :: r, 0 => x :: r
  | y :: r, S n => y :: list_set r n x
  end.

Fixpoint list_del {A} (l : list A) (n : nat) : list A :=
  match l, n with
  | [], _ => []
  | _ :: r, 0 => r
  | y :: r, S n => y :: list_del r n
  end.

Fixpoint list_ins {A} (l : list A) (n : nat) (x : A) : list A :=
  match n, l with
  | 0, _ => x :: l
  | S n, [] => [x]
  | S n, y :: r => y :: list_ins r n x
  end.
