From Coq Require Import ZArith QArith ExtrOcamlBasic.
From EosV Require Import model.World model.Status model.Calc model.Engine model.Ops model.Restrictions.
Extraction Language OCaml.
Extraction "extract/out/restr.ml" xstep xinit xvalidate mkUniverse mkAttr mkMod mkEffect mkType mkBuff
  attr_keys item_fit item_state get_icache calc_of fr_get rr_get all_rids rid_num.
