From Coq Require Import QArith ExtrOcamlBasic.
From EosV Require Import model.Range.
Extraction Language OCaml.
Extraction "extract/out/range.ml" ctc_sq sts mkRItem mkCoord.
