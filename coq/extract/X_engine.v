From Coq Require Import ZArith QArith ExtrOcamlBasic.
From EosV Require Import model.World model.Status model.Calc model.Engine model.Ops.
Extraction Language OCaml.
Extraction "extract/out/engine.ml" step empty_world mkUniverse mkAttr mkMod mkEffect mkType mkBuff
  attr_keys item_fit item_state solsys_carrier fit_items w_items w_fits w_ss w_fleets w_trace.
