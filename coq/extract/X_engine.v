From Coq Require Import ZArith QArith ExtrOcamlBasic.
From EosV Require Import model.World model.Status model.Calc model.Engine model.Ops model.Spec model.Switches model.Wf.
Extraction Language OCaml.
Extraction "extract/out/engine.ml" step init_sys mkUniverse mkAttr mkMod mkEffect mkType mkBuff
  attr_keys item_fit item_state solsys_carrier fit_items get_icache calc_of spec_value spec_val side_effects abilities ability_set_mode side_effect_mode op_ok_now op_ok2_now op_ok3_now.
