From Coq Require Import ZArith QArith List String ExtrOcamlBasic.
From EosV Require Import gen.T_builder model.Builder.
Extraction Language OCaml.
Extraction "extract/out/builder.ml" run cleaned gen_tables.
