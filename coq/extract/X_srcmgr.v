(* Extraction of the source-manager model for the C17 correspondence.
   data = objs = nat (the scale of the counting data handler's tables; the
   builder is the identity on it).  [XReopen] is glue: a new handler object
   opened on the file of another one (C16: complete or empty). *)
From Coq Require Import List String Bool Arith ExtrOcamlBasic.
From EosV Require Import model.CacheCodec model.SourceMgr gen.T_srcmgr.
Import ListNotations.

Inductive xop : Type :=
| XOp (o : op nat)
| XReopen (hnew hsrc : nat).

Definition x_step (engine : string) (st : mstate nat) (o : xop) : mstate nat * option (obs) :=
  match o with
  | XOp o' => let (st', b) := step nat nat (fun d => d) engine gen_mgr st o' in (st', Some b)
  | XReopen hn hs =>
    (mkM nat (ms_sources _ st) (ms_default _ st)
         (set_h nat (ms_handlers _ st) hn (ch_reopen nat (get_h nat (ms_handlers _ st) hs)))
         (ms_builds _ st), None)
  end.

Fixpoint x_run (engine : string) (st : mstate nat) (ops : list xop)
  : list (option obs * mstate nat) :=
  match ops with
  | [] => []
  | o :: r => let (st', b) := x_step engine st o in (b, st') :: x_run engine st' r
  end.

Definition x_init (hs : list (nat * chandler nat)) : mstate nat := mkM nat [] None hs 0.
Definition x_get_h (st : mstate nat) (h : nat) : chandler nat := get_h nat (ms_handlers _ st) h.

Extraction Language OCaml.
Extraction "extract/out/srcmgr.ml" x_run x_init x_get_h mkCH mkDH.
