From Coq Require Import ZArith QArith String ExtrOcamlBasic.
From EosV Require Import model.ModInfoTypes model.ModInfo.
Extraction Language OCaml.
Extraction "extract/out/modinfo.ml" build convert int_of_str.
