From Coq Require Import QArith ExtrOcamlBasic.
From EosV Require Import model.Rah gen.T_rah.
Extraction Language OCaml.
Extraction "extract/out/rah.ml" rah_read run_sim calc_ship sig_round next_resos
  mkH mkProfile mk4 gen_MAX_SIMULATION_TICKS gen_SIG_DIGITS.
