(* Extraction of the cache-handler model for the C15/C16 correspondence.
   Glue only (not used by any theorem): a neutral object notation
   J -> objs, the memory state as a J tree, and the commands of the driver.
   The customisation functions are instantiated with the identity; the
   harness keeps the customised effect/type ids out of the model-compared
   stream. *)
From Coq Require Import ZArith QArith List String Bool ExtrOcamlBasic.
From EosV Require Import model.CacheCodec gen.T_cache.
Import ListNotations.
Local Open Scope string_scope.
Local Open Scope list_scope.

Definition omap {A B} (f : A -> option B) : list A -> option (list B) :=
  fix go l := match l with
              | [] => Some []
              | x :: r => match f x, go r with
                          | Some y, Some ys => Some (y :: ys)
                          | _, _ => None
                          end
              end.

Definition mod_of_J (j : J) : option modifier :=
  match j with
  | JList [a; b; c; d; e; f; g; h] => Some (mkMod a b c d e f g h)
  | _ => None
  end.
Definition effect_of_J (j : J) : option effect :=
  match j with
  | JList [i; c; JBool o; JBool a; du; di; r; f; t; u; rs; s; JList ms] =>
    match omap mod_of_J ms with
    | Some l => Some (mkEffect i c o a du di r f t u rs s l)
    | None => None
    end
  | _ => None
  end.
Definition attr_of_J (j : J) : option attribute :=
  match j with
  | JList [i; m; d; JBool h; JBool s] => Some (mkAttr i m d h s)
  | _ => None
  end.
Definition buff_of_J (j : J) : option buff :=
  match j with
  | JList [a; b; c; d; e; f] => Some (mkBuff a b c d e f)
  | _ => None
  end.
Definition pair_of_J (j : J) : option (J * J) :=
  match j with JList [k; v] => Some (k, v) | _ => None end.
Definition abil_of_J (j : J) : option (J * (J * J)) :=
  match j with JList [k; a; b] => Some (k, (a, b)) | _ => None end.
Definition keyed_effect_of_J (j : J) : option (J * effect) :=
  match j with
  | JList [k; e] => option_map (fun x => (k, x)) (effect_of_J e)
  | _ => None
  end.
Definition type_of_J (j : J) : option typ :=
  match j with
  | JList [i; g; c; JList ats; JList efs; d; JList abs; JList sks] =>
    match omap pair_of_J ats, omap keyed_effect_of_J efs, omap abil_of_J abs,
          omap pair_of_J sks with
    | Some a, Some e, Some b, Some s =>
      match d with
      | JNull => Some (mkType i g c a e None b s)
      | _ => option_map (fun x => mkType i g c a e (Some x) b s) (effect_of_J d)
      end
    | _, _, _, _ => None
    end
  | _ => None
  end.
Definition objs_of_J (j : J) : option objs :=
  match j with
  | JList [JList ts; JList ats; JList es; JList bs] =>
    match omap type_of_J ts, omap attr_of_J ats, omap effect_of_J es, omap buff_of_J bs with
    | Some a, Some b, Some c, Some d => Some (mkObjs a b c d)
    | _, _, _, _ => None
    end
  | _ => None
  end.

Definition mod_to_J (m : modifier) : J :=
  JList [m_filter m; m_domain m; m_extra m; m_attr m; m_op m; m_aggmode m; m_aggkey m;
         m_affector m].
Definition effect_to_J (e : effect) : J :=
  JList [e_id e; e_cat e; JBool (e_off e); JBool (e_assist e); e_dur e; e_dis e; e_range e;
         e_falloff e; e_track e; e_fuc e; e_resist e; e_status e; JList (map mod_to_J (e_mods e))].
Definition attr_to_J (a : attribute) : J :=
  JList [a_id a; a_max a; a_default a; JBool (a_hig a); JBool (a_stack a)].
Definition buff_to_J (b : buff) : J :=
  JList [b_id b; b_filter b; b_extra b; b_attr b; b_op b; b_aggmode b].
Definition type_to_J (t : typ) : J :=
  JList [t_id t; t_group t; t_cat t;
         JList (map (fun kv => JList [fst kv; snd kv]) (t_attrs t));
         JList (map (fun kv => JList [fst kv; effect_to_J (snd kv)]) (t_effects t));
         match t_default t with None => JNull | Some e => effect_to_J e end;
         JList (map (fun kv => JList [fst kv; fst (snd kv); snd (snd kv)]) (t_abil t));
         JList (map (fun kv => JList [fst kv; snd kv]) (t_skills t))].
Definition state_to_J (s : state) : J :=
  JDict [("types", JList (map (fun kv => JList [fst kv; type_to_J (snd kv)]) (st_types s)));
         ("attrs", JList (map (fun kv => JList [fst kv; attr_to_J (snd kv)]) (st_attrs s)));
         ("effects", JList (map (fun kv => JList [fst kv; effect_to_J (snd kv)]) (st_effects s)));
         ("buffs", JList (map (fun kv => JList [fst kv; JList (map buff_to_J (snd kv))])
                              (st_buffs s)));
         ("fp", st_fp s)].

Definition idc (e : effect) := e.
Definition idt (t : typ) := t.

Definition x_fresh : handler := mkHandler empty_state None.
Definition x_update (h : handler) (o : objs) (fp : J) : handler * option exn :=
  update_cache idc idt gen_tables gen_ctors h o fp.
Definition x_construct (p : option J) : state * option exn :=
  construct idc idt gen_tables gen_ctors gen_load p.
Definition x_file (h : handler) : option J := h_file h.
Definition x_mem (h : handler) : state := h_mem h.

Extraction Language OCaml.
Extraction "extract/out/cache.ml" objs_of_J state_to_J x_fresh x_update x_construct x_file x_mem.
