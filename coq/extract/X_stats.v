From Coq Require Import ZArith QArith ExtrOcamlBasic.
From EosV Require Import model.World model.Status model.Calc model.Engine model.Ops model.Stats model.StatsSpec.
Extraction Language OCaml.
Extraction "extract/out/stats.ml" xstep init_xsys stat_read spec_fregs regs_get read_attr PF d_clear clear_err
  mkUniverse mkAttr mkMod mkEffect mkType mkBuff mkProf mkXsys mkSys
  attr_keys item_fit item_state get_icache calc_of g_get ALL_REGIDS.
