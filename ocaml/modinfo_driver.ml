(* prelude: *)
(* C19 driver.  One modifier-info list per line:
     L entry*            entry := N | D <k> (key value){k}
     key   := x<hex of the UTF-8 bytes>
     value := i<bits> | b0 | b1 | f<bits>/<bits> | nan | inf | s<hex> | none | u
   (integers in binary, "-" prefix for negatives).  Output, one line per list:
     ok <status> <n> mod*     mod := filter,extra,domain,attr,operator,aggr,key,affector
     escaped <exception>
   The extracted module shadows string/length/map, hence the Stdlib prefixes. *)
module S = Stdlib.String

let pos_of_bits (s : S.t) : positive =
  let n = S.length s in
  if n = 0 || s.[0] <> '1' then failwith ("bad positive " ^ s);
  let rec go i acc = if i >= n then acc
    else go (i + 1) (match s.[i] with '1' -> XI acc | '0' -> XO acc | _ -> failwith "bad bit") in
  go 1 XH
let bits_of_pos (p : positive) : S.t =
  let b = Buffer.create 64 in
  let rec go p acc = match p with
    | XH -> '1' :: acc | XO q -> go q ('0' :: acc) | XI q -> go q ('1' :: acc) in
  List.iter (Buffer.add_char b) (go p []); Buffer.contents b
let z_of_bits (s : S.t) : z =
  if s = "0" then Z0
  else if s.[0] = '-' then Zneg (pos_of_bits (S.sub s 1 (S.length s - 1)))
  else Zpos (pos_of_bits s)
let bits_of_z (x : z) : S.t = match x with
  | Z0 -> "0" | Zpos p -> bits_of_pos p | Zneg p -> "-" ^ bits_of_pos p

let ascii_of_int (c : int) : ascii =
  let b k = (c lsr k) land 1 = 1 in
  Ascii (b 0, b 1, b 2, b 3, b 4, b 5, b 6, b 7)
let hexval (c : char) : int = match c with
  | '0'..'9' -> Char.code c - 48 | 'a'..'f' -> Char.code c - 87
  | _ -> failwith "bad hex"
(* hex (from position 1 of the token) -> Coq string *)
let coq_string_of_hex (t : S.t) : string =
  let n = S.length t in
  if (n - 1) mod 2 <> 0 then failwith "odd hex";
  let rec go i acc = if i < 1 then acc
    else go (i - 2) (String (ascii_of_int (16 * hexval t.[i] + hexval t.[i + 1]), acc)) in
  go (n - 2) EmptyString

let value_of_token (t : S.t) : value =
  let rest () = S.sub t 1 (S.length t - 1) in
  if t = "nan" then VNaN else if t = "inf" then VInf
  else if t = "none" then VNone else if t = "u" then VUnhashable
  else if t = "b0" then VBool false else if t = "b1" then VBool true
  else match t.[0] with
    | 'i' -> VInt (z_of_bits (rest ()))
    | 's' -> VStr (coq_string_of_hex t)
    | 'f' -> (match S.split_on_char '/' (rest ()) with
        | [n; d] -> VFloat { qnum = z_of_bits n; qden = pos_of_bits d }
        | _ -> failwith "bad float")
    | _ -> failwith ("bad value " ^ t)

let rec entries (toks : S.t list) : entry list = match toks with
  | [] -> []
  | "N" :: r -> ENotDict :: entries r
  | "D" :: k :: r ->
    let k = int_of_string k in
    let rec pairs k r acc = if k = 0 then (List.rev acc, r) else match r with
        | key :: v :: r' -> pairs (k - 1) r' ((coq_string_of_hex key, value_of_token v) :: acc)
        | _ -> failwith "short dict" in
    let (kvs, r') = pairs k r [] in
    EDict kvs :: entries r'
  | t :: _ -> failwith ("bad entry " ^ t)

let opt (o : z option) : S.t = match o with None -> "-" | Some x -> bits_of_z x
let show_mod (m : modifier) : S.t =
  S.concat "," [bits_of_z m.m_filter; opt m.m_extra; bits_of_z m.m_domain;
                bits_of_z m.m_attr; bits_of_z m.m_operator; bits_of_z m.m_aggr_mode;
                opt m.m_aggr_key; bits_of_z m.m_affector]
let show_exn (x : exn) : S.t = match x with
  | KeyError -> "KeyError" | TypeError -> "TypeError"
  | ValueError -> "ValueError" | OverflowError -> "OverflowError"

let () =
  try while true do
    let l = input_line stdin in
    let toks = List.filter (fun x -> x <> "") (S.split_on_char ' ' l) in
    (try match toks with
       | "L" :: r ->
         (match build (entries r) with
          | Built (ms, st) ->
            print_endline (S.concat " " ("ok" :: bits_of_z st
                                         :: string_of_int (List.length ms)
                                         :: List.map show_mod ms))
          | BuildEscaped x -> print_endline ("escaped " ^ show_exn x))
       | "I" :: [t] ->   (* int(str) grammar probe *)
         (match int_of_str (coq_string_of_hex t) with
          | Some x -> print_endline ("int " ^ bits_of_z x)
          | None -> print_endline "int -")
       | _ -> print_endline "error badline"
     with Failure m -> print_endline ("error " ^ m))
  done with End_of_file -> ()
