(* prelude: nat z q *)
(* Line-oriented driver for the extracted engine model. One output line per
   input line. Integers in decimal, rationals as binary num/den. *)
let zi s = z_of_int (int_of_string s)
let ni s = nat_of_int (int_of_string s)
let oz s = if s = "-" then None else Some (zi s)
let on s = if s = "-" then None else Some (ni s)
let oq s = if s = "-" then None else Some (q_of_string s)
let b s = s = "1"

let cls_of = function
  | "ship" -> CShip | "character" -> CCharacter | "stance" -> CStance | "beacon" -> CBeacon
  | "skill" -> CSkill | "implant" -> CImplant | "booster" -> CBooster | "subsystem" -> CSubsystem
  | "modhigh" -> CModHigh | "modmid" -> CModMid | "modlow" -> CModLow | "rig" -> CRig
  | "drone" -> CDrone | "fighter" -> CFighter | "charge" -> CCharge | "autocharge" -> CAutocharge
  | s -> failwith ("class " ^ s)
let slot_of = function "ship" -> SlShip | "character" -> SlCharacter | "stance" -> SlStance
  | "beacon" -> SlBeacon | s -> failwith ("slot " ^ s)
let set_of = function "skills" -> SeSkills | "implants" -> SeImplants | "boosters" -> SeBoosters
  | "subsystems" -> SeSubsystems | "rigs" -> SeRigs | "drones" -> SeDrones | "fighters" -> SeFighters
  | s -> failwith ("set " ^ s)
let rack_of = function "high" -> RHigh | "mid" -> RMid | "low" -> RLow | s -> failwith ("rack " ^ s)

(* universes under construction, by source id *)
type ub = { mutable attrs : (z * attr_meta) list; mutable effects : (z * effect) list;
            mutable types : (z * itype) list; mutable buffs : (z * buff_template list) list }
let tabil : (int * int, int list) Hashtbl.t = Hashtbl.create 8
let ubs : (int, ub) Hashtbl.t = Hashtbl.create 4
let ub src = match Hashtbl.find_opt ubs src with
  | Some u -> u
  | None -> let u = { attrs = []; effects = []; types = []; buffs = [] } in Hashtbl.replace ubs src u; u
let zeq a b = int_of_z a = int_of_z b
let rec upd k f = function
  | [] -> failwith "unknown id in universe"
  | (k', v) :: r -> if zeq k k' then (k', f v) :: r else (k', v) :: upd k f r

let ierr_s = function ENoneDeref -> "NoneDeref" | EKeyAbsent -> "KeyAbsent" | EOutOfFuel -> "OutOfFuel"
  | EZeroDiv -> "ZeroDiv" | ENoneState -> "NoneState"
let exn_s = function XType -> "TypeError" | XValue -> "ValueError" | XKey -> "KeyError"
  | XIndex -> "IndexError" | XSlotTaken -> "SlotTakenError" | XUnknownSource -> "UnknownSourceError"
  | XInternal e -> "Internal:" ^ ierr_s e
let res_s = function
  | ROk -> "ok"
  | RVal v -> "val " ^ string_of_q v
  | RNone -> "none"
  | RKeys l -> "keys " ^ String.concat " " (List.map string_of_int (List.sort compare (List.map int_of_z l)))
  | REffects l -> "effects " ^ String.concat " "
                    (List.map (fun (e, s) -> Printf.sprintf "%d:%d" e (if s then 1 else 0))
                       (List.sort compare (List.map (fun (e, s) -> (int_of_z e, s)) l)))
  | RExn x -> "exn " ^ exn_s x

let world = ref (init_sys [])
let pen = ref []

let ints l = String.concat "," (List.map string_of_int (List.sort compare l))
let on_s = function None -> "-" | Some n -> string_of_int (int_of_nat n)
let place_s = function
  | None -> "-"
  | Some (PSlot (f, k)) -> Printf.sprintf "slot:%d:%s" (int_of_nat f)
      (match k with SlShip -> "ship" | SlCharacter -> "character" | SlStance -> "stance" | SlBeacon -> "beacon")
  | Some (PSet (f, k)) -> Printf.sprintf "set:%d:%s" (int_of_nat f)
      (match k with SeSkills -> "skills" | SeImplants -> "implants" | SeBoosters -> "boosters"
       | SeSubsystems -> "subsystems" | SeRigs -> "rigs" | SeDrones -> "drones" | SeFighters -> "fighters")
  | Some (PRack (f, k)) -> Printf.sprintf "rack:%d:%s" (int_of_nat f)
      (match k with RHigh -> "high" | RMid -> "mid" | RLow -> "low")
  | Some (PCharge p) -> Printf.sprintf "charge:%d" (int_of_nat p)
  | Some (PAuto p) -> Printf.sprintf "auto:%d" (int_of_nat p)

(* canonical dump of one item (public view + cache keys) *)
let item_s x i =
  let w = x.s_w in
  match get_item w (ni i) with
  | None -> "item " ^ i ^ " absent"
  | Some it ->
    Printf.sprintf "item %s cont=%s fit=%s state=%s loaded=%d running=%s target=%s charge=%s autos=%s cached=%s"
      i (place_s it.i_cont) (on_s (item_fit w (ni i)))
      (match item_state w (ni i) with None -> "-" | Some s -> string_of_int (int_of_z s))
      (match it.i_loaded with None -> 0 | Some _ -> 1)
      (ints (List.map int_of_z it.i_running)) (on_s it.i_target) (on_s it.i_charge)
      (String.concat "," (List.map (fun (e, a) ->
           (match get_item w a with
            | Some x -> Printf.sprintf "%d>%d:%d:%s" (int_of_z e) (int_of_z x.i_tid)
                          (match x.i_loaded with None -> 0 | Some _ -> 1)
                          (String.concat "+" (List.map string_of_int (List.sort compare (List.map int_of_z x.i_running))))
            | None -> Printf.sprintf "%d>?" (int_of_z e)))
           (List.sort compare it.i_autos)))
      (ints (List.map (fun (a, _) -> int_of_z a) (get_icache x.s_d (ni i)).ic_vals))

let fit_s x f =
  let w = x.s_w in
  match get_fit w (ni f) with
  | None -> "fit " ^ f ^ " absent"
  | Some ft ->
    let set l = ints (List.map int_of_nat l) in
    let rack l = String.concat "," (List.map on_s l) in
    Printf.sprintf "fit %s ship=%s character=%s stance=%s beacon=%s skills=%s skillmap=%s implants=%s boosters=%s subsystems=%s rigs=%s drones=%s fighters=%s high=[%s] mid=[%s] low=[%s] solsys=%s fleet=%s"
      f (on_s ft.f_ship) (on_s ft.f_character) (on_s ft.f_stance) (on_s ft.f_beacon)
      (set ft.f_skills)
      (String.concat "," (List.map (fun (t, i) -> Printf.sprintf "%d>%d" t i)
                            (List.sort compare (List.map (fun (t, i) -> (int_of_z t, int_of_nat i)) ft.f_skillmap))))
      (set ft.f_implants) (set ft.f_boosters) (set ft.f_subsystems) (set ft.f_rigs)
      (set ft.f_drones) (set ft.f_fighters) (rack ft.f_high) (rack ft.f_mid) (rack ft.f_low)
      (on_s ft.f_solsys) (on_s ft.f_fleet)

let ks_size l = List.fold_left (fun a (_, v) -> a + 1 + List.length v) 0 l
let regs_s x s =
  match get_ss x.s_w (ni s) with
  | None -> "regs " ^ s ^ " absent"
  | Some _ -> let c = calc_of x.s_d (ni s) in
    let subs = List.filter (fun (s', _) -> int_of_nat s' = int_of_string s) x.s_d.d_pysubs in
    (* fits on which the calculator listens to ItemAdded / ItemRemoved: those hosting a subscribed
       ancillary-repairer spec *)
    let fits = List.sort_uniq compare (List.filter_map (fun (_, sp) ->
        if int_of_z sp.sp_mod.m_py = 2 then (match item_fit x.s_w sp.sp_item with Some f -> Some (int_of_nat f) | None -> None)
        else None) subs) in
    Printf.sprintf "regs %s affectees=%d ae=%d ao_other=%d ao_await=%d ao_active=%d ao_filters=%d projectors=%d carrier=%d carrierless=%d ptgts=%d tgtp=%d buffs=%d pysubs=%d pyfits=%d"
      s (List.length c.c_affectees)
      (ks_size c.c_ae_dom + ks_size c.c_ae_domgrp + ks_size c.c_ae_domsrq + ks_size c.c_ae_ownsrq)
      (ks_size c.c_ao_other) (ks_size c.c_ao_await) (ks_size c.c_ao_active)
      (ks_size c.c_ao_dom + ks_size c.c_ao_domgrp + ks_size c.c_ao_domsrq + ks_size c.c_ao_ownsrq)
      (List.length c.c_projectors) (ks_size c.c_carrier) (List.length c.c_carrierless)
      (ks_size c.c_ptgts) (ks_size c.c_tgtp) (ks_size c.c_buffs) (List.length subs) (List.length fits)

let msg_s (f, m) =
  let i n = string_of_int (int_of_nat n) in
  let zs l = ints (List.map int_of_z l) in
  let ts l = String.concat "," (List.map on_s l) in
  string_of_int (int_of_nat f) ^ ":" ^ (match m with
  | MItemAdded a -> "ItemAdded(" ^ i a ^ ")"
  | MItemRemoved a -> "ItemRemoved(" ^ i a ^ ")"
  | MStatesActivated (a, s) -> "StatesActivated(" ^ i a ^ ";" ^ zs s ^ ")"
  | MStatesDeactivated (a, s) -> "StatesDeactivated(" ^ i a ^ ";" ^ zs s ^ ")"
  | MItemLoaded a -> "ItemLoaded(" ^ i a ^ ")"
  | MItemUnloaded a -> "ItemUnloaded(" ^ i a ^ ")"
  | MStatesActivatedLoaded (a, s) -> "StatesActivatedLoaded(" ^ i a ^ ";" ^ zs s ^ ")"
  | MStatesDeactivatedLoaded (a, s) -> "StatesDeactivatedLoaded(" ^ i a ^ ";" ^ zs s ^ ")"
  | MEffectsStarted (a, e) -> "EffectsStarted(" ^ i a ^ ";" ^ zs e ^ ")"
  | MEffectsStopped (a, e) -> "EffectsStopped(" ^ i a ^ ";" ^ zs e ^ ")"
  | MEffectApplied (a, e, t) -> "EffectApplied(" ^ i a ^ ";" ^ string_of_int (int_of_z e) ^ ";" ^ ts t ^ ")"
  | MEffectUnapplied (a, e, t, _) -> "EffectUnapplied(" ^ i a ^ ";" ^ string_of_int (int_of_z e) ^ ";" ^ ts t ^ ")"
  | MAttrsChanged ch -> "AttrsValueChanged(" ^ String.concat "|" (List.map (fun (a, l) -> i a ^ ":" ^ zs l) ch) ^ ")"
  | MAttrsChangedMasked ch -> "AttrsValueChangedMasked(" ^ String.concat "|" (List.map (fun (a, l) -> i a ^ ":" ^ zs l) ch) ^ ")"
  | MFleetFitAdded -> "FleetFitAdded" | MFleetFitRemoved -> "FleetFitRemoved"
  | MDefaultDmgChanged -> "DefaultIncomingDmgChanged" | MRahDmgChanged -> "RahIncomingDmgChanged")

let counts : (string, int) Hashtbl.t = Hashtbl.create 32
let bump k n = Hashtbl.replace counts k (n + (try Hashtbl.find counts k with Not_found -> 0))
let kind_of = function
  | MItemAdded _ -> "ItemAdded" | MItemRemoved _ -> "ItemRemoved" | MStatesActivated _ -> "StatesActivated"
  | MStatesDeactivated _ -> "StatesDeactivated" | MItemLoaded _ -> "ItemLoaded" | MItemUnloaded _ -> "ItemUnloaded"
  | MStatesActivatedLoaded _ -> "StatesActivatedLoaded" | MStatesDeactivatedLoaded _ -> "StatesDeactivatedLoaded"
  | MEffectsStarted _ -> "EffectsStarted" | MEffectsStopped _ -> "EffectsStopped"
  | MEffectApplied _ -> "EffectApplied" | MEffectUnapplied _ -> "EffectUnapplied"
  | MAttrsChanged _ -> "AttrsValueChanged" | MAttrsChangedMasked _ -> "AttrsValueChangedMasked"
  | MFleetFitAdded -> "FleetFitAdded" | MFleetFitRemoved -> "FleetFitRemoved"
  | MDefaultDmgChanged -> "DefaultIncomingDmgChanged" | MRahDmgChanged -> "RahIncomingDmgChanged"
let spec_memo = ref []
let item_abilities i =
  match get_item (!world).s_w (ni i) with
  | None -> []
  | Some it -> (match it.i_loaded with
      | None -> []
      | Some src -> (try Hashtbl.find tabil (int_of_nat src, int_of_z it.i_tid) with Not_found -> []))
(* a < b on rationals: sign of a - b *)
let qminus_lt a b =
  let d = qplus a (qopp b) in (match d.qnum with Zneg _ -> true | _ -> false)
let do_step o =
  (* hypotheses of the container-consistency theorem (model/Wf.v): counted, not enforced *)
  bump "OpOutsideContainerHyp" (if op_ok_now !world o then 0 else 1);
  bump "OpOutsideRunningHyp" (if op_ok2_now !world o then 0 else 1);
  bump "OpOutsideFlatHyp" (if op_ok3_now !world o then 0 else 1);
  let (w, r) = step !world o in
  world := w;
  (match o with ORead _ | OGet _ | OKeys _ | OEffects _ -> () | _ -> spec_memo := []);
  List.iter (fun (_, m) -> bump (kind_of m) 1) w.s_d.d_trace;
  (match o with ORead _ | OGet _ | OKeys _ | OEffects _ -> () | _ ->
     (* invalidations: cached entries that disappeared are visible through AttrsValueChanged *)
     ());
  res_s r

let handle toks =
  match toks with
  | "pen" :: qs -> pen := List.map q_of_string qs; world := init_sys !pen; spec_memo := []; Hashtbl.reset ubs; Hashtbl.reset tabil; "ok"
  | ["reset"] -> world := init_sys !pen; spec_memo := []; Hashtbl.reset ubs; Hashtbl.reset tabil; "ok"
  | ["u_attr"; src; aid; d; hig; st; mx] ->
    let u = ub (int_of_string src) in
    u.attrs <- u.attrs @ [(zi aid, { am_default = oq d; am_hig = b hig; am_stackable = b st; am_max = oz mx })]; "ok"
  | ["u_effect"; src; eid; cat; chance; resist; buff; auto] ->
    let u = ub (int_of_string src) in
    u.effects <- u.effects @ [(zi eid, { e_cat = zi cat; e_chance_attr = oz chance; e_resist_attr = oz resist;
                                        e_mods = []; e_buff = b buff; e_autocharge_attr = oz auto })]; "ok"
  | ["u_mod"; src; eid; flt; extra; dom; tgt; op; agg; key; srca] ->
    let u = ub (int_of_string src) in
    let m = { m_filter = zi flt; m_extra = oz extra; m_domain = zi dom; m_tgt_attr = zi tgt; m_op = zi op;
              m_aggmode = zi agg; m_aggkey = oz key; m_src_attr = zi srca; m_py = zi "0" } in
    u.effects <- upd (zi eid) (fun e -> { e with e_mods = e.e_mods @ [m] }) u.effects; "ok"
  (* m_...: what eos's own customisations (eve_obj/custom) add to the raw data; the implementation side
     ignores these lines because eos applies the customisations itself *)
  | ["m_mod"; src; eid; flt; extra; dom; tgt; op; agg; key; srca] ->
    let u = ub (int_of_string src) in
    let m = { m_filter = zi flt; m_extra = oz extra; m_domain = zi dom; m_tgt_attr = zi tgt; m_op = zi op;
              m_aggmode = zi agg; m_aggkey = oz key; m_src_attr = zi srca; m_py = zi "0" } in
    u.effects <- upd (zi eid) (fun e -> { e with e_mods = e.e_mods @ [m] }) u.effects; "ok"
  | ["m_pymod"; src; eid; kind; flt; dom; tgt] ->
    let u = ub (int_of_string src) in
    let m = { m_filter = zi flt; m_extra = None; m_domain = zi dom; m_tgt_attr = zi tgt; m_op = zi "0";
              m_aggmode = zi "1"; m_aggkey = None; m_src_attr = zi "0"; m_py = zi kind } in
    u.effects <- upd (zi eid) (fun e -> { e with e_mods = e.e_mods @ [m] }) u.effects; "ok"
  | ["m_effect"; src; eid; cat] ->
    let u = ub (int_of_string src) in
    u.effects <- u.effects @ [(zi eid, { e_cat = zi cat; e_chance_attr = None; e_resist_attr = None;
                                        e_mods = []; e_buff = false; e_autocharge_attr = None })]; "ok"
  | ["m_teffect"; src; tid; eid] ->
    let u = ub (int_of_string src) in
    u.types <- upd (zi tid) (fun t -> { t with t_effects = t.t_effects @ [zi eid] }) u.types; "ok"
  | ["u_type"; src; tid; grp; cat; def] ->
    let u = ub (int_of_string src) in
    u.types <- u.types @ [(zi tid, { t_group = oz grp; t_category = oz cat; t_attrs = []; t_effects = [];
                                    t_default = oz def; t_skills = [] })]; "ok"
  | ["u_tattr"; src; tid; aid; v] ->
    let u = ub (int_of_string src) in
    u.types <- upd (zi tid) (fun t -> { t with t_attrs = t.t_attrs @ [(zi aid, q_of_string v)] }) u.types; "ok"
  | ["u_teffect"; src; tid; eid] ->
    let u = ub (int_of_string src) in
    u.types <- upd (zi tid) (fun t -> { t with t_effects = t.t_effects @ [zi eid] }) u.types; "ok"
  | ["u_tskill"; src; tid; sk; lvl] ->
    let u = ub (int_of_string src) in
    u.types <- upd (zi tid) (fun t -> { t with t_skills = t.t_skills @ [(zi sk, zi lvl)] }) u.types; "ok"
  | ["u_buff"; src; bid; flt; extra; tgt; op; agg] ->
    let u = ub (int_of_string src) in
    let t = { b_filter = zi flt; b_extra = oz extra; b_tgt_attr = zi tgt; b_op = zi op; b_aggmode = zi agg } in
    let k = zi bid in
    (if List.exists (fun (k', _) -> zeq k k') u.buffs
     then u.buffs <- upd k (fun l -> l @ [t]) u.buffs else u.buffs <- u.buffs @ [(k, [t])]); "ok"
  | ["u_tability"; src; tid; aid] ->
    let k = (int_of_string src, int_of_string tid) in
    Hashtbl.replace tabil k ((try Hashtbl.find tabil k with Not_found -> []) @ [int_of_string aid]); "ok"
  | ["commit"; src] ->
    let u = ub (int_of_string src) in
    do_step (ODefSource (ni src, { u_attrs = u.attrs; u_effects = u.effects; u_types = u.types; u_buffs = u.buffs }))
  | ["new"; i; c; tid; st; lvl] -> do_step (ONewItem (ni i, cls_of c, zi tid, zi st, zi lvl))
  | ["fit"; f; chr] -> do_step (ONewFit (ni f, ni chr))
  | ["solsys"; s] -> do_step (ONewSolsys (ni s))
  | ["slot"; f; k; v] -> do_step (OSlot (ni f, slot_of k, on v))
  | ["sadd"; f; k; i] -> do_step (OSetAdd (ni f, set_of k, ni i))
  | ["srm"; f; k; i] -> do_step (OSetRemove (ni f, set_of k, ni i))
  | ["sclear"; f; k] -> do_step (OSetClear (ni f, set_of k))
  | ["skilldel"; f; tid] -> do_step (OSkillDel (ni f, zi tid))
  | ["rappend"; f; k; i] -> do_step (ORackAppend (ni f, rack_of k, ni i))
  | ["rinsert"; f; k; idx; v] -> do_step (ORackInsert (ni f, rack_of k, zi idx, on v))
  | ["rplace"; f; k; idx; i] -> do_step (ORackPlace (ni f, rack_of k, zi idx, ni i))
  | ["requip"; f; k; i] -> do_step (ORackEquip (ni f, rack_of k, ni i))
  | ["rremove"; f; k; "item"; v] -> do_step (ORackRemove (ni f, rack_of k, RItem (on v)))
  | ["rremove"; f; k; "idx"; n] -> do_step (ORackRemove (ni f, rack_of k, RIndex (zi n)))
  | ["rfree"; f; k; "item"; v] -> do_step (ORackFree (ni f, rack_of k, RItem (on v)))
  | ["rfree"; f; k; "idx"; n] -> do_step (ORackFree (ni f, rack_of k, RIndex (zi n)))
  | ["rclear"; f; k] -> do_step (ORackClear (ni f, rack_of k))
  | ["charge"; m; c] -> do_step (OCharge (ni m, on c))
  | ["state"; i; st] -> do_step (OState (ni i, zi st))
  | ["target"; i; t] -> do_step (OTarget (ni i, on t))
  | ["mode"; i; e; m] -> do_step (OMode (ni i, zi e, zi m))
  | ["level"; i; l] -> do_step (OLevel (ni i, zi l))
  | ["fladd"; fl; f] -> do_step (OFleetAdd (ni fl, ni f))
  | ["flrm"; fl; f] -> do_step (OFleetRemove (ni fl, ni f))
  | ["flclear"; fl] -> do_step (OFleetClear (ni fl))
  | ["ssadd"; s; f] -> do_step (OSolsysAdd (ni s, ni f))
  | ["ssrm"; s; f] -> do_step (OSolsysRemove (ni s, ni f))
  | ["ssclear"; s] -> do_step (OSolsysClear (ni s))
  | ["source"; s; src] when String.length src > 0 && src.[0] = '?' ->
    (* an alias nobody registered: a source id that is never defined *)
    do_step (OSource (ni s, Some (ni (string_of_int (100000 + int_of_string (String.sub src 1 (String.length src - 1)))))))
  | ["source"; s; src] -> do_step (OSource (ni s, on src))
  | ["read"; i; a] -> do_step (ORead (ni i, zi a))
  | ["get"; i; a] -> do_step (OGet (ni i, zi a))
  | ["keys"; i] -> do_step (OKeys (ni i))
  | ["effects"; i] -> do_step (OEffects (ni i))
  | ["spec"; i; a] ->
    let (mm, v) = spec_val (!world).s_d.d_pen (nat_of_int 60) (!world).s_w !spec_memo (ni i) (zi a) in
    spec_memo := mm;
    (match v with
     | Some v -> "val " ^ string_of_q v
     | None -> "none")
  | ["sideeffects"; i] ->
    let (d, r) = side_effects (!world).s_w (!world).s_d (ni i) in
    world := { !world with s_d = d };
    (match r with
     | None -> "exn Internal:KeyAbsent"
     | Some l -> String.trim ("sideeffects " ^ String.concat " "
                   (List.map (fun ((e, c), s) -> Printf.sprintf "%d:%s:%d" (int_of_z e) (string_of_q c) (if s then 1 else 0))
                      (List.sort (fun ((a, _), _) ((b, _), _) -> compare (int_of_z a) (int_of_z b)) l))))
  | ["setside"; i; e; st] ->
    let (d, r) = side_effects (!world).s_w (!world).s_d (ni i) in
    world := { !world with s_d = d };
    (match r with
     | None -> "exn Internal:KeyAbsent"
     | Some l ->
       if not (List.exists (fun ((e', _), _) -> int_of_z e' = int_of_string e) l) then "exn NoSuchSideEffectError"
       else do_step (OMode (ni i, zi e, side_effect_mode (b st))))
  | ["abilities"; i] ->
    let abil = item_abilities i in
    (match abilities (!world).s_w (List.map z_of_int abil) (ni i) with
     | None -> "exn Internal:KeyAbsent"
     | Some l -> String.trim ("abilities " ^ String.concat " "
                   (List.map (fun (a, s) -> Printf.sprintf "%d:%d" (int_of_z a) (if s then 1 else 0))
                      (List.sort (fun (a, _) (b, _) -> compare (int_of_z a) (int_of_z b)) l))))
  | ["setability"; i; a; st] ->
    let abil = item_abilities i in
    if not (List.mem (int_of_string a) abil) then "exn NoSuchAbilityError"
    else (match ability_set_mode (!world).s_w (ni i) (zi a) (b st) with
        | None -> "exn Internal:KeyAbsent"
        | Some (e, m) -> do_step (OMode (ni i, e, m)))
  | "randomize" :: i :: rs ->
    let (d, r) = side_effects (!world).s_w (!world).s_d (ni i) in
    world := { !world with s_d = d };
    (match r with
     | None -> "exn Internal:KeyAbsent"
     | Some l ->
       (* one random number per side effect, in type-effect order *)
       let rec go l rs acc = match l, rs with
         | ((e, c), _) :: l', r :: rs' ->
           let lt = (let rq = q_of_string r in qminus_lt rq c) in
           go l' rs' (acc @ [(e, side_effect_mode lt)])
         | _, _ -> acc in
       let modes = go l rs [] in
       List.iter (fun (e, m) -> ignore (do_step (OMode (ni i, e, m)))) modes; "ok")
  | ["item"; i] -> item_s !world i
  | ["fitdump"; f] -> fit_s !world f
  | ["regs"; s] -> regs_s !world s
  | ["counters"] ->
    let l = Hashtbl.fold (fun k v a -> (k, v) :: a) counts [] in
    Hashtbl.reset counts;
    "counters " ^ String.concat " " (List.map (fun (k, v) -> k ^ "=" ^ string_of_int v) (List.sort compare l))
  | ["trace"] -> "trace " ^ String.concat " " (List.rev_map msg_s (!world).s_d.d_trace)
  | _ -> "error badline"

let () =
  try while true do
    let l = input_line stdin in
    print_endline (try handle (split_ws l) with Failure m -> "error " ^ m | Not_found -> "error notfound")
  done with End_of_file -> ()
