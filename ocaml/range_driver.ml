(* prelude: nat z q *)
(* one query per line:
   ctc|sts self  x y z where radius  x y z where radius     (where: "-" or nat) *)
let item = function
  | [x; y; z; w; r] ->
    { pos = { cx = q_of_string x; cy = q_of_string y; cz = q_of_string z };
      where_ = (if w = "-" then None else Some (nat_of_int (int_of_string w)));
      radius = q_of_string r }
  | _ -> failwith "item"
let rec take n l = if n = 0 then [] else match l with [] -> [] | a :: r -> a :: take (n - 1) r
let rec drop n l = if n = 0 then l else match l with [] -> [] | _ :: r -> drop (n - 1) r
let () =
  try while true do
    let l = input_line stdin in
    (match split_ws l with
     | kind :: self :: rest ->
       let self = nat_of_int (int_of_string self) in
       let i1 = item (take 5 rest) and i2 = item (drop 5 rest) in
       (match kind with
        | "ctc" -> (match ctc_sq self i1 i2 with
            | Ok d -> print_endline ("ok " ^ string_of_q d)
            | Mismatch -> print_endline "mismatch")
        | "sts" -> (match sts self i1 i2 with
            | Ok r -> print_endline ("ok " ^ (if r.sts_zero then "zero " else "pos ")
                                     ^ string_of_q r.sts_rsum ^ " " ^ string_of_q r.sts_radicand)
            | Mismatch -> print_endline "mismatch")
        | _ -> print_endline "error badkind")
     | _ -> print_endline "error badline")
  done with End_of_file -> ()
