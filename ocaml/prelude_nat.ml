let rec nat_of_int (n : int) : nat = if n <= 0 then O else S (nat_of_int (n - 1))
let rec int_of_nat (n : nat) : int = match n with O -> 0 | S m -> 1 + int_of_nat m
let split_ws (s : string) : string list =
  List.filter (fun x -> x <> "") (String.split_on_char ' ' s)
