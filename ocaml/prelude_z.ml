(* integers travel as binary strings: "0", "1011", "-110" *)
let pos_of_bits (s : string) : positive =
  let n = String.length s in
  if n = 0 || s.[0] <> '1' then failwith ("bad positive " ^ s);
  let rec go i acc = if i >= n then acc
    else go (i + 1) (match s.[i] with '1' -> XI acc | '0' -> XO acc | _ -> failwith "bad bit") in
  go 1 XH
let bits_of_pos (p : positive) : string =
  let b = Buffer.create 64 in
  let rec go p acc = match p with
    | XH -> '1' :: acc | XO q -> go q ('0' :: acc) | XI q -> go q ('1' :: acc) in
  List.iter (Buffer.add_char b) (go p []); Buffer.contents b
let z_of_string (s : string) : z =
  if s = "0" then Z0
  else if s.[0] = '-' then Zneg (pos_of_bits (String.sub s 1 (String.length s - 1)))
  else Zpos (pos_of_bits s)
let string_of_z (x : z) : string = match x with
  | Z0 -> "0" | Zpos p -> bits_of_pos p | Zneg p -> "-" ^ bits_of_pos p
let rec pos_of_int (n : int) : positive =
  if n <= 1 then XH else if n land 1 = 0 then XO (pos_of_int (n lsr 1)) else XI (pos_of_int (n lsr 1))
let z_of_int (n : int) : z = if n = 0 then Z0 else if n > 0 then Zpos (pos_of_int n) else Zneg (pos_of_int (-n))
let rec int_of_pos (p : positive) : int = match p with XH -> 1 | XO q -> 2 * int_of_pos q | XI q -> 2 * int_of_pos q + 1
let int_of_z (x : z) : int = match x with Z0 -> 0 | Zpos p -> int_of_pos p | Zneg p -> - (int_of_pos p)
