(* prelude: *)
(* one scenario per line:
     E <hex engine> H <n> { <fp J> <cont: - | int> <file: - | <fp J> <int>> }*n  O <m> { op }*m
   op:  A <hex alias> <version: - | hex> <data int> <hid> <md 0|1>
        G <hex alias> | R <hex alias> | L | N <hid new> <hid src>
   output, per op (separated by " ; "):
     <obs> | D <default> | h<i> <fp J> <cont> <file fp J|-> <file cont|-> ...   | B <builds> *)
type ostring = Stdlib.String.t
let split_ws (s : ostring) : ostring list =
  List.filter (fun x -> x <> "") (Stdlib.String.split_on_char ' ' s)
let rec nat_of_int (n : int) : nat = if n <= 0 then O else S (nat_of_int (n - 1))
let rec int_of_nat (n : nat) : int = match n with O -> 0 | S m -> 1 + int_of_nat m
let pos_of_bits (s : ostring) : positive =
  let n = Stdlib.String.length s in
  if n = 0 || s.[0] <> '1' then failwith ("bad positive " ^ s);
  let rec go i acc = if i >= n then acc
    else go (i + 1) (match s.[i] with '1' -> XI acc | '0' -> XO acc | _ -> failwith "bad bit") in
  go 1 XH
let bits_of_pos (p : positive) : ostring =
  let b = Buffer.create 64 in
  let rec go p acc = match p with
    | XH -> '1' :: acc | XO q -> go q ('0' :: acc) | XI q -> go q ('1' :: acc) in
  List.iter (Buffer.add_char b) (go p []); Buffer.contents b
let z_of_string (s : ostring) : z =
  if s = "0" then Z0
  else if s.[0] = '-' then Zneg (pos_of_bits (Stdlib.String.sub s 1 (Stdlib.String.length s - 1)))
  else Zpos (pos_of_bits s)
let string_of_z (x : z) : ostring = match x with
  | Z0 -> "0" | Zpos p -> bits_of_pos p | Zneg p -> "-" ^ bits_of_pos p
let q_of_string (s : ostring) : q =
  match Stdlib.String.split_on_char '/' s with
  | [n; d] -> { qnum = z_of_string n; qden = pos_of_bits d }
  | [n] -> { qnum = z_of_string n; qden = XH }
  | _ -> failwith ("bad rational " ^ s)
let string_of_q (x : q) : ostring = string_of_z x.qnum ^ "/" ^ bits_of_pos x.qden
let ascii_of_char (c : char) : ascii =
  let n = Char.code c in
  let b i = (n lsr i) land 1 = 1 in
  Ascii (b 0, b 1, b 2, b 3, b 4, b 5, b 6, b 7)
let char_of_ascii (a : ascii) : char =
  match a with Ascii (b0, b1, b2, b3, b4, b5, b6, b7) ->
    let v b i = if b then 1 lsl i else 0 in
    Char.chr (v b0 0 + v b1 1 + v b2 2 + v b3 3 + v b4 4 + v b5 5 + v b6 6 + v b7 7)
let coq_string (s : ostring) : string =
  let r = ref EmptyString in
  for i = Stdlib.String.length s - 1 downto 0 do r := String (ascii_of_char s.[i], !r) done; !r
let ocaml_string (s : string) : ostring =
  let b = Buffer.create 16 in
  let rec go = function EmptyString -> () | String (a, r) -> Buffer.add_char b (char_of_ascii a); go r in
  go s; Buffer.contents b
let unhex (h : ostring) : ostring =
  if h = "-" then "" else
  Stdlib.String.init (Stdlib.String.length h / 2)
    (fun i -> Char.chr (Stdlib.int_of_string ("0x" ^ Stdlib.String.sub h (2 * i) 2)))
let hex (s : ostring) : ostring =
  if s = "" then "-" else
  Stdlib.String.concat "" (List.map (fun c -> Printf.sprintf "%02x" (Char.code c))
                             (List.of_seq (Stdlib.String.to_seq s)))
let rest (s : ostring) : ostring = Stdlib.String.sub s 1 (Stdlib.String.length s - 1)
let rec parse_j (toks : ostring list) : j * ostring list =
  match toks with
  | [] -> failwith "eof"
  | t :: r ->
    (match t.[0] with
     | 'n' -> (JNull, r)
     | 't' -> (JBool true, r)
     | 'f' -> (JBool false, r)
     | 'i' -> (JInt (z_of_string (rest t)), r)
     | 'q' -> (JNum (q_of_string (rest t)), r)
     | 'I' -> (JInf (t = "I-"), r)
     | 's' -> (JStr (coq_string (unhex (rest t))), r)
     | 'l' -> let n = Stdlib.int_of_string (rest t) in
       let rec go k acc r = if k = 0 then (List.rev acc, r) else
           let (x, r') = parse_j r in go (k - 1) (x :: acc) r' in
       let (l, r') = go n [] r in (JList l, r')
     | 'd' -> let n = Stdlib.int_of_string (rest t) in
       let rec go k acc r = if k = 0 then (List.rev acc, r) else
           (match r with
            | kt :: r1 -> let (x, r') = parse_j r1 in
              go (k - 1) ((coq_string (unhex (rest kt)), x) :: acc) r'
            | [] -> failwith "eof") in
       let (l, r') = go n [] r in (JDict l, r')
     | _ -> failwith ("bad token " ^ t))
let rec print_j (b : Buffer.t) (x : j) : unit =
  let add s = Buffer.add_string b s; Buffer.add_char b ' ' in
  match x with
  | JNull -> add "n"
  | JBool true -> add "t" | JBool false -> add "f"
  | JInt z -> add ("i" ^ string_of_z z)
  | JNum q -> add ("q" ^ string_of_q q)
  | JInf neg -> add (if neg then "I-" else "I+")
  | JStr s -> add ("s" ^ hex (ocaml_string s))
  | JList l -> add ("l" ^ string_of_int (List.length l)); List.iter (print_j b) l
  | JDict d -> add ("d" ^ string_of_int (List.length d));
    List.iter (fun (k, v) -> add ("s" ^ hex (ocaml_string k)); print_j b v) d

let ioi = Stdlib.int_of_string
let scenario (toks : ostring list) : ostring =
  match toks with
  | "E" :: e :: "H" :: n :: r ->
    let engine = coq_string (unhex e) in
    let n = ioi n in
    let rec handlers k acc r = if k = n then (List.rev acc, r) else
        let (fp, r) = parse_j r in
        (match r with
         | c :: r ->
           let cont = if c = "-" then None else Some (nat_of_int (ioi c)) in
           (match r with
            | "-" :: r -> handlers (k + 1) ((nat_of_int k, { ch_fp = fp; ch_cont = cont; ch_file = None }) :: acc) r
            | _ -> let (ffp, r) = parse_j r in
              (match r with
               | fc :: r -> handlers (k + 1)
                              ((nat_of_int k, { ch_fp = fp; ch_cont = cont;
                                                ch_file = Some (ffp, nat_of_int (ioi fc)) }) :: acc) r
               | [] -> failwith "eof"))
         | [] -> failwith "eof") in
    let (hs, r) = handlers 0 [] r in
    let nh = ref n in
    (match r with
     | "O" :: _ :: r ->
       let rec ops acc r = match r with
         | [] -> List.rev acc
         | "A" :: a :: v :: d :: h :: md :: r ->
           let ver = if v = "-" then None else Some (coq_string (unhex v)) in
           ops (XOp (OAdd (coq_string (unhex a), { dh_version = ver; dh_data = nat_of_int (ioi d) },
                           nat_of_int (ioi h), md = "1")) :: acc) r
         | "AB" :: a :: v :: d :: h :: md :: r ->
           let ver = if v = "-" then None else Some (coq_string (unhex v)) in
           ops (XOp (OAddBlocked (coq_string (unhex a), { dh_version = ver; dh_data = nat_of_int (ioi d) },
                                  nat_of_int (ioi h), md = "1")) :: acc) r
         | "G" :: a :: r -> ops (XOp (OGet (coq_string (unhex a))) :: acc) r
         | "R" :: a :: r -> ops (XOp (ORemove (coq_string (unhex a))) :: acc) r
         | "L" :: r -> ops (XOp OList :: acc) r
         | "N" :: hn :: hsrc :: r ->
           nh := max !nh (ioi hn + 1);
           ops (XReopen (nat_of_int (ioi hn), nat_of_int (ioi hsrc)) :: acc) r
         | t :: _ -> failwith ("bad op " ^ t) in
       let ops = ops [] r in
       let res = x_run engine (x_init hs) ops in
       let b = Buffer.create 256 in
       let add s = Buffer.add_string b s; Buffer.add_char b ' ' in
       let src (a, h) = hex (ocaml_string a) ^ ":" ^ string_of_int (int_of_nat h) in
       List.iter (fun (o, st) ->
           (match o with
            | None -> add "reopened"
            | Some (BAdd (Added true)) -> add "added:rebuilt"
            | Some (BAdd (Added false)) -> add "added:kept"
            | Some (BAdd ExistingSource) -> add "existing"
            | Some (BAdd Internal) -> add "internal"
            | Some (BAdd WriteFailed) -> add "writefailed"
            | Some (BGet None) -> add "unknown"
            | Some (BGet (Some s)) -> add ("source:" ^ src s)
            | Some (BRemove true) -> add "removed"
            | Some (BRemove false) -> add "unknown"
            | Some (BList l) -> add ("list:" ^ Stdlib.String.concat ","
                                       (List.map (fun a -> hex (ocaml_string a)) l)));
           add "|"; add (match st.ms_default with None -> "D:-" | Some s -> "D:" ^ src s);
           add ("B:" ^ string_of_int (int_of_nat st.ms_builds));
           for i = 0 to !nh - 1 do
             let c = x_get_h st (nat_of_int i) in
             add "|"; print_j b c.ch_fp;
             add (match c.ch_cont with None -> "-" | Some k -> string_of_int (int_of_nat k));
             (match c.ch_file with
              | None -> add "-"
              | Some (f, k) -> print_j b f; add (string_of_int (int_of_nat k)))
           done;
           add ";") res;
       Buffer.contents b
     | _ -> failwith "expected O")
  | _ -> failwith "expected E"
let () =
  try while true do
    let l = input_line stdin in
    (try print_endline (scenario (split_ws l))
     with Failure m -> print_endline ("error " ^ m))
  done with End_of_file -> ()
