(* prelude: nat z q *)
(* one case per line (rationals "num/den" in binary, "-" = absent):
     sim   <loaded 0|1> <npens> pens.. base*4 prof*4 <nh> (running r*4 shift dur)*nh
     trace ... same arguments ...
     round <x> <digits>
     next  cur*4 dmg*4 shift
   The tick limit and the number of significant digits are the constants
   translated from the source under test (gen.T_rah).
   sim prints:   <status> <how> <logged> <nh> (r*4)*nh ship s*4
   trace prints: the same, then for every recorded tick "T" and per running
                 hardener: cyc cycled r*4 dmg*4 *)
let qopt s = if s = "-" then None else Some (q_of_string s)
let order = [Em; Expl; Kin; Therm]
let r4 = function
  | [a; b; c; d] -> { r_em = q_of_string a; r_expl = q_of_string b;
                      r_kin = q_of_string c; r_therm = q_of_string d }
  | _ -> failwith "r4"
let rec take n l = if n = 0 then [] else match l with [] -> failwith "short" | a :: r -> a :: take (n - 1) r
let rec drop n l = if n = 0 then l else match l with [] -> failwith "short" | _ :: r -> drop (n - 1) r
let str4 r = String.concat " " (List.map (fun a -> string_of_q (get4 r a)) order)
let err_name = function
  | EMinEmpty -> "EMinEmpty" | EMaxEmpty -> "EMaxEmpty" | EDivZero -> "EDivZero"
  | ELogZero -> "ELogZero" | EKeyProfile -> "EKeyProfile" | EKeyShip -> "EKeyShip"
  | EKeyShift -> "EKeyShift" | ENoneDuration -> "ENoneDuration"
let how_name = function
  | NoShip -> "noship" | LoopAt i -> "loop:" ^ string_of_int (int_of_nat i)
  | History k -> "history:" ^ string_of_int (int_of_nat k)

let sim trace toks =
  let loaded = (List.hd toks = "1") in
  let toks = List.tl toks in
  let np = int_of_string (List.hd toks) in
  let toks = List.tl toks in
  let pens = List.map q_of_string (take np toks) in
  let toks = drop np toks in
  let base = List.map qopt (take 4 toks) in
  let toks = drop 4 toks in
  let basef a = match a, base with
    | Em, [x; _; _; _] -> x | Expl, [_; x; _; _] -> x
    | Kin, [_; _; x; _] -> x | Therm, [_; _; _; x] -> x | _ -> None in
  let prof = (match List.map q_of_string (take 4 toks) with
      | [a; b; c; d] -> { p_em = a; p_thermal = b; p_kinetic = c; p_explosive = d }
      | _ -> failwith "prof") in
  let toks = drop 4 toks in
  let nh = int_of_string (List.hd toks) in
  let toks = ref (List.tl toks) in
  let all = List.init nh (fun _ ->
      let t = take 7 !toks in
      toks := drop 7 !toks;
      match t with
      | run :: rest -> (run = "1",
                        { h_resos = r4 (take 4 rest);
                          h_shift = qopt (List.nth rest 4); h_dur = qopt (List.nth rest 5) })
      | _ -> failwith "hardener") in
  let ship_fn = calc_ship pens basef in
  let running = List.map snd (List.filter fst all) in
  let o = run_sim ship_fn gen_SIG_DIGITS gen_MAX_SIMULATION_TICKS loaded prof running in
  let (exposed, logged) = rah_read ship_fn gen_SIG_DIGITS gen_MAX_SIMULATION_TICKS loaded prof all in
  let status, how, hist = if running = [] then "idle", "-", [] else (match o with
      | Ok r -> "ok", how_name r.so_how, r.so_hist
      | Err e -> "err:" ^ err_name e, "-", []) in
  let run_res = List.map snd (List.filter (fun (ra, _) -> fst ra) (List.combine all exposed)) in
  let ship = if not loaded then "- - - -" else
      String.concat " " (List.map (fun a -> match ship_fn run_res a with
          | Some v -> string_of_q v | None -> "-") order) in
  let b = Buffer.create 1024 in
  Buffer.add_string b (Printf.sprintf "%s %s %d %d" status how (if logged then 1 else 0) nh);
  List.iter (fun r -> Buffer.add_string b (" " ^ str4 r)) exposed;
  Buffer.add_string b (" ship " ^ ship);
  if trace then
    List.iter (fun ts ->
        Buffer.add_string b " T";
        List.iter (fun rs ->
            Buffer.add_string b (Printf.sprintf " %s %d %s %s" (string_of_q rs.t_cyc)
                                   (if rs.t_cycled then 1 else 0) (str4 rs.t_resos) (str4 rs.t_dmg)))
          ts) hist;
  print_endline (Buffer.contents b)

let () =
  try while true do
    let l = input_line stdin in
    (try
      (match split_ws l with
       | "sim" :: toks -> sim false toks
       | "trace" :: toks -> sim true toks
       | ["round"; x; d] ->
         (match sig_round (q_of_string x) (z_of_string d) with
          | Ok v -> print_endline ("ok " ^ string_of_q v)
          | Err e -> print_endline ("err:" ^ err_name e))
       | "next" :: toks ->
         let cur = r4 (take 4 toks) and dmg = r4 (take 4 (drop 4 toks)) in
         (match next_resos cur dmg (q_of_string (List.nth toks 8)) with
          | Ok v -> print_endline ("ok " ^ str4 v)
          | Err e -> print_endline ("err:" ^ err_name e))
       | _ -> print_endline "error badline")
    with Failure m -> print_endline ("error " ^ m))
  done with End_of_file -> ()
