(* C03: appended to a copy of engine_driver.ml by harness/c03.py (gen_driver) *)
(* ---- validation data ------------------------------------------------ *)
let cls_s = function
  | CShip -> "ship" | CCharacter -> "character" | CStance -> "stance" | CBeacon -> "beacon"
  | CSkill -> "skill" | CImplant -> "implant" | CBooster -> "booster" | CSubsystem -> "subsystem"
  | CModHigh -> "modhigh" | CModMid -> "modmid" | CModLow -> "modlow" | CRig -> "rig"
  | CDrone -> "drone" | CFighter -> "fighter" | CCharge -> "charge" | CAutocharge -> "autocharge"
let qs l = if l = [] then "" else String.concat ";" (List.map string_of_q l)
let oz_s = function None -> "-" | Some z -> string_of_int (int_of_z z)
let zs_ z = string_of_int (int_of_z z)
let err_s = function
  | EResource (t, o, u) -> Printf.sprintf "res,%s,%s,%s" (string_of_q t) (string_of_q o) (string_of_q u)
  | ESlotQty (u, t) -> Printf.sprintf "slot,%s,%s" (zs_ u) (zs_ t)
  | ECapital (v, m) -> Printf.sprintf "cap,%s,%s" (string_of_q v) (string_of_q m)
  | EChargeGroup (g, l) -> Printf.sprintf "chg,%s,%s" (oz_s g) (qs l)
  | EChargeSize (s, a) -> Printf.sprintf "chs,%s,%s" (match s with None -> "-" | Some q -> string_of_q q) (string_of_q a)
  | EChargeVolume (v, m) -> Printf.sprintf "chv,%s,%s" (string_of_q v) (string_of_q m)
  | EDroneGroup (g, l) -> Printf.sprintf "drg,%s,%s" (oz_s g) (qs l)
  | EItemClass (c, l) -> Printf.sprintf "cls,%s,%s" (cls_s c) (String.concat ";" (List.map cls_s l))
  | ELoadedItem -> "ld"
  | EMaxGroup (g, n, m) -> Printf.sprintf "mg,%s,%s,%s" (oz_s g) (zs_ n) (string_of_q m)
  | ERigSize (s, a) -> Printf.sprintf "rig,%s,%s" (string_of_q s) (string_of_q a)
  | EShipTypeGroup (t, g, tl, gl) -> Printf.sprintf "stg,%s,%s,%s,%s" (oz_s t) (oz_s g) (qs tl) (qs gl)
  | ESkillRq l -> "skl," ^ String.concat ";" (List.map (fun ((t, lv), rq) ->
                     Printf.sprintf "%s/%s/%s" (zs_ t) (oz_s lv) (zs_ rq)) l)
  | ESlotIndex q -> "idx," ^ string_of_q q
  | EState (s, l) -> Printf.sprintf "st,%s,%s" (zs_ s) (String.concat ";" (List.map zs_ l))
let rec key_s w = function
  | None -> "-"
  | Some i ->
    (match get_item w i with
     | Some it when it.i_cls = CAutocharge ->
       (match it.i_cont with
        | Some (PAuto p) ->
          let eff = (match get_item w p with
              | Some pit -> (match List.filter (fun (_, a) -> int_of_nat a = int_of_nat i) pit.i_autos with
                  | (e, _) :: _ -> string_of_int (int_of_z e) | [] -> "?")
              | None -> "?") in
          "a" ^ key_s w (Some p) ^ "." ^ eff
        | _ -> "a?")
     | _ -> string_of_int (int_of_nat i))
let entry_s w ((k, t), e) = Printf.sprintf "%s:%d:%s" (key_s w k) (int_of_z t) (err_s e)
let do_validate f skip =
  let skip = if skip = "-" then [] else List.map zi (String.split_on_char ',' skip) in
  let ((xw, v), err) = xvalidate (!world, !rr) (ni f) skip in
  world := fst xw;
  match err, v with
  | Some e, _ -> "exn Internal:" ^ ierr_s e
  | None, None -> "exn Raised"
  | None, Some [] -> "vok"
  | None, Some l -> "vdata " ^ String.concat " " (List.map (entry_s (fst xw).s_w) l)
let rregs_s f =
  let g = rr_get !rr (ni f) in
  "rregs " ^ String.concat " " (List.map (fun r ->
     Printf.sprintf "%d=%s" (int_of_nat (rid_num r))
       (ints (List.map (fun (x, _) -> int_of_nat x) (fr_get g r)))) all_rids)

