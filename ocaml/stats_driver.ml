(* prelude: nat z q *)
(* Line-oriented driver for the extracted C04 model (engine + stat registers).
   A copy of engine_driver.ml's command set (same line format) extended with the
   statistics commands. One output line per input line. Integers in decimal,
   rationals as binary num/den. *)
let zi s = z_of_int (int_of_string s)
let ni s = nat_of_int (int_of_string s)
let oz s = if s = "-" then None else Some (zi s)
let on s = if s = "-" then None else Some (ni s)
let oq s = if s = "-" then None else Some (q_of_string s)
let b s = s = "1"

let cls_of = function
  | "ship" -> CShip | "character" -> CCharacter | "stance" -> CStance | "beacon" -> CBeacon
  | "skill" -> CSkill | "implant" -> CImplant | "booster" -> CBooster | "subsystem" -> CSubsystem
  | "modhigh" -> CModHigh | "modmid" -> CModMid | "modlow" -> CModLow | "rig" -> CRig
  | "drone" -> CDrone | "fighter" -> CFighter | "charge" -> CCharge | "autocharge" -> CAutocharge
  | s -> failwith ("class " ^ s)
let slot_of = function "ship" -> SlShip | "character" -> SlCharacter | "stance" -> SlStance
  | "beacon" -> SlBeacon | s -> failwith ("slot " ^ s)
let set_of = function "skills" -> SeSkills | "implants" -> SeImplants | "boosters" -> SeBoosters
  | "subsystems" -> SeSubsystems | "rigs" -> SeRigs | "drones" -> SeDrones | "fighters" -> SeFighters
  | s -> failwith ("set " ^ s)
let rack_of = function "high" -> RHigh | "mid" -> RMid | "low" -> RLow | s -> failwith ("rack " ^ s)

(* universes under construction, by source id *)
type ub = { mutable attrs : (z * attr_meta) list; mutable effects : (z * effect) list;
            mutable types : (z * itype) list; mutable buffs : (z * buff_template list) list }
let ubs : (int, ub) Hashtbl.t = Hashtbl.create 4
let ub src = match Hashtbl.find_opt ubs src with
  | Some u -> u
  | None -> let u = { attrs = []; effects = []; types = []; buffs = [] } in Hashtbl.replace ubs src u; u
let zeq a b = int_of_z a = int_of_z b
let rec upd k f = function
  | [] -> failwith "unknown id in universe"
  | (k', v) :: r -> if zeq k k' then (k', f v) :: r else (k', v) :: upd k f r

let ierr_s = function ENoneDeref -> "NoneDeref" | EKeyAbsent -> "KeyAbsent" | EOutOfFuel -> "OutOfFuel"
  | EZeroDiv -> "ZeroDiv" | ENoneState -> "NoneState"
let exn_s = function XType -> "TypeError" | XValue -> "ValueError" | XKey -> "KeyError"
  | XIndex -> "IndexError" | XSlotTaken -> "SlotTakenError" | XUnknownSource -> "UnknownSourceError"
  | XInternal e -> "Internal:" ^ ierr_s e
let res_s = function
  | ROk -> "ok"
  | RVal v -> "val " ^ string_of_q v
  | RNone -> "none"
  | RKeys l -> "keys " ^ String.concat " " (List.map string_of_int (List.sort compare (List.map int_of_z l)))
  | REffects l -> "effects " ^ String.concat " "
                    (List.map (fun (e, s) -> Printf.sprintf "%d:%d" e (if s then 1 else 0))
                       (List.sort compare (List.map (fun (e, s) -> (int_of_z e, s)) l)))
  | RExn x -> "exn " ^ exn_s x

let xw = ref (init_xsys [])
let dur : (z * z option) list ref = ref []
let pen = ref []

let ints l = String.concat "," (List.map string_of_int (List.sort compare l))
let on_s = function None -> "-" | Some n -> string_of_int (int_of_nat n)
let place_s = function
  | None -> "-"
  | Some (PSlot (f, k)) -> Printf.sprintf "slot:%d:%s" (int_of_nat f)
      (match k with SlShip -> "ship" | SlCharacter -> "character" | SlStance -> "stance" | SlBeacon -> "beacon")
  | Some (PSet (f, k)) -> Printf.sprintf "set:%d:%s" (int_of_nat f)
      (match k with SeSkills -> "skills" | SeImplants -> "implants" | SeBoosters -> "boosters"
       | SeSubsystems -> "subsystems" | SeRigs -> "rigs" | SeDrones -> "drones" | SeFighters -> "fighters")
  | Some (PRack (f, k)) -> Printf.sprintf "rack:%d:%s" (int_of_nat f)
      (match k with RHigh -> "high" | RMid -> "mid" | RLow -> "low")
  | Some (PCharge p) -> Printf.sprintf "charge:%d" (int_of_nat p)
  | Some (PAuto p) -> Printf.sprintf "auto:%d" (int_of_nat p)

(* canonical dump of one item (public view + cache keys) *)
let item_s x i =
  let w = x.s_w in
  match get_item w (ni i) with
  | None -> "item " ^ i ^ " absent"
  | Some it ->
    Printf.sprintf "item %s cont=%s fit=%s state=%s loaded=%d running=%s target=%s charge=%s autos=%s cached=%s"
      i (place_s it.i_cont) (on_s (item_fit w (ni i)))
      (match item_state w (ni i) with None -> "-" | Some s -> string_of_int (int_of_z s))
      (match it.i_loaded with None -> 0 | Some _ -> 1)
      (ints (List.map int_of_z it.i_running)) (on_s it.i_target) (on_s it.i_charge)
      (String.concat "," (List.map (fun (e, a) ->
           Printf.sprintf "%d>%d" (int_of_z e)
             (match get_item w a with Some x -> int_of_z x.i_tid | None -> -1))
           (List.sort compare it.i_autos)))
      (ints (List.map (fun (a, _) -> int_of_z a) (get_icache x.s_d (ni i)).ic_vals))

let fit_s x f =
  let w = x.s_w in
  match get_fit w (ni f) with
  | None -> "fit " ^ f ^ " absent"
  | Some ft ->
    let set l = ints (List.map int_of_nat l) in
    let rack l = String.concat "," (List.map on_s l) in
    Printf.sprintf "fit %s ship=%s character=%s stance=%s beacon=%s skills=%s skillmap=%s implants=%s boosters=%s subsystems=%s rigs=%s drones=%s fighters=%s high=[%s] mid=[%s] low=[%s] solsys=%s fleet=%s"
      f (on_s ft.f_ship) (on_s ft.f_character) (on_s ft.f_stance) (on_s ft.f_beacon)
      (set ft.f_skills)
      (String.concat "," (List.map (fun (t, i) -> Printf.sprintf "%d>%d" t i)
                            (List.sort compare (List.map (fun (t, i) -> (int_of_z t, int_of_nat i)) ft.f_skillmap))))
      (set ft.f_implants) (set ft.f_boosters) (set ft.f_subsystems) (set ft.f_rigs)
      (set ft.f_drones) (set ft.f_fighters) (rack ft.f_high) (rack ft.f_mid) (rack ft.f_low)
      (on_s ft.f_solsys) (on_s ft.f_fleet)

let ks_size l = List.fold_left (fun a (_, v) -> a + 1 + List.length v) 0 l
let regs_s x s =
  match get_ss x.s_w (ni s) with
  | None -> "regs " ^ s ^ " absent"
  | Some _ -> let c = calc_of x.s_d (ni s) in
    Printf.sprintf "regs %s affectees=%d ae=%d ao_other=%d ao_await=%d ao_active=%d ao_filters=%d projectors=%d carrier=%d carrierless=%d ptgts=%d tgtp=%d buffs=%d"
      s (List.length c.c_affectees)
      (ks_size c.c_ae_dom + ks_size c.c_ae_domgrp + ks_size c.c_ae_domsrq + ks_size c.c_ae_ownsrq)
      (ks_size c.c_ao_other) (ks_size c.c_ao_await) (ks_size c.c_ao_active)
      (ks_size c.c_ao_dom + ks_size c.c_ao_domgrp + ks_size c.c_ao_domsrq + ks_size c.c_ao_ownsrq)
      (List.length c.c_projectors) (ks_size c.c_carrier) (List.length c.c_carrierless)
      (ks_size c.c_ptgts) (ks_size c.c_tgtp) (ks_size c.c_buffs)

let msg_s (f, m) =
  let i n = string_of_int (int_of_nat n) in
  let zs l = ints (List.map int_of_z l) in
  let ts l = String.concat "," (List.map on_s l) in
  string_of_int (int_of_nat f) ^ ":" ^ (match m with
  | MItemAdded a -> "ItemAdded(" ^ i a ^ ")"
  | MItemRemoved a -> "ItemRemoved(" ^ i a ^ ")"
  | MStatesActivated (a, s) -> "StatesActivated(" ^ i a ^ ";" ^ zs s ^ ")"
  | MStatesDeactivated (a, s) -> "StatesDeactivated(" ^ i a ^ ";" ^ zs s ^ ")"
  | MItemLoaded a -> "ItemLoaded(" ^ i a ^ ")"
  | MItemUnloaded a -> "ItemUnloaded(" ^ i a ^ ")"
  | MStatesActivatedLoaded (a, s) -> "StatesActivatedLoaded(" ^ i a ^ ";" ^ zs s ^ ")"
  | MStatesDeactivatedLoaded (a, s) -> "StatesDeactivatedLoaded(" ^ i a ^ ";" ^ zs s ^ ")"
  | MEffectsStarted (a, e) -> "EffectsStarted(" ^ i a ^ ";" ^ zs e ^ ")"
  | MEffectsStopped (a, e) -> "EffectsStopped(" ^ i a ^ ";" ^ zs e ^ ")"
  | MEffectApplied (a, e, t) -> "EffectApplied(" ^ i a ^ ";" ^ string_of_int (int_of_z e) ^ ";" ^ ts t ^ ")"
  | MEffectUnapplied (a, e, t, _) -> "EffectUnapplied(" ^ i a ^ ";" ^ string_of_int (int_of_z e) ^ ";" ^ ts t ^ ")"
  | MAttrsChanged ch -> "AttrsValueChanged(" ^ String.concat "|" (List.map (fun (a, l) -> i a ^ ":" ^ zs l) ch) ^ ")"
  | MAttrsChangedMasked ch -> "AttrsValueChangedMasked(" ^ String.concat "|" (List.map (fun (a, l) -> i a ^ ":" ^ zs l) ch) ^ ")"
  | MFleetFitAdded -> "FleetFitAdded" | MFleetFitRemoved -> "FleetFitRemoved"
  | MDefaultDmgChanged -> "DefaultIncomingDmgChanged" | MRahDmgChanged -> "RahIncomingDmgChanged")

let counts : (string, int) Hashtbl.t = Hashtbl.create 32
let bump k n = Hashtbl.replace counts k (n + (try Hashtbl.find counts k with Not_found -> 0))
let kind_of = function
  | MItemAdded _ -> "ItemAdded" | MItemRemoved _ -> "ItemRemoved" | MStatesActivated _ -> "StatesActivated"
  | MStatesDeactivated _ -> "StatesDeactivated" | MItemLoaded _ -> "ItemLoaded" | MItemUnloaded _ -> "ItemUnloaded"
  | MStatesActivatedLoaded _ -> "StatesActivatedLoaded" | MStatesDeactivatedLoaded _ -> "StatesDeactivatedLoaded"
  | MEffectsStarted _ -> "EffectsStarted" | MEffectsStopped _ -> "EffectsStopped"
  | MEffectApplied _ -> "EffectApplied" | MEffectUnapplied _ -> "EffectUnapplied"
  | MAttrsChanged _ -> "AttrsValueChanged" | MAttrsChangedMasked _ -> "AttrsValueChangedMasked"
  | MFleetFitAdded -> "FleetFitAdded" | MFleetFitRemoved -> "FleetFitRemoved"
  | MDefaultDmgChanged -> "DefaultIncomingDmgChanged" | MRahDmgChanged -> "RahIncomingDmgChanged"
let do_step o =
  let (x, r) = xstep !dur !xw (XEngine o) in
  xw := x;
  let r = match r with XR r -> r | XS _ -> ROk in
  List.iter (fun (_, m) -> bump (kind_of m) 1) x.x_sys.s_d.d_trace;
  (match o with ORead _ | OGet _ | OKeys _ | OEffects _ -> () | _ ->
     (* invalidations: cached entries that disappeared are visible through AttrsValueChanged *)
     ());
  res_s r


(* ---- statistics ------------------------------------------------------- *)
let prof_of s = match String.split_on_char ',' s with
  | [a; b; c; d] -> { p_em = q_of_string a; p_th = q_of_string b; p_ki = q_of_string c; p_ex = q_of_string d }
  | _ -> failwith ("profile " ^ s)
let oprof s = if s = "-" then None else Some (prof_of s)
let rec filter_of s =
  if String.length s > 0 && s.[0] = '!' then FNot (filter_of (String.sub s 1 (String.length s - 1)))
  else match s with
    | "all" -> FAll | "turret" -> FTurret | "missile" -> FMissile | "drone" -> FDrone | "sentry" -> FSentry
    | _ when String.length s > 4 && String.sub s 0 4 = "tid:" -> FTid (zi (String.sub s 4 (String.length s - 4)))
    | _ -> failwith ("filter " ^ s)
let rk_of = function "cpu" -> RkCpu | "powergrid" -> RkPowergrid | "calibration" -> RkCalibration
  | "dronebay" -> RkDronebay | "drone_bandwidth" -> RkDroneBandwidth | s -> failwith ("resource " ^ s)
let sk_of = function "turret_slots" -> SkTurret | "launcher_slots" -> SkLauncher | "launched_drones" -> SkLaunchedDrones
  | "fighter_squads_support" -> SkFighterSupport | "fighter_squads_light" -> SkFighterLight
  | "fighter_squads_heavy" -> SkFighterHeavy | s -> failwith ("slot " ^ s)
let ck_of = function "high_slots" -> CkHigh | "mid_slots" -> CkMid | "low_slots" -> CkLow | "rig_slots" -> CkRig
  | "subsystem_slots" -> CkSubsystem | "fighter_squads" -> CkFighters | s -> failwith ("container " ^ s)
let dparg_of = function "default" -> DDefault | "none" -> DNone | s -> DProf (prof_of s)

let sread_of = function
  | ["used"; f; k] -> SResUsed (ni f, rk_of k)
  | ["output"; f; k] -> SResOutput (ni f, rk_of k)
  | ["slot_used"; f; k] -> SSlotUsed (ni f, sk_of k)
  | ["slot_total"; f; k] -> SSlotTotal (ni f, sk_of k)
  | ["slots"; f; k] -> SContSlots (ni f, ck_of k)
  | ["hp"; f] -> SFitHp (ni f)
  | ["resists"; f] -> SFitResists (ni f)
  | ["ehp"; f; p] -> SFitEhp (ni f, oprof p)
  | ["wcehp"; f] -> SFitWcEhp (ni f)
  | ["volley"; f; flt; r] -> SFitVolley (ni f, filter_of flt, oprof r)
  | ["dps"; f; flt; rl; r] -> SFitDps (ni f, filter_of flt, b rl, oprof r)
  | ["arps"; f; p; rl] -> SFitArmorRps (ni f, dparg_of p, b rl)
  | ["srps"; f; p; rl] -> SFitShieldRps (ni f, dparg_of p, b rl)
  | ["ihp"; i] -> SItemHp (ni i)
  | ["iresists"; i] -> SItemResists (ni i)
  | ["iehp"; i; p] -> SItemEhp (ni i, oprof p)
  | ["iwcehp"; i] -> SItemWcEhp (ni i)
  | ["ivolley"; i; r] -> SItemVolley (ni i, oprof r)
  | ["idps"; i; rl; r] -> SItemDps (ni i, b rl, oprof r)
  | _ -> failwith "stat read"

let sexn_s = function SXValue -> "ValueError" | SXKey -> "KeyError" | SXZeroDiv -> "ZeroDivisionError"
  | SXAttr -> "AttributeError" | SXType -> "TypeError" | SXUnsupported -> "Unsupported"
let qs = string_of_q
let prof_s p = String.concat " " [qs p.p_em; qs p.p_th; qs p.p_ki; qs p.p_ex]
let sval_s = function
  | VNum v -> "val " ^ qs v
  | VInt z -> "int " ^ string_of_int (int_of_z z)
  | VSlots (u, t) -> Printf.sprintf "slots %d %d" (int_of_z u) (int_of_z t)
  | VDmg p -> "dmg " ^ prof_s p
  | VHp h -> "hp " ^ String.concat " " [qs h.h_hull; qs h.h_armor; qs h.h_shield]
  | VRes r -> "res " ^ String.concat " " [prof_s r.r_hull; prof_s r.r_armor; prof_s r.r_shield]
let rec uniq = function [] -> [] | x :: r -> x :: uniq (List.filter (fun y -> y <> x) r)

(* One statistic. The attribute reader handed to the (pure) model function is
   item.attrs.get on the current state; like the implementation it keeps what
   it calculated, so the caches after the read are those of the real
   MutableAttrMap (glue: the threading of the derived state through the reads
   of one statistic happens here, not in Coq). *)
let do_stat r =
  let x = !xw in
  let w = clear_err x.x_sys.s_w in
  let dref = ref (d_clear x.x_sys.s_d) in
  let av i a = let (d', v) = read_attr pF w !dref i a in dref := d'; v in
  let res = stat_read av w !dref !dur x.x_regs x.x_dp r in
  (* an exception raised inside the attribute calculation: nothing of this read
     is kept (the failing attribute is never cached by the implementation) *)
  (match (!dref).d_err with
   | Some _ -> ()
   | None -> xw := { x with x_sys = { s_w = w; s_d = !dref } });
  match (!dref).d_err with
  | Some e -> "exn Internal:" ^ ierr_s e
  | None ->
    (match res with
     | Ok v -> sval_s v
     | Ex l -> "exn " ^ String.concat "|" (uniq (List.map sexn_s l)))

(* register contents of a fit, and whether they equal the from-scratch sets *)
let regid_s = function RegCpu -> "cpu" | RegPowergrid -> "powergrid" | RegCalibration -> "calibration"
  | RegDronebayVolume -> "dronebay" | RegDroneBandwidth -> "drone_bandwidth" | RegTurretSlot -> "turret_slots"
  | RegLauncherSlot -> "launcher_slots" | RegLaunchedDrone -> "launched_drones"
  | RegFighterSquadSupport -> "fighter_squads_support" | RegFighterSquadLight -> "fighter_squads_light"
  | RegFighterSquadHeavy -> "fighter_squads_heavy"
let pairs_s l = String.concat "," (List.map (fun (i, e) -> Printf.sprintf "%d:%d" i e)
                                     (List.sort compare (List.map (fun (i, e) -> (int_of_nat i, int_of_z e)) l)))
let fregs_s g =
  String.concat " " (List.map (fun r -> regid_s r ^ "=" ^ ints (List.map int_of_nat (g_get g r))) aLL_REGIDS)
  ^ " dd=" ^ pairs_s g.g_dd ^ " arep=" ^ pairs_s g.g_arep ^ " srep=" ^ pairs_s g.g_srep
let regdump f =
  let x = !xw in
  let g = regs_get x.x_regs (ni f) in
  let s = fregs_s g in
  let spec = fregs_s (spec_fregs x.x_sys.s_w (ni f)) in
  "regdump " ^ f ^ " " ^ s ^ (if g.g_err then " HANDLER-ERROR" else "")
  ^ (if s = spec then "" else " SPEC-DIFFERS " ^ spec)

let handle toks =
  match toks with
  | "pen" :: qs -> pen := List.map q_of_string qs; xw := init_xsys !pen; dur := []; Hashtbl.reset ubs; "ok"
  | ["reset"] -> xw := init_xsys !pen; dur := []; Hashtbl.reset ubs; "ok"
  | ["u_attr"; src; aid; d; hig; st; mx] ->
    let u = ub (int_of_string src) in
    u.attrs <- u.attrs @ [(zi aid, { am_default = oq d; am_hig = b hig; am_stackable = b st; am_max = oz mx })]; "ok"
  | ["u_effect"; src; eid; cat; chance; resist; buff; auto] ->
    let u = ub (int_of_string src) in
    u.effects <- u.effects @ [(zi eid, { e_cat = zi cat; e_chance_attr = oz chance; e_resist_attr = oz resist;
                                        e_mods = []; e_buff = b buff; e_autocharge_attr = oz auto })]; "ok"
  | ["u_mod"; src; eid; flt; extra; dom; tgt; op; agg; key; srca] ->
    let u = ub (int_of_string src) in
    let m = { m_filter = zi flt; m_extra = oz extra; m_domain = zi dom; m_tgt_attr = zi tgt; m_op = zi op;
              m_aggmode = zi agg; m_aggkey = oz key; m_src_attr = zi srca; m_py = zi "0" } in
    u.effects <- upd (zi eid) (fun e -> { e with e_mods = e.e_mods @ [m] }) u.effects; "ok"
  | ["u_type"; src; tid; grp; cat; def] ->
    let u = ub (int_of_string src) in
    u.types <- u.types @ [(zi tid, { t_group = oz grp; t_category = oz cat; t_attrs = []; t_effects = [];
                                    t_default = oz def; t_skills = [] })]; "ok"
  | ["u_tattr"; src; tid; aid; v] ->
    let u = ub (int_of_string src) in
    u.types <- upd (zi tid) (fun t -> { t with t_attrs = t.t_attrs @ [(zi aid, q_of_string v)] }) u.types; "ok"
  | ["u_teffect"; src; tid; eid] ->
    let u = ub (int_of_string src) in
    u.types <- upd (zi tid) (fun t -> { t with t_effects = t.t_effects @ [zi eid] }) u.types; "ok"
  | ["u_tskill"; src; tid; sk; lvl] ->
    let u = ub (int_of_string src) in
    u.types <- upd (zi tid) (fun t -> { t with t_skills = t.t_skills @ [(zi sk, zi lvl)] }) u.types; "ok"
  | ["u_tability"; _; _; _] -> "ok"   (* fighter abilities are switched by no statistics history *)
  | ["u_buff"; src; bid; flt; extra; tgt; op; agg] ->
    let u = ub (int_of_string src) in
    let t = { b_filter = zi flt; b_extra = oz extra; b_tgt_attr = zi tgt; b_op = zi op; b_aggmode = zi agg } in
    let k = zi bid in
    (if List.exists (fun (k', _) -> zeq k k') u.buffs
     then u.buffs <- upd k (fun l -> l @ [t]) u.buffs else u.buffs <- u.buffs @ [(k, [t])]); "ok"
  | ["commit"; src] ->
    let u = ub (int_of_string src) in
    do_step (ODefSource (ni src, { u_attrs = u.attrs; u_effects = u.effects; u_types = u.types; u_buffs = u.buffs }))
  | ["new"; i; c; tid; st; lvl] -> do_step (ONewItem (ni i, cls_of c, zi tid, zi st, zi lvl))
  | ["fit"; f; chr] -> do_step (ONewFit (ni f, ni chr))
  | ["solsys"; s] -> do_step (ONewSolsys (ni s))
  | ["slot"; f; k; v] -> do_step (OSlot (ni f, slot_of k, on v))
  | ["sadd"; f; k; i] -> do_step (OSetAdd (ni f, set_of k, ni i))
  | ["srm"; f; k; i] -> do_step (OSetRemove (ni f, set_of k, ni i))
  | ["sclear"; f; k] -> do_step (OSetClear (ni f, set_of k))
  | ["skilldel"; f; tid] -> do_step (OSkillDel (ni f, zi tid))
  | ["rappend"; f; k; i] -> do_step (ORackAppend (ni f, rack_of k, ni i))
  | ["rinsert"; f; k; idx; v] -> do_step (ORackInsert (ni f, rack_of k, zi idx, on v))
  | ["rplace"; f; k; idx; i] -> do_step (ORackPlace (ni f, rack_of k, zi idx, ni i))
  | ["requip"; f; k; i] -> do_step (ORackEquip (ni f, rack_of k, ni i))
  | ["rremove"; f; k; "item"; v] -> do_step (ORackRemove (ni f, rack_of k, RItem (on v)))
  | ["rremove"; f; k; "idx"; n] -> do_step (ORackRemove (ni f, rack_of k, RIndex (zi n)))
  | ["rfree"; f; k; "item"; v] -> do_step (ORackFree (ni f, rack_of k, RItem (on v)))
  | ["rfree"; f; k; "idx"; n] -> do_step (ORackFree (ni f, rack_of k, RIndex (zi n)))
  | ["rclear"; f; k] -> do_step (ORackClear (ni f, rack_of k))
  | ["charge"; m; c] -> do_step (OCharge (ni m, on c))
  | ["state"; i; st] -> do_step (OState (ni i, zi st))
  | ["target"; i; t] -> do_step (OTarget (ni i, on t))
  | ["mode"; i; e; m] -> do_step (OMode (ni i, zi e, zi m))
  | ["level"; i; l] -> do_step (OLevel (ni i, zi l))
  | ["fladd"; fl; f] -> do_step (OFleetAdd (ni fl, ni f))
  | ["flrm"; fl; f] -> do_step (OFleetRemove (ni fl, ni f))
  | ["flclear"; fl] -> do_step (OFleetClear (ni fl))
  | ["ssadd"; s; f] -> do_step (OSolsysAdd (ni s, ni f))
  | ["ssrm"; s; f] -> do_step (OSolsysRemove (ni s, ni f))
  | ["ssclear"; s] -> do_step (OSolsysClear (ni s))
  | ["source"; s; src] when String.length src > 0 && src.[0] = '?' ->
    do_step (OSource (ni s, Some (ni (string_of_int (100000 + int_of_string (String.sub src 1 (String.length src - 1)))))))
  | ["source"; s; src] -> do_step (OSource (ni s, on src))
  | ["read"; i; a] -> do_step (ORead (ni i, zi a))
  | ["get"; i; a] -> do_step (OGet (ni i, zi a))
  | ["keys"; i] -> do_step (OKeys (ni i))
  | ["effects"; i] -> do_step (OEffects (ni i))
  | ["item"; i] -> item_s (!xw).x_sys i
  | ["fitdump"; f] -> fit_s (!xw).x_sys f
  | ["regs"; s] -> regs_s (!xw).x_sys s
  | ["counters"] ->
    let l = Hashtbl.fold (fun k v a -> (k, v) :: a) counts [] in
    Hashtbl.reset counts;
    "counters " ^ String.concat " " (List.map (fun (k, v) -> k ^ "=" ^ string_of_int v) (List.sort compare l))
  | "st" :: rest -> do_stat (sread_of rest)
  | ["setdmg"; _; p] when String.length p > 0 && p.[0] = '!' ->
    (* an object that is no damage profile: the setter refuses it (TypeError) and keeps what it had *)
    "exn TypeError"
  | ["setdmg"; f; p] ->
    let (x, r) = xstep !dur !xw (XSetDefaultDmg (ni f, prof_of p)) in
    xw := x; (match r with XR r -> res_s r | XS _ -> "ok")
  | ["u_dur"; _; eid; a] -> dur := (zi eid, oz a) :: List.filter (fun (e, _) -> not (zeq e (zi eid))) !dur; "ok"
  | ["regdump"; f] -> regdump f
  | ["trace"] -> "trace " ^ String.concat " " (List.rev_map msg_s (!xw).x_sys.s_d.d_trace)
  | _ -> "error badline"

let () =
  try while true do
    let l = input_line stdin in
    print_endline (try handle (split_ws l) with Failure m -> "error " ^ m | Not_found -> "error notfound")
  done with End_of_file -> ()
