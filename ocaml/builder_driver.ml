(* prelude: *)
(* C18 driver.  The extracted module defines its own [string] (Coq strings),
   so OCaml strings are written Stdlib.String.t here and the shared preludes
   (which annotate with [string]) are not used.

   One data set per input line, whitespace separated tokens:
     line   := table{9}         (order: evetypes evegroups dgmattribs dgmtypeattribs
                                 dgmeffects dgmtypeeffects dbuffcollections skillreqs
                                 typefighterabils)
     table  := nrows row*
     row    := nfields (name value)*
     name   := 'x' hex
     value  := scalar | 'L' ndicts (nfields (name scalar)* )*
     scalar := 'i' bits | 'b' 0|1 | 'f' bits/bits | 'nan' | 'inf+' | 'inf-'
             | 's' name ('-' | bits) | 'n'
   integers travel as binary strings.  One output line per input line. *)

type ostr = Stdlib.String.t

let pos_of_bits (s : ostr) : positive =
  let n = Stdlib.String.length s in
  if n = 0 || s.[0] <> '1' then failwith ("bad positive " ^ s);
  let rec go i acc = if i >= n then acc
    else go (i + 1) (match s.[i] with '1' -> XI acc | '0' -> XO acc | _ -> failwith "bad bit") in
  go 1 XH
let bits_of_pos (p : positive) : ostr =
  let b = Buffer.create 64 in
  let rec go p acc = match p with
    | XH -> '1' :: acc | XO q -> go q ('0' :: acc) | XI q -> go q ('1' :: acc) in
  List.iter (Buffer.add_char b) (go p []); Buffer.contents b
let z_of_bits (s : ostr) : z =
  if s = "0" then Z0
  else if s.[0] = '-' then Zneg (pos_of_bits (Stdlib.String.sub s 1 (Stdlib.String.length s - 1)))
  else Zpos (pos_of_bits s)
let bits_of_z (x : z) : ostr = match x with
  | Z0 -> "0" | Zpos p -> bits_of_pos p | Zneg p -> "-" ^ bits_of_pos p
let q_of_bits (s : ostr) : q =
  match Stdlib.String.split_on_char '/' s with
  | [n; d] -> { qnum = z_of_bits n; qden = pos_of_bits d }
  | _ -> failwith ("bad rational " ^ s)

(* Coq strings <-> OCaml strings *)
let ascii_of_char (c : char) : ascii =
  let n = Char.code c in
  let b i = (n lsr i) land 1 = 1 in
  Ascii (b 0, b 1, b 2, b 3, b 4, b 5, b 6, b 7)
let char_of_ascii (a : ascii) : char =
  match a with Ascii (b0, b1, b2, b3, b4, b5, b6, b7) ->
    let v b i = if b then 1 lsl i else 0 in
    Char.chr (v b0 0 + v b1 1 + v b2 2 + v b3 3 + v b4 4 + v b5 5 + v b6 6 + v b7 7)
let coq_of_ostr (s : ostr) : string =
  let r = ref EmptyString in
  for i = Stdlib.String.length s - 1 downto 0 do r := String (ascii_of_char s.[i], !r) done; !r
let ostr_of_coq (s : string) : ostr =
  let b = Buffer.create 16 in
  let rec go = function EmptyString -> () | String (a, r) -> Buffer.add_char b (char_of_ascii a); go r in
  go s; Buffer.contents b
let unhex (t : ostr) : ostr =
  if Stdlib.String.length t = 0 || t.[0] <> 'x' then failwith ("bad name " ^ t);
  let n = (Stdlib.String.length t - 1) / 2 in
  Stdlib.String.init n (fun i -> Char.chr (int_of_string ("0x" ^ Stdlib.String.sub t (1 + 2 * i) 2)))
let hex (s : ostr) : ostr =
  let b = Buffer.create 16 in
  Buffer.add_char b 'x';
  Stdlib.String.iter (fun c -> Buffer.add_string b (Printf.sprintf "%02x" (Char.code c))) s;
  Buffer.contents b

(* token stream *)
let toks : ostr array ref = ref [||]
let cur = ref 0
let next () : ostr =
  if !cur >= Array.length !toks then failwith "unexpected end of line";
  let t = !toks.(!cur) in incr cur; t
let next_int () = int_of_string (next ())
let rec times n f = if n <= 0 then [] else let x = f () in x :: times (n - 1) f

let scalar_of (t : ostr) : scalar =
  match t with
  | "i" -> SInt (z_of_bits (next ()))
  | "b" -> SBool (next () = "1")
  | "f" -> SFlt (q_of_bits (next ()))
  | "nan" -> SNan
  | "inf+" -> SInf false
  | "inf-" -> SInf true
  | "s" -> let s = coq_of_ostr (unhex (next ())) in
    let p = next () in SStr (s, if p = "-" then None else Some (z_of_bits p))
  | "n" -> SNone
  | _ -> failwith ("bad scalar tag " ^ t)
let name () = coq_of_ostr (unhex (next ()))
let read_value () : value =
  let t = next () in
  if t = "L" then
    VL (times (next_int ()) (fun () ->
        times (next_int ()) (fun () -> let n = name () in let s = scalar_of (next ()) in (n, s))))
  else VS (scalar_of t)
let read_row () = times (next_int ()) (fun () -> let n = name () in let v = read_value () in (n, v))
let read_table () = times (next_int ()) read_row

(* printing *)
let buf = Buffer.create 4096
let out (s : ostr) = Buffer.add_string buf s; Buffer.add_char buf ' '
let out_scalar (s : scalar) = match s with
  | SInt z -> out ("i:" ^ bits_of_z z)
  | SBool b -> out (if b then "b:1" else "b:0")
  | SFlt q -> out ("f:" ^ bits_of_z q.qnum ^ "/" ^ bits_of_pos q.qden)
  | SNan -> out "nan"
  | SInf n -> out (if n then "inf-" else "inf+")
  | SStr (s, _) -> out ("s:" ^ hex (ostr_of_coq s))
  | SNone -> out "n"
let out_value (v : value) = match v with
  | VS s -> out_scalar s
  | VL l -> out ("L" ^ string_of_int (List.length l))
let out_optvalue = function None -> out "n" | Some v -> out_value v
let out_optscalar = function None -> out "n" | Some s -> out_scalar s
let out_z z = out (bits_of_z z)
let out_list (l : 'a list) (f : 'a -> unit) = out (string_of_int (List.length l)); List.iter f l
let table_name = function
  | T_evetypes -> "evetypes" | T_evegroups -> "evegroups" | T_dgmattribs -> "dgmattribs"
  | T_dgmtypeattribs -> "dgmtypeattribs" | T_dgmeffects -> "dgmeffects"
  | T_dgmtypeeffects -> "dgmtypeeffects" | T_dbuffcollections -> "dbuffcollections"
  | T_skillreqs -> "skillreqs" | T_typefighterabils -> "typefighterabils"
let out_args l = out_list l (fun (a, v) -> out (ostr_of_coq a); out_optvalue v)

let print_built (b : built) =
  out "ok";
  out_list b.b_types (fun t ->
      out_z t.bt_id; out_optvalue t.bt_group; out_optvalue t.bt_category;
      out_list t.bt_attrs (fun (a, v) -> out_z a; out_value v);
      out_list t.bt_effects out_z;
      (match t.bt_default with None -> out "n" | Some e -> out ("i:" ^ bits_of_z e));
      out_list t.bt_skills (fun (s, v) -> out_z s; out_value v));
  out_list b.b_attrs (fun a -> out_z a.ba_id; out_args a.ba_args);
  out_list b.b_effects (fun e ->
      out_z e.be_id; out_args e.be_args;
      out_list e.be_modrefs (fun ((t, c), z) -> out (table_name t); out (ostr_of_coq c); out_z z));
  out_list b.b_buffs (fun t ->
      out_z t.bb_id; out (ostr_of_coq t.bb_filter); out_optscalar t.bb_extra; out_scalar t.bb_attr)

let () =
  try while true do
    let l = input_line stdin in
    Buffer.clear buf;
    (try
       toks := Array.of_list (List.filter (fun x -> x <> "") (Stdlib.String.split_on_char ' ' l));
       cur := 0;
       let t0 = read_table () in let t1 = read_table () in let t2 = read_table () in
       let t3 = read_table () in let t4 = read_table () in let t5 = read_table () in
       let t6 = read_table () in let t7 = read_table () in let t8 = read_table () in
       if !cur <> Array.length !toks then failwith "trailing tokens";
       let rw = function
         | T_evetypes -> t0 | T_evegroups -> t1 | T_dgmattribs -> t2 | T_dgmtypeattribs -> t3
         | T_dgmeffects -> t4 | T_dgmtypeeffects -> t5 | T_dbuffcollections -> t6
         | T_skillreqs -> t7 | T_typefighterabils -> t8 in
       (match run rw with
        | Built b -> print_built b
        | Crash KeyError -> out "crash KeyError"
        | Crash OutOfDomain -> out "crash OutOfDomain"
        | OutOfFuel -> out "outoffuel")
     with Failure m -> Buffer.clear buf; out ("error " ^ m));
    print_endline (Buffer.contents buf)
  done with End_of_file -> ()
