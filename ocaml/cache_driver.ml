(* prelude: *)
(* The extracted module defines its own type [string] (Coq strings), which
   shadows OCaml's after [open Cache]; the shared preludes annotate with
   [string], so their few functions are repeated here with explicit
   Stdlib.String.t types. *)
type ostring = Stdlib.String.t
let split_ws (s : ostring) : ostring list =
  List.filter (fun x -> x <> "") (Stdlib.String.split_on_char ' ' s)
let pos_of_bits (s : ostring) : positive =
  let n = Stdlib.String.length s in
  if n = 0 || s.[0] <> '1' then failwith ("bad positive " ^ s);
  let rec go i acc = if i >= n then acc
    else go (i + 1) (match s.[i] with '1' -> XI acc | '0' -> XO acc | _ -> failwith "bad bit") in
  go 1 XH
let bits_of_pos (p : positive) : ostring =
  let b = Buffer.create 64 in
  let rec go p acc = match p with
    | XH -> '1' :: acc | XO q -> go q ('0' :: acc) | XI q -> go q ('1' :: acc) in
  List.iter (Buffer.add_char b) (go p []); Buffer.contents b
let z_of_string (s : ostring) : z =
  if s = "0" then Z0
  else if s.[0] = '-' then Zneg (pos_of_bits (Stdlib.String.sub s 1 (Stdlib.String.length s - 1)))
  else Zpos (pos_of_bits s)
let string_of_z (x : z) : ostring = match x with
  | Z0 -> "0" | Zpos p -> bits_of_pos p | Zneg p -> "-" ^ bits_of_pos p
let q_of_string (s : ostring) : q =
  match Stdlib.String.split_on_char '/' s with
  | [n; d] -> { qnum = z_of_string n; qden = pos_of_bits d }
  | [n] -> { qnum = z_of_string n; qden = XH }
  | _ -> failwith ("bad rational " ^ s)
let string_of_q (x : q) : ostring = string_of_z x.qnum ^ "/" ^ bits_of_pos x.qden
(* J trees travel as prefix tokens:
   n | t | f | i<bits> | q<num>/<den> | I+ | I- | s<hex> | l<count> items... |
   d<count> (s<hex> value)...
   commands (one per line, one output line each):
     N                      new handler (no file)
     U <objs J> <fp J>      update_cache on the current handler
     R                      construct a reader on the current handler's file
     C none | C <J>         construct on the given parse result *)
let ascii_of_char (c : char) : ascii =
  let n = Char.code c in
  let b i = (n lsr i) land 1 = 1 in
  Ascii (b 0, b 1, b 2, b 3, b 4, b 5, b 6, b 7)
let char_of_ascii (a : ascii) : char =
  match a with Ascii (b0, b1, b2, b3, b4, b5, b6, b7) ->
    let v b i = if b then 1 lsl i else 0 in
    Char.chr (v b0 0 + v b1 1 + v b2 2 + v b3 3 + v b4 4 + v b5 5 + v b6 6 + v b7 7)
let coq_string (s : ostring) : string =
  let r = ref EmptyString in
  for i = Stdlib.String.length s - 1 downto 0 do r := String (ascii_of_char s.[i], !r) done; !r
let ocaml_string (s : string) : ostring =
  let b = Buffer.create 16 in
  let rec go = function EmptyString -> () | String (a, r) -> Buffer.add_char b (char_of_ascii a); go r in
  go s; Buffer.contents b
let unhex (h : ostring) : ostring =
  if h = "-" then "" else
  Stdlib.String.init (Stdlib.String.length h / 2) (fun i -> Char.chr (Stdlib.int_of_string ("0x" ^ Stdlib.String.sub h (2 * i) 2)))
let hex (s : ostring) : ostring =
  if s = "" then "-" else
  Stdlib.String.concat "" (List.map (fun c -> Printf.sprintf "%02x" (Char.code c)) (List.of_seq (Stdlib.String.to_seq s)))
let rest (s : ostring) : ostring = Stdlib.String.sub s 1 (Stdlib.String.length s - 1)
let rec parse_j (toks : ostring list) : j * ostring list =
  match toks with
  | [] -> failwith "eof"
  | t :: r ->
    (match t.[0] with
     | 'n' -> (JNull, r)
     | 't' -> (JBool true, r)
     | 'f' -> (JBool false, r)
     | 'i' -> (JInt (z_of_string (rest t)), r)
     | 'q' -> (JNum (q_of_string (rest t)), r)
     | 'I' -> (JInf (t = "I-"), r)
     | 's' -> (JStr (coq_string (unhex (rest t))), r)
     | 'l' -> let n = Stdlib.int_of_string (rest t) in
       let rec go k acc r = if k = 0 then (List.rev acc, r) else
           let (x, r') = parse_j r in go (k - 1) (x :: acc) r' in
       let (l, r') = go n [] r in (JList l, r')
     | 'd' -> let n = Stdlib.int_of_string (rest t) in
       let rec go k acc r = if k = 0 then (List.rev acc, r) else
           (match r with
            | kt :: r1 -> let (x, r') = parse_j r1 in
              go (k - 1) ((coq_string (unhex (rest kt)), x) :: acc) r'
            | [] -> failwith "eof") in
       let (l, r') = go n [] r in (JDict l, r')
     | _ -> failwith ("bad token " ^ t))
let rec print_j (b : Buffer.t) (x : j) : unit =
  let add s = Buffer.add_string b s; Buffer.add_char b ' ' in
  match x with
  | JNull -> add "n"
  | JBool true -> add "t" | JBool false -> add "f"
  | JInt z -> add ("i" ^ string_of_z z)
  | JNum q -> add ("q" ^ string_of_q q)
  | JInf neg -> add (if neg then "I-" else "I+")
  | JStr s -> add ("s" ^ hex (ocaml_string s))
  | JList l -> add ("l" ^ string_of_int (List.length l)); List.iter (print_j b) l
  | JDict d -> add ("d" ^ string_of_int (List.length d));
    List.iter (fun (k, v) -> add ("s" ^ hex (ocaml_string k)); print_j b v) d
let exn_name = function
  | KeyError -> "KeyError" | TypeError -> "TypeError" | IndexError -> "IndexError"
  | ValueError -> "ValueError" | OverflowError -> "OverflowError"
  | AttributeError -> "AttributeError" | EffectFetchError -> "EffectFetchError"
  | ReadError -> "ReadError" | Unmodelled -> "Unmodelled"
let show tag st =
  let b = Buffer.create 256 in
  Buffer.add_string b tag; Buffer.add_char b ' ';
  print_j b (state_to_J st); print_endline (Buffer.contents b)
let result st r = match r with
  | None -> show "ok" st
  | Some e -> show ("raise:" ^ exn_name e) st
let () =
  let h = ref x_fresh in
  try while true do
    let l = input_line stdin in
    (try
      (match split_ws l with
       | ["N"] -> h := x_fresh; print_endline "ok"
       | "U" :: toks ->
         let (oj, r) = parse_j toks in
         let (fp, _) = parse_j r in
         (match objs_of_J oj with
          | None -> print_endline "error objs"
          | Some o -> let (h', r) = x_update !h o fp in h := h'; result (x_mem h') r)
       | ["R"] -> let (st, r) = x_construct (x_file !h) in result st r
       | ["C"; "none"] -> let (st, r) = x_construct None in result st r
       | "C" :: toks -> let (p, _) = parse_j toks in
         let (st, r) = x_construct (Some p) in result st r
       | _ -> print_endline "error badline")
    with Failure m -> print_endline ("error " ^ m))
  done with End_of_file -> ()
