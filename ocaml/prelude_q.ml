(* rationals travel as "num/den" in binary *)
let q_of_string (s : string) : q =
  match String.split_on_char '/' s with
  | [n; d] -> { qnum = z_of_string n; qden = pos_of_bits d }
  | [n] -> { qnum = z_of_string n; qden = XH }
  | _ -> failwith ("bad rational " ^ s)
let string_of_q (x : q) : string = string_of_z x.qnum ^ "/" ^ bits_of_pos x.qden
