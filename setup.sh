#!/bin/sh
# Build the whole framework from files on disk only (offline).
set -e
cd "$(dirname "$0")"
exec /venv/bin/python harness/setup_all.py
